#!/bin/bash
# setup.sh — build the framework from files on disk only (offline).
set -e
cd "$(dirname "$0")"
export GOFLAGS=-mod=mod GOPROXY=off GOSUMDB=off GOTOOLCHAIN=local CGO_ENABLED=0
mkdir -p build/bin build/ocaml evidence
python3 - <<'PY'
import sys, os
sys.path.insert(0, "lib")
import checklib
checklib.build_go()
err = checklib.run_translator()
if err: print("translator:", err); sys.exit(1)
ok, out, failed = checklib.coq_make()
if not ok:
    print(out[-5000:]); sys.exit(1)
checklib.build_model_driver()
print("setup ok")
PY
