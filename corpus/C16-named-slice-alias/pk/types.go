package pk

type IntList []int
type S struct {
	L IntList
}
type D struct {
	L []int
}
