//go:build linux && convergen

package pk

type Convergen interface {
	Conv(*S) *D
}
