package pk

import "cvcase/deep"

type S struct {
	Items []deep.Item
}
type D struct {
	Items []deep.Item
}
