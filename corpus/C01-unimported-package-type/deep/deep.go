package deep

type Item struct {
	ID int
}
