//go:build convergen

package pk

type Convergen interface {
	// :stringer
	Conv(*S) *D
}
