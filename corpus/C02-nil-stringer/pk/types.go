package pk

import "cvcase/ext"

type S struct {
	ID *ext.Level
}
type D struct {
	ID string
}
