package ext

import "strconv"

type Level int

func (l Level) String() string { return "lv" + strconv.Itoa(int(l)) }
