module cvcase

go 1.19
