package pk

type In struct {
	A int
	B string
}
type S struct {
	X     In
	Spare int
}
type D struct {
	X In
}
