//go:build convergen

package pk

type Convergen interface {
	// :map Spare X.A
	Conv(*S) *D
}
