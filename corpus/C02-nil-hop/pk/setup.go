//go:build convergen

package pk

type Convergen interface {
	// :map Nest.A X
	Conv(*S) *D
}
