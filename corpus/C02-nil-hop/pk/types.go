package pk

type In struct {
	A int
}
type S struct {
	Nest *In
}
type D struct {
	X int
}
