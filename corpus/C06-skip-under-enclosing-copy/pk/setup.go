//go:build convergen

package pk

type Convergen interface {
	// :skip X.A
	Conv(*S) *D
}
