package pk

type Empty1 struct{}
type Empty2 struct{}
type S struct {
	A int
	E Empty1
}
type D struct {
	A int
	E Empty2
}
