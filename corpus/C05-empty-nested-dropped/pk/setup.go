//go:build convergen

package pk

type Convergen interface {
	Conv(*S) *D
}
