package pk

type S struct {
	A int
}
type D struct {
	A int
}
