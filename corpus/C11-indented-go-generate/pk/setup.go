//go:build convergen

package pk

var v = func() int {
	//go:generate echo inside a function body
	return 1
}()

type Convergen interface {
	Conv(*S) *D
}
