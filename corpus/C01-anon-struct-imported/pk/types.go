package pk

type LocalAnon struct {
	Pos struct {
		X int
		y int
	}
	Name string
}
