//go:build convergen

package pk

import "cvcase/ext"

type Convergen interface {
	Conv(*LocalAnon) *ext.WithAnon
}
