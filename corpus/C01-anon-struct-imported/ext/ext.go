package ext

type WithAnon struct {
	Pos struct {
		X int
		y int
	}
	Name string
}
