#!/bin/bash
# mt_batch.sh <list file: lines "<dir with patch.diff+demo> <Cxx>"> — mutation testing in a sandbox:
# a copy of /verif (with its build output) at /tmp/mt/verif and a scratch worktree of /repo at /tmp/mt/repo,
# so that /verif and /repo stay free for editing. For each line: verify the seeded change (builds, suite passes,
# demo fails with / passes without), then run the property's quick check against the changed tree.
export GOFLAGS=-mod=mod GOPROXY=off GOSUMDB=off GOTOOLCHAIN=local
list="$1"; out="${2:-/tmp/mt/results.txt}"
mkdir -p /tmp/mt
if [ ! -d /tmp/mt/repo ]; then git -C /repo worktree add -q --detach /tmp/mt/repo HEAD; fi
git -C /tmp/mt/repo checkout -q --detach $(git -C /repo rev-parse HEAD); git -C /tmp/mt/repo checkout -- . ; git -C /tmp/mt/repo clean -fdq
rsync -a --delete --exclude .git /verif/ /tmp/mt/verif/
sed -i 's#=> /repo#=> /tmp/mt/repo#' /tmp/mt/verif/harness/go.mod
while read -r d prop; do
  [ -z "$d" ] && continue
  res="applies"
  if ! git -C /tmp/mt/repo apply "$d/patch.diff" 2>/dev/null; then echo "RESULT $d $prop DOES-NOT-APPLY" >> "$out"; continue; fi
  (cd /tmp/mt/repo && go build ./... >/dev/null 2>&1) && b=ok || b=BUILD-FAILS
  t=$(cd /tmp/mt/repo && go test -vet=off -count=1 ./... 2>&1 | grep -c "^FAIL\|^--- FAIL")
  (sh "$d/demo/run.sh" /tmp/mt/repo >/tmp/mt/demo_with.log 2>&1); dw=$?
  (sh "$d/demo/run.sh" /repo >/tmp/mt/demo_without.log 2>&1); dwo=$?
  chk=$(cd /tmp/mt/verif && VERIF_REPO=/tmp/mt/repo timeout 1500 ./check "$prop" --tier quick 2>/tmp/mt/check.err); rc=$?
  first=$(echo "$chk" | grep -m1 "^VIOLATION\|^CHECK-BROKEN" | cut -c1-300)
  kf=$(echo "$chk" | grep -c "^KNOWN-FINDING")
  echo "RESULT $d $prop build=$b test_failures=$t demo_with=$dw demo_without=$dwo check_exit=$rc known=$kf :: $first" >> "$out"
  if [ $rc -eq 1 ]; then rp=$(echo "$first" | sed -n 's/.*replay=\([^ ]*\).*/\1/p'); [ -f "$rp" ] && head -c 1500 "$rp" > "$d/check_replay_excerpt.txt"; fi
  git -C /tmp/mt/repo checkout -- . ; git -C /tmp/mt/repo clean -fdq
done < "$list"
echo "BATCH-DONE" >> "$out"
