#!/usr/bin/env python3
"""Regenerates MANIFEST.json from the table below (kept in one place so it stays valid)."""
import json, os
BASE_CMD = "for m in $(cat /w/out/gomods.txt); do MF=$(cd /repo/$m && . /w/out/goenv.sh && gomodflag); (cd /repo/$m && go test $MF -json -vet=off -count=1 -timeout 25m ./...); done"
NOTE_COMMON = ("Trusted: Coq 8.16.1 kernel (coqc; coqchk in the thorough tier), no axioms (Print Assumptions recorded in the evidence), "
  "extraction with ExtrOcamlBasic only + OCaml driver, the translator, the correspondence harness. The hand-written model is tied to /repo by the "
  "correspondence run of every check; ")
CHECKS = {
 "C18": ("proof", "Theorems (props/C18.v) over the Gallina model of config.ParseArgs (Go flag syntax), path.Ext and the run effect machine: default output = stem++'.gen'++ext with stem++ext = input for every path; -out override; GOFILE; -print prints exactly the code with and without -dry; -log inert. Correspondence: the complete 2^4 flag product x path spellings x GOFILE on the real binary vs the extracted model; oracle states the CLI contract directly on observed files/stdout.",
         NOTE_COMMON + "the pipeline (loader..formatter) is an oracle value here (the code of a reference run).", "Coq proof over a model of the CLI + differential correspondence with the binary", "5 C18"),
 "C15": ("proof", "Theorems (props/C15.v) over Run.v (file system as std++ gmap): frame for every path other than output/log, for every file system, configuration, pipeline result and writability oracle; dry or failed runs leave the output path untouched; the complete list of possible effects. Correspondence: whole-tree snapshots before/after the binary over inputs (accepted/rejected/unformattable) x 2^4 flags x output-path states vs the model's effects.",
         NOTE_COMMON + "go list / goimports are assumed not to write inside the module tree (checked by the snapshots, not proved); as root, unwritable paths are produced by directories and missing parents, not permission bits.", "Coq proof (frame over gmap) + file-system differential runs", "5 C15"),
 "C12": ("proof", "Theorems (props/C12.v): for every file system and every bytes x at the output path the run result equals that on an empty path; idempotence; repair of any corruption; history invariant over arbitrary edit/run sequences. The loader is a function of the file system minus the output path by construction of Run.run; that the real loader behaves so (go list also reads the stale file) is carried by the correspondence: histories with every n-th truncation point and nine corruption kinds vs Cli.run_history.",
         NOTE_COMMON + "partial: `go list`'s reading of the stale output is runtime behaviour outside the model; it is exercised, not proved.", "Coq proof over a file-system state machine + history correspondence", "5 C12"),
 "C19": ("proof", "Theorems (props/C19.v) over Matcher.v/Re.v (an RE2-subset parser and a derivative matcher with one-rune look-behind, Unicode tables regenerated from Go's unicode package on every run): IdentMatcher = equality / Unicode simple-fold equality for all byte strings; a PatternMatcher's answers over ANY query sequence equal those of a fresh matcher (invariant: compiled form = compile(pattern, current rule)), under the one stated hypothesis that validity does not depend on the (?i) prefix; a fresh matcher = search of the parsed expression, (?i)-prefixed when the rule is off, in the untouched path. Correspondence + oracle: exhaustive small scope over a 22-symbol alphabet incl. ſ, ς/σ, İ/ı, Kelvin sign; random regexps from the grammar and a malformed stream against regexp.Compile and (?i) semantics; rule-alternating query sequences; the Go-library functions the model re-implements (ToLower, EqualFold, Fields, QuoteMeta, IsExported) are validated first.",
         NOTE_COMMON + "partial: that search(parse e) coincides with RE2's matching is validated against Go's regexp on the generated stream, not proved from a denotational semantics; regexps outside the Re.v subset (scripts other than L/Lu/Ll/N/Nd/Any) are counted out_of_model and only checked by the oracle.", "Coq proof (matcher state-machine invariant) + exhaustive/random differential runs against the option API", "5 C19"),
}
def main():
    checks=[]
    for pid,(cat,text,note,tech,ref) in sorted(CHECKS.items()):
        checks.append({"property_id":pid,"quick_cmd":"./check %s --tier quick"%pid,"thorough_cmd":"./check %s --tier thorough"%pid,
          "evidence_file":"/verif/evidence/%s.json"%pid,"replay_cmd_template":"./check %s --replay {path}"%pid,"engine":"coq-model+correspondence",
          "level_claimed":{"category":cat,"text":text,"design_ref":"DESIGN.md section "+ref},"level_note":note,"technique":tech})
    allp=[json.loads(l)["id"] for l in open(os.path.join(os.path.dirname(__file__),"..","properties.jsonl"))]
    na=[{"property_id":p,"reason":"check under construction in this round: the Coq model component for this property is not yet tied to the code (see DESIGN.md section 9); it will be claimed once its correspondence runs"} for p in allp if p not in CHECKS]
    m={"version":1,"setup_cmd":"./setup.sh",
       "hooks":{"guard":"verif","enable":"go build -tags verif (no hook files are needed so far; the tag is reserved)","baseline_off_cmd":BASE_CMD,"source_commits":[],"add_only":True},
       "engines":[{"name":"coq-model+correspondence","path":"/verif/check","serves_properties":sorted(CHECKS),"kind_free_text":"Coq 8.16 development (coq/), extracted model (ocaml/), Go correspondence harness (harness/), orchestrated by check"}],
       "checks":checks,"not_applicable":na,
       "notes":"Fix commits in /repo: see known_findings.json (status fixed)."}
    json.dump(m,open(os.path.join(os.path.dirname(__file__),"..","MANIFEST.json"),"w"),indent=1)
main()
