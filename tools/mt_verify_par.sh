#!/bin/bash
# mt_verify_par.sh <list: "<dir> <Cxx>"> <out> — confirm each seeded change in its own scratch worktree, 4 at a
# time: the patch applies, the project builds, the existing suite passes, the demonstration fails with the
# change and passes on /repo.
export GOFLAGS=-mod=mod GOPROXY=off GOSUMDB=off GOTOOLCHAIN=local
list="$1"; out="$2"
one() {
  d="$1"; prop="$2"; out="$3"
  wt=$(mktemp -d /tmp/seedwt.XXXXXX); rmdir "$wt"
  git -C /repo worktree add -q --detach "$wt" HEAD || { echo "VERIFY $d $prop worktree-failed" >> "$out"; return; }
  res=applies
  if ! git -C "$wt" apply "$d/patch.diff" 2>/dev/null; then
    if git -C "$wt" apply --3way "$d/patch.diff" 2>/dev/null; then git -C "$wt" reset -q; res=applies-3way; else res=DOES-NOT-APPLY; fi
  fi
  if [ "$res" != DOES-NOT-APPLY ]; then
    (cd "$wt" && go build ./... >/dev/null 2>&1) && b=ok || b=BUILD-FAILS
    t=$(cd "$wt" && go test -vet=off -count=1 ./... 2>&1 | grep -c "^FAIL\|^--- FAIL")
    (sh "$d/demo/run.sh" "$wt" >"$d/demo_with.log" 2>&1); dw=$?
    (sh "$d/demo/run.sh" /repo >"$d/demo_without.log" 2>&1); dwo=$?
    echo "VERIFY $d $prop $res build=$b test_failures=$t demo_with=$dw demo_without=$dwo" >> "$out"
  else
    echo "VERIFY $d $prop DOES-NOT-APPLY" >> "$out"
  fi
  git -C /repo worktree remove --force "$wt"
}
export -f one
xargs -P 4 -L 1 bash -c 'one "$0" "$1" '"$out" < "$list"
git -C /repo worktree prune
echo "VERIFY-DONE" >> "$out"
