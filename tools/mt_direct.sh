#!/bin/bash
# mt_direct.sh <out> <dir Cxx>... — apply each seeded change to /repo itself, run the property's quick check from /verif, undo.
out="$1"; shift
while [ $# -ge 2 ]; do
  d="$1"; prop="$2"; shift 2
  cd /repo || exit 2
  if ! git apply --check "$d/patch.diff" 2>/dev/null; then
    if ! git apply --3way "$d/patch.diff" 2>/dev/null; then echo "DIRECT $d $prop DOES-NOT-APPLY" >> "$out"; git reset -q --hard HEAD; continue; fi
    git reset -q
  else
    git apply "$d/patch.diff"
  fi
  chk=$(cd /verif && ./check "$prop" --tier quick 2>/tmp/mt_direct.err); rc=$?
  first=$(echo "$chk" | grep -m1 "^VIOLATION\|^CHECK-BROKEN" | cut -c1-260)
  echo "DIRECT $d $prop check_exit=$rc :: $first" >> "$out"
  git -C /repo checkout -- . ; git -C /repo clean -fdq
done
echo DIRECT-DONE >> "$out"
