#!/bin/bash
# mt_check_only.sh <list: "<dir> <Cxx>"> <out> — sandboxed mutation run: apply each change to the scratch
# worktree /tmp/mt/repo, run the property's quick check from the copy /tmp/mt/verif (VERIF_REPO points at the
# scratch worktree), undo. /verif and /repo stay free for editing meanwhile. MT_KEEP=1 keeps the existing copy.
export GOFLAGS=-mod=mod GOPROXY=off GOSUMDB=off GOTOOLCHAIN=local
list="$1"; out="$2"
mkdir -p /tmp/mt
if [ ! -d /tmp/mt/repo ]; then git -C /repo worktree add -q --detach /tmp/mt/repo HEAD; fi
git -C /tmp/mt/repo checkout -- . ; git -C /tmp/mt/repo clean -fdq; git -C /tmp/mt/repo checkout -q --detach "$(git -C /repo rev-parse HEAD)"
if [ -z "$MT_KEEP" ]; then
  rsync -a --delete --exclude .git /verif/ /tmp/mt/verif/
  sed -i 's#=> /repo#=> /tmp/mt/repo#' /tmp/mt/verif/harness/go.mod
fi
while read -r d prop; do
  [ -z "$d" ] && continue
  if ! git -C /tmp/mt/repo apply "$d/patch.diff" 2>/dev/null; then
    if git -C /tmp/mt/repo apply --3way "$d/patch.diff" 2>/dev/null; then git -C /tmp/mt/repo reset -q; else echo "CHECK $d $prop DOES-NOT-APPLY" >> "$out"; continue; fi
  fi
  t0=$(date +%s)
  chk=$(cd /tmp/mt/verif && VERIF_REPO=/tmp/mt/repo timeout 1500 ./check "$prop" --tier quick 2>/tmp/mt/check.err); rc=$?
  first=$(echo "$chk" | grep -m1 "^VIOLATION\|^CHECK-BROKEN" | cut -c1-300)
  kf=$(echo "$chk" | grep -c "^KNOWN-FINDING")
  echo "CHECK $d $prop check_exit=$rc known=$kf secs=$(( $(date +%s) - t0 )) :: $first" >> "$out"
  if [ $rc -eq 1 ]; then
    rp=$(echo "$first" | sed -n 's/.*replay=\([^ ]*\).*/\1/p')
    if [ -f "$rp" ]; then head -c 1500 "$rp" > "$d/check_replay_excerpt.txt"; elif [ -d "$rp" ]; then ls "$rp" | head -20 > "$d/check_replay_excerpt.txt"; fi
  fi
  git -C /tmp/mt/repo checkout -- . ; git -C /tmp/mt/repo clean -fdq
done < "$list"
echo "BATCH-DONE" >> "$out"
