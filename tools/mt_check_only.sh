#!/bin/bash
# mt_check_only.sh <list: "<dir> <Cxx>"> <out> — sandboxed mutation run: apply each change to the scratch
# worktree ${MT_ROOT:-/tmp/mt}/repo, run the property's quick check from the copy ${MT_ROOT:-/tmp/mt}/verif (VERIF_REPO points at the
# scratch worktree), undo. /verif and /repo stay free for editing meanwhile. MT_KEEP=1 keeps the existing copy.
export GOFLAGS=-mod=mod GOPROXY=off GOSUMDB=off GOTOOLCHAIN=local
list="$1"; out="$2"
mkdir -p ${MT_ROOT:-/tmp/mt}
if [ ! -d ${MT_ROOT:-/tmp/mt}/repo ]; then git -C /repo worktree add -q --detach ${MT_ROOT:-/tmp/mt}/repo HEAD; fi
git -C ${MT_ROOT:-/tmp/mt}/repo checkout -- . ; git -C ${MT_ROOT:-/tmp/mt}/repo clean -fdq; git -C ${MT_ROOT:-/tmp/mt}/repo checkout -q --detach "$(git -C /repo rev-parse HEAD)"
if [ -z "$MT_KEEP" ]; then
  rsync -a --delete --exclude .git /verif/ ${MT_ROOT:-/tmp/mt}/verif/
  sed -i "s#=> /repo#=> ${MT_ROOT:-/tmp/mt}/repo#" ${MT_ROOT:-/tmp/mt}/verif/harness/go.mod
fi
while read -r d prop; do
  [ -z "$d" ] && continue
  if ! git -C ${MT_ROOT:-/tmp/mt}/repo apply "$d/patch.diff" 2>/dev/null; then
    if git -C ${MT_ROOT:-/tmp/mt}/repo apply --3way "$d/patch.diff" 2>/dev/null; then git -C ${MT_ROOT:-/tmp/mt}/repo reset -q; else echo "CHECK $d $prop DOES-NOT-APPLY" >> "$out"; continue; fi
  fi
  t0=$(date +%s)
  chk=$(cd ${MT_ROOT:-/tmp/mt}/verif && VERIF_REPO=${MT_ROOT:-/tmp/mt}/repo timeout 1500 ./check "$prop" --tier quick 2>${MT_ROOT:-/tmp/mt}/check.err); rc=$?
  first=$(echo "$chk" | grep -m1 "^VIOLATION\|^CHECK-BROKEN" | cut -c1-300)
  kf=$(echo "$chk" | grep -c "^KNOWN-FINDING")
  echo "CHECK $d $prop check_exit=$rc known=$kf secs=$(( $(date +%s) - t0 )) :: $first" >> "$out"
  if [ $rc -eq 1 ]; then
    rp=$(echo "$first" | sed -n 's/.*replay=\([^ ]*\).*/\1/p')
    case "$d" in /verif/*) ;; *) if [ -f "$rp" ]; then head -c 1500 "$rp" > "$d/check_replay_excerpt.txt"; elif [ -d "$rp" ]; then ls "$rp" | head -20 > "$d/check_replay_excerpt.txt"; fi;; esac
  fi
  git -C ${MT_ROOT:-/tmp/mt}/repo checkout -- . ; git -C ${MT_ROOT:-/tmp/mt}/repo clean -fdq
done < "$list"
echo "BATCH-DONE" >> "$out"
