#!/bin/bash
# run_all_quick.sh [out] — every property's quick check on the current tree, one summary line each.
out="${1:-/tmp/all_quick.txt}"; : > "$out"
cd /verif
for p in C01 C02 C03 C04 C05 C06 C07 C08 C09 C10 C11 C12 C13 C14 C15 C16 C17 C18 C19; do
  t0=$(date +%s)
  o=$(./check $p --tier quick 2>/tmp/all_quick_$p.err); rc=$?
  echo "$p exit=$rc secs=$(( $(date +%s) - t0 )) $(echo "$o" | grep -c '^KNOWN-FINDING') known; $(echo "$o" | grep '^VIOLATION\|^CHECK-BROKEN' | cut -c1-200 | tr '\n' '|')" >> "$out"
done
echo ALL-DONE >> "$out"
