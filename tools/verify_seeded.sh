#!/bin/bash
# verify_seeded.sh <dir with patch.diff and demo/run.sh> — confirms a seeded change against the CURRENT /repo:
# applies in a scratch worktree, go build, existing tests pass, demo fails with the change and passes without.
d="$1"
export GOFLAGS=-mod=mod GOPROXY=off GOSUMDB=off GOTOOLCHAIN=local
wt=$(mktemp -d /tmp/seedwt.XXXXXX); rmdir "$wt"
git -C /repo worktree add -q --detach "$wt" HEAD || { echo "RESULT $d worktree-failed"; exit 1; }
res="applies"
if ! git -C "$wt" apply "$d/patch.diff" 2>/dev/null; then
  if git -C "$wt" apply --3way "$d/patch.diff" 2>/dev/null; then git -C "$wt" reset -q; res="applies-3way"; else res="DOES-NOT-APPLY"; fi
fi
if [ "$res" != "DOES-NOT-APPLY" ]; then
  (cd "$wt" && go build ./... >/dev/null 2>&1) && b=ok || b=BUILD-FAILS
  t=$(cd "$wt" && go test -vet=off -count=1 ./... 2>&1 | grep -c "^FAIL\|^--- FAIL")
  (bash "$d/demo/run.sh" "$wt" >/tmp/seed_demo_with.log 2>&1); dw=$?
  (bash "$d/demo/run.sh" /repo >/tmp/seed_demo_without.log 2>&1); dwo=$?
  echo "RESULT $d $res build=$b test_failures=$t demo_with_change_exit=$dw demo_without_change_exit=$dwo"
else
  echo "RESULT $d DOES-NOT-APPLY"
fi
git -C /repo worktree remove --force "$wt"; git -C /repo worktree prune
