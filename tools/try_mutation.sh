#!/bin/bash
# try_mutation.sh <patch.diff> <Cxx> [Cyy ...] — apply a seeded change to /repo, run the checks, undo it.
patch="$1"; shift
cd /repo || exit 2
if ! git apply --check "$patch" 2>/dev/null; then
  if ! git apply --3way "$patch" 2>/dev/null; then echo "PATCH-DOES-NOT-APPLY $patch"; git reset -q --hard HEAD; exit 3; fi
  git reset -q
else
  git apply "$patch"
fi
for p in "$@"; do
  out=$(cd /verif && ./check "$p" 2>/tmp/try_mutation.err); rc=$?
  echo "== $p exit=$rc"; echo "$out" | head -5
done
git -C /repo checkout -- . ; git -C /repo clean -fdq
