#!/usr/bin/env python3
"""Promotes the confirmed round-3 seeded changes from /tmp/r3/Cxx-out/{E,F} to seeded/Cxx-{E,F}/:
patch.diff, demo/, meta.json (what it breaks, what it needs, what was run, which check result was observed).
Inputs: /tmp/mt/verify.txt (tools/mt_verify_par.sh), and any number of result files with CHECK/DIRECT lines
(tools/mt_check_only.sh, tools/mt_direct.sh); for a change the LAST line found wins."""
import json, os, re, shutil, subprocess, sys

ver = {}
for l in open('/tmp/mt/verify.txt'):
    m = re.match(r'VERIFY (\S+) (\S+) (\S+) build=(\S+) test_failures=(\d+) demo_with=(\d+) demo_without=(\d+)', l)
    if m:
        ver[m.group(1)] = m.groups()[1:]
chk = {}
for f in sys.argv[1:]:
    if not os.path.exists(f):
        continue
    for l in open(f):
        m = re.match(r'(CHECK|DIRECT) (\S+) (\S+) check_exit=(\d+)[^:]*:: ?(.*)', l)
        if m:
            chk[m.group(2)] = (m.group(1), m.group(4), m.group(5).strip())
head = subprocess.check_output(['git', '-C', '/repo', 'log', '--format=%h', '-1'], text=True).strip()
vhead = subprocess.check_output(['git', '-C', '/verif', 'log', '--format=%h', '-1'], text=True).strip()
rows = []
for d, v in sorted(ver.items()):
    prop, res, build, tf, dw, dwo = v
    ab = os.path.basename(d)
    ok = res.startswith('applies') and build == 'ok' and tf == '0' and dw != '0' and dwo == '0'
    if not ok:
        print('skip', d, v)
        continue
    dst = f'/verif/seeded/{prop}-{ab}'
    shutil.rmtree(dst, ignore_errors=True)
    os.makedirs(dst)
    shutil.copyfile(d + '/patch.diff', dst + '/patch.diff')
    shutil.copytree(d + '/demo', dst + '/demo')
    am = {}
    try:
        am = json.load(open(d + '/meta.json'))
    except Exception:
        pass
    how, rc, first = chk.get(d, ('', '', ''))
    caught = rc == '1'
    meta = {
        "property": prop, "id": f"{prop}-{ab}", "round": 3,
        "summary": am.get("summary", ""), "needs": am.get("needs", ""), "files_changed": am.get("files_changed", []),
        "origin": "independent sub-agent given only the property text, the one-line summaries of earlier seeded changes for that property, and a scratch worktree",
        "confirmed_against_repo_head": head,
        "confirmed": {"patch": res, "go_build": build, "existing_test_failures": int(tf), "demo_exit_with_change": int(dw), "demo_exit_without_change": int(dwo),
                      "commands": "tools/mt_verify_par.sh: scratch worktree of /repo HEAD, git apply, go build ./..., go test -vet=off -count=1 ./..., demo/run.sh <patched tree>, demo/run.sh /repo"},
        "check_run": {"how": {"CHECK": "tools/mt_check_only.sh (copy of /verif, scratch worktree of /repo)", "DIRECT": "tools/mt_direct.sh (git -C /repo apply, ./check, git checkout)"}.get(how, "not run"),
                      "verif_head": vhead, "exit": rc, "detected": caught, "first_line": first[:300]},
    }
    json.dump(meta, open(dst + '/meta.json', 'w'), indent=1)
    rows.append((f"{prop}-{ab}", caught, first[:120]))
for r in rows:
    print(r)
print(sum(1 for r in rows if r[1]), 'of', len(rows), 'detected')
