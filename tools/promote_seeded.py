#!/usr/bin/env python3
"""Promotes verified seeded changes from seeded/_unverified/Cxx/{A,B} to seeded/Cxx-{A,B}/ with a patch
regenerated against the current /repo HEAD and a meta.json recording what was run."""
import json, os, re, shutil, subprocess, sys
ver = {}
for l in open('/tmp/seedverify.txt'):
    m = re.match(r'RESULT (\S+) (\S+)(?: build=(\S+) test_failures=(\d+) demo_with_change_exit=(\d+) demo_without_change_exit=(\d+))?', l)
    if m: ver[m.group(1)] = m.groups()[1:]
caught = {}
for f in ['/tmp/mut2.txt']:
    for l in open(f):
        m = re.match(r'_unverified/(C\d\d)/([A-D]): (.*)', l)
        if m: caught[(m.group(1), m.group(2))] = m.group(3)
head = subprocess.check_output(['git','-C','/repo','log','--format=%h','-1'],text=True).strip()
for d, v in sorted(ver.items()):
    prop, ab = d.split('/')[-2], d.split('/')[-1]
    ok = v[0] != 'DOES-NOT-APPLY' and v[1] == 'ok' and v[2] == '0' and v[3] != '0' and v[4] == '0'
    if not ok:
        print('skip', prop, ab, v); continue
    dst = f'/verif/seeded/{prop}-{ab}'
    shutil.rmtree(dst, ignore_errors=True); os.makedirs(dst)
    wt = subprocess.check_output(['mktemp','-d','/tmp/promwt.XXXXXX'],text=True).strip(); os.rmdir(wt)
    subprocess.check_call(['git','-C','/repo','worktree','add','-q','--detach',wt,'HEAD'])
    if subprocess.call(['git','-C',wt,'apply',d+'/patch.diff'],stderr=subprocess.DEVNULL) != 0:
        subprocess.check_call(['git','-C',wt,'apply','--3way',d+'/patch.diff'],stderr=subprocess.DEVNULL)
        subprocess.check_call(['git','-C',wt,'reset','-q'])
    diff = subprocess.check_output(['git','-C',wt,'diff'],text=True)
    open(dst+'/patch.diff','w').write(diff)
    subprocess.check_call(['git','-C','/repo','worktree','remove','--force',wt])
    shutil.copytree(d+'/demo', dst+'/demo')
    am = {}
    try: am = json.load(open(d+'/meta.json'))
    except Exception: pass
    meta = {"property": prop, "id": f"{prop}-{ab}", "summary": am.get("summary",""), "needs": am.get("needs",""),
            "files_changed": am.get("files_changed", []), "origin": "independent sub-agent given only the property text and a scratch worktree of the pinned commit",
            "confirmed_against_repo_head": head,
            "confirmed": {"patch": v[0], "go_build": v[1], "existing_test_failures": int(v[2]), "demo_exit_with_change": int(v[3]), "demo_exit_without_change": int(v[4]),
                          "commands": "tools/verify_seeded.sh <dir>: scratch worktree of /repo HEAD, git apply, go build ./..., go test -vet=off -count=1 ./..., demo/run.sh <patched tree>, demo/run.sh /repo"},
            "check_result_with_change": caught.get((prop, ab), "")[:300]}
    json.dump(meta, open(dst+'/meta.json','w'), indent=1)
    print('promoted', prop, ab)
