#!/bin/bash
# runs every seeded change against the check of its property; prints one line per change
for d in /verif/seeded/C[0-9][0-9]-*/; do
  [ -f "$d/patch.diff" ] || continue
  prop=$(echo "$d" | grep -o 'C[0-9][0-9]' | head -1)
  name=$(basename "$d")
  if ! grep -q "\"$prop\"" /verif/MANIFEST.json 2>/dev/null || ! python3 -c "import json,sys; m=json.load(open('/verif/MANIFEST.json')); sys.exit(0 if any(c['property_id']=='$prop' for c in m['checks']) else 1)"; then echo "$name: property not claimed yet"; continue; fi
  out=$(/verif/tools/try_mutation.sh "$d/patch.diff" $prop 2>&1 | tr '\n' ' ' | cut -c1-220)
  echo "$name: $out"
done
