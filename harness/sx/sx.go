// Package sx is the s-expression exchange format shared with the Coq model
// (Base.sexp) and the OCaml driver.
package sx

import (
	"fmt"
	"strconv"
	"strings"
)

// Node is an atom (IsAtom, bytes in Atom) or a list.
type Node struct {
	IsAtom bool
	Atom   string
	List   []*Node
}

func A(s string) *Node          { return &Node{IsAtom: true, Atom: s} }
func L(items ...*Node) *Node    { return &Node{List: items} }
func N(n int) *Node             { return A(strconv.Itoa(n)) }
func T(tag string, items ...*Node) *Node {
	return &Node{List: append([]*Node{A(tag)}, items...)}
}
func B(b bool) *Node {
	if b {
		return A("1")
	}
	return A("0")
}
func Strs(ss []string) *Node {
	l := &Node{}
	for _, s := range ss {
		l.List = append(l.List, A(s))
	}
	return l
}

func isBare(c byte) bool {
	switch {
	case c >= 'A' && c <= 'Z', c >= 'a' && c <= 'z', c >= '0' && c <= '9':
		return true
	}
	return strings.IndexByte("_.:/+*$@%=,-", c) >= 0
}

func (n *Node) write(sb *strings.Builder) {
	if n.IsAtom {
		bare := len(n.Atom) > 0
		for i := 0; i < len(n.Atom); i++ {
			if !isBare(n.Atom[i]) {
				bare = false
				break
			}
		}
		if bare {
			sb.WriteString(n.Atom)
			return
		}
		sb.WriteByte('"')
		for i := 0; i < len(n.Atom); i++ {
			c := n.Atom[i]
			switch {
			case c == '"' || c == '\\':
				sb.WriteByte('\\')
				sb.WriteByte(c)
			case c < 32 || c > 126:
				fmt.Fprintf(sb, "\\x%02x", c)
			default:
				sb.WriteByte(c)
			}
		}
		sb.WriteByte('"')
		return
	}
	sb.WriteByte('(')
	for i, x := range n.List {
		if i > 0 {
			sb.WriteByte(' ')
		}
		x.write(sb)
	}
	sb.WriteByte(')')
}

// String renders the node on one line.
func (n *Node) String() string {
	var sb strings.Builder
	n.write(&sb)
	return sb.String()
}

type parser struct {
	s   string
	pos int
}

func (p *parser) skip() {
	for p.pos < len(p.s) && (p.s[p.pos] == ' ' || p.s[p.pos] == '\t' || p.s[p.pos] == '\r' || p.s[p.pos] == '\n') {
		p.pos++
	}
}

func hexval(c byte) (int, bool) {
	switch {
	case c >= '0' && c <= '9':
		return int(c - '0'), true
	case c >= 'a' && c <= 'f':
		return int(c-'a') + 10, true
	case c >= 'A' && c <= 'F':
		return int(c-'A') + 10, true
	}
	return 0, false
}

func (p *parser) item() (*Node, error) {
	p.skip()
	if p.pos >= len(p.s) {
		return nil, fmt.Errorf("eof")
	}
	c := p.s[p.pos]
	switch {
	case c == '(':
		p.pos++
		n := &Node{}
		for {
			p.skip()
			if p.pos >= len(p.s) {
				return nil, fmt.Errorf("unclosed list")
			}
			if p.s[p.pos] == ')' {
				p.pos++
				return n, nil
			}
			x, err := p.item()
			if err != nil {
				return nil, err
			}
			n.List = append(n.List, x)
		}
	case c == '"':
		p.pos++
		var sb strings.Builder
		for {
			if p.pos >= len(p.s) {
				return nil, fmt.Errorf("unclosed string")
			}
			c := p.s[p.pos]
			if c == '"' {
				p.pos++
				return A(sb.String()), nil
			}
			if c == '\\' {
				if p.pos+1 >= len(p.s) {
					return nil, fmt.Errorf("bad escape")
				}
				d := p.s[p.pos+1]
				if d == 'x' {
					if p.pos+3 >= len(p.s) {
						return nil, fmt.Errorf("bad hex escape")
					}
					h, ok1 := hexval(p.s[p.pos+2])
					l, ok2 := hexval(p.s[p.pos+3])
					if !ok1 || !ok2 {
						return nil, fmt.Errorf("bad hex escape")
					}
					sb.WriteByte(byte(16*h + l))
					p.pos += 4
				} else {
					sb.WriteByte(d)
					p.pos += 2
				}
				continue
			}
			sb.WriteByte(c)
			p.pos++
		}
	case isBare(c):
		st := p.pos
		for p.pos < len(p.s) && isBare(p.s[p.pos]) {
			p.pos++
		}
		return A(p.s[st:p.pos]), nil
	}
	return nil, fmt.Errorf("unexpected char %q at %d", c, p.pos)
}

// Parse parses one s-expression.
func Parse(s string) (*Node, error) {
	p := &parser{s: s}
	n, err := p.item()
	if err != nil {
		return nil, err
	}
	p.skip()
	if p.pos < len(p.s) {
		return nil, fmt.Errorf("trailing input at %d", p.pos)
	}
	return n, nil
}

// Tag returns the leading atom of a list node ("" otherwise).
func (n *Node) Tag() string {
	if n == nil || n.IsAtom || len(n.List) == 0 || !n.List[0].IsAtom {
		return ""
	}
	return n.List[0].Atom
}

// Arg returns the i-th element after the tag (nil if absent).
func (n *Node) Arg(i int) *Node {
	if n == nil || n.IsAtom || len(n.List) <= i+1 {
		return nil
	}
	return n.List[i+1]
}

// Str returns the atom text ("" for lists / nil).
func (n *Node) Str() string {
	if n == nil || !n.IsAtom {
		return ""
	}
	return n.Atom
}

// Int parses a decimal atom (-1 on failure).
func (n *Node) Int() int {
	if n == nil || !n.IsAtom {
		return -1
	}
	v, err := strconv.Atoi(n.Atom)
	if err != nil {
		return -1
	}
	return v
}

// CoqTerm renders the node as a Gallina term of type Base.sexp (atoms as s2b "..." when
// printable ASCII without a double quote, as a list of byte values otherwise).
func (n *Node) CoqTerm(sb *strings.Builder) {
	if n.IsAtom {
		plain := true
		for i := 0; i < len(n.Atom); i++ {
			c := n.Atom[i]
			if c < 32 || c > 126 || c == '"' {
				plain = false
				break
			}
		}
		if plain {
			sb.WriteString("Atom (s2b \"" + n.Atom + "\")")
			return
		}
		sb.WriteString("Atom [")
		for i := 0; i < len(n.Atom); i++ {
			if i > 0 {
				sb.WriteByte(';')
			}
			sb.WriteString(strconv.Itoa(int(n.Atom[i])))
		}
		sb.WriteString("]")
		return
	}
	sb.WriteString("SList [")
	for i, x := range n.List {
		if i > 0 {
			sb.WriteString("; ")
		}
		x.CoqTerm(sb)
	}
	sb.WriteString("]")
}
