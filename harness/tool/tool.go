// Package tool runs the real convergen binary (built from /repo's working tree)
// on scratch copies of generated packages and observes its effects.
package tool

import (
	"bytes"
	"context"
	"crypto/sha256"
	"encoding/hex"
	"os"
	"os/exec"
	"path/filepath"
	"sort"
	"strings"
	"time"
)

// BinPath is the convergen binary under test.
var BinPath = "/verif/build/bin/convergen"

func init() {
	if p := os.Getenv("VERIF_CONVERGEN_BIN"); p != "" {
		BinPath = p
	}
}

// Files is a set of files keyed by slash-separated relative path.
type Files map[string]string

// Materialize writes files under dir (creating directories).
func Materialize(dir string, files Files) error {
	for rel, content := range files {
		p := filepath.Join(dir, filepath.FromSlash(rel))
		if err := os.MkdirAll(filepath.Dir(p), 0o755); err != nil {
			return err
		}
		if err := os.WriteFile(p, []byte(content), 0o644); err != nil {
			return err
		}
	}
	return nil
}

// Snapshot reads every regular file under dir.
func Snapshot(dir string) (Files, error) {
	res := Files{}
	err := filepath.Walk(dir, func(p string, info os.FileInfo, err error) error {
		if err != nil {
			return nil // unreadable directory: skip
		}
		if info.Mode().IsRegular() {
			b, err := os.ReadFile(p)
			if err != nil {
				return nil
			}
			rel, _ := filepath.Rel(dir, p)
			res[filepath.ToSlash(rel)] = string(b)
		}
		return nil
	})
	return res, err
}

// Diff lists paths created, modified, deleted between two snapshots (sorted).
func Diff(before, after Files) (created, modified, deleted []string) {
	for p, c := range after {
		if old, ok := before[p]; !ok {
			created = append(created, p)
		} else if old != c {
			modified = append(modified, p)
		}
	}
	for p := range before {
		if _, ok := after[p]; !ok {
			deleted = append(deleted, p)
		}
	}
	sort.Strings(created)
	sort.Strings(modified)
	sort.Strings(deleted)
	return
}

// Result of one run of the binary.
type Result struct {
	Status   int // exit status; -1 timeout; -2 could not start
	Stdout   string
	Stderr   string
	Panicked bool
	TimedOut bool
	Wall     time.Duration
}

// Run executes the binary in cwd with args and extra environment (KEY=VALUE).
func Run(cwd string, args []string, env []string, timeout time.Duration) Result {
	if timeout == 0 {
		timeout = 60 * time.Second
	}
	ctx, cancel := context.WithTimeout(context.Background(), timeout)
	defer cancel()
	cmd := exec.CommandContext(ctx, BinPath, args...)
	cmd.Dir = cwd
	cmd.Env = append(BaseEnv(), env...)
	var out, errb bytes.Buffer
	cmd.Stdout = &out
	cmd.Stderr = &errb
	start := time.Now()
	err := cmd.Run()
	r := Result{Stdout: out.String(), Stderr: errb.String(), Wall: time.Since(start)}
	if ctx.Err() == context.DeadlineExceeded {
		r.TimedOut = true
		r.Status = -1
		return r
	}
	if err != nil {
		if ee, ok := err.(*exec.ExitError); ok {
			r.Status = ee.ExitCode()
		} else {
			r.Status = -2
		}
	}
	if strings.Contains(r.Stderr, "panic:") || strings.Contains(r.Stderr, "goroutine 1 [running]") ||
		strings.Contains(r.Stderr, "fatal error:") || r.Status == 2 && strings.Contains(r.Stderr, "runtime.") {
		r.Panicked = true
	}
	return r
}

// BaseEnv is the offline Go environment every child process gets.
func BaseEnv() []string {
	env := []string{}
	for _, kv := range os.Environ() {
		k := kv
		if i := strings.IndexByte(kv, '='); i >= 0 {
			k = kv[:i]
		}
		switch k {
		case "GOFLAGS", "GOPROXY", "GOSUMDB", "GOTOOLCHAIN", "GOFILE", "GOPACKAGE", "GOLINE", "GO111MODULE", "GOWORK", "PWD":
			continue
		}
		env = append(env, kv)
	}
	return append(env, "GOFLAGS=-mod=mod", "GOPROXY=off", "GOSUMDB=off", "GOTOOLCHAIN=local", "GOWORK=off")
}

// Hash is a short content hash for distinctness counting.
func Hash(parts ...string) string {
	h := sha256.New()
	for _, p := range parts {
		h.Write([]byte(p))
		h.Write([]byte{0})
	}
	return hex.EncodeToString(h.Sum(nil))[:16]
}

// ScratchRoot returns the directory under which scratch modules are made
// (outside /repo and /verif).
func ScratchRoot() string {
	if p := os.Getenv("VERIF_SCRATCH"); p != "" {
		return p
	}
	return os.TempDir()
}
