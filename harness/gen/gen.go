// Package gen generates scratch Go modules containing convergen setup files:
// struct pairs drawn by relation class, notation sets, layouts. Every random
// choice comes from one *rand.Rand so a case replays from (seed, index).
package gen

import (
	"fmt"
	"math/rand"
	"sort"
	"strings"

	"verif/harness/tool"
)

// ExtSrc is a fixed imported package with exported/unexported members, stringers, getters.
const ExtSrc = `package ext

import "strconv"

type Status string

func (s Status) String() string { return "st:" + string(s) }

type Code int

func (c *Code) String() string { return "code:" + strconv.Itoa(int(*c)) }

type Level int

func (l Level) String() string { return "lv" + strconv.Itoa(int(l)) }

type ID int64

type Pub1 struct {
	Name   string
	Count  int
	hidden int
	Tags   []string
}

type Pub2 struct {
	Name   string
	Count  int64
	hidden int
	Tags   []string
	Extra  bool
}

type WithAnon struct {
	Pos struct {
		X int
		y int
	}
	Name string
}

type Person struct {
	name string
	age  int
	Nick string
	lvl  Level
}

func NewPerson(name string, age int) Person { return Person{name: name, age: age, Nick: "nk-" + name, lvl: Level(age)} }
func (p Person) Name() string               { return p.name }
func (p *Person) Age() int                  { return p.age }
func (p Person) Lvl() Level                 { return p.lvl }
func (p Person) Score() (int, error)        { return p.age * 2, nil }
func (p Person) Label(prefix string) string { return prefix + p.name }
func (p Person) secret() string             { return "s" }
func (p Person) Kod() Code                  { return Code(p.age) }

func Itoa(i int) string             { return strconv.Itoa(i) }
func Atoi(s string) (int, error)    { return strconv.Atoi(s) }
func lower(s string) string         { return s }
func StatusOf(s string) Status      { return Status(s) }
func PtrLen(s *string) int          { return len(*s) }
func Two(a, b int) int              { return a + b }
func NoResult(a int)                {}
func Three(a int) (int, int, error) { return a, a, nil }

var FuncVar = func(i int) string { return strconv.Itoa(i) }
var NotFunc = 12
`

// Ext2Src declares types whose names collide with local / ext names.
const Ext2Src = `package ext2

type Status int

type Item struct {
	ID   int
	Name string
}

type Inner struct {
	A int
	B string
}
`

// DeepSrc is a package the setup file never imports itself: its types reach the setup
// package only through fields declared in a sibling file.
const DeepSrc = `package deep

type Item struct {
	ID     int
	Note   string
	secret int
}

// Inner1 shares its name with a type of the setup package.
type Inner1 struct {
	A     int
	B     string
	unexp int
}

func NewItem(id int, note string, secret int) Item { return Item{ID: id, Note: note, secret: secret} }
func (i Item) Label() string                      { return "lb:" + i.Note }
func (i Item) hid() int                           { return i.secret }
`

// V2Src lives at an import path whose last element looks like a major version and is the package name.
const V2Src = `package v2

type Kind string

type Pod struct {
	Name string
	Kind Kind
}
`

// DotSrc is dot-imported by some setup files.
const DotSrc = `package dot

import "strconv"

type Kind int

func DotConv(i int) string { return "dot" + strconv.Itoa(i) }
func DotConvErr(i int) (string, error) {
	if i == -1<<62 { // never drawn by the execution driver: this function is not instrumented

		return "", strconv.ErrRange
	}
	return "dot" + strconv.Itoa(i), nil
}
`

// FixedPackages are part of every generated module.
func FixedPackages(files tool.Files) {
	files["ext/ext.go"] = ExtSrc
	files["ext2/ext2.go"] = Ext2Src
	files["deep/deep.go"] = DeepSrc
	files["api/v2/v2.go"] = V2Src
	files["dot/dot.go"] = DotSrc
}

// hiddenPairs: struct types with members the generated package cannot see.
var hiddenPairs = []FieldPair{
	{"nested", "ext.Pub2", "ext.Pub1", "field"},
	{"nested", "ext.WithAnon", "LocalAnon", "field"},
	{"nested", "LocalItem", "deep.Item", "field"},
	{"ptrstruct", "*LocalItem", "*deep.Item", "field"},
	{"nested", "Inner2", "deep.Inner1", "field"},
	{"nested", "Inner2", "Inner1", "field"},
	{"identical", "ext.Pub1", "ext.Pub1", "field"},
}

// FieldPair is one destination field with what the source offers for it.
type FieldPair struct {
	Class   string // relation class (for the distribution)
	Dst     string // destination field type
	Src     string // source field type ("" = the source has no such member)
	SrcKind string // field | getter | ptrgetter | errgetter | none
}

// catalogue of (dst type, src type) by relation class; types are spelled for package pk.
var pairCatalogue = []FieldPair{
	{"identical", "int", "int", "field"},
	{"identical", "string", "string", "field"},
	{"identical", "bool", "bool", "field"},
	{"identical", "float64", "float64", "field"},
	{"identical", "ext.Status", "ext.Status", "field"},
	{"identical", "MyInt", "MyInt", "field"},
	{"identical", "*int", "*int", "field"},
	{"identical", "*Leaf", "*Leaf", "field"},
	{"identical", "Leaf", "Leaf", "field"},
	{"identical", "map[string]int", "map[string]int", "field"},
	{"identical", "interface{}", "interface{}", "field"},
	{"identical", "error", "error", "field"},
	{"identical", "func() int", "func() int", "field"},
	{"identical", "[3]int", "[3]int", "field"},
	{"identical", "chan int", "chan int", "field"},
	{"identical", "ext.Pub1", "ext.Pub1", "field"},
	{"identical", "struct{ A int }", "struct{ A int }", "field"},
	{"assignable", "interface{}", "string", "field"},
	{"assignable", "Namer", "ext.Person", "field"},
	{"assignable", "[]int", "IntList", "field"},
	{"assignable", "IntList", "[]int", "field"},
	{"assignable", "<-chan int", "chan int", "field"},
	{"assignable", "error", "*MyErr", "field"},
	{"convertible", "int64", "int", "field"},
	{"convertible", "int", "int64", "field"},
	{"convertible", "MyInt", "int", "field"},
	{"convertible", "int", "MyInt", "field"},
	{"convertible", "string", "ext.Status", "field"},
	{"convertible", "ext.Status", "string", "field"},
	{"convertible", "float64", "int", "field"},
	{"convertible", "string", "[]byte", "field"},
	{"convertible", "ext2.Status", "int", "field"},
	{"convertible", "Status", "int", "field"},
	{"convertible", "*MyInt", "*int", "field"},
	{"convertible", "*int", "*MyInt", "field"},
	{"convertible", "Leaf2", "Leaf", "field"}, // identical underlying struct types: convertible, not assignable
	{"convertible", "*Leaf2", "*Leaf", "field"},
	{"convertible", "[2]int", "[]int", "field"},
	{"convertible", "*error", "*ErrAlias", "field"}, // predeclared named type behind a pointer
	{"convertible", "*ErrAlias", "*error", "field"},
	{"stringer", "string", "ext.Level", "field"},
	{"stringer", "string", "ext.Code", "field"},  // pointer-receiver String
	{"stringer", "string", "*ext.Code", "field"}, // pointer to it
	{"stringer", "string", "*ext.Level", "field"},
	{"stringer", "interface{}", "ext.Level", "field"},
	{"stringer", "string", "Coded", "field"}, // String() yields a defined string type: not a Stringer
	{"identical", "deep.Item", "deep.Item", "field"}, // types of a package the setup file does not import
	{"nested", "LocalItem", "deep.Item", "field"},
	{"ptrstruct", "*LocalItem", "*deep.Item", "field"},
	{"slice", "[]deep.Item", "[]deep.Item", "field"},
	{"nested", "Inner2", "deep.Inner1", "field"}, // a foreign homonym of the local Inner1
	{"identical", "v2.Kind", "v2.Kind", "field"}, // import path .../api/v2, package v2
	{"identical", "v2.Pod", "v2.Pod", "field"},
	{"convertible", "v2.Kind", "string", "field"},
	{"convertible", "string", "v2.Kind", "field"},
	{"slice", "[]v2.Kind", "[]v2.Kind", "field"},
	{"nested", "LocalPod", "v2.Pod", "field"},
	{"identical", "dot.Kind", "dot.Kind", "field"}, // dot-imported (or plainly imported) by the setup file
	{"convertible", "dot.Kind", "int", "field"},
	{"slice", "[]dot.Kind", "[]dot.Kind", "field"},
	{"convpair", "*Leaf2", "Leaf", "field"}, // only a converter generated from another interface fits
	{"nested", "Inner2", "Inner1", "field"},
	{"nested", "Deep2", "Deep1", "field"},
	{"nested", "ext.Pub2", "ext.Pub1", "field"},
	{"nested", "Empty2", "Empty1", "field"},
	{"nested", "struct{ A int64 }", "struct{ A int }", "field"},
	{"nested", "ext.WithAnon", "LocalAnon", "field"},
	{"ptrstruct", "*Inner2", "*Inner1", "field"},
	{"ptrstruct", "*Inner1", "Inner1", "field"},
	{"ptrstruct", "Inner1", "*Inner1", "field"},
	{"slice", "[]int", "[]int", "field"},
	{"slice", "[]string", "[]string", "field"},
	{"slice", "[]Leaf", "[]Leaf", "field"},
	{"slice", "[]*Leaf", "[]*Leaf", "field"},
	{"slice", "[]ext.Status", "[]ext.Status", "field"},
	{"slice", "[]interface{}", "[]string", "field"},
	{"slice", "[]interface{}", "[]interface{}", "field"},
	{"slice", "[]int64", "[]int", "field"},
	{"slice", "[]string", "[]ext.Status", "field"},
	{"slice", "[]MyInt", "[]int", "field"},
	{"slice", "[][]int", "[][]int", "field"},
	{"slice", "[]*Leaf", "[]Leaf", "field"}, // one level of indirection apart: neither assignable nor convertible
	{"slice", "[]Leaf", "[]*Leaf", "field"},
	{"slice", "StrList2", "StrList", "field"}, // two defined slice types over one element type: only :typecast fits
	{"slice", "IntList", "IntList", "field"},
	{"slice", "TagsAlias", "TagsAlias", "field"}, // an alias of a slice type: a slice like any other
	{"slice", "[]string", "TagsAlias", "field"},
	{"slice", "[]map[string]int", "[]map[string]int", "field"},
	{"slice", "[]Inner2", "[]Inner1", "field"},
	{"slice", "[]error", "[]error", "field"},
	{"slice", "[]error", "[]ErrAlias", "field"},
	{"slice", "[]ext2.Item", "[]ext2.Item", "field"},
	{"slice", "[]byte", "[]byte", "field"},
	{"slice", "[]Namer", "[]ext.Person", "field"},
	{"unrelated", "int", "string", "field"},
	{"unrelated", "Leaf", "Inner1x", "field"},
	{"unrelated", "[]int", "[]string", "field"},
	{"unrelated", "*int", "int", "field"},
	{"unrelated", "map[string]int", "map[int]string", "field"},
	{"getter", "string", "string", "getter"},
	{"getter", "int", "int", "ptrgetter"},
	{"getter", "int", "int", "errgetter"},
	{"getter", "string", "ext.Level", "getter"},
	{"getter", "int64", "int", "getter"},
	{"getter", "[]string", "[]string", "getter"},
	{"getter", "Inner2", "Inner1", "getter"},
	{"getter", "string", "ext.Code", "getter"},
	{"getter", "string", "ext.Code", "ptrgetter"},
	{"getter", "string", "LocalCode", "getter"}, // String() on the pointer receiver: a getter's result is not addressable
	{"missing", "int", "", "none"},
	{"missing", "string", "", "none"},
	{"missing", "Leaf", "", "none"},
	{"missing", "error", "", "none"},
	{"missing", "[]error", "", "none"},
	{"missing", "[]ext2.Item", "", "none"},
}

// LocalTypes are declared in pk/types.go of every case.
const LocalTypes = `package pk

import (
	"errors"
	"strconv"

	v2 "cvcase/api/v2"
	"cvcase/deep"
	"cvcase/dot"
	"cvcase/ext"
	"cvcase/ext2"
)

var _ = errors.New
var _ = strconv.Itoa
var _ ext.Status
var _ ext2.Status
var _ deep.Item
var _ v2.Kind
var _ dot.Kind

type MyInt int
type Status int
type IntList []int
type Namer interface{ Name() string }
type MyErr struct{ Msg string }
type ErrAlias error

func (e *MyErr) Error() string { return e.Msg }

type Leaf struct {
	V int
	W string
}
type Leaf2 struct {
	V int
	W string
}
type Inner1 struct {
	A int
	B string
	C ext.Status
	L Leaf
	unexp int
}
type Inner1x struct {
	Q int
}
type Inner2 struct {
	A int64
	B string
	C string
	L Leaf
	X bool
	unexp int
}
type Deep1 struct {
	In  Inner1
	Num int
}
type Deep2 struct {
	In  Inner2
	Num int
	Tag string
}
type Empty1 struct{}
type Empty2 struct{}
type LocalItem struct {
	ID     int
	Note   string
	secret int
}
type LocalPod struct {
	Name string
	Kind string
}
type Label string
type Coded int

type StrList []string
type StrList2 []string
type TagsAlias = []string

// LocalCode has String() on its pointer receiver only.
type LocalCode int

func (c *LocalCode) String() string { return "lc:" + strconv.Itoa(int(*c)) }

func (c Coded) String() Label { return Label("coded:" + strconv.Itoa(int(c))) }

type Doc struct {
	Title  string
	Tags   []string
	Nums   []int
	Leaves []Leaf
	In     Inner1
	P      *Leaf
}
type Lookup struct{ N int }

func (l *Lookup) Code() (int, error) {
	if e := semEnter("Lookup.Code"); e != nil {
		return 0, e
	}
	return l.N * 7, nil
}
func (l *Lookup) Plain() int { return l.N }
type LocalAnon struct {
	Pos struct {
		X int
		y int
	}
	Name string
}
`

// SemRuntime is part of every generated package: call trace and fault injection
// used by the instrumented helper functions (inert unless a driver sets them).
const SemRuntime = `package pk

var SemTrace []string
var SemFail = map[string]error{}
var SemOnHook func(name string, vals ...interface{})

func semEnter(name string) error {
	SemTrace = append(SemTrace, name)
	return SemFail[name]
}
`

// Method is one method of a converter interface.
type Method struct {
	Name      string
	SrcType   string // struct type name of the source (without pointer)
	DstType   string
	SrcPtr    bool
	DstPtr    bool
	SrcName   string // declared parameter names ("" = unnamed)
	DstName   string
	Args      []Arg
	RetErr    bool
	Notations []string // notation lines without the leading "// "
	DocLines  []string // non-notation doc lines
	Features  []string
	RawSig    string // when set, printed instead of the signature derived from the fields above
	MidPos    int    // > 0: a non-notation line is printed before notation number MidPos (the notations are not one block)
	MidLine   string // that line ("" = an empty comment line)
}

type Arg struct{ Name, Type string }

// Interface is one converter (or unmarked) interface of the setup file.
type Interface struct {
	Name      string
	Marked    bool // carries a :convergen line
	Bare      bool // no comment of any kind above the declaration
	Notations []string
	DocLines  []string
	Methods   []Method
	NoDoc     bool
	Embeds    []Method // methods reaching the interface through an embedded, unexported interface
}

// Case is a generated module.
type Case struct {
	Seed       int64
	Index      int
	Files      tool.Files
	SetupPath  string // relative path of the setup file
	Interfaces []Interface
	Features   map[string]int
	Struct     map[string][]FieldDecl // local struct types generated for this case
	DotImport  bool                   // the setup file dot-imports cvcase/dot
}

type FieldDecl struct {
	Name, Type string
	Pair       FieldPair
	SrcName    string // the same-named source member ("" if none)
	SrcGetter  bool
}

// Options steer the generator towards what a property needs.
type Options struct {
	MaxFields       int
	MaxMethods      int
	MaxInterfaces   int
	Explicit        float64 // probability of explicit notations (:skip/:map/:conv/:literal)
	Hooks           float64
	Styles          bool // draw :style/:recv/:reverse/args variations
	Malformed       float64
	OnlyClasses     []string
	IntfLevel       float64 // probability of interface-level notations
	ExtraDecls      bool    // surround interfaces with other declarations and comments
	Toggles         bool
	NoUnsupportedRe bool
	WellFormed      bool // only notations that are valid and name functions of an acceptable shape
	ErrorBias       bool // prefer error results, error-returning converters and getters (C07)
	Embedding       float64 // probability that a converter interface embeds another interface
	HookReuse       float64 // probability that a method names a hook declared for an earlier method's (different) types
	CrossConv       float64 // probability that a :conv names a method generated from another converter interface
	Clones          float64 // probability of a method converting a struct type to itself
	CaseBias        bool    // prefer :case:off and explicit notations whose destination differs from a field only in case (C19)
	HiddenBias      bool    // prefer pairs over struct types with members the generated package cannot see, and skip patterns fitting them (C05)
	SkipTwins       float64 // probability that two methods of a file carry :case:off and :skip regexps differing only in the case of an escape (\d / \D)
	HookGenerated   float64 // probability that a hook notation names a function that is itself generated from the file
	SiblingUse      bool    // a sibling file refers to a function that only exists once it is generated
	UnreturnedErr   float64 // probability of a method without error result whose notations name an error-returning source (must be rejected)
}

// DefaultOptions is the general-purpose mix.
func DefaultOptions() Options {
	return Options{MaxFields: 7, MaxMethods: 3, MaxInterfaces: 2, Explicit: 0.5, Hooks: 0.25, Styles: true, Malformed: 0, IntfLevel: 0.3, ExtraDecls: true, Toggles: true}
}

type genState struct {
	rng    *rand.Rand
	opt    Options
	c      *Case
	types  strings.Builder // generated local declarations (types.go tail)
	nTypes int
	nFuncs int
	hookNames []string // well-shaped hooks declared so far
}

func (g *genState) feat(f string) { g.c.Features[f]++ }

// dotName spells a function of cvcase/dot the way the setup file must refer to it.
func (g *genState) dotName(fn string) string {
	if g.c.DotImport {
		return fn
	}
	return "dot." + fn
}

func (g *genState) pick(ss []string) string { return ss[g.rng.Intn(len(ss))] }

var fieldNames = []string{"ID", "Name", "Count", "Status", "Level", "Items", "Inner", "Owner", "Note", "Tags", "Created", "Score", "Data", "Ref", "Kind"}

func caseVariant(rng *rand.Rand, name string) string {
	switch rng.Intn(4) {
	case 0:
		return strings.ToUpper(name)
	case 1:
		return strings.ToUpper(name[:1]) + strings.ToLower(name[1:])
	case 2:
		if len(name) > 2 {
			return name[:1] + strings.ToUpper(name[1:2]) + name[2:]
		}
	}
	return name[:1] + strings.ToLower(name[1:]) + "" // e.g. Id for ID
}

// genStructPair creates a source and a destination struct type and returns their names.
func (g *genState) genStructPair(imported bool) (src, dst string, fields []FieldDecl) {
	g.nTypes++
	src = fmt.Sprintf("Src%d", g.nTypes)
	dst = fmt.Sprintf("Dst%d", g.nTypes)
	n := 1 + g.rng.Intn(g.opt.MaxFields)
	var pairs []FieldPair
	if g.opt.UnreturnedErr > 0 && g.rng.Intn(3) == 0 {
		// a member-wise copied struct pair, so that an error source can sit below the top level
		pairs = append(pairs, FieldPair{"nested", "Inner2", "Inner1", "field"})
	}
	for len(pairs) < n {
		p := pairCatalogue[g.rng.Intn(len(pairCatalogue))]
		if g.opt.HiddenBias && g.rng.Intn(3) == 0 {
			p = hiddenPairs[g.rng.Intn(len(hiddenPairs))]
		}
		if p.Src == "deep.Inner1" && g.rng.Intn(2) == 0 {
			// the local homonym is walked first in the same method
			pairs = append(pairs, FieldPair{"nested", "Inner2", "Inner1", "field"})
			g.feat("homonym-local-then-foreign")
		}
		if len(g.opt.OnlyClasses) > 0 {
			ok := false
			for _, c := range g.opt.OnlyClasses {
				if c == p.Class {
					ok = true
				}
			}
			if !ok {
				continue
			}
		}
		pairs = append(pairs, p)
	}
	names := append([]string{}, fieldNames...)
	g.rng.Shuffle(len(names), func(i, j int) { names[i], names[j] = names[j], names[i] })
	var sfields, dfields, methods []string
	usedSrc := map[string]bool{}
	for i, p := range pairs {
		name := names[i%len(names)]
		if i >= len(names) {
			name = fmt.Sprintf("%s%d", name, i)
		}
		dname := name
		sname := name
		// name variations
		switch g.rng.Intn(12) {
		case 0:
			sname = caseVariant(g.rng, name) // differs in case only
			g.feat("name-case-variant")
		case 1:
			dname = strings.ToLower(name[:1]) + name[1:] // unexported destination
			sname = dname
			g.feat("unexported-field")
		case 2:
			sname = strings.ToLower(name[:1]) + name[1:] // unexported source, exported destination
			g.feat("unexported-src")
		}
		g.feat("class-" + p.Class)
		dfields = append(dfields, fmt.Sprintf("\t%s %s", dname, p.Dst))
		fd := FieldDecl{Name: dname, Type: p.Dst, Pair: p}
		if p.SrcKind != "none" {
			fd.SrcName, fd.SrcGetter = sname, p.SrcKind != "field"
		}
		fields = append(fields, fd)
		if usedSrc[strings.ToLower(sname)] && p.SrcKind != "none" {
			// a second member with a name equal under folding: keep it only sometimes (first-candidate rule)
			if g.rng.Intn(3) != 0 {
				continue
			}
			g.feat("fold-equal-members")
		}
		switch p.SrcKind {
		case "field":
			sfields = append(sfields, fmt.Sprintf("\t%s %s", sname, p.Src))
			usedSrc[strings.ToLower(sname)] = true
			// sometimes also a getter of the same name with another type (getters win)
			if g.rng.Intn(10) == 0 && sname != strings.ToLower(sname[:1])+sname[1:] {
				// cannot have field and method of the same name: use a case variant for the getter
				gn := caseVariant(g.rng, sname)
				if gn != sname && !usedSrc["m:"+gn] {
					methods = append(methods, fmt.Sprintf("func (s %s) %s() %s { var z %s; return z }", src, gn, p.Src, p.Src))
					usedSrc["m:"+gn] = true
					g.feat("getter-and-field-fold-equal")
				}
			}
		case "getter":
			fld := "g" + sname
			sfields = append(sfields, fmt.Sprintf("\t%s %s", fld, p.Src))
			methods = append(methods, fmt.Sprintf("func (s %s) %s() %s { return s.%s }", src, sname, p.Src, fld))
			usedSrc[strings.ToLower(sname)] = true
		case "ptrgetter":
			fld := "g" + sname
			sfields = append(sfields, fmt.Sprintf("\t%s %s", fld, p.Src))
			methods = append(methods, fmt.Sprintf("func (s *%s) %s() %s { return s.%s }", src, sname, p.Src, fld))
			usedSrc[strings.ToLower(sname)] = true
		case "errgetter":
			fld := "g" + sname
			sfields = append(sfields, fmt.Sprintf("\t%s %s", fld, p.Src))
			methods = append(methods, fmt.Sprintf("func (s %s) %s() (%s, error) {\n\tif e := semEnter(\"%s.%s\"); e != nil {\n\t\tvar z %s\n\t\treturn z, e\n\t}\n\treturn s.%s, nil\n}", src, sname, p.Src, src, sname, p.Src, fld))
			usedSrc[strings.ToLower(sname)] = true
		}
	}
	// extra source members: spare values for :map / :conv, a nested pointer path, a getter with parameters
	sfields = append(sfields, "\tSpareInt int", "\tSpareStr string", "\tNest *Inner1", "\tNestV Inner1", "\tWho ext.Person", "\tWhoP *ext.Person")
	methods = append(methods,
		fmt.Sprintf("func (s %s) Calc() int { return s.SpareInt * 3 }", src),
		fmt.Sprintf("func (s %s) Risky() (string, error) {\n\tif e := semEnter(\"%s.Risky\"); e != nil {\n\t\treturn \"\", e\n\t}\n\treturn s.SpareStr, nil\n}", src, src),
		fmt.Sprintf("func (s %s) WithArg(p int) int { return p }", src),
		fmt.Sprintf("func (s *%s) PtrCalc() int { return s.SpareInt + 1 }", src))
	if g.rng.Intn(6) == 0 {
		sfields = append(sfields, "\tLeaf")
		g.feat("embedded-src")
	}
	if g.rng.Intn(6) == 0 {
		dfields = append(dfields, "\tLeaf")
		fields = append(fields, FieldDecl{Name: "Leaf", Type: "Leaf", Pair: FieldPair{Class: "embedded", Dst: "Leaf"}})
		g.feat("embedded-dst")
	}
	fmt.Fprintf(&g.types, "\ntype %s struct {\n%s\n}\n", src, strings.Join(sfields, "\n"))
	fmt.Fprintf(&g.types, "\ntype %s struct {\n%s\n}\n", dst, strings.Join(dfields, "\n"))
	for _, m := range methods {
		g.types.WriteString("\n" + m + "\n")
	}
	g.c.Struct[dst] = fields
	return
}

// nestedMembers: for member-wise copied struct pairs, (member of the nested source struct, member of the nested destination)
var nestedMembers = map[string][][2]string{
	"Inner2":    {{"B", "C"}, {"A", "A"}, {"A", "B"}},
	"Deep2":     {{"Num", "Tag"}, {"Num", "Num"}},
	"ext.Pub2":  {{"Name", "Name"}, {"Count", "Name"}},
	"LocalItem": {{"Note", "Note"}, {"ID", "Note"}},
	"LocalPod":  {{"Name", "Kind"}, {"Name", "Name"}},
}

// wholeCopyMembers: struct types copied as a whole when source and destination agree: {member, a source of its type, a literal}
var wholeCopyMembers = map[string][3]string{
	"Inner1":   {"A", "SpareInt", "7"},
	"ext.Pub1": {"Name", "SpareStr", "\"lit\""},
	"Leaf":     {"V", "SpareInt", "3"},
	"v2.Pod":   {"Name", "SpareStr", "\"pod\""},
}

// cloneFields: the fields of Doc (LocalTypes), for methods converting a struct type to itself.
var cloneFields = []FieldDecl{
	{Name: "Title", Type: "string", Pair: FieldPair{"identical", "string", "string", "field"}, SrcName: "Title"},
	{Name: "Tags", Type: "[]string", Pair: FieldPair{"slice", "[]string", "[]string", "field"}, SrcName: "Tags"},
	{Name: "Nums", Type: "[]int", Pair: FieldPair{"slice", "[]int", "[]int", "field"}, SrcName: "Nums"},
	{Name: "Leaves", Type: "[]Leaf", Pair: FieldPair{"slice", "[]Leaf", "[]Leaf", "field"}, SrcName: "Leaves"},
	{Name: "In", Type: "Inner1", Pair: FieldPair{"identical", "Inner1", "Inner1", "field"}, SrcName: "In"},
	{Name: "P", Type: "*Leaf", Pair: FieldPair{"identical", "*Leaf", "*Leaf", "field"}, SrcName: "P"},
}

// genMethod draws one method over a fresh struct pair.
func (g *genState) genMethod(idx int) Method {
	if g.opt.Clones > 0 && g.rng.Float64() < g.opt.Clones {
		// a clone / snapshot method: source and destination are one struct type
		m := Method{Name: fmt.Sprintf("Clone%d", idx), SrcType: "Doc", DstType: "Doc"}
		m.SrcPtr, m.DstPtr = g.rng.Intn(3) != 0, g.rng.Intn(3) != 0
		switch g.rng.Intn(4) {
		case 0:
			m.Notations = append(m.Notations, ":style arg")
		case 1:
			m.Notations = append(m.Notations, ":recv d")
		}
		g.c.Struct["Doc"] = cloneFields
		m.Features = append(m.Features, "clone-same-type")
		g.feat("clone-same-type")
		return m
	}
	src, dst, fields := g.genStructPair(false)
	m := Method{Name: fmt.Sprintf("Conv%d%s", idx, g.pick([]string{"", "ToDst", "X"})), SrcType: src, DstType: dst}
	m.SrcPtr = g.rng.Intn(3) != 0
	m.DstPtr = g.rng.Intn(3) != 0
	if g.rng.Intn(2) == 0 {
		m.SrcName, m.DstName = g.pick([]string{"src", "s", "in", "from", "e", "i"}), g.pick([]string{"dst", "d", "out", "to", "res"})
	}
	m.RetErr = g.rng.Intn(3) == 0 || g.opt.ErrorBias
	if g.rng.Intn(10) == 0 {
		// operand names at the edge: blank names, and names the generated function declares itself
		// (err, the default dst / argN): the tool must rename or reject, never redeclare
		switch k := g.rng.Intn(5); {
		case k == 0:
			m.SrcName, m.DstName = "_", g.pick([]string{"_", "out", ""}) // not dst/src: the blank operand gets one of them as its default name
			m.Features = append(m.Features, "blank-operand-name")
		case g.opt.WellFormed:
			// colliding names are rightly rejected: not part of the well-formed stream
		case k == 1:
			m.SrcName, m.DstName = "err", g.pick([]string{"dst", "", "out"})
			m.Features = append(m.Features, "operand-named-err")
		case k == 2:
			m.SrcName, m.DstName = "dst", ""
			m.Features = append(m.Features, "source-named-dst")
		case k == 3:
			m.SrcName, m.DstName = "", g.pick([]string{"arg0", "src", "err"})
			m.Features = append(m.Features, "result-named-like-a-default")
		default:
			m.SrcName, m.DstName = g.pick([]string{"a", "err"}), "err2"
			m.Features = append(m.Features, "operand-named-err")
		}
	}
	if g.opt.Styles && g.rng.Intn(3) == 0 {
		n := 1 + g.rng.Intn(3)
		argTypes := []string{"int", "string", "*Leaf", "ext.Status", "[]string", "ext.Person", "Inner1", "*Lookup", "v2.Kind", "v2.Pod"}
		for i := 0; i < n; i++ {
			a := Arg{Type: g.pick(argTypes)}
			if m.SrcName != "" {
				a.Name = fmt.Sprintf("x%d", i)
			}
			m.Args = append(m.Args, a)
		}
		m.Features = append(m.Features, "args")
	}
	if g.rng.Intn(2) == 0 {
		m.DocLines = append(m.DocLines, fmt.Sprintf("%s converts %s.", m.Name, src))
		if g.rng.Intn(4) == 0 {
			m.DocLines = append(m.DocLines, "It copies 100% of the fields; %d, %s and %v are only text here.")
			m.Features = append(m.Features, "percent-in-method-doc")
		}
	}
	if g.opt.Toggles {
		for _, t := range []string{"case", "getter", "stringer", "typecast"} {
			if t == "case" && g.opt.CaseBias && g.rng.Intn(2) == 0 {
				m.Notations = append(m.Notations, ":case:off")
				continue
			}
			switch g.rng.Intn(5) {
			case 0, 1:
				m.Notations = append(m.Notations, ":"+t)
			case 2:
				m.Notations = append(m.Notations, ":"+t+":off")
			}
		}
		switch g.rng.Intn(8) {
		case 0:
			m.Notations = append(m.Notations, ":match none")
		case 1:
			m.Notations = append(m.Notations, ":match name")
		}
	}
	for _, f := range fields {
		if f.SrcGetter && (f.Pair.Src == "ext.Code" || f.Pair.Src == "LocalCode") && g.rng.Intn(2) == 0 {
			m.Notations = append(m.Notations, ":getter", ":stringer")
			m.Features = append(m.Features, "pointer-receiver-stringer-on-getter-result")
			break
		}
	}
	style := "return"
	reversed := false
	if g.opt.Styles {
		switch g.rng.Intn(4) {
		case 0:
			m.Notations = append(m.Notations, ":style arg")
			style = "arg"
		case 1:
			m.Notations = append(m.Notations, ":style return")
		}
		if g.rng.Intn(5) == 0 {
			m.Notations = append(m.Notations, ":recv "+g.pick(recvNames(g.opt.WellFormed)))
			m.Features = append(m.Features, "recv")
		}
		if style == "arg" && len(m.Args) == 0 && g.rng.Intn(4) == 0 {
			m.Notations = append(m.Notations, ":reverse")
			m.Features = append(m.Features, "reverse")
			reversed = true
		}
	}
	// two error-returning converters on members of one nested destination struct (C07: nested call sites)
	if g.opt.ErrorBias {
		for _, f := range fields {
			if f.Pair.Dst == "Inner2" && f.Pair.Src == "Inner1" && g.rng.Intn(2) == 0 {
				m.Notations = append(m.Notations, ":conv localConvErr SpareInt "+f.Name+".B", ":conv localConvErr2 SpareInt "+f.Name+".C")
				m.Features = append(m.Features, "nested-error-converters")
			}
			if f.Pair.Dst == "Deep2" && f.Pair.Src == "Deep1" && g.rng.Intn(2) == 0 {
				// call sites two member-wise copied structs deep, and one at depth one after them
				m.Notations = append(m.Notations, ":conv localConvErr SpareInt "+f.Name+".In.B", ":conv localConvErr2 SpareInt "+f.Name+".In.C", ":conv localConvErr SpareInt "+f.Name+".Tag")
				m.Features = append(m.Features, "depth2-error-converters")
			}
		}
	}
	// explicit notations over the destination fields
	for _, f := range fields {
		if nm, ok := nestedMembers[f.Pair.Dst]; ok && f.Pair.Class == "nested" && g.opt.Explicit > 0 && g.rng.Intn(3) == 0 {
			// a notation on a member of a member-wise copied struct whose source names a member of the
			// NESTED source struct: sources are resolved from the root operand, so it is not found there
			pr := nm[g.rng.Intn(len(nm))]
			if g.rng.Intn(2) == 0 {
				m.Notations = append(m.Notations, ":map "+pr[0]+" "+f.Name+"."+pr[1])
			} else {
				m.Notations = append(m.Notations, ":conv localConv "+pr[0]+" "+f.Name+"."+pr[1])
			}
			m.Features = append(m.Features, "nested-notation-naming-a-nested-source-member")
		}
		if mem, ok := wholeCopyMembers[f.Pair.Dst]; ok && f.Pair.Class == "identical" && f.Pair.Dst == f.Pair.Src && g.opt.Explicit > 0 && g.rng.Intn(3) == 0 {
			// a notation on a member of a struct field that is assignable as a whole
			switch g.rng.Intn(3) {
			case 0:
				m.Notations = append(m.Notations, ":map "+mem[1]+" "+f.Name+"."+mem[0])
			case 1:
				m.Notations = append(m.Notations, ":skip "+f.Name+"."+mem[0])
			default:
				m.Notations = append(m.Notations, ":literal "+f.Name+"."+mem[0]+" "+mem[2])
			}
			m.Features = append(m.Features, "notation-on-member-of-whole-copied-struct")
		}
		if g.rng.Float64() >= g.opt.Explicit/2 {
			continue
		}
		path := f.Name
		pickCase := g.rng.Intn(10)
		if g.opt.CaseBias && g.rng.Intn(3) == 0 {
			pickCase = 7
		}
		switch pickCase {
		case 9:
			// converter shapes at the edge of what can be written as Go: a pointer parameter fed from a call or a
			// conversion, a source or a converter that also yields an error below a conversion / String() call
			shapes := [][2]string{{"localPtrConv", "Calc()"}, {"localPtrConv", "PtrCalc()"}, {"localPtrConv64", "SpareInt"}, {"localPtrConv", "SpareInt"},
				{"localPtrConv", "NestV.A"}, {"localPtrConv", "Nest.A"}, {"localConvErr3", "SpareInt"}, {"localConvErr", "SpareInt"}, {"localConv", "Risky()"},
				{"ext.Atoi", "Risky()"}, {"ext.lower", "SpareStr"}, {"ext.lower", "Who.Nick"}, {"ext.PtrLen", "SpareStr"}, {"ext.PtrLen", "Who.Name()"}, {"ext.PtrLen", "NestV.C"}}
			if g.opt.ErrorBias {
				shapes = shapes[6:8]
			}
			sh := shapes[g.rng.Intn(len(shapes))]
			if g.opt.WellFormed && sh[0] == "ext.lower" {
				sh = shapes[0] // an unexported function of another package is not of an acceptable shape
			}
			m.Notations = append(m.Notations, ":conv "+sh[0]+" "+sh[1]+" "+path)
			m.Features = append(m.Features, "conv-edge-shape")
		case 0:
			m.Notations = append(m.Notations, ":skip "+path)
			m.Features = append(m.Features, "skip")
		case 1:
			pats := []string{"/^" + path[:1] + "/", "/idden$/", "/\\.h/", "/(?i)" + strings.ToLower(path) + "/", "/^" + path + "\\./", "/unexp/", "/\\.y$/"}
			if g.opt.CaseBias && g.rng.Intn(2) == 0 {
				// under the folded rule a group can stay case-sensitive: only the regexp engine knows
				pats = []string{"/^(?-i:" + path[:1] + ")/", "/^(?-i:" + strings.ToLower(path[:1]) + ")/", "/(?-i:" + path[len(path)-1:] + ")$/", "/^.{2,5}$/"}
			}
			// counted repetitions (a comma inside the expression) and a group that stays case-sensitive under (?i)
			pats = append(pats, "/^.{2,5}$/", "/^[A-Za-z]{3,}$/", "/^(?-i:"+path[:1]+")/", "/^(?-i:"+strings.ToLower(path[:1])+")/")
			if g.opt.HiddenBias && g.rng.Intn(2) == 0 {
				// patterns fitting members the generated package cannot see
				pats = []string{"/idden$/", "/\\.h/", "/unexp/", "/\\.y$/", "/ecret$/", "/(?i)HIDDEN/", "/^" + path + "\\.[a-z]/"}
			}
			m.Notations = append(m.Notations, ":skip "+g.pick(pats))
			m.Features = append(m.Features, "skip-re")
		case 2:
			srcs := []string{"SpareInt", "SpareStr", "Calc()", "Risky()", "Nest.A", "NestV.B", "Who.Name()", "Who.Nick", "WhoP.Age()", "NestV.L.W", "Nope", "Who.secret()", "PtrCalc()", "WithArg()", "NestV.C.String()", "Who.Score()",
				"Who.name", "Who.age", "WhoP.lvl", "Who.lvl.String()", "Who.Kod()", "WhoP.Kod()"} // the last four: unexported members of an imported type
			if g.rng.Intn(5) == 0 {
				// an identity :map pins the source to exactly this member, whatever the matching rule
				id := f.SrcName
				if id == "" {
					id = path
				}
				if f.SrcGetter {
					id += "()"
				}
				srcs = []string{id}
				m.Features = append(m.Features, "identity-map")
			}
			if g.opt.ErrorBias {
				srcs = []string{"Risky()", "Risky()", "SpareStr", "Calc()"}
			}
			m.Notations = append(m.Notations, ":map "+g.pick(srcs)+" "+path)
			m.Features = append(m.Features, "map")
		case 3:
			convs := []string{"ext.Itoa", "ext.Atoi", "strconv.Itoa", "localConv", "localConvErr", "localPtrConv", "ext.lower", "ext.Two", "ext.NoResult", "ext.FuncVar", "ext.NotFunc", "nosuch", "ext.Three", "ext.PtrLen", "ext.StatusOf"}
			if g.opt.WellFormed {
				convs = []string{"ext.Itoa", "ext.Atoi", "strconv.Itoa", "localConv", "localConvErr", "localPtrConv", "ext.PtrLen", "ext.StatusOf"}
			}
			if g.opt.ErrorBias {
				convs = []string{"localConvErr", "localConvErr2", "localConvErr3", "localConv"}
			}
			if !g.opt.ErrorBias {
				// converters whose result needs a conversion, whose pointer parameter needs an address, dot-imported ones
				convs = append(convs, "localConvErr3", "localPtrConv64", g.dotName("DotConv"), g.dotName("DotConvErr"))
			}
			srcs := []string{"SpareInt", "SpareStr", "Calc()", path, "NestV.A", "Nest.B", "Risky()", "Who.age", "PtrCalc()"}
			if g.opt.ErrorBias {
				srcs = []string{"SpareInt", "Nest.A", "NestV.A", "Calc()"}
			}
			m.Notations = append(m.Notations, ":conv "+g.pick(convs)+" "+g.pick(srcs)+" "+path)
			m.Features = append(m.Features, "conv")
		case 4:
			lt := f.Type
			if reversed {
				// under :reverse the assigned struct is the source type: the literal must have that member's type
				lt = f.Pair.Src
			}
			if lt != "" {
				m.Notations = append(m.Notations, ":literal "+path+" "+literalFor(g.rng, lt))
				m.Features = append(m.Features, "literal")
			}
		case 5:
			if len(m.Args) > 0 {
				k := g.rng.Intn(len(m.Args) + 3) // 0 .. len+2: below, inside and beyond the arguments
				suffix := ""
				if g.rng.Intn(4) == 0 {
					suffix = g.pick([]string{".V", ".Name()", ".A", ".Code()", ".Plain()", ".age", ".Name", ".N"})
				}
				m.Notations = append(m.Notations, fmt.Sprintf(":map $%d%s %s", k, suffix, path))
				m.Features = append(m.Features, "argmap")
			}
		case 6:
			// notation on a nested destination path
			nested := []string{"A", "B", "L.V", "X", "In.A", "Name", "Count"}
			switch g.rng.Intn(3) {
			case 0:
				m.Notations = append(m.Notations, ":skip "+path+"."+g.pick(nested))
			case 1:
				// sources are resolved from the root operand: a name that exists only in the nested source struct is not found
				m.Notations = append(m.Notations, ":map "+g.pick([]string{"SpareInt", "SpareInt", "A", "B", "Name", "Count", "V"})+" "+path+"."+g.pick(nested))
			default:
				m.Notations = append(m.Notations, ":conv localConv "+g.pick([]string{"SpareInt", "SpareInt", "A", "Count", "V"})+" "+path+"."+g.pick(nested))
			}
			m.Features = append(m.Features, "nested-notation")
		case 7:
			if g.opt.CaseBias && g.rng.Intn(3) == 0 {
				// a :skip written BEFORE the method's :case:off line and differing from the field in case only: the
				// matcher is built under the exact rule and queried under the folded one
				v := strings.ToLower(path)
				if g.rng.Intn(2) == 0 && len(path) > 2 {
					v = "/" + strings.ToLower(path[1:]) + "$/"
				}
				m.Notations = append([]string{":skip " + v}, m.Notations...)
				m.Features = append(m.Features, "skip-before-case-off")
				break
			}
			if g.rng.Intn(2) == 0 || g.opt.CaseBias {
				// destinations of :map/:conv/:literal compare case-sensitively whatever the case rule
				v := caseVariant(g.rng, path)
				switch g.rng.Intn(3) {
				case 0:
					m.Notations = append(m.Notations, ":map SpareInt "+v)
				case 1:
					m.Notations = append(m.Notations, ":conv localConv SpareInt "+v)
				default:
					m.Notations = append(m.Notations, ":literal "+v+" "+literalFor(g.rng, map[bool]string{false: f.Type, true: f.Pair.Src}[reversed && f.Pair.Src != ""]))
				}
				m.Features = append(m.Features, "explicit-target-case-variant")
				break
			}
			m.Notations = append(m.Notations, ":skip "+strings.ToLower(path))
			m.Features = append(m.Features, "skip-case")
		case 8:
			// two notations on the same destination: the first wins
			m.Notations = append(m.Notations, ":map SpareInt "+path, ":map SpareStr "+path)
			m.Features = append(m.Features, "duplicate-notation")
		}
	}
	unreturned := false
	if g.opt.UnreturnedErr > 0 && g.rng.Float64() < g.opt.UnreturnedErr && len(fields) > 0 {
		// an error-returning getter on an additional argument (or on the source) in a method without
		// error result: the tool must reject the method
		m.Args = []Arg{{Type: "*Lookup"}}
		if m.SrcName != "" {
			m.Args[0].Name = "lk"
		}
		f := fields[g.rng.Intn(len(fields))]
		var keep []string
		for _, n := range m.Notations {
			if !strings.HasPrefix(n, ":reverse") {
				keep = append(keep, n)
			}
		}
		m.Notations = keep
		nested := ""
		for _, nf := range fields {
			if nf.Pair.Dst == "Inner2" && nf.Pair.Src == "Inner1" && nf.Pair.Class == "nested" {
				nested = nf.Name
			}
		}
		switch k := g.rng.Intn(3); {
		case nested != "" && g.rng.Intn(2) == 0:
			// the error source sits on a member of a member-wise copied struct
			m.Notations = append(m.Notations, ":conv localConvErr SpareInt "+nested+".B")
			m.Features = append(m.Features, "nested-error-source-without-error-result")
		case k == 0:
			m.Notations = append(m.Notations, ":map $2.Code() "+f.Name)
		case k == 1:
			m.Notations = append(m.Notations, ":map Risky() "+f.Name)
		default:
			m.Notations = append(m.Notations, ":conv localConvErr3 SpareInt "+f.Name)
		}
		m.RetErr = false
		unreturned = true
		m.Features = append(m.Features, "error-source-without-error-result")
		g.c.Features["must-reject:error-source-without-error-result"]++
	}
	if g.opt.WellFormed && !unreturned {
		// an error-capable source needs an error result (anything else is rightly rejected)
		risky := false
		for _, f := range fields {
			if f.Pair.SrcKind == "errgetter" {
				risky = true
			}
		}
		for _, n := range m.Notations {
			if strings.Contains(n, "Risky()") || strings.Contains(n, "Score()") || strings.Contains(n, "Atoi") || strings.Contains(n, "localConvErr") || strings.Contains(n, "DotConvErr") || strings.Contains(n, "Code()") {
				risky = true
			}
		}
		if risky {
			m.RetErr = true
		}
	}
	if len(g.hookNames) > 0 && g.rng.Float64() < g.opt.HookReuse {
		// a hook that fits an earlier method's operand types, not this one's: must be rejected
		m.Notations = append(m.Notations, ":postprocess "+g.hookNames[g.rng.Intn(len(g.hookNames))])
		m.Features = append(m.Features, "misfit-hook-reused")
		g.c.Features["misfit-hook-reused"]++
	} else {
		if g.rng.Float64() < g.opt.Hooks {
			m.Notations = append(m.Notations, g.hook(&m, "preprocess"))
		}
		if g.rng.Float64() < g.opt.Hooks {
			m.Notations = append(m.Notations, g.hook(&m, "postprocess"))
		}
	}
	if g.rng.Intn(4) == 0 {
		g.rng.Shuffle(len(m.Notations), func(i, j int) { m.Notations[i], m.Notations[j] = m.Notations[j], m.Notations[i] })
	}
	if len(m.Notations) >= 2 && g.rng.Intn(4) == 0 {
		m.MidPos = 1 + g.rng.Intn(len(m.Notations)-1)
		m.MidLine = g.pick([]string{"", "a remark between the notations."})
		m.Features = append(m.Features, "prose-between-notations")
	}
	for _, f := range m.Features {
		g.feat(f)
	}
	return m
}

func recvNames(wellFormed bool) []string {
	if wellFormed {
		return []string{"r", "self", "x", "e"}
	}
	return []string{"r", "self", "x", "e", "dst", "err"}
}

// literalFor returns an expression of the given type (the tool cannot check literals).
func literalFor(rng *rand.Rand, typ string) string {
	switch typ {
	case "int", "int64", "MyInt", "Status", "ext2.Status", "float64":
		return []string{"42", "1 + 2", "7"}[rng.Intn(3)]
	case "string", "ext.Status":
		return []string{`"lit"`, `"a b  c"`, `"x" + "y"`}[rng.Intn(3)]
	case "bool":
		return "true"
	case "Leaf":
		return "Leaf{V: 1}"
	case "interface{}":
		return `"any"`
	}
	switch {
	case strings.HasPrefix(typ, "*"), strings.HasPrefix(typ, "[]"), strings.HasPrefix(typ, "map["), strings.HasPrefix(typ, "func"), strings.HasPrefix(typ, "chan"), strings.HasPrefix(typ, "<-chan"), typ == "error", typ == "Namer", typ == "IntList":
		return "nil"
	}
	return "*new(" + typ + ")"
}

// hook declares a hook function for the method and returns the notation line.
func (g *genState) hook(m *Method, kind string) string {
	g.nFuncs++
	name := fmt.Sprintf("%sHook%d", kind[:3], g.nFuncs)
	dptr, sptr := g.rng.Intn(4) != 0, g.rng.Intn(2) == 0
	dt, st := m.DstType, m.SrcType
	if dptr {
		dt = "*" + dt
	}
	if sptr {
		st = "*" + st
	}
	params := []string{"d " + dt, "s " + st}
	shape := g.rng.Intn(10)
	if g.opt.WellFormed {
		shape = 9
		if g.opt.HookReuse > 0 && g.rng.Intn(10) == 0 {
			shape = 4 // streams that expect rejections of misfit hooks also get the concrete-error result shape
		}
	}
	withArgs := len(m.Args) > 0 && g.rng.Intn(2) == 0
	if withArgs {
		for i, a := range m.Args {
			params = append(params, fmt.Sprintf("a%d %s", i, a.Type))
		}
		g.feat("hook-with-args")
	}
	res := ""
	body := ""
	if g.rng.Intn(3) == 0 && (!g.opt.WellFormed || m.RetErr) {
		res = " error"
		body = "return nil"
		g.feat("hook-error")
	}
	switch shape {
	case 0:
		params = params[:1] // too few parameters
		g.feat("hook-arity-1")
	case 1:
		params[0], params[1] = "d "+st, "s "+dt // swapped operand types
		g.feat("hook-swapped")
	case 2:
		if len(m.Args) > 0 && !withArgs {
			params = append(params, "extra bool") // wrong additional-argument count
			g.feat("hook-bad-args")
		}
	case 3:
		res, body = " int", "return 0"
		g.feat("hook-bad-result")
	case 4:
		if g.rng.Intn(2) == 0 || g.opt.WellFormed {
			// a concrete type implementing error is not the error result the tool documents: a nil *MyErr
			// stored in the function's err would be a non-nil error
			res, body = " *MyErr", "return nil"
			g.feat("hook-concrete-error-result")
			m.Features = append(m.Features, "misfit-hook-result")
			g.c.Features["misfit-hook-reused"]++ // counted with the hooks that must be rejected
		}
	}
	g.feat("hook-" + kind)
	if shape >= 4 && res != " int" && res != " *MyErr" {
		g.hookNames = append(g.hookNames, name)
	}
	// instrumented body: report the operands to the driver, then fail on command
	var pnames []string
	for _, p := range params {
		pnames = append(pnames, strings.Fields(p)[0])
	}
	inst := fmt.Sprintf("if SemOnHook != nil {\n\t\tSemOnHook(%q, %s)\n\t}\n\t", name, strings.Join(pnames, ", "))
	switch res {
	case " error":
		body = inst + fmt.Sprintf("return semEnter(%q)", name)
	case "":
		body = inst + fmt.Sprintf("_ = semEnter(%q)", name)
	default:
		body = inst + body
	}
	fmt.Fprintf(&g.types, "\nfunc %s(%s)%s {\n\t%s\n}\n", name, strings.Join(params, ", "), res, body)
	return ":" + kind + " " + name
}

func (m Method) signature() string {
	if m.RawSig != "" {
		return m.RawSig
	}
	st, dt := m.SrcType, m.DstType
	if m.SrcPtr {
		st = "*" + st
	}
	if m.DstPtr {
		dt = "*" + dt
	}
	var ps []string
	if m.SrcName != "" {
		ps = append(ps, m.SrcName+" "+st)
	} else {
		ps = append(ps, st)
	}
	for _, a := range m.Args {
		if a.Name != "" {
			ps = append(ps, a.Name+" "+a.Type)
		} else {
			ps = append(ps, a.Type)
		}
	}
	res := dt
	switch {
	case m.DstName != "" && m.RetErr:
		en := "err"
		if m.DstName == "err" || m.SrcName == "err" {
			en = "e9" // Go itself forbids two variables of one name in a signature
		}
		res = fmt.Sprintf("(%s %s, %s error)", m.DstName, dt, en)
	case m.DstName != "":
		res = fmt.Sprintf("(%s %s)", m.DstName, dt)
	case m.RetErr:
		res = fmt.Sprintf("(%s, error)", dt)
	}
	return fmt.Sprintf("%s(%s) %s", m.Name, strings.Join(ps, ", "), res)
}

// Generate builds case number index of the stream identified by seed.
func Generate(seed int64, index int, opt Options) *Case {
	rng := rand.New(rand.NewSource(seed*1000003 + int64(index)))
	c := &Case{Seed: seed, Index: index, Files: tool.Files{}, Features: map[string]int{}, Struct: map[string][]FieldDecl{}}
	g := &genState{rng: rng, opt: opt, c: c}
	c.DotImport = rng.Intn(3) == 0
	nIntf := 1 + rng.Intn(opt.MaxInterfaces)
	intfNames := []string{"Convergen", "Backend", "Loader", "Alpha", "Zeta"}
	mi := 0
	for i := 0; i < nIntf; i++ {
		it := Interface{Name: intfNames[i]}
		if i > 0 || rng.Intn(5) == 0 {
			if i == 0 {
				it.Name = "First" + intfNames[1+rng.Intn(4)]
			}
			it.Marked = true
		}
		it.NoDoc = !it.Marked && rng.Intn(2) == 0
		if !it.NoDoc && rng.Intn(2) == 0 {
			it.DocLines = append(it.DocLines, it.Name+" is a converter.")
		}
		if rng.Float64() < opt.IntfLevel {
			for _, t := range []string{"case", "getter", "stringer", "typecast"} {
				switch rng.Intn(5) {
				case 0:
					it.Notations = append(it.Notations, ":"+t)
				case 1:
					it.Notations = append(it.Notations, ":"+t+":off")
				}
			}
			switch rng.Intn(6) {
			case 0:
				it.Notations = append(it.Notations, ":style arg")
			case 1:
				it.Notations = append(it.Notations, ":match none")
			}
			if len(it.Notations) > 0 {
				g.feat("intf-level-notations")
				it.NoDoc = false
			}
		}
		n := 1 + rng.Intn(opt.MaxMethods)
		for k := 0; k < n; k++ {
			mi++
			it.Methods = append(it.Methods, g.genMethod(mi))
		}
		if rng.Float64() < opt.Embedding {
			em := Method{Name: fmt.Sprintf("Emb%dConv", i), SrcType: "Leaf", DstType: "Leaf2", SrcPtr: true, DstPtr: true}
			switch rng.Intn(4) {
			case 0:
				em.Notations = []string{":skip W"}
				em.DocLines = []string{em.Name + " is promoted from an embedded interface."}
			case 1:
				em.Notations = []string{":literal W \"emb\"", ":typecast:off"}
			case 2:
				em.DocLines = []string{"only a doc line on a promoted method."}
			}
			if len(em.Notations) > 0 {
				g.feat("embedded-method-with-notations")
			}
			it.Embeds = []Method{em}
			g.feat("embedded-interface")
		}
		c.Interfaces = append(c.Interfaces, it)
	}
	// drawn from a generator of its own, so that the rest of the stream stays as it is
	rngX := rand.New(rand.NewSource(seed*7919 + int64(index)*31 + 17))
	if len(c.Interfaces) >= 2 && rngX.Intn(4) == 0 {
		// a converter interface named Convergen with no comment at all (not even a go:generate line) next to
		// interfaces that carry interface-level notations: it must get the defaults, not its neighbours' settings
		configured := false
		for ii := range c.Interfaces {
			if c.Interfaces[ii].Name != "Convergen" && len(c.Interfaces[ii].Notations) > 0 {
				configured = true
			}
		}
		for ii := range c.Interfaces {
			if it := &c.Interfaces[ii]; configured && it.Name == "Convergen" && !it.Marked {
				it.Notations, it.DocLines, it.NoDoc, it.Bare = nil, nil, true, true
				g.feat("bare-Convergen-next-to-configured-interfaces")
			}
		}
	}
	var all []*Method
	for ii := range c.Interfaces {
		for mi := range c.Interfaces[ii].Methods {
			all = append(all, &c.Interfaces[ii].Methods[mi])
		}
	}
	if opt.SkipTwins > 0 && len(all) >= 2 && rng.Float64() < opt.SkipTwins {
		// two :skip regexps that differ only in the case of an escape, both under :case:off: each method
		// must obey its own (a matcher compiled for one must not serve the other)
		tw := [][2]string{{"/\\d$/", "/\\D$/"}, {"/^\\w+$/", "/^\\W+$/"}, {"/\\S\\d/", "/\\s\\D/"}}[rng.Intn(3)]
		a, b := rng.Intn(len(all)), rng.Intn(len(all)-1)
		if b >= a {
			b++
		}
		all[a].Notations = append(all[a].Notations, ":case:off", ":skip "+tw[0])
		all[b].Notations = append(all[b].Notations, ":case:off", ":skip "+tw[1])
		g.feat("skip-regexp-twins-differing-in-escape-case")
	}
	if opt.HookGenerated > 0 && len(all) >= 2 && rng.Float64() < opt.HookGenerated {
		// a hook notation naming a function that only exists once it is generated: not a declared function
		a, b := rng.Intn(len(all)), rng.Intn(len(all)-1)
		if b >= a {
			b++
		}
		all[a].Notations = append(all[a].Notations, ":"+[]string{"preprocess", "postprocess"}[rng.Intn(2)]+" "+all[b].Name)
		g.feat("hook-names-a-generated-method")
		c.Features["must-reject:hook-names-a-generated-method"]++
	}
	if opt.CrossConv > 0 {
		used := false
		for ii := range c.Interfaces {
			for mi := range c.Interfaces[ii].Methods {
				m := &c.Interfaces[ii].Methods[mi]
				for _, f := range c.Struct[m.DstType] {
					if f.Pair.Class == "convpair" && f.SrcName != "" && rng.Float64() < opt.CrossConv {
						m.Notations = append(m.Notations, ":conv LeafToLeaf2 "+f.SrcName+" "+f.Name)
						used = true
					}
				}
			}
		}
		if used {
			// the converter is itself generated, from an interface processed before or after its users
			h := Interface{Name: []string{"AHelpers", "ZHelpers"}[rng.Intn(2)], Marked: true,
				Methods: []Method{{Name: "LeafToLeaf2", SrcType: "Leaf", DstType: "Leaf2", SrcPtr: true, DstPtr: true}}}
			c.Interfaces = append(c.Interfaces, h)
			g.feat("conv-names-method-of-another-interface:" + h.Name)
		}
	}
	if opt.Malformed > 0 {
		g.malform()
	}
	c.SetupPath = "pk/setup.go"
	FixedPackages(c.Files)
	helpers := `
func localConv(i int) string { return strconv.Itoa(i) }
func localConvErr(i int) (string, error) {
	if e := semEnter("localConvErr"); e != nil {
		return "", e
	}
	return strconv.Itoa(i), nil
}
func localPtrConv(i *int) string { return strconv.Itoa(*i) }
func localConvErr2(i int) (string, error) {
	if e := semEnter("localConvErr2"); e != nil {
		return "", e
	}
	return strconv.Itoa(i + 2), nil
}
func localPtrConv64(i *int64) string { return strconv.FormatInt(*i, 10) }
func localConvErr3(i int) (int, error) {
	if e := semEnter("localConvErr3"); e != nil {
		return 0, e
	}
	return i + 3, nil
}
`
	if opt.SiblingUse && rng.Intn(3) == 0 {
		// hand-written code of the package that calls a to-be-generated function: undefined while the
		// tool loads the package (the previous output is hidden), defined once the output exists
	pick:
		for _, it := range c.Interfaces {
			for _, m := range it.Methods {
				recv := false
				for _, n := range m.Notations {
					if strings.HasPrefix(n, ":recv") {
						recv = true
					}
				}
				if !recv && m.RawSig == "" {
					helpers += "\n// generatedUser refers to a function the tool generates.\nvar generatedUser = " + m.Name + "\n"
					g.feat("sibling-refers-to-generated-function")
					break pick
				}
			}
		}
	}
	c.Files["pk/semrt.go"] = SemRuntime
	c.Files["pk/types.go"] = LocalTypes + helpers + g.types.String()
	c.Files["pk/setup.go"] = renderSetup(rng, c, opt)
	return c
}

// renderSetup prints the setup file: build tag, package doc, imports, interfaces and surrounding declarations.
func renderSetup(rng *rand.Rand, c *Case, opt Options) string {
	var sb strings.Builder
	switch rng.Intn(3) {
	case 0:
		sb.WriteString("//go:build convergen\n\n")
	case 1:
		sb.WriteString("//go:build convergen\n// +build convergen\n\n")
	default:
		sb.WriteString("// +build convergen\n\n")
	}
	if opt.ExtraDecls && rng.Intn(3) == 0 {
		sb.WriteString("// Package pk holds generated converters.\n")
		c.Features["package-doc"]++
	}
	sb.WriteString("package pk\n\n")
	sb.WriteString("import (\n\t\"strconv\"\n\n\t\"cvcase/api/v2\"\n")
	if c.DotImport {
		sb.WriteString("\t. \"cvcase/dot\"\n")
		c.Features["dot-import"]++
	} else {
		sb.WriteString("\t\"cvcase/dot\"\n")
	}
	sb.WriteString("\t\"cvcase/ext\"\n")
	switch rng.Intn(4) {
	case 0:
		sb.WriteString("\t_ \"cvcase/ext2\"\n")
		c.Features["blank-import"]++
	default:
		sb.WriteString("\t\"cvcase/ext2\"\n")
	}
	sb.WriteString(")\n\n")
	sb.WriteString("var _ = strconv.Itoa\nvar _ ext.Status\nvar _ v2.Kind\n")
	if c.DotImport {
		sb.WriteString("var _ = DotConv\n")
	} else {
		sb.WriteString("var _ = dot.DotConv\n")
	}
	if opt.ExtraDecls && rng.Intn(2) == 0 {
		sb.WriteString("\n// Version is carried over.\nconst Version = \"1.0\" // trailing comment\n")
		c.Features["decl-before"]++
	}
	order := rng.Perm(len(c.Interfaces))
	for oi, idx := range order {
		it := c.Interfaces[idx]
		sb.WriteString("\n")
		if !it.NoDoc {
			lines := append([]string{}, it.DocLines...)
			for _, n := range it.Notations {
				lines = append(lines, n)
			}
			if it.Marked {
				pos := 0
				if len(lines) > 0 {
					pos = rng.Intn(len(lines) + 1)
				}
				lines = append(lines[:pos], append([]string{":convergen"}, lines[pos:]...)...)
			}
			for _, l := range lines {
				sb.WriteString("// " + l + "\n")
			}
		}
		if gg := oi == 0 && rng.Intn(3) == 0; gg && !it.Bare {
			sb.WriteString("//go:generate go run github.com/reedom/convergen@v0.7.0\n")
			c.Features["go-generate"]++
		}
		fmt.Fprintf(&sb, "type %s interface {\n", it.Name)
		if len(it.Embeds) > 0 {
			fmt.Fprintf(&sb, "\temb%s\n", it.Name)
		}
		for _, m := range it.Methods {
			for _, l := range docBlock(m) {
				sb.WriteString(strings.TrimRight("\t// "+l, " ") + "\n")
			}
			sb.WriteString("\t" + m.signature() + "\n")
		}
		sb.WriteString("}\n")
		if len(it.Embeds) > 0 {
			fmt.Fprintf(&sb, "\ntype emb%s interface {\n", it.Name)
			for _, m := range it.Embeds {
				for _, l := range m.DocLines {
					sb.WriteString("\t// " + l + "\n")
				}
				for _, n := range m.Notations {
					sb.WriteString("\t// " + n + "\n")
				}
				sb.WriteString("\t" + m.signature() + "\n")
			}
			sb.WriteString("}\n")
		}
		if opt.ExtraDecls && rng.Intn(3) == 0 {
			fmt.Fprintf(&sb, "\n// helper%d stays.\nfunc helper%d() int {\n\t// inner comment\n\treturn %d\n}\n", oi, oi, oi)
			c.Features["decl-between"]++
		}
	}
	if opt.ExtraDecls && rng.Intn(3) == 0 {
		sb.WriteString("\n// Plain is not a converter.\n// :since: v1.2\ntype Plain interface {\n\t// Do does.\n\t// :deprecated\n\tDo(x int) string\n}\n")
		c.Features["unmarked-interface"]++
	}
	return sb.String()
}

// docBlock lays out a method's doc comment: the prose lines, then the notation lines — for some methods with a
// prose line or an empty comment line between two notation lines (the notations need not be one block).
func docBlock(m Method) []string {
	lines := append([]string{}, m.DocLines...)
	for i, n := range m.Notations {
		if m.MidPos > 0 && i == m.MidPos {
			lines = append(lines, m.MidLine)
		}
		lines = append(lines, n)
	}
	return lines
}

// FeatureList is a sorted "k=v" rendering.
func (c *Case) FeatureList() []string {
	var ks []string
	for k := range c.Features {
		ks = append(ks, k)
	}
	sort.Strings(ks)
	return ks
}

var malformedNotations = []string{
	":skip", ":map A", ":map", ":conv", ":conv f", ":conv nosuch A", ":literal X", ":literal", ":literal X\u00a0Y", ":literal X\u00a0Y Z",
	":style", ":style bogus", ":match", ":match tag", ":match bogus", ":recv", ":recv 1x", ":recv _", ":recv a-b", ":recv É", ":reverse",
	":unknown foo", ":tag json", ":conv:type x", ":conv:with y", ":skip /(/", ":skip /a**/", ":skip /\\pL/", ":skip /\\Z/", ":skip /\\Q/",
	":preprocess", ":preprocess nosuch", ":postprocess ext.NotFunc", ":preprocess ext.NoResult", ":postprocess len", ":postprocess error",
	":preprocess ext.Itoa", ":postprocess ext.Two", ":preprocess strconv", ":postprocess ext.nosuch", ":preprocess nosuch.F", ":postprocess ext.Three",
	":conv error X", ":conv len X", ":conv ext X", ":conv ext.NotFunc X", ":conv ext.Three X", ":conv ext.NoResult X", ":conv ext.Two X", ":conv a.b.c X",
	":map $x A", ":map $0 A", ":map $99999999999999999999 A", ":map $-1 A", ":map $+1 A", ":map $ A", ":map $1. A", ":map .. A", ":map A. B", ":map () X", ":map A() X",
	":skip \xff\xfe", ":map \xff X", ":literal X \xff", ":convergen", ":case:on", ":getter:on", ":typecast:maybe", ":", ": skip X", ":skip\tX", ":skip  X  extra",
	":skip " + strings.Repeat("A", 300), ":style arg extra", ":style\u00a0arg", ":reverse now",
}

var oddSignatures = []string{
	"%s() *%s", "%s(*%s)", "%s(int) string", "%s(**%s) *%s", "%s(s *%s) (d **%s)", "%s(Namer) *%s", "%s(*%s) Namer", "%s([]%s) []%s",
	"%s(*Nope) *%s", "%s(*%s) *Nope", "%s(*%s, Nope) *%s", "%s(*%s) (*%s, int)", "%s(*%s) (error)", "%s(s, t *%s) *%s", "%s(*%s) (*%s, error, error)",
	"%s(map[string]%s) *%s", "%s(*%s) error", "%s(ext.Person) *%s", "%s(*%s) ext.Pub2", "%s(*%s, ...int) *%s", "%s(*%s, error) *%s",
}

// malform mutates the generated interfaces towards rejected / ill-formed input.
func (g *genState) malform() {
	rng := g.rng
	for ii := range g.c.Interfaces {
		it := &g.c.Interfaces[ii]
		if rng.Float64() < g.opt.Malformed/6 {
			it.Notations = append(it.Notations, g.pick(malformedNotations))
			it.NoDoc = false
			g.feat("malformed-intf-notation")
		}
		for mi := range it.Methods {
			m := &it.Methods[mi]
			if rng.Float64() < g.opt.Malformed {
				n := 1 + rng.Intn(2)
				for k := 0; k < n; k++ {
					line := g.pick(malformedNotations)
					// half of the lines addressing a placeholder field address a real destination field instead,
					// so that the builder consults them
					if fs := g.c.Struct[m.DstType]; len(fs) > 0 && rng.Intn(2) == 0 {
						real := fs[rng.Intn(len(fs))].Name
						for _, ph := range []string{" A", " X"} {
							if strings.HasSuffix(line, ph) {
								line = strings.TrimSuffix(line, ph) + " " + real
								g.feat("malformed-notation-on-real-field")
								break
							}
						}
					}
					pos := rng.Intn(len(m.Notations) + 1)
					m.Notations = append(m.Notations[:pos], append([]string{line}, m.Notations[pos:]...)...)
				}
				g.feat("malformed-notation")
				if fs := g.c.Struct[m.DstType]; len(fs) > 0 && rng.Intn(5) == 0 {
					// additional-argument references at the edges of their range, on a real destination field
					ref := g.pick([]string{"$0", "$0.X", "$-1", "$+1", "$00", "$1", "$2", "$3", "$9", "$99999999999999999999", "$1.", "$ 1", "$2.Name()"})
					m.Notations = append(m.Notations, ":map "+ref+" "+fs[rng.Intn(len(fs))].Name)
					g.feat("argument-reference-edge")
				}
				// the two-step recipes for the stateful matcher
				if rng.Intn(6) == 0 {
					m.Notations = append(m.Notations, ":skip /\\pL/", ":case:off")
					g.feat("skip-then-case-off")
				}
				if rng.Intn(6) == 0 {
					m.Notations = append(m.Notations, ":case:off", ":skip /\\Z/", ":case")
					g.feat("case-off-skip-case")
				}
			}
			if rng.Float64() < g.opt.Malformed/4 {
				f := g.pick(oddSignatures)
				nargs := strings.Count(f, "%s")
				args := []any{m.Name}
				for k := 1; k < nargs; k++ {
					if k%2 == 1 {
						args = append(args, m.SrcType)
					} else {
						args = append(args, m.DstType)
					}
				}
				m.RawSig = fmt.Sprintf(f, args...)
				g.feat("odd-signature")
			}
		}
	}
	if rng.Float64() < g.opt.Malformed/8 {
		for ii := range g.c.Interfaces {
			g.c.Interfaces[ii].Name = "Plain" + g.c.Interfaces[ii].Name
			g.c.Interfaces[ii].Marked = false
		}
		g.feat("no-converter-interface")
	}
}

// GenerateMalformed is Generate with the malformed stream switched on.
func GenerateMalformed(seed int64, index int, opt Options) *Case {
	if opt.Malformed == 0 {
		opt.Malformed = 0.5
	}
	return Generate(seed, index, opt)
}

// GenerateSelection varies which interfaces are marked and adds sibling files with marked interfaces (C17).
func GenerateSelection(seed int64, index int, opt Options) *Case {
	c := Generate(seed, index, opt)
	rng := rand.New(rand.NewSource(seed*7919 + int64(index)))
	if rng.Intn(2) == 0 {
		c.Files["pk/sibling.go"] = "//go:build convergen\n\npackage pk\n\n// :convergen\ntype SiblingMarked interface {\n\tSibConv(*Leaf) *Leaf2\n}\n"
		c.Features["sibling-marked-interface"]++
	}
	if c.Interfaces[0].Name != "Convergen" && rng.Intn(2) == 0 {
		// a sibling file whose NAME ends with the input's name, declaring an interface called Convergen
		c.Files["pk/legacy_setup.go"] = "//go:build convergen\n\npackage pk\n\ntype Convergen interface {\n\tLegacyConv(*Leaf) *Leaf2\n}\n"
		c.Features["sibling-named-like-input-with-Convergen"]++
	}
	if len(c.Interfaces) >= 2 && rng.Intn(2) == 0 {
		// the same method names under different receivers in two interfaces, same receiver identifier
		a, b := &c.Interfaces[0], &c.Interfaces[1]
		n := len(a.Methods)
		if len(b.Methods) < n {
			n = len(b.Methods)
		}
		for k := 0; k < n; k++ {
			b.Methods[k].Name = a.Methods[k].Name
			for _, mm := range []*Method{&a.Methods[k], &b.Methods[k]} {
				mm.RawSig = ""
				var keep []string
				for _, nn := range mm.Notations {
					if !strings.HasPrefix(nn, ":recv") && !strings.HasPrefix(nn, ":reverse") {
						keep = append(keep, nn)
					}
				}
				mm.Notations = append(keep, ":recv m")
			}
		}
		c.Features["same-method-names-different-receivers"]++
		c.Files[c.SetupPath] = renderSetup(rng, c, opt)
	}
	if rng.Intn(6) == 0 {
		// no converter interface in the input file, but one named Convergen in a sibling file
		for i := range c.Interfaces {
			c.Interfaces[i].Marked = false
			if c.Interfaces[i].Name == "Convergen" {
				c.Interfaces[i].Name = "NotAConverter"
			}
			c.Interfaces[i].Notations = nil
		}
		c.Files["pk/sibling2.go"] = "//go:build convergen\n\npackage pk\n\ntype Convergen interface {\n\tSib2(*Leaf) *Leaf2\n}\n"
		c.Features["converter-only-in-sibling"]++
		c.Files[c.SetupPath] = renderSetup(rng, c, opt)
	}
	return c
}

// OnlyMethod returns a copy of the case whose setup file contains only the
// interface declaring the named method, with that method alone (C09: each
// method's result must be the same as if it were the only method present).
func (c *Case) OnlyMethod(name string, opt Options) *Case {
	nc := &Case{Seed: c.Seed, Index: c.Index, Files: tool.Files{}, Features: map[string]int{}, Struct: c.Struct, SetupPath: c.SetupPath, DotImport: c.DotImport}
	for k, v := range c.Files {
		nc.Files[k] = v
	}
	for _, it := range c.Interfaces {
		for _, m := range it.Methods {
			if m.Name == name {
				one := it
				one.Methods = []Method{m}
				one.Embeds = nil
				nc.Interfaces = []Interface{one}
			}
		}
		for _, m := range it.Embeds {
			if m.Name == name {
				// the promoted method alone: the converter interface keeps only its embedded interface
				one := it
				one.Methods = nil
				one.Embeds = []Method{m}
				nc.Interfaces = []Interface{one}
			}
		}
	}
	rng := rand.New(rand.NewSource(c.Seed*31 + int64(c.Index)))
	nc.Files[c.SetupPath] = renderSetup(rng, nc, opt)
	return nc
}

// SignatureCase builds one setup file from explicit methods (C08's enumeration).
func SignatureCase(seed int64, index int, methods []Method, extraTypes string, intfNotations []string) *Case {
	c := &Case{Seed: seed, Index: index, Files: tool.Files{}, Features: map[string]int{}, Struct: map[string][]FieldDecl{}, SetupPath: "pk/setup.go"}
	c.Interfaces = []Interface{{Name: "Convergen", Methods: methods, Notations: intfNotations, NoDoc: len(intfNotations) == 0}}
	FixedPackages(c.Files)
	c.Files["pk/types.go"] = LocalTypes + extraTypes
	rng := rand.New(rand.NewSource(seed*17 + int64(index)))
	c.Files["pk/setup.go"] = strings.Replace(renderSetup(rng, c, Options{}), "\t_ \"cvcase/ext2\"", "\t\"cvcase/ext2\"", 1)
	return c
}

// GenerateLayout draws files that differ in incidental layout: comments in every
// position, interface sizes from one very short method up, declarations around
// and between converter interfaces, build-constraint spellings (C03, C11).
func GenerateLayout(seed int64, index int, compound bool) *Case {
	rng := rand.New(rand.NewSource(seed*104729 + int64(index)))
	c := &Case{Seed: seed, Index: index, Files: tool.Files{}, Features: map[string]int{}, Struct: map[string][]FieldDecl{}, SetupPath: "pk/setup.go"}
	FixedPackages(c.Files)
	c.Files["pk/semrt.go"] = SemRuntime
	c.Files["pk/types.go"] = LocalTypes + "\ntype LS struct {\n\tA int\n\tB string\n}\ntype LD struct {\n\tA int\n\tB string\n}\nfunc conv(i int) int { return i }\n"
	var sb strings.Builder
	feat := func(f string) { c.Features[f]++ }
	pick := func(n int) int { return rng.Intn(n) }
	switch pick(5) {
	case 0:
		sb.WriteString("//go:build convergen\n\n")
	case 1:
		sb.WriteString("//go:build convergen\n// +build convergen\n\n")
	case 2:
		sb.WriteString("// +build convergen\n\n")
	case 3:
		sb.WriteString("// Copyright notice stays.\n\n//go:build convergen\n\n")
		feat("license-before-constraint")
	default:
		if compound {
			sb.WriteString("//go:build linux && convergen\n\n")
			feat("compound-constraint")
		} else {
			sb.WriteString("//go:build convergen\n\n")
		}
	}
	if pick(2) == 0 {
		sb.WriteString("// Package pk is documented here.\n// :typecast\n")
		feat("package-doc-with-notation-like-line")
	}
	sb.WriteString("package pk\n\n")
	if pick(2) == 0 {
		sb.WriteString("import (\n\t// ext is used below\n\t\"cvcase/ext\" // trailing import comment\n)\n\nvar _ ext.Status\n")
		feat("import-comments")
	} else {
		sb.WriteString("import \"cvcase/ext\"\n\nvar _ ext.Status\n")
	}
	decl := func(k int) string {
		switch pick(8) {
		case 7:
			// another generator's directive, on a declaration of its own
			feat("foreign-go-generate-directive")
			return fmt.Sprintf("\n// Kind%d is enumerated.\n//\n//go:generate stringer -type=Kind%d\ntype Kind%d int\n", k, k, k)
		case 0:
			return fmt.Sprintf("\n// Const%d is kept.\nconst Const%d = %d // trailing\n", k, k, k)
		case 1:
			return fmt.Sprintf("\n/* block comment before var%d */\nvar Var%d = \"v\"\n", k, k)
		case 2:
			return fmt.Sprintf("\n// helper%d does things.\n// :since: v1.%d\nfunc helper%d() int {\n\t// inner comment\n\treturn %d /* inline */\n}\n", k, k, k, k)
		case 3:
			return fmt.Sprintf("\n// Plain%d is an ordinary interface.\n// :note: not a converter\ntype Plain%d interface {\n\t// Do does.\n\tDo(x int) string // trailing method comment\n}\n", k, k)
		case 4:
			return fmt.Sprintf("\ntype (\n\t// T%da in a group.\n\tT%da struct{ X int }\n\t// T%db in a group.\n\tT%db int\n)\n", k, k, k, k)
		case 5:
			return fmt.Sprintf("\n// floating comment %d\n\n// Typ%d doc.\ntype Typ%d struct {\n\t// field doc\n\tF int // field trailing\n}\n", k, k, k)
		default:
			return fmt.Sprintf("\nvar v%d = func() int {\n\t//go:generate echo inside a function body\n\treturn %d\n}()\n", k, k)
		}
	}
	k := 0
	for i := 0; i < pick(3); i++ {
		k++
		sb.WriteString(decl(k))
		feat("decl-before")
	}
	nIntf := 1 + pick(3)
	names := []string{"Convergen", "Backend", "Loader"}
	if pick(3) == 0 {
		names[1] = "AccountStorageBackend" // a long name: whatever is derived from it (markers, positions) gets long too
		feat("long-interface-name")
	}
	if nIntf > 1 && pick(2) == 0 {
		// the file order need not be the (sorted) processing order
		names[0], names[1] = names[1], names[0]
		feat("interfaces-not-in-name-order")
	}
	mi := 0
	for i := 0; i < nIntf; i++ {
		it := Interface{Name: names[i], Marked: names[i] != "Convergen"}
		adjacent := i > 0 && pick(3) == 0
		if !adjacent {
			sb.WriteString("\n")
		}
		docStyle := pick(4)
		if adjacent && !it.Marked {
			docStyle = 3 // doc-less, directly after the previous declaration's closing brace
			feat("docless-interface-adjacent-to-previous")
		}
		if it.Marked && docStyle == 3 {
			docStyle = 0
		}
		switch docStyle {
		case 0:
			sb.WriteString("// " + it.Name + " converts.\n")
			if it.Marked {
				sb.WriteString("// :convergen\n")
			}
			if pick(2) == 0 {
				sb.WriteString("// :typecast\n")
				it.Notations = append(it.Notations, ":typecast")
			}
		case 1:
			if it.Marked {
				sb.WriteString("// :convergen\n")
			} else {
				sb.WriteString("// only a doc line\n")
			}
		case 2:
			if it.Marked {
				sb.WriteString("// :convergen\n")
			}
			sb.WriteString("//go:generate go run github.com/reedom/convergen@v0.7.0\n")
			feat("go-generate-on-interface")
		default:
			it.NoDoc = true
			feat("interface-without-doc")
		}
		nm := 1 + pick(4)
		oneLine := nm == 1 && pick(3) == 0
		if oneLine {
			mi++
			mname := []string{"F", "Fn", "Conv", "ConvertIt", "AVeryLongMethodNameIndeed"}[pick(5)]
			mname = fmt.Sprintf("%s%d", mname, mi)
			m := Method{Name: mname, SrcType: "LS", DstType: "LD"}
			fmt.Fprintf(&sb, "type %s interface{ %s(LS) LD }\n", it.Name, mname)
			it.Methods = append(it.Methods, m)
			feat("one-line-interface")
		} else {
			fmt.Fprintf(&sb, "type %s interface {\n", it.Name)
			for j := 0; j < nm; j++ {
				mi++
				m := Method{Name: fmt.Sprintf("M%d", mi), SrcType: "LS", DstType: "LD", SrcPtr: pick(2) == 0, DstPtr: pick(2) == 0}
				switch pick(6) {
				case 0:
					m.DocLines = []string{fmt.Sprintf("M%d is documented.", mi), "second line."}
					if pick(2) == 0 {
						m.DocLines = append(m.DocLines, "Price is quoted in $USD, e.g. $5 per ${unit} and $1; 100% of it, %d and %s are only text.")
						feat("dollar-in-method-doc")
					}
				case 1:
					m.DocLines = []string{fmt.Sprintf("M%d with notation.", mi)}
					m.Notations = []string{":conv conv A"}
				case 2:
					m.Notations = []string{":skip B"}
				case 3:
					sb.WriteString("\t/* block comment inside the interface */\n")
					feat("block-comment-in-interface")
				case 4:
					sb.WriteString("\n\t// detached comment inside the interface\n\n")
					feat("detached-comment-in-interface")
				}
				for _, l := range m.DocLines {
					sb.WriteString("\t// " + l + "\n")
				}
				for _, n := range m.Notations {
					sb.WriteString("\t// " + n + "\n")
				}
				trail := ""
				if pick(4) == 0 {
					trail = " // trailing comment on a method"
					feat("trailing-method-comment")
				}
				sb.WriteString("\t" + m.signature() + trail + "\n")
				it.Methods = append(it.Methods, m)
			}
			sb.WriteString("}\n")
		}
		c.Interfaces = append(c.Interfaces, it)
		if pick(2) == 0 {
			k++
			sb.WriteString(decl(k))
			feat("decl-between-or-after")
		}
	}
	c.Files["pk/setup.go"] = sb.String()
	return c
}
