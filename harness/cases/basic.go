// Package cases holds generators of scratch Go modules (setup packages) and
// small fixed inputs.
package cases

import (
	"fmt"
	"os"
	"path/filepath"

	"verif/harness/tool"
)

// GoMod is the go.mod of every scratch module: no external dependencies so
// that `go list` works offline.
const GoMod = "module cvcase\n\ngo 1.19\n"

// Fixed small accepted inputs (setup file content keyed by a short name).
var Fixed = map[string]string{
	"simple": `//go:build convergen

package pk

type S struct {
	A int
	B string
}

type D struct {
	A int
	B string
}

//go:generate go run github.com/reedom/convergen@v0.7.0
type Convergen interface {
	// ToD copies 100% of the fields (%d, %s and %% are only text here).
	ToD(*S) *D
}
`,
	"undeflit": `//go:build convergen

package pk

type S struct {
	A int
}

type D struct {
	A     int
	Owner string
}

type Convergen interface {
	// :literal Owner defaultOwner
	ToD(*S) *D
}
`,
	"twointf": `//go:build convergen
// +build convergen

package pk

import "strconv"

type S struct {
	A int
	N []string
}

type D struct {
	A string
	N []string
}

func itoa(i int) string { return strconv.Itoa(i) }

type Convergen interface {
	// :conv itoa A
	ToD(s *S) (d *D)
}

// :convergen
type Other interface {
	// :style arg
	// :skip A
	Fill(s S) (d D, err error)
}
`,
	"hooks": `//go:build convergen

package pk

type S struct{ X, Y int }
type D struct{ X, Y int }

func pre(d *D, s *S) error  { return nil }
func post(d *D, s *S)       {}

type Convergen interface {
	// :preprocess pre
	// :postprocess post
	Conv(*S) (*D, error)
}
`,
}

// NewScratch creates a scratch module directory (outside /repo and /verif)
// containing go.mod and the given files; the caller removes it.
func NewScratch(prefix string, files tool.Files) (string, error) {
	dir, err := os.MkdirTemp(tool.ScratchRoot(), "cv-"+prefix+"-")
	if err != nil {
		return "", err
	}
	all := tool.Files{"go.mod": GoMod}
	for k, v := range files {
		all[k] = v
	}
	if err := tool.Materialize(dir, all); err != nil {
		os.RemoveAll(dir)
		return "", err
	}
	return dir, nil
}

// SaveReplay stores files and a description under /verif/build/replay/<prop>/<name>.
func SaveReplay(prop, name string, files tool.Files, readme string) string {
	dir := filepath.Join(ReplayRoot(), prop, name)
	os.RemoveAll(dir)
	_ = tool.Materialize(dir, files)
	_ = os.WriteFile(filepath.Join(dir, "REPLAY.txt"), []byte(readme), 0o644)
	return dir
}

// ReplayRoot is where replays of violations are written.
func ReplayRoot() string {
	if p := os.Getenv("VERIF_REPLAY_DIR"); p != "" {
		return p
	}
	return "/verif/build/replay"
}

func init() { _ = fmt.Sprint }

// Rejected or failing inputs (for C14/C15).
var Rejected = map[string]string{
	"nointf": `//go:build convergen

package pk

type S struct{ A int }
`,
	"badstyle": `//go:build convergen

package pk

type S struct{ A int }
type D struct{ A int }

type Convergen interface {
	// :style bogus
	ToD(*S) *D
}
`,
	"fmtfail": `//go:build convergen

package pk

type S struct{ A int }
type D struct{ A int; Note string }

type Convergen interface {
	// :literal Note strings.ToUpper("x"
	ToD(*S) *D
}
`,
	"syntax": `//go:build convergen

package pk

type S struct{ A int 
`,
}
