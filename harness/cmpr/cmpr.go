// Package cmpr compares what the implementation did on a setup file with what
// the model (case `gen`) computes from the dump of the same package.
package cmpr

import (
	"fmt"
	"go/ast"
	"go/format"
	"go/parser"
	"go/token"
	"regexp"
	"strings"

	"verif/harness/sx"
)

// Impl is the observed behaviour of the binary on one setup file.
type Impl struct {
	Status   int
	Stdout   string
	Stderr   string
	Output   string // content of the output file ("" if none)
	HasOut   bool
	Panicked bool
	TimedOut bool
}

// Model is the decoded result of the model's `gen` case.
type Model struct {
	Kind   string // ok | err | panic | fuel | unsup | decode-error
	Msg    string
	Stderr []string
	Stdout []string
	Blocks []Block
	Raw    *sx.Node
	DumpWF bool // Pipeline.dump_wf_b on the dump: the hypothesis of the no-panic theorem
	RankOK bool // Pipeline.rank_ok_b: the hypothesis of the no-fuel-exhaustion theorem
}

type Block struct {
	Index int
	Intf  string
	Funcs []Func
}

type Func struct {
	Name, Recv, Text, Header string
	Assign                   *sx.Node
}

// DecodeModel decodes the s-expression returned by the model.
func DecodeModel(n *sx.Node) Model {
	m := Model{Kind: n.Tag(), Raw: n}
	evs := n.Arg(0)
	if evs != nil {
		for _, e := range evs.List {
			switch e.Tag() {
			case "stderr":
				m.Stderr = append(m.Stderr, e.Arg(0).Str())
			case "stdout":
				m.Stdout = append(m.Stdout, e.Arg(0).Str())
			}
		}
	}
	if len(n.List) > 0 {
		if last := n.List[len(n.List)-1]; !last.IsAtom && last.Tag() == "wf" {
			m.DumpWF = last.Arg(0).Str() == "1"
			m.RankOK = last.Arg(1) != nil && last.Arg(1).Str() == "1"
		}
	}
	switch m.Kind {
	case "ok":
		for _, b := range n.Arg(1).List {
			blk := Block{Index: b.Arg(0).Int(), Intf: b.Arg(1).Str()}
			for _, f := range b.Arg(2).List {
				blk.Funcs = append(blk.Funcs, Func{Name: f.Arg(0).Str(), Recv: f.Arg(1).Str(), Text: f.Arg(2).Str(), Assign: f.Arg(3), Header: f.Arg(4).Str()})
			}
			m.Blocks = append(m.Blocks, blk)
		}
	case "err", "panic", "unsup":
		m.Msg = n.Arg(1).Str()
	case "decode-error":
		m.Msg = n.Arg(0).Str()
	}
	return m
}

var rePathPrefix = regexp.MustCompile(`^(/[^\s:]*\.go|[A-Za-z0-9_./-]+\.go):`)

// NormStderr strips the file name in front of positions and drops empty lines.
func NormStderr(s string) []string {
	var res []string
	for _, l := range strings.Split(s, "\n") {
		if l == "" {
			continue
		}
		l = rePathPrefix.ReplaceAllString(l, "")
		res = append(res, l)
	}
	return res
}

// FormatFunc formats one generated function as gofmt prints it inside a file.
func FormatFunc(text string) (string, error) {
	src := "package p\n\n" + text
	b, err := format.Source([]byte(src))
	if err != nil {
		return "", err
	}
	return strings.TrimSpace(strings.TrimPrefix(string(b), "package p\n")), nil
}

// FuncDecls returns the source text of every top-level function of a Go file,
// keyed by "recvType.Name" (recvType empty for plain functions), doc comment included.
func FuncDecls(src string) (map[string][]string, error) {
	fset := token.NewFileSet()
	f, err := parser.ParseFile(fset, "out.go", src, parser.ParseComments)
	if err != nil {
		return nil, err
	}
	res := map[string][]string{}
	for _, d := range f.Decls {
		fd, ok := d.(*ast.FuncDecl)
		if !ok {
			continue
		}
		start := fd.Pos()
		if fd.Doc != nil {
			start = fd.Doc.Pos()
		}
		text := src[fset.Position(start).Offset:fset.Position(fd.End()).Offset]
		key := fd.Name.Name
		if fd.Recv != nil && len(fd.Recv.List) == 1 {
			key = "(recv)." + key
		}
		res[key] = append(res[key], text)
	}
	return res, nil
}

// Diff describes one disagreement.
type Diff struct {
	What  string
	Model string
	Impl  string
}

// Compare projects both sides and lists the disagreements. Unsup/decode errors are reported by the caller.
func Compare(im Impl, m Model) []Diff {
	var ds []Diff
	if !m.RankOK && m.Kind != "decode-error" {
		ds = append(ds, Diff{"well-founded struct containment (Pipeline.rank_ok_b, hypothesis of C14_no_fuel_exhaustion)", "true for every dump the harness produces", "false"})
	}
	if !m.DumpWF && m.Kind != "decode-error" {
		ds = append(ds, Diff{"dump well-formedness (Pipeline.dump_wf_b, hypothesis of C14_no_panic)", "true for every dump the harness produces", "false"})
	}
	implClass := "ok"
	switch {
	case im.Panicked:
		implClass = "panic"
	case im.TimedOut:
		implClass = "timeout"
	case im.Status != 0:
		implClass = "err"
	}
	// the model's `ok` covers the pipeline up to the function blocks; base-code / formatting failures come later
	// failures after the function blocks are built (imports.Process / format.Source / write) are outside this model's `ok`
	late := implClass == "err" && m.Kind == "ok" && (strings.Contains(im.Stderr, "error on optimizing imports") ||
		strings.Contains(im.Stderr, "error on formatting") || strings.Contains(im.Stderr, "error on writing"))
	if late {
		cut := im.Stderr
		for _, marker := range []string{"error on optimizing imports", "error on formatting", "error on writing"} {
			if i := strings.Index(cut, marker); i >= 0 {
				cut = cut[:i]
			}
		}
		is := NormStderr(cut)
		if strings.Join(is, "\n") != strings.Join(m.Stderr, "\n") {
			ds = append(ds, Diff{"stderr lines (before the late failure)", strings.Join(m.Stderr, "\n"), strings.Join(is, "\n")})
		}
		return ds
	}
	if m.Kind != implClass {
		ds = append(ds, Diff{"outcome class", m.Kind + " " + m.Msg, fmt.Sprintf("%s (status %d)", implClass, im.Status)})
		return ds
	}
	if implClass == "panic" {
		return ds
	}
	is := NormStderr(im.Stderr)
	if strings.Join(is, "\n") != strings.Join(m.Stderr, "\n") {
		ds = append(ds, Diff{"stderr lines", strings.Join(m.Stderr, "\n"), strings.Join(is, "\n")})
	}
	if implClass != "ok" {
		return ds
	}
	// stdout: "unknown notation" lines (the code itself is compared below)
	var so []string
	for _, l := range strings.Split(im.Stdout, "\n") {
		if strings.Contains(l, ": unknown notation ") {
			so = append(so, rePathPrefix.ReplaceAllString(l, ""))
		}
	}
	if strings.Join(so, "\n") != strings.Join(m.Stdout, "\n") {
		ds = append(ds, Diff{"stdout notation lines", strings.Join(m.Stdout, "\n"), strings.Join(so, "\n")})
	}
	if !im.HasOut {
		return ds
	}
	decls, err := FuncDecls(im.Output)
	if err != nil {
		ds = append(ds, Diff{"output does not parse", "", err.Error()})
		return ds
	}
	for _, b := range m.Blocks {
		for _, f := range b.Funcs {
			want, err := FormatFunc(f.Text)
			if err != nil {
				ds = append(ds, Diff{"model function does not format: " + f.Name, f.Text, err.Error()})
				continue
			}
			key := f.Name
			if f.Recv != "" {
				key = "(recv)." + key
			}
			found := false
			for _, got := range decls[key] {
				if strings.TrimSpace(got) == want {
					found = true
				}
			}
			if !found {
				ds = append(ds, Diff{"function " + key, want, strings.Join(decls[key], "\n---\n")})
			}
		}
	}
	return ds
}
