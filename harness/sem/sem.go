// Package sem generates Go test drivers that execute the functions convergen
// generated and check their run-time behaviour against the properties
// (C02 copy semantics, C07 error propagation, C10 hooks, C16 slices), reading
// only the real output and the setup file — never the Coq model.
package sem

import (
	"fmt"
	"go/ast"
	"go/parser"
	"go/printer"
	"go/token"
	"regexp"
	"strings"
)

// Entry is one item of a generated function body (as parsed from the real output).
type Entry struct {
	Kind string // assign | skip | nomatch | slice | hook | init | other
	Path string
	RHS  string
	Err  bool
	Raw  string
}

// Func is a generated function read back from the output.
type Func struct {
	Name    string
	Text    string
	Entries []Entry
	Style   string // return | arg (documented style of the method)
	Reverse bool
	// slice-typed destination fields with a same-named slice-typed source member (from the generator's
	// knowledge of the struct pair, not from the output): C16 is checked on them whatever code was emitted
	SlicePairs []SlicePair
}

// SlicePair names a destination field and the same-named source member.
type SlicePair struct {
	Dst, Src string
	Getter   bool
	Named    bool // source or destination is a named slice type
}

type param struct{ Name, Type string }

type header struct {
	Recv    *param
	Params  []param
	Results []param
}

func exprString(e ast.Expr) string {
	var sb strings.Builder
	_ = printer.Fprint(&sb, token.NewFileSet(), e)
	return sb.String()
}

func parseHeader(text string) (*header, error) {
	f, err := parser.ParseFile(token.NewFileSet(), "f.go", "package p\n"+text, 0)
	if err != nil {
		return nil, err
	}
	for _, d := range f.Decls {
		fd, ok := d.(*ast.FuncDecl)
		if !ok {
			continue
		}
		h := &header{}
		fields := func(fl *ast.FieldList) []param {
			var ps []param
			if fl == nil {
				return ps
			}
			for _, f := range fl.List {
				t := exprString(f.Type)
				if len(f.Names) == 0 {
					ps = append(ps, param{"", t})
				}
				for _, n := range f.Names {
					ps = append(ps, param{n.Name, t})
				}
			}
			return ps
		}
		if fd.Recv != nil {
			r := fields(fd.Recv)
			if len(r) == 1 {
				h.Recv = &r[0]
			}
		}
		h.Params = fields(fd.Type.Params)
		h.Results = fields(fd.Type.Results)
		return h, nil
	}
	return nil, fmt.Errorf("no function")
}

var reIdentStart = regexp.MustCompile(`^[A-Za-z_][A-Za-z0-9_]*`)

// calleeKey: the instrumentation key of an error-capable right-hand side.
func calleeKey(rhs string, srcVar, srcType string) string {
	rhs = strings.TrimSpace(rhs)
	i := strings.Index(rhs, "(")
	if i < 0 {
		return ""
	}
	callee := rhs[:i]
	if strings.HasPrefix(callee, srcVar+".") {
		// getter chain on the source: the last element is the error-capable getter
		parts := strings.Split(strings.TrimSuffix(rhs, "()"), ".")
		return strings.TrimPrefix(srcType, "*") + "." + strings.TrimSuffix(parts[len(parts)-1], "()")
	}
	return callee
}

// Driver renders the test file for one package. funcs: generated functions in the output.
func Driver(funcs []Func, srcTypes map[string]string, dotImport bool) string {
	var sb strings.Builder
	sb.WriteString("package pk\n\nimport (\n\t\"errors\"\n\t\"fmt\"\n\t\"os\"\n\t\"strconv\"\n\t\"testing\"\n\n\tv2 \"cvcase/api/v2\"\n\t\"cvcase/deep\"\n\t\"cvcase/dot\"\n" + map[bool]string{true: "\t. \"cvcase/dot\"\n", false: ""}[dotImport] + "\t\"cvcase/ext\"\n\t\"cvcase/ext2\"\n)\n\nvar _ = errors.New\nvar _ ext.Status\nvar _ ext2.Status\nvar _ v2.Kind\nvar _ deep.Item\nvar _ dot.Kind\n" + map[bool]string{true: "var _ = DotConv\n", false: ""}[dotImport] + "var _ = fmt.Sprint\nvar _ = strconv.Itoa\n\n")
	var calls []string
	for _, f := range funcs {
		h, err := parseHeader(f.Text)
		if err != nil {
			continue
		}
		code := driverFor(f, h, srcTypes[f.Name])
		if code == "" {
			continue
		}
		sb.WriteString(code)
		calls = append(calls, "semRun_"+f.Name)
	}
	sb.WriteString("func TestSem(t *testing.T) {\n")
	for _, c := range calls {
		for mode := 0; mode <= 4; mode++ {
			fmt.Fprintf(&sb, "\t%s(%d)\n", c, mode)
		}
	}
	sb.WriteString("\tfor _, v := range semViolations {\n\t\tfmt.Fprintf(os.Stdout, \"SEMVIOL\\t%s\\t%s\\t%q\\n\", v.Method, v.Sig, v.Detail)\n\t}\n}\n")
	return sb.String()
}

func rootOf(path string) string {
	if i := strings.Index(path, "."); i >= 0 {
		return path[:i]
	}
	return path
}

// driverFor writes semRun_<name>(mode int).
func driverFor(f Func, h *header, srcType string) string {
	var sb strings.Builder
	w := func(format string, a ...any) { fmt.Fprintf(&sb, format, a...) }
	// operands as documented: [dst *D,] src, args... ; receiver = src
	params := append([]param{}, h.Params...)
	var dstP, srcP param
	hasErr := false
	switch f.Style {
	case "arg":
		if len(params) == 0 {
			return ""
		}
		dstP = params[0]
		params = params[1:]
		for _, r := range h.Results {
			if r.Type == "error" {
				hasErr = true
			}
		}
	default:
		if len(h.Results) == 0 {
			return ""
		}
		dstP = h.Results[0]
		if len(h.Results) > 1 {
			hasErr = true
		}
	}
	if h.Recv != nil {
		srcP = *h.Recv
	} else {
		if len(params) == 0 {
			return ""
		}
		srcP = params[0]
		params = params[1:]
	}
	args := params
	if dstP.Name == "" || srcP.Name == "" {
		return ""
	}
	for _, a := range args {
		if a.Name == "" {
			return ""
		}
	}
	// under :reverse the roles are swapped: the function writes into its "source" parameter
	lhsVar, rhsVar := dstP.Name, srcP.Name
	if f.Reverse {
		lhsVar, rhsVar = srcP.Name, dstP.Name
	}
	_ = rhsVar

	w("func semRun_%s(mode int) {\n", f.Name)
	w("\tconst method = %q\n", f.Name)
	// the recorded finding: an explicit source path read through a pointer member (Nest.A, WhoP.Age()) while that
	// pointer is nil; a panic of a function without such a path is something else
	hop := regexp.MustCompile(`\.(Nest|WhoP)\.`).MatchString(f.Text)
	// second recorded finding: an opted-in String() call on a pointer-typed member whose method has a value
	// receiver dereferences the nil pointer at the call site
	strHop := !hop && regexp.MustCompile(`= [A-Za-z_][A-Za-z0-9_.]*\.String\(\)`).MatchString(f.Text)
	w("\tdefer func() {\n\t\tif r := recover(); r != nil {\n\t\t\tsig := \"generated-function-panics\"\n\t\t\tif mode == 1 && %v {\n\t\t\t\tsig = \"generated-function-panics-on-nil-nested-pointer\"\n\t\t\t}\n\t\t\tif mode == 1 && %v {\n\t\t\t\tsig = \"generated-function-panics-on-String-call-through-nil-pointer\"\n\t\t\t}\n\t\t\tif o := semPanicOrigin(); o != \"setup.gen.go\" {\n\t\t\t\t// the property excepts panics of user-supplied getters, String methods, converters and hooks\n\t\t\t\tsig = \"user-supplied-function-panicked:\" + o\n\t\t\t}\n", hop, strHop)
	w("\t\t\tsemReport(method, sig, fmt.Sprintf(\"mode=%%d: %%v\", mode, r))\n\t\t}\n\t}()\n")
	// operands
	w("\t%s := fillNew[%s](1, mode)\n", srcP.Name, srcP.Type)
	for i, a := range args {
		w("\t%s := fillNew[%s](%d, mode)\n", a.Name, a.Type, 100*(i+2))
	}
	dstIsPtr := strings.HasPrefix(dstP.Type, "*")
	if f.Style == "arg" {
		w("\t%s := fillNew[%s](500, 0)\n", dstP.Name, dstP.Type)
		w("\tbefore := deepCopy(%s)\n", dstP.Name)
	} else {
		if dstIsPtr {
			w("\tbefore := new(%s)\n", strings.TrimPrefix(dstP.Type, "*"))
		} else {
			w("\tvar before %s\n", dstP.Type)
		}
	}
	w("\tsrcCopy := deepCopy(%s)\n\t_, _ = before, srcCopy\n", srcP.Name)
	for _, a := range args {
		w("\t%sCopy := deepCopy(%s)\n\t_ = %sCopy\n", a.Name, a.Name, a.Name)
	}
	// the call, as a closure (reused by the fault enumeration)
	var callArgs []string
	if f.Style == "arg" {
		callArgs = append(callArgs, dstP.Name)
	}
	if h.Recv == nil {
		callArgs = append(callArgs, srcP.Name)
	}
	for _, a := range args {
		callArgs = append(callArgs, a.Name)
	}
	callee := f.Name
	if h.Recv != nil {
		callee = srcP.Name + "." + f.Name
	}
	call := fmt.Sprintf("%s(%s)", callee, strings.Join(callArgs, ", "))
	w("\tsemReset()\n")
	switch {
	case f.Style == "arg" && hasErr:
		w("\terr := %s\n\tgot := %s\n", call, dstP.Name)
	case f.Style == "arg":
		w("\t%s\n\tvar err error\n\tgot := %s\n", call, dstP.Name)
	case hasErr:
		w("\tgot, err := %s\n", call)
	default:
		w("\tgot := %s\n\tvar err error\n", call)
	}
	w("\ttrace := append([]string{}, SemTrace...)\n\thooks := append([]semHookCall{}, semHookCalls...)\n\t_, _ = trace, hooks\n")
	w("\tif err != nil {\n\t\tsemReport(method, \"error-returned-although-no-user-function-failed\", err.Error())\n\t\treturn\n\t}\n")
	if f.Reverse {
		// the written object is the source parameter; the read object the destination parameter
		w("\t_ = got\n")
	}
	// C02: source and arguments unmodified (for :reverse: the read object is the dst parameter)
	if !f.Reverse {
		w("\tif !sameValue(%s, srcCopy) {\n\t\tsemReport(method, \"source-operand-modified\", fmt.Sprint(diffFields(%s, srcCopy)))\n\t}\n", srcP.Name, srcP.Name)
	}
	for _, a := range args {
		w("\tif !sameValue(%s, %sCopy) {\n\t\tsemReport(method, \"additional-argument-modified\", %q)\n\t}\n", a.Name, a.Name, a.Name)
	}
	if !f.Reverse {
		// expected destination: pre-state + the assignments read back from the output, evaluated on the copies
		w("\texp := deepCopy(before)\n")
		w("\t{\n\t\t%s := srcCopy\n\t\t_ = %s\n", srcP.Name, srcP.Name)
		for _, a := range args {
			w("\t\t%s := %sCopy\n\t\t_ = %s\n", a.Name, a.Name, a.Name)
		}
		for _, e := range f.Entries {
			if !strings.HasPrefix(e.Path, lhsVar+".") {
				continue
			}
			p := strings.TrimPrefix(e.Path, lhsVar)
			switch e.Kind {
			case "assign":
				if e.Err {
					w("\t\tif want, werr := %s; werr == nil {\n\t\t\texp%s = want\n\t\t}\n", e.RHS, p)
				} else {
					w("\t\texp%s = %s\n", p, e.RHS)
				}
			case "slice":
				// C16: fresh copy of the same length, element-wise equal (or converted); nil stays nil
				w("\t\tif isNilSlice(%s) {\n\t\t\tif !(isNilSlice(got%s) || sameValue(got%s, before%s)) {\n\t\t\t\tsemReport(method, \"nil-source-slice-became-non-nil\", %q)\n\t\t\t}\n\t\t} else {\n", e.RHS, p, p, p, e.Path)
				w("\t\t\tif sliceLen(got%s) != sliceLen(%s) || !elemsEqualConverted(got%s, %s) {\n\t\t\t\tsemReport(method, \"slice-elements-differ-from-source\", %q)\n\t\t\t}\n", p, e.RHS, p, e.RHS, e.Path)
				w("\t\t\tif sliceLen(%s) > 0 && sliceBacking(got%s) == sliceBacking(%s) {\n\t\t\t\tsemReport(method, \"slice-shares-backing-array-with-source\", %q)\n\t\t\t}\n", e.RHS, p, e.RHS, e.Path)
				w("\t\t}\n\t\texp%s = got%s\n", p, p)
			}
		}
		w("\t}\n")
		w("\tSemTrace = nil\n")
		w("\tif !sameValue(got, exp) {\n\t\tsemReport(method, \"destination-differs-from-matched-values\", fmt.Sprintf(\"mode=%%d fields %%v\", mode, diffFields(got, exp)))\n\t}\n")
		// slices must not alias the live source either (checked on the original operands)
		for _, e := range f.Entries {
			if e.Kind != "slice" || !strings.HasPrefix(e.Path, lhsVar+".") {
				continue
			}
			p := strings.TrimPrefix(e.Path, lhsVar)
			w("\tif sliceLen(%s) > 0 && sliceBacking(got%s) == sliceBacking(%s) {\n\t\tsemReport(method, \"slice-shares-backing-array-with-source\", %q)\n\t}\n", e.RHS, p, e.RHS, e.Path)
		}
	}
	// C16, independent of the shape of the emitted code: a name-matched slice field that the function assigns
	if !f.Reverse {
		for _, sp := range f.SlicePairs {
			path := lhsVar + "." + sp.Dst
			assigned := false
			for _, e := range f.Entries {
				if e.Path == path && (e.Kind == "assign" || e.Kind == "slice") {
					assigned = true
				}
			}
			if !assigned {
				continue
			}
			src := "srcCopy." + sp.Src
			live := srcP.Name + "." + sp.Src
			if sp.Getter {
				src += "()"
				live += "()"
			}
			aliasSig := "slice-shares-backing-array-with-source"
			if sp.Named {
				aliasSig += ":named-slice-type"
			}
			w("\tif isNilSlice(%s) {\n\t\tif !(isNilSlice(got.%s) || sameValue(got.%s, before.%s)) {\n\t\t\tsemReport(method, \"nil-source-slice-became-non-nil\", %q)\n\t\t}\n\t} else if sliceLen(%s) > 0 && sliceBacking(got.%s) == sliceBacking(%s) {\n\t\tsemReport(method, %q, %q)\n\t}\n", src, sp.Dst, sp.Dst, sp.Dst, path, live, sp.Dst, live, aliasSig, path)
		}
	}
	// C10: hooks once, in order, on the real operands
	var hookEntries []Entry
	firstAssign, lastAssign := -1, -1
	for i, e := range f.Entries {
		if e.Kind == "hook" {
			hookEntries = append(hookEntries, e)
		}
		if e.Kind == "assign" || e.Kind == "slice" {
			if firstAssign < 0 {
				firstAssign = i
			}
			lastAssign = i
		}
	}
	_ = firstAssign
	_ = lastAssign
	if len(hookEntries) > 0 && !f.Reverse {
		w("\tif len(hooks) != %d {\n\t\tsemReport(method, \"hook-call-count\", fmt.Sprintf(\"%%d hook calls, want %d\", len(hooks)))\n\t}\n", len(hookEntries), len(hookEntries))
		for i, he := range hookEntries {
			isPre := false
			for j, e := range f.Entries {
				if e.Raw == he.Raw && (firstAssign < 0 || j < firstAssign) {
					isPre = true
				}
			}
			w("\tif len(hooks) > %d {\n\t\thk := hooks[%d]\n", i, i)
			w("\t\tif hk.Name != %q {\n\t\t\tsemReport(method, \"hook-order\", hk.Name)\n\t\t}\n", he.Path)
			if isPre {
				w("\t\tif len(hk.Vals) > 0 && !sameValue(derefAny(hk.Vals[0]), derefAny(before)) {\n\t\t\tsemReport(method, \"preprocess-saw-assigned-fields\", fmt.Sprint(diffFields(hk.Vals[0], before)))\n\t\t}\n")
			} else {
				w("\t\tif len(hk.Vals) > 0 && !sameValue(derefAny(hk.Vals[0]), derefAny(exp)) {\n\t\t\tsemReport(method, \"postprocess-did-not-see-all-assignments\", fmt.Sprint(diffFields(hk.Vals[0], exp)))\n\t\t}\n")
			}
			// identity: a pointer-taking hook receives the function's own destination object
			w("\t\tif len(hk.Ptrs) > 0 && hk.Ptrs[0] != 0 && ptrOf(got) != 0 && hk.Ptrs[0] != ptrOf(got) {\n\t\t\tsemReport(method, \"hook-received-a-different-destination-object\", hk.Name)\n\t\t}\n")
			w("\t\tif len(hk.Vals) > 1 && !sameValue(derefAny(hk.Vals[1]), derefAny(srcCopy)) {\n\t\t\tsemReport(method, \"hook-received-a-different-source\", hk.Name)\n\t\t}\n")
			for k, a := range args {
				w("\t\tif len(hk.Vals) > %d && !sameValue(hk.Vals[%d], %sCopy) {\n\t\t\tsemReport(method, \"hook-additional-argument-differs\", %q)\n\t\t}\n", k+2, k+2, a.Name, a.Name)
			}
			w("\t}\n")
		}
	}
	// C07: fault enumeration over the error-capable call sites, in the order of the real text
	if hasErr && !f.Reverse {
		type site struct{ key string }
		var sites []site
		for _, e := range f.Entries {
			switch {
			case e.Kind == "hook" && e.Err:
				sites = append(sites, site{e.Path})
			case e.Kind == "assign" && e.Err:
				if k := calleeKey(e.RHS, srcP.Name, srcType); k != "" {
					sites = append(sites, site{k})
				}
			}
		}
		// distinct keys only (the same function at two sites cannot be failed separately)
		seen := map[string]bool{}
		uniq := true
		for _, s := range sites {
			if seen[s.key] {
				uniq = false
			}
			seen[s.key] = true
		}
		if len(sites) > 0 && uniq {
			w("\tif mode == 0 {\n")
			w("\t\tkeys := []string{")
			for i, s := range sites {
				if i > 0 {
					w(", ")
				}
				w("%q", s.key)
			}
			w("}\n")
			w("\t\tfor a := 0; a < len(keys); a++ {\n\t\t\tfor b := a; b < len(keys); b++ {\n")
			w("\t\t\t\t%s = deepCopy(srcCopy)\n", srcP.Name)
			for _, a := range args {
				w("\t\t\t\t%s = deepCopy(%sCopy)\n", a.Name, a.Name)
			}
			if f.Style == "arg" {
				w("\t\t\t\t%s = deepCopy(before)\n", dstP.Name)
			}
			w("\t\t\t\tsemReset()\n\t\t\t\tea, eb := errors.New(\"fail-\"+keys[a]), errors.New(\"fail-\"+keys[b])\n\t\t\t\tSemFail[keys[a]] = ea\n\t\t\t\tif b != a {\n\t\t\t\t\tSemFail[keys[b]] = eb\n\t\t\t\t}\n")
			switch {
			case f.Style == "arg":
				w("\t\t\t\tferr := %s\n", call)
			default:
				w("\t\t\t\t_, ferr := %s\n", call)
			}
			w("\t\t\t\tif ferr != ea {\n\t\t\t\t\tsemReport(method, \"first-error-not-returned\", fmt.Sprintf(\"failing %%s(+%%s): returned %%v\", keys[a], keys[b], ferr))\n\t\t\t\t\tcontinue\n\t\t\t\t}\n")
			w("\t\t\t\tfor _, later := range keys[a+1:] {\n\t\t\t\t\tfor _, t := range SemTrace {\n\t\t\t\t\t\tif t == later {\n\t\t\t\t\t\t\tsemReport(method, \"call-after-failure\", fmt.Sprintf(\"%%s called after %%s failed\", later, keys[a]))\n\t\t\t\t\t\t}\n\t\t\t\t\t}\n\t\t\t\t}\n")
			w("\t\t\t}\n\t\t}\n\t}\n")
		}
	}
	w("}\n\n")
	return sb.String()
}
