package sem

// HelpersSrc is written as pk/sem_helpers_test.go in every semantic case: value
// construction, deep copies and comparison by reflection (unexported fields are
// reached through unsafe, the driver lives in the same package).
const HelpersSrc = `package pk

import (
	"errors"
	"fmt"
	"reflect"
	"runtime/debug"
	"strings"
	"unsafe"

	"cvcase/ext"
)

// semPanicOrigin: base name of the source file of the frame in which the recovered panic was raised
// (the first non-runtime frame below the panic call), read from the stack of the recovering goroutine.
func semPanicOrigin() string {
	lines := strings.Split(string(debug.Stack()), "\n")
	seenPanic := false
	for i := 0; i+1 < len(lines); i++ {
		l := lines[i]
		if strings.HasPrefix(l, "panic(") {
			seenPanic = true
			continue
		}
		if !seenPanic || strings.HasPrefix(l, "\t") {
			continue
		}
		if strings.HasPrefix(l, "runtime.") || strings.HasPrefix(l, "runtime/") {
			continue
		}
		file := strings.TrimSpace(lines[i+1])
		if j := strings.LastIndexByte(file, ':'); j > 0 {
			file = file[:j]
		}
		if j := strings.LastIndexByte(file, '/'); j >= 0 {
			file = file[j+1:]
		}
		return file
	}
	return ""
}

var _ = errors.New
var _ = ext.NewPerson

type semViolation struct{ Method, Sig, Detail string }

var semViolations []semViolation

func semReport(method, sig, detail string) {
	semViolations = append(semViolations, semViolation{method, sig, detail})
}

func settable(v reflect.Value) reflect.Value {
	if v.CanSet() {
		return v
	}
	if v.CanAddr() {
		return reflect.NewAt(v.Type(), unsafe.Pointer(v.UnsafeAddr())).Elem()
	}
	return v
}

func readable(v reflect.Value) reflect.Value {
	if v.CanAddr() {
		if v.CanInterface() {
			return v
		}
		return reflect.NewAt(v.Type(), unsafe.Pointer(v.UnsafeAddr())).Elem()
	}
	// not addressable (the dynamic value of an interface, a map element): work on an addressable copy
	// so that unexported fields below it can be reached
	if v.CanInterface() && (v.Kind() == reflect.Struct || v.Kind() == reflect.Array) {
		c := reflect.New(v.Type()).Elem()
		c.Set(v)
		return c
	}
	return v
}

// scalarEq compares two values of one basic kind without Interface()
func scalarEq(a, b reflect.Value) bool {
	switch a.Kind() {
	case reflect.Bool:
		return a.Bool() == b.Bool()
	case reflect.Int, reflect.Int8, reflect.Int16, reflect.Int32, reflect.Int64:
		return a.Int() == b.Int()
	case reflect.Uint, reflect.Uint8, reflect.Uint16, reflect.Uint32, reflect.Uint64, reflect.Uintptr:
		return a.Uint() == b.Uint()
	case reflect.Float32, reflect.Float64:
		return a.Float() == b.Float()
	case reflect.Complex64, reflect.Complex128:
		return a.Complex() == b.Complex()
	case reflect.String:
		return a.String() == b.String()
	case reflect.UnsafePointer:
		return a.Pointer() == b.Pointer()
	}
	return false
}

// fillMode: 0 = everything non-nil; 1 = nested pointers nil; 2 = slices nil; 3 = slices empty; 4 = extreme scalars
type filler struct {
	n    int
	mode int
}

var errType = reflect.TypeOf((*error)(nil)).Elem()

func (f *filler) fill(v reflect.Value, depth int) {
	v = settable(v)
	f.n++
	switch v.Kind() {
	case reflect.Bool:
		v.SetBool(f.n%2 == 0)
	case reflect.Int, reflect.Int8, reflect.Int16, reflect.Int32, reflect.Int64:
		x := int64(f.n%100 + 1)
		if f.mode == 4 {
			x = -int64(f.n%7) - 1
		}
		v.SetInt(x)
	case reflect.Uint, reflect.Uint8, reflect.Uint16, reflect.Uint32, reflect.Uint64, reflect.Uintptr:
		v.SetUint(uint64(f.n%100 + 1))
	case reflect.Float32, reflect.Float64:
		v.SetFloat(float64(f.n) + 0.5)
	case reflect.String:
		v.SetString(fmt.Sprintf("s%d", f.n))
	case reflect.Ptr:
		if f.mode == 1 && depth > 0 {
			return
		}
		if depth > 6 {
			return
		}
		p := reflect.New(v.Type().Elem())
		f.fill(p.Elem(), depth+1)
		v.Set(p)
	case reflect.Slice:
		if f.mode == 2 {
			return
		}
		n := 2
		if f.mode == 3 {
			n = 0
		}
		s := reflect.MakeSlice(v.Type(), n, n+2)
		for i := 0; i < n; i++ {
			f.fill(s.Index(i), depth+1)
		}
		v.Set(s)
	case reflect.Array:
		for i := 0; i < v.Len(); i++ {
			f.fill(v.Index(i), depth+1)
		}
	case reflect.Map:
		m := reflect.MakeMap(v.Type())
		k := reflect.New(v.Type().Key()).Elem()
		f.fill(k, depth+1)
		e := reflect.New(v.Type().Elem()).Elem()
		f.fill(e, depth+1)
		m.SetMapIndex(k, e)
		v.Set(m)
	case reflect.Struct:
		for i := 0; i < v.NumField(); i++ {
			f.fill(v.Field(i), depth+1)
		}
	case reflect.Interface:
		switch {
		case v.Type() == errType:
			v.Set(reflect.ValueOf(errors.New(fmt.Sprintf("e%d", f.n))))
		case v.NumMethod() == 0:
			v.Set(reflect.ValueOf(fmt.Sprintf("any%d", f.n)))
		default:
			p := ext.NewPerson(fmt.Sprintf("p%d", f.n), f.n)
			if reflect.TypeOf(p).Implements(v.Type()) {
				v.Set(reflect.ValueOf(p))
			}
		}
	case reflect.Chan:
		v.Set(reflect.MakeChan(reflect.ChanOf(reflect.BothDir, v.Type().Elem()), 1).Convert(v.Type()))
	}
}

func deepCopyValue(v reflect.Value) reflect.Value {
	v = readable(v)
	out := reflect.New(v.Type()).Elem()
	switch v.Kind() {
	case reflect.Ptr:
		if v.IsNil() {
			return out
		}
		p := reflect.New(v.Type().Elem())
		p.Elem().Set(deepCopyValue(v.Elem()))
		out.Set(p)
	case reflect.Slice:
		if v.IsNil() {
			return out
		}
		s := reflect.MakeSlice(v.Type(), v.Len(), v.Cap())
		for i := 0; i < v.Len(); i++ {
			s.Index(i).Set(deepCopyValue(v.Index(i)))
		}
		out.Set(s)
	case reflect.Array:
		for i := 0; i < v.Len(); i++ {
			out.Index(i).Set(deepCopyValue(v.Index(i)))
		}
	case reflect.Map:
		if v.IsNil() {
			return out
		}
		m := reflect.MakeMap(v.Type())
		it := v.MapRange()
		for it.Next() {
			m.SetMapIndex(deepCopyValue(it.Key()), deepCopyValue(it.Value()))
		}
		out.Set(m)
	case reflect.Struct:
		for i := 0; i < v.NumField(); i++ {
			settable(out.Field(i)).Set(deepCopyValue(v.Field(i)))
		}
	case reflect.Interface:
		if v.IsNil() {
			return out
		}
		out.Set(deepCopyValue(v.Elem()))
	default:
		out.Set(v)
	}
	return out
}

func deepCopy[T any](x T) T {
	v := reflect.ValueOf(&x).Elem()
	return deepCopyValue(v).Interface().(T)
}

func fillNew[T any](seed, mode int) T {
	var x T
	f := &filler{n: seed, mode: mode}
	f.fill(reflect.ValueOf(&x).Elem(), 0)
	return x
}

// sameValue: deep equality where functions and channels compare by identity
func sameValue(a, b any) bool {
	return deepEq(reflect.ValueOf(&a).Elem().Elem(), reflect.ValueOf(&b).Elem().Elem())
}

func deepEq(a, b reflect.Value) bool {
	if !a.IsValid() || !b.IsValid() {
		return a.IsValid() == b.IsValid()
	}
	if a.Type() != b.Type() {
		return false
	}
	a, b = readable(a), readable(b)
	switch a.Kind() {
	case reflect.Ptr:
		if a.IsNil() || b.IsNil() {
			return a.IsNil() == b.IsNil()
		}
		return deepEq(a.Elem(), b.Elem())
	case reflect.Slice:
		if a.IsNil() != b.IsNil() || a.Len() != b.Len() {
			return false
		}
		for i := 0; i < a.Len(); i++ {
			if !deepEq(a.Index(i), b.Index(i)) {
				return false
			}
		}
		return true
	case reflect.Array:
		for i := 0; i < a.Len(); i++ {
			if !deepEq(a.Index(i), b.Index(i)) {
				return false
			}
		}
		return true
	case reflect.Struct:
		for i := 0; i < a.NumField(); i++ {
			if !deepEq(a.Field(i), b.Field(i)) {
				return false
			}
		}
		return true
	case reflect.Map:
		if a.IsNil() != b.IsNil() || a.Len() != b.Len() {
			return false
		}
		it := a.MapRange()
		for it.Next() {
			bv := b.MapIndex(it.Key())
			if !bv.IsValid() || !deepEq(it.Value(), bv) {
				return false
			}
		}
		return true
	case reflect.Interface:
		if a.IsNil() || b.IsNil() {
			return a.IsNil() == b.IsNil()
		}
		return deepEq(a.Elem(), b.Elem())
	case reflect.Func:
		return a.IsNil() && b.IsNil() || a.Pointer() == b.Pointer()
	case reflect.Chan:
		return a.Pointer() == b.Pointer()
	default:
		return scalarEq(a, b)
	}
}

// sliceBacking: address of the first element of a slice's backing array (0 for nil/empty)
func sliceBacking(s any) uintptr {
	v := reflect.ValueOf(s)
	if v.Kind() != reflect.Slice || v.IsNil() || v.Cap() == 0 {
		return 0
	}
	return v.Pointer()
}

func isNilSlice(s any) bool {
	v := reflect.ValueOf(s)
	return v.Kind() == reflect.Slice && v.IsNil()
}

func sliceLen(s any) int {
	v := reflect.ValueOf(s)
	if v.Kind() != reflect.Slice {
		return -1
	}
	return v.Len()
}

// elemsEqualConverted: dst[i] == convert(src[i]) for all i
func elemsEqualConverted(dst, src any) bool {
	d, s := reflect.ValueOf(dst), reflect.ValueOf(src)
	if d.Len() != s.Len() {
		return false
	}
	for i := 0; i < d.Len(); i++ {
		e := readable(s.Index(i))
		var c reflect.Value
		switch {
		case e.Type().AssignableTo(d.Type().Elem()):
			c = reflect.New(d.Type().Elem()).Elem()
			c.Set(e)
		case e.Type().ConvertibleTo(d.Type().Elem()):
			c = e.Convert(d.Type().Elem())
		default:
			return false
		}
		if !deepEq(readable(d.Index(i)), c) {
			return false
		}
	}
	return true
}

// hook snapshots taken by the driver's SemOnHook
type semHookCall struct {
	Name string
	Vals []any // deep copies of the operands at call time
	Ptrs []uintptr
}

var semHookCalls []semHookCall

func semReset() {
	SemTrace = nil
	SemFail = map[string]error{}
	semHookCalls = nil
	SemOnHook = func(name string, vals ...interface{}) {
		c := semHookCall{Name: name}
		for _, v := range vals {
			rv := reflect.ValueOf(v)
			if rv.Kind() == reflect.Ptr && !rv.IsNil() {
				c.Ptrs = append(c.Ptrs, rv.Pointer())
			} else {
				c.Ptrs = append(c.Ptrs, 0)
			}
			c.Vals = append(c.Vals, deepCopy(v))
		}
		semHookCalls = append(semHookCalls, c)
	}
}

func ptrOf(v any) uintptr {
	rv := reflect.ValueOf(v)
	if rv.Kind() == reflect.Ptr && !rv.IsNil() {
		return rv.Pointer()
	}
	return 0
}

// derefAny: the pointee of a pointer, or the value itself
func derefAny(v any) any {
	rv := reflect.ValueOf(v)
	if rv.Kind() == reflect.Ptr && !rv.IsNil() {
		return rv.Elem().Interface()
	}
	return v
}

// diffFields names the top-level fields in which two structs (or pointers to structs) differ
func diffFields(a, b any) []string {
	av, bv := reflect.ValueOf(derefAny(a)), reflect.ValueOf(derefAny(b))
	var res []string
	if av.Kind() != reflect.Struct || bv.Kind() != reflect.Struct || av.Type() != bv.Type() {
		return []string{"<whole value>"}
	}
	ac := reflect.New(av.Type()).Elem()
	ac.Set(av)
	bc := reflect.New(bv.Type()).Elem()
	bc.Set(bv)
	for i := 0; i < ac.NumField(); i++ {
		if !deepEq(ac.Field(i), bc.Field(i)) {
			res = append(res, ac.Type().Field(i).Name)
		}
	}
	return res
}
`
