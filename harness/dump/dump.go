// Package dump turns a setup package, loaded with go/packages exactly as
// convergen loads it (same mode, -tags convergen, the previous output skipped),
// into the s-expression the Coq model takes as input. It shares no code with
// convergen. go/parser, go/types and astutil.PathEnclosingInterval are oracles
// outside the model, as they are libraries outside convergen.
package dump

import (
	"fmt"
	"go/ast"
	"go/parser"
	"go/token"
	"go/types"
	"os"
	"path/filepath"
	"sort"
	"strings"

	"golang.org/x/tools/go/ast/astutil"
	"golang.org/x/tools/go/packages"

	"verif/harness/sx"
)

// Result of dumping one setup file.
type Result struct {
	Dump       *sx.Node
	LoadFailed string // non-empty: convergen's NewParser fails before the model starts (message class)
	OutOfModel []string
	File       *ast.File
	Fset       *token.FileSet
	Pkg        *packages.Package
	NamedCount int
	TypePairs  int
}

type dumper struct {
	fset     *token.FileSet
	pkg      *packages.Package
	file     *ast.File
	named    []*types.Named
	namedIdx map[*types.Named]int
	namedSx  []*sx.Node
	oom      map[string]bool
	nodeIDs  map[ast.Node]int
	groupIdx map[*ast.CommentGroup]int
	commentText string
}

const loadMode = packages.NeedName | packages.NeedImports | packages.NeedDeps |
	packages.NeedTypes | packages.NeedSyntax | packages.NeedTypesInfo

// Load loads the package of srcPath as convergen does. env is the process environment for go list.
func Load(srcPath, dstPath string, env []string) (*Result, error) {
	fset := token.NewFileSet()
	var fileSrc *ast.File
	srcStat, err := os.Stat(srcPath)
	if err != nil {
		return &Result{LoadFailed: "stat"}, nil
	}
	dstStat, _ := os.Stat(dstPath)
	var parseErr error
	cfg := &packages.Config{
		Mode:       loadMode,
		BuildFlags: []string{"-tags", "convergen"},
		Fset:       fset,
		Env:        env,
		Dir:        filepath.Dir(srcPath),
		ParseFile: func(fset *token.FileSet, filename string, src []byte) (*ast.File, error) {
			stat, err := os.Stat(filename)
			if err != nil {
				return nil, err
			}
			if dstStat != nil && os.SameFile(stat, dstStat) {
				return nil, nil
			}
			if !os.SameFile(stat, srcStat) {
				return parser.ParseFile(fset, filename, src, 0)
			}
			f, err := parser.ParseFile(fset, filename, src, parser.ParseComments)
			if err != nil {
				parseErr = err
				return nil, err
			}
			fileSrc = f
			return f, nil
		},
	}
	// the same overlay convergen applies since the stale-output repair
	if dstStat != nil && dstStat.Mode().IsRegular() && !os.SameFile(srcStat, dstStat) {
		sa, _ := filepath.Abs(srcPath)
		da, _ := filepath.Abs(dstPath)
		if filepath.Dir(sa) == filepath.Dir(da) {
			if f, err := parser.ParseFile(token.NewFileSet(), srcPath, nil, parser.PackageClauseOnly); err == nil && f.Name != nil {
				cfg.Overlay = map[string][]byte{da: []byte("package " + f.Name.Name + "\n")}
			}
		}
	}
	pkgs, err := packages.Load(cfg, "file="+srcPath)
	if err != nil {
		return &Result{LoadFailed: "load-error"}, nil
	}
	if len(pkgs) == 0 {
		return &Result{LoadFailed: "no-packages"}, nil
	}
	if fileSrc == nil && parseErr != nil {
		return &Result{LoadFailed: "parse-error"}, nil
	}
	if fileSrc == nil {
		return &Result{LoadFailed: "src-not-in-package"}, nil
	}
	d := &dumper{fset: fset, pkg: pkgs[0], file: fileSrc, namedIdx: map[*types.Named]int{}, oom: map[string]bool{},
		nodeIDs: map[ast.Node]int{}, groupIdx: map[*ast.CommentGroup]int{}}
	if d.pkg.Types == nil {
		return &Result{LoadFailed: "no-types"}, nil
	}
	res := &Result{File: fileSrc, Fset: fset, Pkg: d.pkg}
	res.Dump = d.dump(res)
	for k := range d.oom {
		res.OutOfModel = append(res.OutOfModel, k)
	}
	sort.Strings(res.OutOfModel)
	res.NamedCount = len(d.named)
	return res, nil
}

func (d *dumper) pos(p token.Pos) []*sx.Node {
	pp := d.fset.Position(p)
	return []*sx.Node{sx.N(int(p)), sx.N(pp.Line), sx.N(pp.Column)}
}

func (d *dumper) namedRef(n *types.Named) *sx.Node {
	if n.TypeArgs() != nil && n.TypeArgs().Len() > 0 || n.TypeParams() != nil && n.TypeParams().Len() > 0 {
		d.oom["generic-type"] = true
		return sx.T("O", sx.A(n.String()))
	}
	idx, ok := d.namedIdx[n]
	if !ok {
		idx = len(d.named)
		d.namedIdx[n] = idx
		d.named = append(d.named, n)
	}
	return sx.T("N", sx.N(idx))
}

func pkgPath(p *types.Package) string {
	if p == nil {
		return ""
	}
	return p.Path()
}

func (d *dumper) sig(s *types.Signature) *sx.Node {
	pn, pt, rn, rt := sx.L(), sx.L(), sx.L(), sx.L()
	for i := 0; i < s.Params().Len(); i++ {
		pn.List = append(pn.List, sx.A(s.Params().At(i).Name()))
		pt.List = append(pt.List, d.ty(s.Params().At(i).Type()))
	}
	for i := 0; i < s.Results().Len(); i++ {
		rn.List = append(rn.List, sx.A(s.Results().At(i).Name()))
		rt.List = append(rt.List, d.ty(s.Results().At(i).Type()))
	}
	if s.TypeParams() != nil && s.TypeParams().Len() > 0 {
		d.oom["generic-func"] = true
	}
	return sx.L(pn, pt, rn, rt, sx.B(s.Variadic()))
}

func (d *dumper) ty(t types.Type) *sx.Node {
	str := sx.A(t.String())
	switch x := t.(type) {
	case *types.Basic:
		return sx.T("B", sx.N(int(x.Kind())), sx.A(x.Name()))
	case *types.Named:
		return d.namedRef(x)
	case *types.Pointer:
		return sx.T("P", str, d.ty(x.Elem()))
	case *types.Slice:
		return sx.T("S", str, d.ty(x.Elem()))
	case *types.Array:
		return sx.T("A", str, sx.N(int(x.Len())), d.ty(x.Elem()))
	case *types.Map:
		return sx.T("M", str, d.ty(x.Key()), d.ty(x.Elem()))
	case *types.Chan:
		return sx.T("C", str, sx.N(int(x.Dir())), d.ty(x.Elem()))
	case *types.Struct:
		fs := sx.L()
		for i := 0; i < x.NumFields(); i++ {
			f := x.Field(i)
			fs.List = append(fs.List, sx.L(sx.A(f.Name()), sx.A(pkgPath(f.Pkg())), sx.B(f.Exported()), sx.B(f.Embedded()), sx.A(x.Tag(i)), d.ty(f.Type())))
		}
		return sx.T("St", str, fs)
	case *types.Interface:
		if !x.IsMethodSet() {
			d.oom["constraint-interface"] = true
			return sx.T("O", str)
		}
		ms := sx.L()
		var fns []*types.Func
		for i := 0; i < x.NumMethods(); i++ {
			fns = append(fns, x.Method(i))
		}
		sort.Slice(fns, func(i, j int) bool { return fns[i].Id() < fns[j].Id() })
		for _, m := range fns {
			ms.List = append(ms.List, sx.L(sx.A(m.Name()), sx.A(pkgPath(m.Pkg())), sx.B(m.Exported()), d.sig(m.Type().(*types.Signature))))
		}
		return sx.T("I", str, ms)
	case *types.Signature:
		return sx.T("F", str, d.sig(x))
	default:
		d.oom[fmt.Sprintf("type-kind-%T", t)] = true
		return sx.T("O", str)
	}
}

func (d *dumper) namedDef(n *types.Named) *sx.Node {
	obj := n.Obj()
	ms := sx.L()
	for i := 0; i < n.NumMethods(); i++ {
		m := n.Method(i)
		s := m.Type().(*types.Signature)
		ptr := false
		if s.Recv() != nil {
			_, ptr = s.Recv().Type().(*types.Pointer)
		}
		ms.List = append(ms.List, sx.L(sx.A(m.Name()), sx.A(pkgPath(m.Pkg())), sx.B(m.Exported()), sx.B(ptr), d.sig(s)))
	}
	pname := ""
	if obj.Pkg() != nil {
		pname = obj.Pkg().Name()
	}
	return sx.L(sx.A(pkgPath(obj.Pkg())), sx.A(pname), sx.A(obj.Name()), sx.B(obj.Pkg() != nil), d.ty(n.Underlying()), ms)
}

func (d *dumper) object(o types.Object) *sx.Node {
	// Signatures are dumped only for objects whose name occurs in some comment
	// of the setup file: a notation naming a function must contain its name.
	if !d.mentioned(o.Name()) {
		switch x := o.(type) {
		case *types.Func:
			return sx.T("func-unreferenced")
		case *types.Var:
			if _, ok := x.Type().(*types.Signature); ok {
				return sx.T("func-unreferenced")
			}
		}
		if _, ok := o.(*types.TypeName); ok {
			return sx.T("type")
		}
		return sx.T("other")
	}
	switch x := o.(type) {
	case *types.Func:
		return sx.T("func", d.sig(x.Type().(*types.Signature)), sx.B(x.Exported()), sx.A(pkgPath(x.Pkg())), sx.A(x.Name()))
	case *types.TypeName:
		return sx.T("type")
	case *types.Var:
		// a package-level variable of function type: obj.Type() is a Signature, so convergen accepts it as a function
		if s, ok := x.Type().(*types.Signature); ok {
			return sx.T("func", d.sig(s), sx.B(x.Exported()), sx.A(pkgPath(x.Pkg())), sx.A(x.Name()))
		}
		return sx.T("other")
	default:
		return sx.T("other")
	}
}

func (d *dumper) mentioned(name string) bool {
	if d.commentText == "" {
		var sb strings.Builder
		for _, g := range d.file.Comments {
			for _, c := range g.List {
				sb.WriteString(c.Text)
				sb.WriteByte('\n')
			}
		}
		d.commentText = sb.String() + "\n"
	}
	return strings.Contains(d.commentText, name)
}

func (d *dumper) scope(s *types.Scope) *sx.Node {
	l := sx.L()
	for _, name := range s.Names() {
		l.List = append(l.List, sx.L(sx.A(name), d.object(s.Lookup(name))))
	}
	return l
}

func (d *dumper) nodeID(n ast.Node) int {
	if id, ok := d.nodeIDs[n]; ok {
		return id
	}
	id := len(d.nodeIDs)
	d.nodeIDs[n] = id
	return id
}

// chain: the nodes of PathEnclosingInterval(file, pos, pos) that GetDocCommentOn
// inspects (GenDecl, FuncDecl, TypeSpec, Field, File), innermost first.
func (d *dumper) chain(p token.Pos) *sx.Node {
	nodes, _ := astutil.PathEnclosingInterval(d.file, p, p)
	l := sx.L()
	for _, n := range nodes {
		kind := ""
		switch n.(type) {
		case *ast.GenDecl:
			kind = "gendecl"
		case *ast.FuncDecl:
			kind = "funcdecl"
		case *ast.TypeSpec:
			kind = "typespec"
		case *ast.Field:
			kind = "field"
		case *ast.File:
			kind = "file"
		}
		if kind != "" {
			l.List = append(l.List, sx.L(sx.N(d.nodeID(n)), sx.A(kind)))
		}
	}
	return l
}

func docOf(n ast.Node) *ast.CommentGroup {
	switch x := n.(type) {
	case *ast.GenDecl:
		return x.Doc
	case *ast.FuncDecl:
		return x.Doc
	case *ast.TypeSpec:
		return x.Doc
	case *ast.Field:
		return x.Doc
	case *ast.File:
		return x.Doc
	}
	return nil
}

func (d *dumper) dump(res *Result) *sx.Node {
	file := d.file
	srcName := d.fset.Position(file.Pos()).Filename

	imports := sx.L()
	for _, spec := range file.Imports {
		name := ""
		if spec.Name != nil {
			name = spec.Name.Name
		}
		// the path exactly as convergen computes it: all double quotes removed from the literal
		path := strings.ReplaceAll(spec.Path.Value, `"`, "")
		pname, loaded := "", false
		if ip, ok := d.pkg.Imports[path]; ok && ip.Types != nil {
			pname, loaded = ip.Types.Name(), true
		}
		imports.List = append(imports.List, sx.L(sx.A(name), sx.A(path), sx.A(pname), sx.B(loaded)))
	}

	for i, g := range file.Comments {
		d.groupIdx[g] = i
	}

	// interfaces in scope order
	ifaces := sx.L()
	scope := d.pkg.Types.Scope()
	for _, name := range scope.Names() {
		obj := scope.Lookup(name)
		iface, ok := obj.Type().Underlying().(*types.Interface)
		if !ok {
			continue
		}
		inSrc := srcName == d.fset.Position(obj.Pos()).Filename
		entry := sx.L(sx.A(obj.Name()))
		entry.List = append(entry.List, d.pos(obj.Pos())...)
		entry.List = append(entry.List, sx.B(inSrc))
		if !inSrc {
			entry.List = append(entry.List, sx.L(), sx.L(), sx.L())
			ifaces.List = append(ifaces.List, entry)
			continue
		}
		entry.List = append(entry.List, d.chain(obj.Pos()))
		// field lists of the enclosing GenDecl(s), in ast.Inspect order
		fls := sx.L()
		nodes, _ := astutil.PathEnclosingInterval(file, obj.Pos(), obj.Pos())
		for _, n := range nodes {
			if gd, ok := n.(*ast.GenDecl); ok {
				ast.Inspect(gd, func(n ast.Node) bool {
					if f, ok := n.(*ast.FieldList); ok {
						fls.List = append(fls.List, sx.L(sx.N(int(f.Pos())), sx.N(int(f.Closing))))
					}
					return true
				})
			}
		}
		entry.List = append(entry.List, fls)
		ms := sx.L()
		mset := types.NewMethodSet(iface)
		for i := 0; i < mset.Len(); i++ {
			m := mset.At(i).Obj()
			me := sx.L(sx.A(m.Name()))
			me.List = append(me.List, d.pos(m.Pos())...)
			sg, ok := m.Type().(*types.Signature)
			if !ok {
				me.List = append(me.List, sx.L(sx.L(), sx.L(), sx.L(), sx.L(), sx.B(false)))
			} else {
				me.List = append(me.List, d.sig(sg))
				// positions of the parameter and result variables (for error messages)
				vp := sx.L()
				for k := 0; k < sg.Params().Len(); k++ {
					vp.List = append(vp.List, sx.L(d.pos(sg.Params().At(k).Pos())...))
				}
				vr := sx.L()
				for k := 0; k < sg.Results().Len(); k++ {
					vr.List = append(vr.List, sx.L(d.pos(sg.Results().At(k).Pos())...))
				}
				me.List = append(me.List, vp, vr)
			}
			me.List = append(me.List, d.chain(m.Pos()))
			ms.List = append(ms.List, me)
		}
		entry.List = append(entry.List, ms)
		ifaces.List = append(ifaces.List, entry)
	}

	// comment groups and doc pointers (after chains have numbered the nodes)
	comments := sx.L()
	for _, g := range file.Comments {
		gl := sx.L()
		for _, c := range g.List {
			cp := d.fset.Position(c.Pos())
			gl.List = append(gl.List, sx.L(sx.N(int(c.Pos())), sx.N(int(c.End())), sx.N(cp.Line), sx.N(cp.Column), sx.A(c.Text)))
		}
		comments.List = append(comments.List, gl)
	}
	docs := sx.L()
	type idn struct {
		id int
		n  ast.Node
	}
	var ids []idn
	for n, id := range d.nodeIDs {
		ids = append(ids, idn{id, n})
	}
	sort.Slice(ids, func(i, j int) bool { return ids[i].id < ids[j].id })
	for _, x := range ids {
		if doc := docOf(x.n); doc != nil {
			if gi, ok := d.groupIdx[doc]; ok {
				docs.List = append(docs.List, sx.L(sx.N(x.id), sx.N(gi)))
			}
		}
	}

	pkgscope := d.scope(scope)
	imported := sx.L()
	var ipaths []string
	for p := range d.pkg.Imports {
		ipaths = append(ipaths, p)
	}
	sort.Strings(ipaths)
	for _, p := range ipaths {
		ip := d.pkg.Imports[p]
		if ip.Types == nil {
			continue
		}
		imported.List = append(imported.List, sx.L(sx.A(p), d.scope(ip.Types.Scope())))
	}
	universe := sx.L()
	for _, n := range types.Universe.Names() {
		universe.List = append(universe.List, sx.A(n))
	}

	// named table: definitions may discover more named types; iterate to a fixpoint
	namedL := sx.L()
	for i := 0; i < len(d.named); i++ {
		namedL.List = append(namedL.List, d.namedDef(d.named[i]))
	}

	pp := d.fset.Position(file.Package)
	return sx.T("dump",
		sx.L(sx.A(d.pkg.PkgPath), sx.A(d.pkg.Types.Name())),
		sx.A(filepath.Base(srcName)),
		imports, namedL, pkgscope, universe, imported, comments, docs,
		sx.L(sx.N(pp.Line), sx.N(pp.Column)),
		ifaces)
}
