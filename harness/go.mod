module verif/harness

go 1.19

require (
	github.com/reedom/convergen v0.0.0
	golang.org/x/tools v0.24.0
)

require (
	golang.org/x/mod v0.20.0 // indirect
	golang.org/x/sync v0.8.0 // indirect
)

replace github.com/reedom/convergen => /repo
