module verif/harness

go 1.19

require (
	github.com/reedom/convergen v0.0.0
	golang.org/x/tools v0.24.0
)

replace github.com/reedom/convergen => /repo
