// Package report is the JSON handed from the Go harness to ./check.
package report

import (
	"encoding/json"
	"os"
	"sort"
)

// Mismatch is a disagreement between the model and the implementation.
type Mismatch struct {
	Correspondence string `json:"correspondence"` // which correspondence broke
	Case           string `json:"case"`
	Model          string `json:"model"`
	Impl           string `json:"impl"`
	Replay         string `json:"replay,omitempty"`
}

// Violation is a failure of the property itself found on the implementation
// by the property's executable oracle.
type Violation struct {
	Signature string `json:"signature"` // narrow: construct + minimal shape feature
	What      string `json:"what"`
	Replay    string `json:"replay,omitempty"`
}

// Report of one harness run for one property.
type Report struct {
	Property           string         `json:"property"`
	Tier               string         `json:"tier"`
	Seed               int64          `json:"seed"`
	Evaluations        int            `json:"evaluations"`
	DistinctNontrivial int            `json:"distinct_nontrivial"`
	Rule               string         `json:"rule"`
	Exhaustive         bool           `json:"exhaustive"`
	Samples            []any          `json:"samples"`
	Distribution       map[string]int `json:"generator_distribution"`
	OutOfModel         int            `json:"out_of_model"`
	Mismatches         []Mismatch     `json:"mismatches"`
	Violations         []Violation    `json:"violations"`
	ModelValidation    []string       `json:"model_validation_failures"`
	Notes              []string       `json:"notes"`
	Extra              map[string]any `json:"extra,omitempty"`

	distinct map[string]bool
}

func New(prop, tier string, seed int64) *Report {
	return &Report{Property: prop, Tier: tier, Seed: seed, Distribution: map[string]int{}, distinct: map[string]bool{}, Extra: map[string]any{}}
}

// Count increments a distribution counter.
func (r *Report) Count(key string) { r.Distribution[key]++ }

// Eval records one evaluated case; key identifies it for distinctness and
// nontrivial says whether it exercises a property-relevant decision.
func (r *Report) Eval(key string, nontrivial bool) {
	r.Evaluations++
	if nontrivial && !r.distinct[key] {
		r.distinct[key] = true
		r.DistinctNontrivial++
	}
}

// Sample keeps up to max samples.
func (r *Report) Sample(s any, max int) {
	if len(r.Samples) < max {
		r.Samples = append(r.Samples, s)
	}
}

func (r *Report) Mismatch(m Mismatch)   { r.Mismatches = append(r.Mismatches, m) }
func (r *Report) Violation(v Violation) { r.Violations = append(r.Violations, v) }

// Write stores the report as JSON.
func (r *Report) Write(path string) error {
	sort.Slice(r.Violations, func(i, j int) bool { return r.Violations[i].Signature < r.Violations[j].Signature })
	if r.Samples == nil {
		r.Samples = []any{}
	}
	if r.Mismatches == nil {
		r.Mismatches = []Mismatch{}
	}
	if r.Violations == nil {
		r.Violations = []Violation{}
	}
	if r.ModelValidation == nil {
		r.ModelValidation = []string{}
	}
	if r.Notes == nil {
		r.Notes = []string{}
	}
	b, err := json.MarshalIndent(r, "", " ")
	if err != nil {
		return err
	}
	return os.WriteFile(path, b, 0o644)
}
