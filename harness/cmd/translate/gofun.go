// gofun.go — stage 2 of the translator: a first-order imperative subset of Go (string builders
// over records, lists, options and sum types) is translated, function by function, into Gallina.
//
// Every run of every check regenerates coq/gen/GoFuns.v from /repo's current sources; the theorems
// of coq/proofs/GenTieProofs.v (the hand-written Gen.v equals the translated functions on every
// input) are then re-proved against what the code says now.
//
// Translation scheme (state passing, one Gallina `let` per Go statement):
//   var sb strings.Builder            let sb : str := [] in
//   sb.WriteString(e)                 let sb := sb ++ e in
//   x := e / x = e                    let x := e in
//   x.F = e                           let x := {| ... F := e ... |} in
//   xs = append(xs, e)                let xs := xs ++ [e] in
//   if c { A } else { B }; R          let '(w..) := if c then A;(w..) else B;(w..) in R     (w.. = variables A, B assign)
//   if c { A; return v }; R           if c then A;v else R
//   if p != nil { A }                 match p with Some p' => A[p:=p'] | None => .. end     (p a *struct)
//   if v, ok := a.(T); ok { A }; R    match a with T fields => A | _ => R end
//   for _, x := range xs { A }; R     let '(w..) := fold_left (fun '(w..) x => A;(w..)) xs (w..) in R
//   for i := range xs { ..xs[i].. }   the same, xs[i] bound to the element
//   return e / naked return           e / the tuple of the named results
// Types: string and named string types -> str (list N of bytes); bool -> bool; int -> Z; byte -> N;
// []T -> list T; struct -> Record; *struct in a field -> option; an interface implemented by
// struct types of the package -> Inductive with one constructor per implementing struct, its
// methods become one (Fix)point by cases with the implementing methods inlined.
// Anything else is reported as unsupported; the definition is then missing from GoFuns.v and the
// tie proofs no longer build — a broken proof obligation, which the check reports.
package main

import (
	"fmt"
	"go/ast"
	"go/constant"
	"go/token"
	"go/types"
	"os"
	"path/filepath"
	"sort"
	"strconv"
	"strings"

	"golang.org/x/tools/go/packages"
)

type gofun struct {
	fset      *token.FileSet
	pkgs      map[string]*packages.Package
	decls     map[*types.Func]*ast.FuncDecl
	infoOf    map[*types.Func]*types.Info
	typeOut   []string // emitted type declarations, in order
	typeDone  map[string]bool
	funOut    []string
	funDone   map[string]bool // by coq name
	inProg    map[string]bool
	recursive map[string]bool
	errs      []string
	variants  map[string][]*types.Named // interface coq name -> implementing structs
	variantOf map[*types.Named]*types.Named
	dropping  map[*types.Func]bool
	nilable   map[*types.Var]bool // struct fields compared with nil somewhere in the loaded packages
	omitted   map[*types.Var]bool // struct fields whose type is outside the fragment (left out of the record)
}

type unsupported struct{ msg string }

func (g *gofun) fail(pos token.Pos, format string, a ...any) {
	panic(unsupported{fmt.Sprintf("%s: ", g.fset.Position(pos)) + fmt.Sprintf(format, a...)})
}

func isBuilder(t types.Type) bool {
	if p, ok := t.(*types.Pointer); ok {
		t = p.Elem()
	}
	n, ok := t.(*types.Named)
	return ok && n.Obj().Pkg() != nil && n.Obj().Pkg().Path() == "strings" && n.Obj().Name() == "Builder"
}

func (g *gofun) ours(n *types.Named) bool {
	if n.Obj().Pkg() == nil {
		return false
	}
	_, ok := g.pkgs[n.Obj().Pkg().Path()]
	return ok
}

// coqType renders a Go type; field=true renders a pointer to a struct as an option.
// externTypes: types of go/types that the hand-written model already has (GoTypes.v).
var externTypes = map[string]string{
	"go/types.Type":       "ty",
	"*go/types.Var":       "field",
	"*go/types.Func":      "go_func",
	"*go/types.Signature": "sig",
	// a types.Type viewed as one of its classes after a type assertion: still the model's ty
	"*go/types.Pointer": "ty",
	"*go/types.Slice":   "ty",
	"*go/types.Basic":   "ty",
	"*go/types.Named":   "ty",
	"*go/types.Struct":  "ty",
}

// typeClasses: the recognisers (GoLib.v) of the classes of go/types a types.Type is asserted to.
var typeClasses = map[string]string{
	"*go/types.Pointer": "go_is_pointer",
	"*go/types.Slice":   "go_is_slice",
	"*go/types.Basic":   "go_is_basic",
	"*go/types.Named":   "go_is_named",
	"*go/types.Struct":  "go_is_struct",
}

func (g *gofun) coqType(t types.Type, field bool, pos token.Pos) string {
	if isBuilder(t) {
		return "str"
	}
	if ct, ok := externTypes[t.String()]; ok {
		return ct
	}
	switch u := t.(type) {
	case *types.Named:
		switch uu := u.Underlying().(type) {
		case *types.Struct:
			if !g.ours(u) {
				g.fail(pos, "struct type %s of another package", u)
			}
			if iface, ok := g.variantOf[u]; ok {
				g.needIface(iface, pos)
				return iface.Obj().Name() + "_t"
			}
			g.needStruct(u, pos)
			return u.Obj().Name() + "_t"
		case *types.Interface:
			if !g.ours(u) {
				g.fail(pos, "interface type %s of another package", u)
			}
			g.needIface(u, pos)
			return u.Obj().Name() + "_t"
		default:
			_ = uu
			return g.coqType(u.Underlying(), field, pos)
		}
	case *types.Basic:
		switch {
		case u.Info()&types.IsString != 0:
			return "str"
		case u.Info()&types.IsBoolean != 0:
			return "bool"
		case u.Kind() == types.Uint8 || u.Kind() == types.Int32 || u.Kind() == types.UntypedRune:
			return "N"
		case u.Info()&types.IsInteger != 0:
			return "Z"
		}
	case *types.Slice:
		return "(list " + g.coqType(u.Elem(), false, pos) + ")"
	case *types.Pointer:
		if n, ok := u.Elem().(*types.Named); ok {
			if _, ok := n.Underlying().(*types.Struct); ok {
				if field {
					return "(option " + g.coqType(n, false, pos) + ")"
				}
				return g.coqType(n, false, pos)
			}
		}
	case *types.Tuple:
		var parts []string
		for i := 0; i < u.Len(); i++ {
			parts = append(parts, g.coqType(u.At(i).Type(), false, pos))
		}
		return "(" + strings.Join(parts, " * ") + ")"
	}
	g.fail(pos, "type %s is outside the translated fragment", t)
	return ""
}

func (g *gofun) zero(t types.Type, pos token.Pos) string {
	ct := g.coqType(t, true, pos)
	switch {
	case ct == "str" || strings.HasPrefix(ct, "(list "):
		return "[]"
	case ct == "bool":
		return "false"
	case ct == "Z":
		return "0%Z"
	case ct == "N":
		return "0"
	case strings.HasPrefix(ct, "(option "):
		return "None"
	}
	g.fail(pos, "no zero value for %s", t)
	return ""
}

func (g *gofun) needStruct(n *types.Named, pos token.Pos) {
	name := n.Obj().Name() + "_t"
	if g.typeDone[name] {
		return
	}
	g.typeDone[name] = true
	st := n.Underlying().(*types.Struct)
	var fields []string
	for i := 0; i < st.NumFields(); i++ {
		f := st.Field(i)
		ft, ok := g.fieldType(f, nil, "")
		if !ok {
			g.omitted[f] = true
			continue
		}
		fields = append(fields, fmt.Sprintf("%s_%s : %s", n.Obj().Name(), f.Name(), ft))
	}
	g.typeOut = append(g.typeOut, fmt.Sprintf("(* %s *)\nRecord %s := mk%s { %s }.\n", g.where(n.Obj().Pos()), name, n.Obj().Name(), strings.Join(fields, "; ")))
}

// fieldType: the Gallina type of a struct field. A pointer to a struct or an interface value is an
// option only when the field is compared with nil somewhere in the loaded packages; otherwise it is
// assumed non-nil (recorded in the trusted base). self/selfName: the inductive being defined.
func (g *gofun) fieldType(f *types.Var, self *types.Named, selfName string) (res string, ok bool) {
	defer func() {
		if r := recover(); r != nil {
			if _, isU := r.(unsupported); isU {
				res, ok = "", false
				return
			}
			panic(r)
		}
	}()
	t := f.Type()
	var base string
	switch {
	case self != nil && types.Identical(t, types.NewSlice(self)):
		return "list " + selfName, true
	case self != nil && types.Identical(t, self):
		base = selfName
	default:
		if p, isPtr := t.(*types.Pointer); isPtr {
			if _, ext := externTypes[t.String()]; !ext {
				if n, isN := p.Elem().(*types.Named); isN {
					if _, isS := n.Underlying().(*types.Struct); isS {
						t = n
					}
				}
			}
		}
		base = g.coqType(t, false, f.Pos())
	}
	if g.nilable[f] {
		return "(option " + base + ")", true
	}
	return base, true
}

func (g *gofun) where(p token.Pos) string {
	pos := g.fset.Position(p)
	return fmt.Sprintf("%s/%s", filepath.Base(filepath.Dir(pos.Filename)), filepath.Base(pos.Filename))
}

// needIface emits the inductive type of an interface: one constructor per struct type of the
// same package that implements it (by value or by pointer), in source order.
func (g *gofun) needIface(n *types.Named, pos token.Pos) {
	name := n.Obj().Name() + "_t"
	if g.typeDone[name] {
		return
	}
	g.typeDone[name] = true
	var ctors []string
	for _, v := range g.variants[n.Obj().Name()] {
		st := v.Underlying().(*types.Struct)
		var args []string
		for i := 0; i < st.NumFields(); i++ {
			f := st.Field(i)
			ft, ok := g.fieldType(f, n, name)
			if !ok {
				g.fail(f.Pos(), "field %s.%s of a case of interface %s has a type outside the fragment", v.Obj().Name(), f.Name(), n.Obj().Name())
			}
			args = append(args, fmt.Sprintf("(%s : %s)", f.Name(), ft))
		}
		ctors = append(ctors, fmt.Sprintf("| %s %s", v.Obj().Name(), strings.Join(args, " ")))
	}
	g.typeOut = append(g.typeOut, fmt.Sprintf("(* %s: interface %s and the struct types implementing it *)\nInductive %s :=\n%s.\n", g.where(n.Obj().Pos()), n.Obj().Name(), name, strings.Join(ctors, "\n")))
}

// ---------------------------------------------------------------------------------------------

type fnCtx struct {
	g       *gofun
	info    *types.Info
	subst   map[string]string // Go expression text -> Gallina term
	scope   []string          // Go locals bound so far (parameters, results, locals)
	self    string            // coq name of the function being translated
	results []string          // named results
	fresh   int
	recvObj types.Object
}

func (c *fnCtx) bind(name string) {
	for _, s := range c.scope {
		if s == name {
			return
		}
	}
	c.scope = append(c.scope, name)
}

func (c *fnCtx) inScope(name string) bool {
	for _, s := range c.scope {
		if s == name {
			return true
		}
	}
	return false
}

func coqIdent(s string) string {
	switch s {
	case "end", "in", "let", "fun", "match", "with", "then", "else", "if", "as", "at", "fix", "for", "return", "Type", "Prop", "Set", "forall", "exists", "using", "where":
		return s + "_"
	}
	return s
}

func bytesLit(s string) string {
	if s == "" {
		return "[]"
	}
	var parts []string
	for i := 0; i < len(s); i++ {
		parts = append(parts, strconv.Itoa(int(s[i])))
	}
	return "[" + strings.Join(parts, "; ") + "]"
}

func (c *fnCtx) typeOf(e ast.Expr) types.Type {
	tv, ok := c.info.Types[e]
	if !ok {
		if id, ok := e.(*ast.Ident); ok {
			if o := c.info.ObjectOf(id); o != nil {
				return o.Type()
			}
		}
		c.g.fail(e.Pos(), "no type for %s", types.ExprString(e))
	}
	return tv.Type
}

func kindOf(t types.Type) string {
	if isBuilder(t) {
		return "str"
	}
	switch u := t.Underlying().(type) {
	case *types.Basic:
		switch {
		case u.Info()&types.IsString != 0:
			return "str"
		case u.Info()&types.IsBoolean != 0:
			return "bool"
		case u.Kind() == types.Uint8 || u.Kind() == types.Int32 || u.Kind() == types.UntypedRune:
			return "N"
		case u.Info()&types.IsInteger != 0:
			return "Z"
		case u.Kind() == types.UntypedNil:
			return "nil"
		}
	case *types.Pointer:
		return "ptr"
	case *types.Slice:
		return "list"
	case *types.Struct:
		return "struct"
	case *types.Interface:
		return "iface"
	}
	return "?"
}

func (c *fnCtx) expr(e ast.Expr) string {
	if s, ok := c.subst[types.ExprString(e)]; ok {
		return s
	}
	if tv, ok := c.info.Types[e]; ok && tv.Value != nil {
		switch tv.Value.Kind() {
		case constant.String:
			return bytesLit(constant.StringVal(tv.Value))
		case constant.Bool:
			return strconv.FormatBool(constant.BoolVal(tv.Value))
		case constant.Int:
			v, _ := constant.Int64Val(tv.Value)
			if kindOf(tv.Type) == "N" {
				return strconv.FormatInt(v, 10)
			}
			return fmt.Sprintf("(%d)%%Z", v)
		}
	}
	switch e := e.(type) {
	case *ast.ParenExpr:
		return c.expr(e.X)
	case *ast.Ident:
		switch e.Name {
		case "true", "false":
			return e.Name
		}
		obj := c.info.ObjectOf(e)
		if _, ok := obj.(*types.Var); ok && c.inScope(e.Name) {
			return coqIdent(e.Name)
		}
		c.g.fail(e.Pos(), "identifier %s is not a local variable or constant", e.Name)
	case *ast.SelectorExpr:
		sel, ok := c.info.Selections[e]
		if !ok || sel.Kind() != types.FieldVal {
			c.g.fail(e.Pos(), "selector %s is not a field access", types.ExprString(e))
		}
		if len(sel.Index()) != 1 {
			c.g.fail(e.Pos(), "promoted field %s", types.ExprString(e))
		}
		recv := sel.Recv()
		if p, ok := recv.(*types.Pointer); ok {
			recv = p.Elem()
		}
		n, ok := recv.(*types.Named)
		if !ok {
			c.g.fail(e.Pos(), "field of an unnamed type: %s", types.ExprString(e))
		}
		if _, isVariant := c.g.variantOf[n]; isVariant {
			c.g.fail(e.Pos(), "field %s of a struct that is a case of an interface, outside a type switch on it", types.ExprString(e))
		}
		c.g.needStruct(n, e.Pos())
		if fv, ok := sel.Obj().(*types.Var); ok && c.g.omitted[fv] {
			c.g.fail(e.Pos(), "field %s has a type outside the fragment", types.ExprString(e))
		}
		return fmt.Sprintf("(%s_%s %s)", n.Obj().Name(), e.Sel.Name, c.expr(e.X))
	case *ast.BinaryExpr:
		x, y := c.expr(e.X), c.expr(e.Y)
		k := kindOf(c.typeOf(e.X))
		if k == "nil" {
			k = kindOf(c.typeOf(e.Y))
		}
		switch e.Op {
		case token.ADD:
			if k == "str" {
				return fmt.Sprintf("(%s ++ %s)", x, y)
			}
			if k == "Z" {
				return fmt.Sprintf("(%s + %s)%%Z", x, y)
			}
		case token.LAND:
			return fmt.Sprintf("(%s && %s)", x, y)
		case token.LOR:
			return fmt.Sprintf("(%s || %s)", x, y)
		case token.EQL, token.NEQ:
			var eq string
			switch k {
			case "str":
				eq = fmt.Sprintf("(str_eqb %s %s)", x, y)
			case "bool":
				eq = fmt.Sprintf("(Bool.eqb %s %s)", x, y)
			case "Z":
				eq = fmt.Sprintf("(Z.eqb %s %s)", x, y)
			case "N":
				eq = fmt.Sprintf("(N.eqb %s %s)", x, y)
			default:
				c.g.fail(e.Pos(), "comparison of %s values outside a condition on nil", k)
			}
			if e.Op == token.NEQ {
				return "(negb " + eq + ")"
			}
			return eq
		case token.GEQ, token.LEQ, token.LSS, token.GTR:
			if k == "Z" {
				op := map[token.Token]string{token.GEQ: ">=?", token.LEQ: "<=?", token.LSS: "<?", token.GTR: ">?"}[e.Op]
				return fmt.Sprintf("(%s %s %s)%%Z", x, op, y)
			}
		}
		c.g.fail(e.Pos(), "operator %s on %s", e.Op, k)
	case *ast.UnaryExpr:
		if e.Op == token.NOT {
			return "(negb " + c.expr(e.X) + ")"
		}
		c.g.fail(e.Pos(), "unary operator %s", e.Op)
	case *ast.SliceExpr:
		if e.Low == nil && e.High != nil && !e.Slice3 && kindOf(c.typeOf(e.X)) == "str" {
			return fmt.Sprintf("(firstn (Z.to_nat %s) %s)", c.expr(e.High), c.expr(e.X))
		}
		if e.Low != nil && e.High == nil && kindOf(c.typeOf(e.X)) == "str" {
			return fmt.Sprintf("(skipn (Z.to_nat %s) %s)", c.expr(e.Low), c.expr(e.X))
		}
		c.g.fail(e.Pos(), "slice expression %s", types.ExprString(e))
	case *ast.IndexExpr:
		// xs[i] on a list of strings: Go panics past the end, the translation yields "" there
		// (the callers' indices are covered by the no-panic theorem C14_no_panic)
		if kindOf(c.typeOf(e.X)) == "list" && kindOf(c.typeOf(e)) == "str" && kindOf(c.typeOf(e.Index)) == "Z" {
			return fmt.Sprintf("(nth (Z.to_nat %s) %s [])", c.expr(e.Index), c.expr(e.X))
		}
		c.g.fail(e.Pos(), "index expression %s", types.ExprString(e))
	case *ast.TypeAssertExpr:
		// m.Type().(*types.Signature) on a *types.Func: the signature the model keeps with the function
		if c.typeOf(e).String() == "*go/types.Signature" {
			if call, ok := e.X.(*ast.CallExpr); ok && len(call.Args) == 0 {
				if sel, ok := call.Fun.(*ast.SelectorExpr); ok && sel.Sel.Name == "Type" && c.typeOf(sel.X).String() == "*go/types.Func" {
					return fmt.Sprintf("(gf_sig %s)", c.expr(sel.X))
				}
			}
		}
		c.g.fail(e.Pos(), "type assertion %s", types.ExprString(e))
	case *ast.CallExpr:
		return c.call(e)
	}
	c.g.fail(e.Pos(), "expression %s (%T)", types.ExprString(e), e)
	return ""
}

// externCall: calls into go/types and pkg/util that the hand-written model has a counterpart for.
func (c *fnCtx) externCall(e *ast.CallExpr) (string, bool) {
	txt := types.ExprString(e)
	if txt == `types.Universe.Lookup("string").Type()` {
		return "string_ty", true
	}
	sel, ok := e.Fun.(*ast.SelectorExpr)
	if !ok {
		return "", false
	}
	// util.IsPtr(t)
	if id, ok := sel.X.(*ast.Ident); ok {
		if pn, ok := c.info.ObjectOf(id).(*types.PkgName); ok && strings.HasSuffix(pn.Imported().Path(), "/pkg/util") {
			switch sel.Sel.Name {
			case "IsPtr":
				return fmt.Sprintf("(is_ptr %s)", c.expr(e.Args[0])), true
			case "DerefPtr":
				return fmt.Sprintf("(deref_ptr %s)", c.expr(e.Args[0])), true
			}
			return "", false
		}
	}
	if _, isSel := c.info.Selections[sel]; !isSel {
		return "", false
	}
	// sig.Results().Len()  /  sig.Results().At(k).Type()
	if inner, ok := sel.X.(*ast.CallExpr); ok {
		if isel, ok := inner.Fun.(*ast.SelectorExpr); ok {
			if isel.Sel.Name == "Results" && sel.Sel.Name == "Len" && c.typeOf(isel.X).String() == "*go/types.Signature" {
				return fmt.Sprintf("(Z.of_nat (length (sg_rtys %s)))", c.expr(isel.X)), true
			}
			if isel.Sel.Name == "At" && sel.Sel.Name == "Type" && len(inner.Args) == 1 {
				if rcall, ok := isel.X.(*ast.CallExpr); ok {
					if rsel, ok := rcall.Fun.(*ast.SelectorExpr); ok && rsel.Sel.Name == "Results" && c.typeOf(rsel.X).String() == "*go/types.Signature" {
						if tv, ok := c.info.Types[inner.Args[0]]; ok && tv.Value != nil {
							if k, ok := constant.Int64Val(tv.Value); ok {
								return fmt.Sprintf("(go_nth_type (sg_rtys %s) %d)", c.expr(rsel.X), k), true
							}
						}
					}
				}
			}
		}
	}
	rt := c.typeOf(sel.X).String()
	switch {
	case (rt == "*go/types.Pointer" || rt == "*go/types.Slice") && sel.Sel.Name == "Elem" && len(e.Args) == 0:
		return fmt.Sprintf("(go_type_elem %s)", c.expr(sel.X)), true
	case rt == "*go/types.Var" && sel.Sel.Name == "Name" && len(e.Args) == 0:
		return fmt.Sprintf("(f_name %s)", c.expr(sel.X)), true
	case rt == "*go/types.Var" && sel.Sel.Name == "Type" && len(e.Args) == 0:
		return fmt.Sprintf("(f_type %s)", c.expr(sel.X)), true
	case rt == "*go/types.Func" && sel.Sel.Name == "Name" && len(e.Args) == 0:
		return fmt.Sprintf("(gf_name %s)", c.expr(sel.X)), true
	case rt == "*go/types.Var" && sel.Sel.Name == "Type":
		return "", false
	}
	return "", false
}

// sprintf: fmt.Sprintf with a constant format made of literal text and %v verbs over strings.
func (c *fnCtx) sprintf(e *ast.CallExpr) string {
	tv, ok := c.info.Types[e.Args[0]]
	if !ok || tv.Value == nil || tv.Value.Kind() != constant.String {
		c.g.fail(e.Pos(), "fmt.Sprintf with a format that is not a constant")
	}
	format := constant.StringVal(tv.Value)
	var parts []string
	arg := 1
	lit := ""
	for i := 0; i < len(format); i++ {
		if format[i] != '%' {
			lit += string(format[i])
			continue
		}
		if i+1 < len(format) && format[i+1] == '%' {
			lit += "%"
			i++
			continue
		}
		if i+1 >= len(format) || format[i+1] != 'v' || arg >= len(e.Args) {
			c.g.fail(e.Pos(), "fmt.Sprintf format %q: only %%v verbs with one argument each are translated", format)
		}
		if kindOf(c.typeOf(e.Args[arg])) != "str" {
			c.g.fail(e.Pos(), "fmt.Sprintf %%v on a %s", kindOf(c.typeOf(e.Args[arg])))
		}
		if lit != "" {
			parts = append(parts, bytesLit(lit))
			lit = ""
		}
		parts = append(parts, c.expr(e.Args[arg]))
		arg++
		i++
	}
	if lit != "" {
		parts = append(parts, bytesLit(lit))
	}
	if arg != len(e.Args) {
		c.g.fail(e.Pos(), "fmt.Sprintf: %d arguments for format %q", len(e.Args)-1, format)
	}
	if len(parts) == 0 {
		return "[]"
	}
	return "(" + strings.Join(parts, " ++ ") + ")"
}

func (c *fnCtx) call(e *ast.CallExpr) string {
	if s, ok := c.externCall(e); ok {
		return s
	}
	if sel, ok := e.Fun.(*ast.SelectorExpr); ok {
		if id, ok := sel.X.(*ast.Ident); ok {
			if pn, ok := c.info.ObjectOf(id).(*types.PkgName); ok && pn.Imported().Path() == "fmt" && sel.Sel.Name == "Sprintf" {
				return c.sprintf(e)
			}
		}
	}
	// conversion T(x) between string kinds
	if tv, ok := c.info.Types[e.Fun]; ok && tv.IsType() {
		if len(e.Args) == 1 && kindOf(tv.Type) == kindOf(c.typeOf(e.Args[0])) {
			return c.expr(e.Args[0])
		}
		c.g.fail(e.Pos(), "conversion %s", types.ExprString(e))
	}
	args := func() []string {
		var as []string
		for _, a := range e.Args {
			as = append(as, c.expr(a))
		}
		return as
	}
	switch f := e.Fun.(type) {
	case *ast.Ident:
		if b, ok := c.info.ObjectOf(f).(*types.Builtin); ok {
			switch b.Name() {
			case "append":
				as := args()
				if e.Ellipsis != token.NoPos {
					c.g.fail(e.Pos(), "append with ...")
				}
				return fmt.Sprintf("(%s ++ [%s])", as[0], strings.Join(as[1:], "; "))
			case "len":
				return fmt.Sprintf("(Z.of_nat (length %s))", c.expr(e.Args[0]))
			}
			c.g.fail(e.Pos(), "builtin %s", b.Name())
		}
		if fn, ok := c.info.ObjectOf(f).(*types.Func); ok {
			name := c.g.needFunc(fn, c, e.Pos())
			return "(" + strings.Join(append([]string{name}, args()...), " ") + ")"
		}
	case *ast.SelectorExpr:
		// package function
		if id, ok := f.X.(*ast.Ident); ok {
			if pn, ok := c.info.ObjectOf(id).(*types.PkgName); ok {
				path := pn.Imported().Path()
				if path == "strings" {
					as := args()
					switch f.Sel.Name {
					case "Join":
						return fmt.Sprintf("(join_str %s %s)", as[1], as[0])
					case "IndexByte":
						return fmt.Sprintf("(go_index_byte %s %s)", as[0], as[1])
					case "ToLower":
						return fmt.Sprintf("(str_to_lower %s)", as[0])
					case "EqualFold":
						return fmt.Sprintf("(str_equal_fold %s %s)", as[0], as[1])
					case "HasPrefix":
						return fmt.Sprintf("(go_has_prefix %s %s)", as[0], as[1])
					case "HasSuffix":
						return fmt.Sprintf("(go_has_suffix %s %s)", as[0], as[1])
					case "TrimSuffix":
						return fmt.Sprintf("(go_trim_suffix %s %s)", as[0], as[1])
					case "TrimPrefix":
						return fmt.Sprintf("(go_trim_prefix %s %s)", as[0], as[1])
					}
					c.g.fail(e.Pos(), "strings.%s", f.Sel.Name)
				}
				if fn, ok := c.info.ObjectOf(f.Sel).(*types.Func); ok {
					if _, ok := c.g.pkgs[path]; ok {
						name := c.g.needFunc(fn, c, e.Pos())
						return "(" + strings.Join(append([]string{name}, args()...), " ") + ")"
					}
				}
				c.g.fail(e.Pos(), "call of %s.%s", path, f.Sel.Name)
			}
		}
		sel, ok := c.info.Selections[f]
		if !ok || sel.Kind() != types.MethodVal {
			c.g.fail(e.Pos(), "call %s", types.ExprString(e))
		}
		recvT := sel.Recv()
		if isBuilder(recvT) {
			if f.Sel.Name == "String" && len(e.Args) == 0 {
				return c.expr(f.X)
			}
			c.g.fail(e.Pos(), "strings.Builder.%s used as an expression", f.Sel.Name)
		}
		fn := sel.Obj().(*types.Func)
		// interface method: the dispatcher
		if n, ok := recvT.(*types.Named); ok {
			if _, ok := n.Underlying().(*types.Interface); ok && c.g.ours(n) {
				name := c.g.needDispatcher(n, fn.Name(), c, e.Pos())
				return "(" + strings.Join(append([]string{name, c.expr(f.X)}, args()...), " ") + ")"
			}
		}
		{
			rt := recvT
			if p, ok := rt.(*types.Pointer); ok {
				rt = p.Elem()
			}
			if n, ok := rt.(*types.Named); ok {
				if iface, ok := c.g.variantOf[n]; ok {
					name := c.g.needDispatcher(iface, fn.Name(), c, e.Pos())
					return "(" + strings.Join(append([]string{name, c.expr(f.X)}, args()...), " ") + ")"
				}
			}
		}
		name := c.g.needFunc(fn, c, e.Pos())
		if c.g.recvDropped(fn) {
			return "(" + strings.Join(append([]string{name}, args()...), " ") + ")"
		}
		return "(" + strings.Join(append([]string{name, c.expr(f.X)}, args()...), " ") + ")"
	}
	c.g.fail(e.Pos(), "call %s", types.ExprString(e))
	return ""
}

// ---------------------------------------------------------------------------------------------
// statements

func (c *fnCtx) pat(ws []string) string {
	if len(ws) == 1 {
		return coqIdent(ws[0])
	}
	var p []string
	for _, w := range ws {
		p = append(p, coqIdent(w))
	}
	return "'(" + strings.Join(p, ", ") + ")"
}

func (c *fnCtx) tuple(ws []string) string {
	if len(ws) == 1 {
		return coqIdent(ws[0])
	}
	var p []string
	for _, w := range ws {
		p = append(p, coqIdent(w))
	}
	return "(" + strings.Join(p, ", ") + ")"
}

func rootIdent(e ast.Expr) *ast.Ident {
	for {
		switch x := e.(type) {
		case *ast.Ident:
			return x
		case *ast.SelectorExpr:
			e = x.X
		case *ast.ParenExpr:
			e = x.X
		case *ast.IndexExpr:
			e = x.X
		case *ast.StarExpr:
			e = x.X
		default:
			return nil
		}
	}
}

// assigned: outer variables (already in scope) that the statements assign, in scope order.
func (c *fnCtx) assigned(stmts ...ast.Stmt) []string {
	set, defined := map[string]bool{}, map[string]bool{}
	for _, s := range stmts {
		if s == nil {
			continue
		}
		ast.Inspect(s, func(n ast.Node) bool {
			switch n := n.(type) {
			case *ast.AssignStmt:
				for _, l := range n.Lhs {
					if id := rootIdent(l); id != nil {
						if n.Tok == token.DEFINE {
							defined[id.Name] = true
						} else {
							set[id.Name] = true
						}
					}
				}
			case *ast.DeclStmt:
				if gd, ok := n.Decl.(*ast.GenDecl); ok {
					for _, sp := range gd.Specs {
						if vs, ok := sp.(*ast.ValueSpec); ok {
							for _, id := range vs.Names {
								defined[id.Name] = true
							}
						}
					}
				}
			case *ast.IncDecStmt:
				if id := rootIdent(n.X); id != nil {
					set[id.Name] = true
				}
			case *ast.ExprStmt:
				if call, ok := n.X.(*ast.CallExpr); ok {
					if sel, ok := call.Fun.(*ast.SelectorExpr); ok {
						if isBuilder(c.typeOf(sel.X)) {
							if id := rootIdent(sel.X); id != nil {
								set[id.Name] = true
							}
						}
					}
				}
			}
			return true
		})
	}
	var out []string
	for _, v := range c.scope {
		if set[v] && !defined[v] {
			out = append(out, v)
		}
	}
	return out
}

func returns(stmts []ast.Stmt) bool {
	if len(stmts) == 0 {
		return false
	}
	switch s := stmts[len(stmts)-1].(type) {
	case *ast.ReturnStmt:
		return true
	case *ast.BlockStmt:
		return returns(s.List)
	case *ast.IfStmt:
		if s.Else == nil {
			return false
		}
		var els []ast.Stmt
		switch e := s.Else.(type) {
		case *ast.BlockStmt:
			els = e.List
		default:
			els = []ast.Stmt{e}
		}
		return returns(s.Body.List) && returns(els)
	}
	return false
}

func hasReturn(stmts []ast.Stmt) bool {
	found := false
	for _, s := range stmts {
		ast.Inspect(s, func(n ast.Node) bool {
			if _, ok := n.(*ast.ReturnStmt); ok {
				found = true
			}
			if _, ok := n.(*ast.FuncLit); ok {
				return false
			}
			return true
		})
	}
	return found
}

func (c *fnCtx) scoped(f func() string) string {
	saveScope := append([]string(nil), c.scope...)
	saveSubst := map[string]string{}
	for k, v := range c.subst {
		saveSubst[k] = v
	}
	out := f()
	c.scope, c.subst = saveScope, saveSubst
	return out
}

func elseList(s ast.Stmt) []ast.Stmt {
	switch e := s.(type) {
	case nil:
		return nil
	case *ast.BlockStmt:
		return e.List
	default:
		return []ast.Stmt{e}
	}
}

func cmt(s string) string {
	s = strings.ReplaceAll(s, "github.com/reedom/convergen/pkg/", "")
	return strings.ReplaceAll(strings.ReplaceAll(s, "(*", "( *"), "*)", "* )")
}

func unreachable() string { return "(* unreachable *) []" }

// block translates stmts followed by tail (the Gallina term of whatever follows the block).
func (c *fnCtx) block(stmts []ast.Stmt, tail func() string) string {
	if len(stmts) == 0 {
		return tail()
	}
	rest := func() string { return c.block(stmts[1:], tail) }
	switch s := stmts[0].(type) {
	case *ast.EmptyStmt:
		return rest()
	case *ast.BlockStmt:
		return c.block(append(append([]ast.Stmt(nil), s.List...), stmts[1:]...), tail)
	case *ast.DeclStmt:
		gd, ok := s.Decl.(*ast.GenDecl)
		if !ok || gd.Tok != token.VAR {
			c.g.fail(s.Pos(), "declaration statement")
		}
		var sb strings.Builder
		for _, sp := range gd.Specs {
			vs := sp.(*ast.ValueSpec)
			for i, id := range vs.Names {
				t := c.info.ObjectOf(id).Type()
				var v string
				if i < len(vs.Values) {
					v = c.expr(vs.Values[i])
				} else {
					v = c.g.zero(t, id.Pos())
				}
				c.bind(id.Name)
				fmt.Fprintf(&sb, "let %s : %s := %s in\n", coqIdent(id.Name), c.g.coqType(t, true, id.Pos()), v)
			}
		}
		return sb.String() + rest()
	case *ast.ExprStmt:
		call, ok := s.X.(*ast.CallExpr)
		if ok {
			if sel, ok := call.Fun.(*ast.SelectorExpr); ok && isBuilder(c.typeOf(sel.X)) {
				id, isId := sel.X.(*ast.Ident)
				if !isId {
					c.g.fail(s.Pos(), "builder %s is not a local variable", types.ExprString(sel.X))
				}
				switch sel.Sel.Name {
				case "WriteString":
					return fmt.Sprintf("let %s := %s ++ %s in\n", coqIdent(id.Name), coqIdent(id.Name), c.expr(call.Args[0])) + rest()
				case "WriteByte", "WriteRune":
					return fmt.Sprintf("let %s := %s ++ [%s] in\n", coqIdent(id.Name), coqIdent(id.Name), c.expr(call.Args[0])) + rest()
				case "Reset":
					return fmt.Sprintf("let %s : str := [] in\n", coqIdent(id.Name)) + rest()
				}
			}
		}
		c.g.fail(s.Pos(), "expression statement %s", types.ExprString(s.X))
	case *ast.AssignStmt:
		return c.assign(s) + rest()
	case *ast.ReturnStmt:
		if len(s.Results) == 0 {
			if len(c.results) == 0 {
				c.g.fail(s.Pos(), "return without value")
			}
			return c.tuple(c.results)
		}
		var rs []string
		for _, r := range s.Results {
			rs = append(rs, c.expr(r))
		}
		if len(rs) == 1 {
			return rs[0]
		}
		return "(" + strings.Join(rs, ", ") + ")"
	case *ast.IfStmt:
		return c.ifStmt(s, stmts[1:], tail)
	case *ast.RangeStmt:
		return c.rangeStmt(s, rest)
	}
	c.g.fail(stmts[0].Pos(), "statement %T", stmts[0])
	return ""
}

func (c *fnCtx) assign(s *ast.AssignStmt) string {
	// v, ok := t.(*types.K): the value itself and whether it belongs to the class
	if len(s.Lhs) == 2 && len(s.Rhs) == 1 {
		if ta, isTA := s.Rhs[0].(*ast.TypeAssertExpr); isTA && ta.Type != nil {
			if rec, isClass := typeClasses[c.typeOf(ta.Type).String()]; isClass && c.typeOf(ta.X).String() == "go/types.Type" {
				x := c.expr(ta.X)
				var out string
				if id, ok := s.Lhs[0].(*ast.Ident); ok && id.Name != "_" {
					c.bind(id.Name)
					out += fmt.Sprintf("let %s := %s in\n", coqIdent(id.Name), x)
				}
				if id, ok := s.Lhs[1].(*ast.Ident); ok && id.Name != "_" {
					c.bind(id.Name)
					out += fmt.Sprintf("let %s := (%s %s) in\n", coqIdent(id.Name), rec, x)
				}
				return out
			}
		}
	}
	// v, ok := call() / a, b := f()
	if len(s.Lhs) > 1 && len(s.Rhs) == 1 {
		var names []string
		for _, l := range s.Lhs {
			id, ok := l.(*ast.Ident)
			if !ok {
				c.g.fail(s.Pos(), "multi-assignment to %s", types.ExprString(l))
			}
			names = append(names, id.Name)
		}
		v := c.expr(s.Rhs[0])
		for _, n := range names {
			if n != "_" {
				c.bind(n)
			}
		}
		var p []string
		for _, n := range names {
			if n == "_" {
				p = append(p, "_")
			} else {
				p = append(p, coqIdent(n))
			}
		}
		return fmt.Sprintf("let '(%s) := %s in\n", strings.Join(p, ", "), v)
	}
	if len(s.Lhs) != len(s.Rhs) {
		c.g.fail(s.Pos(), "assignment shape")
	}
	if len(s.Lhs) > 1 {
		// parallel assignment: evaluate all right-hand sides first
		var vals, names []string
		for i := range s.Lhs {
			id, ok := s.Lhs[i].(*ast.Ident)
			if !ok {
				c.g.fail(s.Pos(), "parallel assignment to %s", types.ExprString(s.Lhs[i]))
			}
			vals = append(vals, c.expr(s.Rhs[i]))
			names = append(names, id.Name)
		}
		for _, n := range names {
			c.bind(n)
		}
		return fmt.Sprintf("let %s := (%s) in\n", c.pat(names), strings.Join(vals, ", "))
	}
	lhs, rhs := s.Lhs[0], s.Rhs[0]
	switch l := lhs.(type) {
	case *ast.Ident:
		v := c.expr(rhs)
		switch s.Tok {
		case token.ASSIGN, token.DEFINE:
		case token.ADD_ASSIGN:
			if kindOf(c.typeOf(lhs)) != "str" {
				c.g.fail(s.Pos(), "+= on a non-string")
			}
			v = fmt.Sprintf("%s ++ %s", coqIdent(l.Name), v)
		default:
			c.g.fail(s.Pos(), "assignment operator %s", s.Tok)
		}
		if s.Tok == token.DEFINE {
			if _, isPtr := c.typeOf(rhs).(*types.Pointer); isPtr {
				if _, ext := externTypes[c.typeOf(rhs).String()]; !ext {
					c.g.fail(s.Pos(), "pointer-valued local %s", l.Name)
				}
			}
		}
		c.bind(l.Name)
		return fmt.Sprintf("let %s := %s in\n", coqIdent(l.Name), v)
	case *ast.SelectorExpr:
		// x.F = e on a local struct value
		id, ok := l.X.(*ast.Ident)
		if !ok || s.Tok != token.ASSIGN {
			c.g.fail(s.Pos(), "assignment to %s", types.ExprString(lhs))
		}
		t := c.typeOf(l.X)
		if _, isPtr := t.(*types.Pointer); isPtr {
			c.g.fail(s.Pos(), "assignment through a pointer: %s", types.ExprString(lhs))
		}
		n, ok := t.(*types.Named)
		if !ok {
			c.g.fail(s.Pos(), "assignment to a field of %s", t)
		}
		st, ok := n.Underlying().(*types.Struct)
		if !ok {
			c.g.fail(s.Pos(), "assignment to a field of %s", t)
		}
		c.g.needStruct(n, s.Pos())
		v := c.expr(rhs)
		var fs []string
		for i := 0; i < st.NumFields(); i++ {
			f := st.Field(i)
			if c.g.omitted[f] {
				continue
			}
			if f.Name() == l.Sel.Name {
				fs = append(fs, fmt.Sprintf("%s_%s := %s", n.Obj().Name(), f.Name(), v))
			} else {
				fs = append(fs, fmt.Sprintf("%s_%s := %s_%s %s", n.Obj().Name(), f.Name(), n.Obj().Name(), f.Name(), coqIdent(id.Name)))
			}
		}
		return fmt.Sprintf("let %s := {| %s |} in\n", coqIdent(id.Name), strings.Join(fs, "; "))
	}
	c.g.fail(s.Pos(), "assignment to %s", types.ExprString(lhs))
	return ""
}

// nilTest recognises `p != nil` / `p == nil` on a pointer to a struct.
func (c *fnCtx) nilTest(e ast.Expr) (ptr ast.Expr, nonNil bool, ok bool) {
	b, isBin := e.(*ast.BinaryExpr)
	if !isBin || (b.Op != token.NEQ && b.Op != token.EQL) {
		return nil, false, false
	}
	x, y := b.X, b.Y
	if id, isId := x.(*ast.Ident); isId && id.Name == "nil" {
		x, y = y, x
	}
	if id, isId := y.(*ast.Ident); !isId || id.Name != "nil" {
		return nil, false, false
	}
	switch c.typeOf(x).Underlying().(type) {
	case *types.Pointer, *types.Interface:
	default:
		c.g.fail(e.Pos(), "nil test on %s", c.typeOf(x))
	}
	return x, b.Op == token.NEQ, true
}

func (c *fnCtx) ifStmt(s *ast.IfStmt, after []ast.Stmt, tail func() string) string {
	// if v, ok := a.(T); ok { A } [else { B }]
	if as, ok := s.Init.(*ast.AssignStmt); ok && len(as.Lhs) == 2 && len(as.Rhs) == 1 {
		if ta, ok := as.Rhs[0].(*ast.TypeAssertExpr); ok {
			okId, _ := as.Lhs[1].(*ast.Ident)
			cond, _ := s.Cond.(*ast.Ident)
			vId, _ := as.Lhs[0].(*ast.Ident)
			if okId == nil || cond == nil || vId == nil || okId.Name != cond.Name {
				c.g.fail(s.Pos(), "type assertion whose flag is not the condition")
			}
			if _, isClass := typeClasses[c.typeOf(ta.Type).String()]; isClass {
				init := s.Init
				s2 := *s
				s2.Init = nil
				return c.block(append([]ast.Stmt{init, &s2}, after...), tail)
			}
			tn, ok := c.typeOf(ta.Type).(*types.Named)
			if !ok {
				c.g.fail(s.Pos(), "type assertion to %s", c.typeOf(ta.Type))
			}
			iface, ok := c.g.variantOf[tn]
			if !ok {
				c.g.fail(s.Pos(), "type assertion to %s, which is not a case of a translated interface", tn)
			}
			c.g.needIface(iface, s.Pos())
			st := tn.Underlying().(*types.Struct)
			return c.branch(s, after, tail, func(thenS, elseS string) string {
				return fmt.Sprintf("match %s with\n| %s => %s\n| _ => %s\nend", c.expr(ta.X), c.ctorPattern(tn, st, vId.Name), thenS, elseS)
			}, func() {
				for i := 0; i < st.NumFields(); i++ {
					c.subst[vId.Name+"."+st.Field(i).Name()] = vId.Name + "_" + st.Field(i).Name()
				}
			})
		}
	}
	if s.Init != nil {
		// if init; cond {..}: the initialiser is an ordinary statement in front
		init := s.Init
		s2 := *s
		s2.Init = nil
		return c.block(append([]ast.Stmt{init, &s2}, after...), tail)
	}
	if p, nonNil, ok := c.nilTest(s.Cond); ok {
		key := types.ExprString(p)
		c.fresh++
		v := fmt.Sprintf("p%d", c.fresh)
		pe := c.expr(p)
		return c.branch(s, after, tail, func(thenS, elseS string) string {
			if nonNil {
				return fmt.Sprintf("match %s with\n| Some %s => %s\n| None => %s\nend", pe, v, thenS, elseS)
			}
			return fmt.Sprintf("match %s with\n| None => %s\n| Some %s => %s\nend", pe, thenS, v, elseS)
		}, func() {
			if nonNil {
				c.subst[key] = v
			}
		})
	}
	cond := c.expr(s.Cond)
	return c.branch(s, after, tail, func(thenS, elseS string) string {
		return fmt.Sprintf("if %s\nthen %s\nelse %s", cond, thenS, elseS)
	}, func() {})
}

func (c *fnCtx) ctorPattern(tn *types.Named, st *types.Struct, v string) string {
	var ps []string
	for i := 0; i < st.NumFields(); i++ {
		ps = append(ps, v+"_"+st.Field(i).Name())
	}
	return strings.TrimSpace(tn.Obj().Name() + " " + strings.Join(ps, " "))
}

// branch assembles a two-way branch; mk builds the Gallina conditional from the two arms;
// inThen installs the bindings that hold in the then-arm only.
func (c *fnCtx) branch(s *ast.IfStmt, after []ast.Stmt, tail func() string, mk func(thenS, elseS string) string, inThen func()) string {
	thenL, elseL := s.Body.List, elseList(s.Else)
	thenRet, elseRet := returns(thenL), s.Else != nil && returns(elseL)
	if (hasReturn(thenL) && !thenRet) || (hasReturn(elseL) && !elseRet) {
		c.g.fail(s.Pos(), "a return that is not the last statement of its branch")
	}
	dead := func() string { return unreachable() }
	switch {
	case thenRet && elseRet:
		t := c.scoped(func() string { inThen(); return c.block(thenL, dead) })
		e := c.scoped(func() string { return c.block(elseL, dead) })
		return "(" + mk(t, e) + ")"
	case thenRet:
		t := c.scoped(func() string { inThen(); return c.block(thenL, dead) })
		e := c.scoped(func() string { return c.block(append(append([]ast.Stmt(nil), elseL...), after...), tail) })
		return "(" + mk(t, e) + ")"
	case elseRet:
		t := c.scoped(func() string {
			inThen()
			return c.block(append(append([]ast.Stmt(nil), thenL...), after...), tail)
		})
		e := c.scoped(func() string { return c.block(elseL, dead) })
		return "(" + mk(t, e) + ")"
	}
	var both []ast.Stmt
	both = append(both, thenL...)
	both = append(both, elseL...)
	ws := c.assigned(both...)
	if len(ws) == 0 {
		// no effect on the state
		return c.block(after, tail)
	}
	tup := func() string { return c.tuple(ws) }
	t := c.scoped(func() string { inThen(); return c.block(thenL, tup) })
	e := c.scoped(func() string { return c.block(elseL, tup) })
	return fmt.Sprintf("let %s := (%s) in\n", c.pat(ws), mk(t, e)) + c.block(after, tail)
}

func (c *fnCtx) rangeStmt(s *ast.RangeStmt, rest func() string) string {
	if hasReturn(s.Body.List) {
		c.g.fail(s.Pos(), "return inside a loop")
	}
	if kindOf(c.typeOf(s.X)) != "list" {
		c.g.fail(s.Pos(), "range over %s", c.typeOf(s.X))
	}
	xs := c.expr(s.X)
	ws := c.assigned(s.Body.List...)
	if len(ws) == 0 {
		return rest()
	}
	var elem string
	var install func()
	keyId, _ := s.Key.(*ast.Ident)
	valId, _ := s.Value.(*ast.Ident)
	if valId != nil && valId.Name != "_" {
		elem = coqIdent(valId.Name)
		install = func() { c.bind(valId.Name) }
	} else {
		c.fresh++
		elem = fmt.Sprintf("x%d", c.fresh)
		install = func() {}
	}
	if keyId != nil && keyId.Name != "_" {
		// the key may only be used to index the ranged expression
		keyObj := c.info.ObjectOf(keyId)
		okUse := true
		idxText := ""
		ast.Inspect(s.Body, func(n ast.Node) bool {
			if ix, ok := n.(*ast.IndexExpr); ok {
				if id, ok := ix.Index.(*ast.Ident); ok && c.info.ObjectOf(id) == keyObj && types.ExprString(ix.X) == types.ExprString(s.X) {
					idxText = types.ExprString(ix)
					return false
				}
			}
			if id, ok := n.(*ast.Ident); ok && c.info.ObjectOf(id) == keyObj {
				okUse = false
			}
			return true
		})
		if !okUse {
			c.g.fail(s.Pos(), "loop index %s used other than to index %s", keyId.Name, types.ExprString(s.X))
		}
		prev := install
		install = func() {
			prev()
			if idxText != "" {
				c.subst[idxText] = elem
			}
		}
	}
	body := c.scoped(func() string {
		install()
		return c.block(s.Body.List, func() string { return c.tuple(ws) })
	})
	return fmt.Sprintf("let %s := fold_left (fun %s %s =>\n%s) %s %s in\n", c.pat(ws), c.pat(ws), elem, body, xs, c.tuple(ws)) + rest()
}

// ---------------------------------------------------------------------------------------------
// functions

func (g *gofun) coqFuncName(fn *types.Func) string {
	sig := fn.Type().(*types.Signature)
	if r := sig.Recv(); r != nil {
		t := r.Type()
		if p, ok := t.(*types.Pointer); ok {
			t = p.Elem()
		}
		if n, ok := t.(*types.Named); ok {
			if g.recvDropped(fn) {
				return fn.Name()
			}
			return n.Obj().Name() + "_" + fn.Name()
		}
	}
	return fn.Name()
}

// recvDropped: a method whose body never mentions its receiver is translated as a plain function.
func (g *gofun) recvDropped(fn *types.Func) bool {
	d := g.decls[fn]
	if d == nil || d.Recv == nil || len(d.Recv.List) == 0 {
		return false
	}
	if len(d.Recv.List[0].Names) == 0 {
		return true
	}
	info := g.infoOf[fn]
	obj := info.ObjectOf(d.Recv.List[0].Names[0])
	if g.dropping[fn] {
		return true // a recursive call through the receiver
	}
	g.dropping[fn] = true
	defer delete(g.dropping, fn)
	used := false
	ast.Inspect(d.Body, func(n ast.Node) bool {
		// recv.M(..) where M itself ignores its receiver does not count as a use
		if call, ok := n.(*ast.CallExpr); ok {
			if sel, ok := call.Fun.(*ast.SelectorExpr); ok {
				if id, ok := sel.X.(*ast.Ident); ok && info.ObjectOf(id) == obj {
					if s, ok := info.Selections[sel]; ok && s.Kind() == types.MethodVal {
						if callee, ok := s.Obj().(*types.Func); ok && g.recvDropped(callee) {
							for _, a := range call.Args {
								ast.Inspect(a, func(m ast.Node) bool {
									if id, ok := m.(*ast.Ident); ok && info.ObjectOf(id) == obj {
										used = true
									}
									return true
								})
							}
							return false
						}
					}
				}
			}
		}
		if id, ok := n.(*ast.Ident); ok && info.ObjectOf(id) == obj {
			used = true
		}
		return true
	})
	return !used
}

func (g *gofun) needFunc(fn *types.Func, from *fnCtx, pos token.Pos) string {
	name := g.coqFuncName(fn)
	if g.funDone[name] {
		return name
	}
	if g.inProg[name] {
		if from == nil || from.self != name {
			g.fail(pos, "mutual recursion through %s", name)
		}
		g.recursive[name] = true
		return name
	}
	d := g.decls[fn]
	if d == nil || d.Body == nil {
		g.fail(pos, "function %s has no body in the translated packages", fn.FullName())
	}
	// a method of a struct that is a case of an interface is only reachable through the dispatcher
	sig := fn.Type().(*types.Signature)
	if r := sig.Recv(); r != nil && !g.recvDropped(fn) {
		t := r.Type()
		if p, ok := t.(*types.Pointer); ok {
			t = p.Elem()
		}
		if n, ok := t.(*types.Named); ok {
			if _, isVariant := g.variantOf[n]; isVariant {
				g.fail(pos, "direct call of %s on a case of an interface", fn.FullName())
			}
		}
	}
	g.inProg[name] = true
	c := &fnCtx{g: g, info: g.infoOf[fn], subst: map[string]string{}, self: name}
	var params []string
	if d.Recv != nil && !g.recvDropped(fn) {
		rn := d.Recv.List[0].Names[0]
		c.bind(rn.Name)
		params = append(params, fmt.Sprintf("(%s : %s)", coqIdent(rn.Name), g.coqType(c.info.ObjectOf(rn).Type(), false, rn.Pos())))
	}
	var structArg string
	for _, f := range d.Type.Params.List {
		for _, id := range f.Names {
			t := c.info.ObjectOf(id).Type()
			ct := g.coqType(t, false, id.Pos())
			if id.Name == "_" {
				c.fresh++
				params = append(params, fmt.Sprintf("(_u%d : %s)", c.fresh, ct))
				continue
			}
			c.bind(id.Name)
			params = append(params, fmt.Sprintf("(%s : %s)", coqIdent(id.Name), ct))
			if n, ok := t.(*types.Named); ok {
				if _, ok := n.Underlying().(*types.Interface); ok && structArg == "" {
					structArg = coqIdent(id.Name)
				}
			}
		}
	}
	var pre strings.Builder
	var resT []string
	if d.Type.Results != nil {
		for _, f := range d.Type.Results.List {
			t := c.info.TypeOf(f.Type)
			if len(f.Names) == 0 {
				resT = append(resT, g.coqType(t, false, f.Pos()))
			}
			for _, id := range f.Names {
				resT = append(resT, g.coqType(t, false, id.Pos()))
				c.results = append(c.results, id.Name)
				c.bind(id.Name)
				fmt.Fprintf(&pre, "let %s : %s := %s in\n", coqIdent(id.Name), g.coqType(t, false, id.Pos()), g.zero(t, id.Pos()))
			}
		}
	}
	if len(resT) == 0 {
		g.fail(d.Pos(), "function %s returns nothing", name)
	}
	body := pre.String() + c.block(d.Body.List, func() string {
		g.fail(d.Body.Rbrace, "function %s can fall off its end", name)
		return ""
	})
	kw, ann := "Definition", ""
	if g.recursive[name] {
		if structArg == "" {
			g.fail(d.Pos(), "recursive function %s without an argument of a translated interface type to recurse on", name)
		}
		kw, ann = "Fixpoint", fmt.Sprintf(" {struct %s}", structArg)
	}
	g.funOut = append(g.funOut, fmt.Sprintf("(* %s: func %s *)\n%s %s %s%s : %s :=\n%s.\n", g.where(d.Pos()), cmt(fn.FullName()), kw, name, strings.Join(params, " "), ann, strings.Join(resT, " * "), body))
	delete(g.inProg, name)
	g.funDone[name] = true
	return name
}

// needDispatcher: method m of interface n as one function by cases over the implementing structs,
// with each implementing method's body inlined (receiver fields bound by the pattern).
func (g *gofun) needDispatcher(n *types.Named, m string, from *fnCtx, pos token.Pos) string {
	name := n.Obj().Name() + "_" + m
	if g.funDone[name] {
		return name
	}
	if g.inProg[name] {
		if from == nil || from.self != name {
			g.fail(pos, "mutual recursion through %s", name)
		}
		g.recursive[name] = true
		return name
	}
	g.needIface(n, pos)
	g.inProg[name] = true
	var arms []string
	var resT string
	for _, v := range g.variants[n.Obj().Name()] {
		obj, _, _ := types.LookupFieldOrMethod(types.NewPointer(v), true, v.Obj().Pkg(), m)
		fn, ok := obj.(*types.Func)
		if !ok {
			g.fail(pos, "%s has no method %s", v, m)
		}
		d := g.decls[fn]
		if d == nil || d.Body == nil {
			g.fail(pos, "method %s has no body", fn.FullName())
		}
		if len(d.Type.Params.List) != 0 {
			g.fail(d.Pos(), "interface method %s with parameters", fn.FullName())
		}
		c := &fnCtx{g: g, info: g.infoOf[fn], subst: map[string]string{}, self: name}
		st := v.Underlying().(*types.Struct)
		rv := "r"
		if len(d.Recv.List[0].Names) > 0 {
			rv = d.Recv.List[0].Names[0].Name
		}
		for i := 0; i < st.NumFields(); i++ {
			c.subst[rv+"."+st.Field(i).Name()] = rv + "_" + st.Field(i).Name()
		}
		c.subst[rv] = "(" + c.ctorPattern(v, st, rv) + ")" // the receiver as a whole
		if d.Type.Results == nil || len(d.Type.Results.List) != 1 || len(d.Type.Results.List[0].Names) != 0 {
			g.fail(d.Pos(), "interface method %s: result shape", fn.FullName())
		}
		resT = g.coqType(c.info.TypeOf(d.Type.Results.List[0].Type), false, d.Pos())
		body := c.block(d.Body.List, func() string {
			g.fail(d.Body.Rbrace, "method %s can fall off its end", fn.FullName())
			return ""
		})
		arms = append(arms, fmt.Sprintf("(* %s: func %s *)\n| %s =>\n%s", g.where(d.Pos()), cmt(fn.FullName()), c.ctorPattern(v, st, rv), body))
	}
	kw, ann := "Definition", ""
	if g.recursive[name] {
		kw, ann = "Fixpoint", " {struct a}"
	}
	g.funOut = append(g.funOut, fmt.Sprintf("(* method %s of interface %s, by cases *)\n%s %s (a : %s_t)%s : %s :=\nmatch a with\n%s\nend.\n", m, n.Obj().Name(), kw, name, n.Obj().Name(), ann, resT, strings.Join(arms, "\n")))
	delete(g.inProg, name)
	g.funDone[name] = true
	return name
}

// translateRoots translates the given functions ("pkgpath.Func" or "pkgpath.Type.Method") and
// everything they call inside the loaded packages.
func (g *gofun) translateRoot(fn *types.Func) (err string) {
	defer func() {
		if r := recover(); r != nil {
			if u, ok := r.(unsupported); ok {
				err = u.msg
				g.inProg = map[string]bool{}
				return
			}
			panic(r)
		}
	}()
	g.needFunc(fn, nil, fn.Pos())
	return ""
}

type gofunUnit struct {
	module string
	paths  []string
	// roots: {pkg path, type name or "", function/method name}; for an interface type, the method by cases
	roots [][3]string
	doc   string
}

var gofunUnits = []gofunUnit{
	{module: "GoGen", paths: []string{"github.com/reedom/convergen/pkg/generator", "github.com/reedom/convergen/pkg/generator/model"},
		roots: [][3]string{{"github.com/reedom/convergen/pkg/generator", "Generator", "FuncToString"}},
		doc:   "pkg/generator (FuncToString, AssignmentToString, ManipulatorToString) and pkg/generator/model (String()/RetError() of the assignment kinds, loopVars, Var.FullType)"},
	{module: "GoNode", paths: []string{"github.com/reedom/convergen/pkg/builder/model", "github.com/reedom/convergen/pkg/option",
		"github.com/reedom/convergen/pkg/builder", "github.com/reedom/convergen/pkg/parser"}, // the last two only so that nil comparisons of fields are seen
		roots: [][3]string{
			{"github.com/reedom/convergen/pkg/builder/model", "Node", "ObjName"},
			{"github.com/reedom/convergen/pkg/builder/model", "Node", "ExprType"},
			{"github.com/reedom/convergen/pkg/builder/model", "Node", "ReturnsError"},
			{"github.com/reedom/convergen/pkg/builder/model", "Node", "ObjNullable"},
			{"github.com/reedom/convergen/pkg/builder/model", "Node", "AssignExpr"},
			{"github.com/reedom/convergen/pkg/builder/model", "Node", "MatcherExpr"},
			{"github.com/reedom/convergen/pkg/builder/model", "Node", "NullCheckExpr"},
			{"github.com/reedom/convergen/pkg/option", "IdentMatcher", "Match"},
			{"github.com/reedom/convergen/pkg/option", "IdentMatcher", "ForGetter"},
			{"github.com/reedom/convergen/pkg/option", "IdentMatcher", "ExprAt"},
			{"github.com/reedom/convergen/pkg/option", "IdentMatcher", "PathLen"},
			{"github.com/reedom/convergen/pkg/option", "NameMatcher", "Match"},
			{"github.com/reedom/convergen/pkg/option", "FieldConverter", "Match"},
			{"github.com/reedom/convergen/pkg/option", "FieldConverter", "RHSExpr"},
			{"github.com/reedom/convergen/pkg/option", "Options", "CompareFieldName"},
		},
		doc: "pkg/builder/model node.go and struct.go: the methods of the expression nodes (RootNode, ScalarNode, ConverterNode, TypecastEntry, StringerEntry, StructFieldNode, StructMethodNode) by cases"},
}

func init() {
	gofunUnits = append(gofunUnits, gofunUnit{module: "GoUtil", paths: []string{"github.com/reedom/convergen/pkg/util"},
		roots: [][3]string{
			{"github.com/reedom/convergen/pkg/util", "", "IsSliceType"},
			{"github.com/reedom/convergen/pkg/util", "", "IsBasicType"},
			{"github.com/reedom/convergen/pkg/util", "", "IsNamedType"},
			{"github.com/reedom/convergen/pkg/util", "", "IsPtr"},
			{"github.com/reedom/convergen/pkg/util", "", "DerefPtr"},
			{"github.com/reedom/convergen/pkg/util", "", "Deref"},
		},
		doc: "pkg/util/types.go: the class predicates on types.Type"})
}

func (g *gofun) translateDispatcherRoot(n *types.Named, m string) (err string) {
	defer func() {
		if r := recover(); r != nil {
			if u, ok := r.(unsupported); ok {
				err = u.msg
				g.inProg = map[string]bool{}
				return
			}
			panic(r)
		}
	}()
	g.needDispatcher(n, m, nil, n.Obj().Pos())
	return ""
}

func translateUnit(repo string, u gofunUnit) (body string, problems []string) {
	cfg := &packages.Config{
		Mode: packages.NeedName | packages.NeedFiles | packages.NeedSyntax | packages.NeedTypes | packages.NeedTypesInfo | packages.NeedImports | packages.NeedDeps,
		Dir:  repo,
		Env:  append(os.Environ(), "GOFLAGS=-mod=mod", "GOPROXY=off", "GOSUMDB=off"),
	}
	pkgs, err := packages.Load(cfg, u.paths...)
	g := &gofun{pkgs: map[string]*packages.Package{}, decls: map[*types.Func]*ast.FuncDecl{}, infoOf: map[*types.Func]*types.Info{},
		typeDone: map[string]bool{}, funDone: map[string]bool{}, inProg: map[string]bool{}, recursive: map[string]bool{},
		variants: map[string][]*types.Named{}, variantOf: map[*types.Named]*types.Named{}, dropping: map[*types.Func]bool{},
		nilable: map[*types.Var]bool{}, omitted: map[*types.Var]bool{}}
	if err != nil {
		problems = append(problems, "load: "+err.Error())
	}
	for _, p := range pkgs {
		for _, e := range p.Errors {
			problems = append(problems, "load: "+e.Error())
		}
		g.pkgs[p.PkgPath] = p
		g.fset = p.Fset
	}
	if len(problems) > 0 {
		return "", problems
	}
	for _, p := range pkgs {
		for _, f := range p.Syntax {
			for _, d := range f.Decls {
				if fd, ok := d.(*ast.FuncDecl); ok {
					if fn, ok := p.TypesInfo.Defs[fd.Name].(*types.Func); ok {
						g.decls[fn] = fd
						g.infoOf[fn] = p.TypesInfo
					}
				}
			}
			// struct fields compared with nil
			info := p.TypesInfo
			ast.Inspect(f, func(n ast.Node) bool {
				b, ok := n.(*ast.BinaryExpr)
				if !ok || (b.Op != token.EQL && b.Op != token.NEQ) {
					return true
				}
				for _, pair := range [][2]ast.Expr{{b.X, b.Y}, {b.Y, b.X}} {
					if id, ok := pair[1].(*ast.Ident); ok && id.Name == "nil" {
						if sel, ok := pair[0].(*ast.SelectorExpr); ok {
							if s, ok := info.Selections[sel]; ok && s.Kind() == types.FieldVal {
								if fv, ok := s.Obj().(*types.Var); ok {
									g.nilable[fv] = true
								}
							}
						}
					}
				}
				return true
			})
		}
	}
	for _, p := range pkgs {
		scope := p.Types.Scope()
		var named []*types.Named
		for _, nm := range scope.Names() {
			if tn, ok := scope.Lookup(nm).(*types.TypeName); ok && !tn.IsAlias() {
				if n, ok := tn.Type().(*types.Named); ok {
					named = append(named, n)
				}
			}
		}
		sort.Slice(named, func(i, j int) bool { return named[i].Obj().Pos() < named[j].Obj().Pos() })
		for _, in := range named {
			it, ok := in.Underlying().(*types.Interface)
			if !ok || it.NumMethods() == 0 {
				continue
			}
			for _, sn := range named {
				if _, ok := sn.Underlying().(*types.Struct); !ok {
					continue
				}
				if types.Implements(sn, it) || types.Implements(types.NewPointer(sn), it) {
					if _, taken := g.variantOf[sn]; taken {
						continue
					}
					g.variants[in.Obj().Name()] = append(g.variants[in.Obj().Name()], sn)
					g.variantOf[sn] = in
				}
			}
		}
	}
	for _, r := range u.roots {
		p := g.pkgs[r[0]]
		if p == nil {
			problems = append(problems, fmt.Sprintf("root %v: package not loaded", r))
			continue
		}
		if r[1] == "" {
			fn, _ := p.Types.Scope().Lookup(r[2]).(*types.Func)
			if fn == nil {
				problems = append(problems, fmt.Sprintf("root %v not found", r))
			} else if e := g.translateRoot(fn); e != "" {
				problems = append(problems, fmt.Sprintf("%s: unsupported: %s", r[2], e))
			}
			continue
		}
		tn, ok := p.Types.Scope().Lookup(r[1]).(*types.TypeName)
		if !ok {
			problems = append(problems, fmt.Sprintf("root %v: type not found", r))
			continue
		}
		if n, ok := tn.Type().(*types.Named); ok {
			if _, isI := n.Underlying().(*types.Interface); isI {
				if e := g.translateDispatcherRoot(n, r[2]); e != "" {
					problems = append(problems, fmt.Sprintf("%s.%s: unsupported: %s", r[1], r[2], e))
				}
				continue
			}
		}
		obj, _, _ := types.LookupFieldOrMethod(types.NewPointer(tn.Type()), true, p.Types, r[2])
		fn, _ := obj.(*types.Func)
		if fn == nil {
			problems = append(problems, fmt.Sprintf("root %v not found", r))
		} else if e := g.translateRoot(fn); e != "" {
			problems = append(problems, fmt.Sprintf("%s: unsupported: %s", r[2], e))
		}
	}
	var sb strings.Builder
	sb.WriteString("(* " + cmt(u.doc) + " *)\nModule " + u.module + ".\n\n")
	for _, t := range g.typeOut {
		sb.WriteString(t + "\n")
	}
	for _, f := range g.funOut {
		sb.WriteString(f + "\n")
	}
	sb.WriteString("End " + u.module + ".\n\n")
	return sb.String(), problems
}

func writeGoFuns(repo, out string) {
	var sb strings.Builder
	sb.WriteString("(** GoFuns.v — GENERATED by harness/cmd/translate (gofun.go) from /repo's Go sources on every run. Do not edit.\n")
	sb.WriteString("    Go functions translated statement by statement (see DESIGN.md section 3.1, stage 2). *)\n")
	sb.WriteString("From Coq Require Import List NArith ZArith Bool.\nFrom Cvg Require Import Base GoTypes Re Unicode GoLib.\nImport ListNotations.\nOpen Scope N_scope.\n\n")
	var problems []string
	for _, u := range gofunUnits {
		body, ps := translateUnit(repo, u)
		sb.WriteString(body)
		for _, p := range ps {
			problems = append(problems, u.module+": "+p)
		}
	}
	sb.WriteString("(* what the translator could not translate (the tie proofs then fail to build) *)\n")
	sb.WriteString("Definition gofun_untranslated : list (list N) :=\n  [")
	for i, p := range problems {
		if i > 0 {
			sb.WriteString(";\n   ")
		}
		sb.WriteString("(* " + cmt(p) + " *) " + bytesLit(p))
	}
	sb.WriteString("].\n")
	if err := os.WriteFile(filepath.Join(out, "GoFuns.v"), []byte(sb.String()), 0o644); err != nil {
		die("%v", err)
	}
	for _, p := range problems {
		fmt.Fprintln(os.Stderr, "translate: gofun:", p)
	}
}
