// translate — regenerates the data parts of the Coq model from /repo's current
// sources (go/ast, no type checking) and from Go's unicode package:
//   Extracted.v      option tables, defaults, regexp sources, enum values, literals, flag table
//   UnicodeTables.v  ToLower / SimpleFold runs, letter / digit / space ranges, \p classes
package main

import (
	"flag"
	"fmt"
	"go/ast"
	"go/parser"
	"go/token"
	"os"
	"path/filepath"
	"sort"
	"strconv"
	"strings"
	"unicode"

	"verif/harness/dump"
	"verif/harness/tool"
)

func die(format string, a ...any) {
	fmt.Fprintf(os.Stderr, "translate: "+format+"\n", a...)
	os.Exit(1)
}

func coqStr(s string) string {
	// as a list of byte values (N)
	var sb strings.Builder
	sb.WriteString("[")
	for i := 0; i < len(s); i++ {
		if i > 0 {
			sb.WriteString("; ")
		}
		sb.WriteString(strconv.Itoa(int(s[i])))
	}
	sb.WriteString("]")
	return sb.String()
}

func coqStrList(ss []string) string {
	var parts []string
	for _, s := range ss {
		parts = append(parts, coqStr(s))
	}
	return "[" + strings.Join(parts, ";\n   ") + "]"
}

func parseFile(repo, rel string) *ast.File {
	f, err := parser.ParseFile(token.NewFileSet(), filepath.Join(repo, rel), nil, parser.ParseComments)
	if err != nil {
		die("%s: %v", rel, err)
	}
	return f
}

func unquote(l *ast.BasicLit) string {
	s, err := strconv.Unquote(l.Value)
	if err != nil {
		die("cannot unquote %s", l.Value)
	}
	return s
}

// mapKeys returns the string keys of `var name = map[string]struct{}{...}`.
func mapKeys(f *ast.File, name string) []string {
	var keys []string
	found := false
	ast.Inspect(f, func(n ast.Node) bool {
		vs, ok := n.(*ast.ValueSpec)
		if !ok || len(vs.Names) != 1 || vs.Names[0].Name != name || len(vs.Values) != 1 {
			return true
		}
		cl, ok := vs.Values[0].(*ast.CompositeLit)
		if !ok {
			return true
		}
		found = true
		for _, e := range cl.Elts {
			kv, ok := e.(*ast.KeyValueExpr)
			if !ok {
				die("%s: unexpected element", name)
			}
			keys = append(keys, unquote(kv.Key.(*ast.BasicLit)))
		}
		return false
	})
	if !found {
		die("map %s not found", name)
	}
	sort.Strings(keys)
	return keys
}

// regexpSource returns the literal passed to regexp.MustCompile in `name = regexp.MustCompile(lit)`.
func regexpSource(f *ast.File, name string) string {
	res, found := "", false
	ast.Inspect(f, func(n ast.Node) bool {
		vs, ok := n.(*ast.ValueSpec)
		if !ok {
			return true
		}
		for i, id := range vs.Names {
			if id.Name != name || i >= len(vs.Values) {
				continue
			}
			call, ok := vs.Values[i].(*ast.CallExpr)
			if !ok || len(call.Args) != 1 {
				continue
			}
			if lit, ok := call.Args[0].(*ast.BasicLit); ok {
				res, found = unquote(lit), true
			}
		}
		return true
	})
	if !found {
		die("regexp %s not found", name)
	}
	return res
}

func constString(f *ast.File, name string) string {
	res, found := "", false
	ast.Inspect(f, func(n ast.Node) bool {
		vs, ok := n.(*ast.ValueSpec)
		if !ok {
			return true
		}
		for i, id := range vs.Names {
			if id.Name == name && i < len(vs.Values) {
				if lit, ok := vs.Values[i].(*ast.BasicLit); ok && lit.Kind == token.STRING {
					res, found = unquote(lit), true
				}
			}
		}
		return true
	})
	if !found {
		die("const %s not found", name)
	}
	return res
}

// enumValues: `Name = Type("value")` constants of the given type, in the order of `var <list> = []Type{...}`.
func enumValues(f *ast.File, typ, list string) []string {
	vals := map[string]string{}
	ast.Inspect(f, func(n ast.Node) bool {
		vs, ok := n.(*ast.ValueSpec)
		if !ok {
			return true
		}
		for i, id := range vs.Names {
			if i >= len(vs.Values) {
				continue
			}
			call, ok := vs.Values[i].(*ast.CallExpr)
			if !ok || len(call.Args) != 1 {
				continue
			}
			if fn, ok := call.Fun.(*ast.Ident); ok && fn.Name == typ {
				if lit, ok := call.Args[0].(*ast.BasicLit); ok {
					vals[id.Name] = unquote(lit)
				}
			}
		}
		return true
	})
	var res []string
	found := false
	ast.Inspect(f, func(n ast.Node) bool {
		vs, ok := n.(*ast.ValueSpec)
		if !ok || len(vs.Names) != 1 || vs.Names[0].Name != list || len(vs.Values) != 1 {
			return true
		}
		cl, ok := vs.Values[0].(*ast.CompositeLit)
		if !ok {
			return true
		}
		found = true
		for _, e := range cl.Elts {
			id, ok := e.(*ast.Ident)
			if !ok {
				die("%s: unexpected element", list)
			}
			v, ok := vals[id.Name]
			if !ok {
				die("%s: unknown constant %s", list, id.Name)
			}
			res = append(res, v)
		}
		return false
	})
	if !found {
		die("list %s not found", list)
	}
	return res
}

// newOptionsDefaults: the field values of the composite literal returned by NewOptions.
func newOptionsDefaults(f *ast.File, enumFile *ast.File) map[string]string {
	consts := map[string]string{}
	ast.Inspect(enumFile, func(n ast.Node) bool {
		vs, ok := n.(*ast.ValueSpec)
		if !ok {
			return true
		}
		for i, id := range vs.Names {
			if i < len(vs.Values) {
				if call, ok := vs.Values[i].(*ast.CallExpr); ok && len(call.Args) == 1 {
					if lit, ok := call.Args[0].(*ast.BasicLit); ok && lit.Kind == token.STRING {
						consts[id.Name] = unquote(lit)
					}
				}
			}
		}
		return true
	})
	res := map[string]string{}
	found := false
	for _, d := range f.Decls {
		fd, ok := d.(*ast.FuncDecl)
		if !ok || fd.Name.Name != "NewOptions" {
			continue
		}
		ast.Inspect(fd.Body, func(n ast.Node) bool {
			cl, ok := n.(*ast.CompositeLit)
			if !ok {
				return true
			}
			found = true
			for _, e := range cl.Elts {
				kv := e.(*ast.KeyValueExpr)
				key := kv.Key.(*ast.Ident).Name
				switch v := kv.Value.(type) {
				case *ast.Ident:
					res[key] = v.Name
				case *ast.SelectorExpr:
					c, ok := consts[v.Sel.Name]
					if !ok {
						die("NewOptions: unknown constant %s", v.Sel.Name)
					}
					res[key] = c
				case *ast.BasicLit:
					res[key] = v.Value
				default:
					die("NewOptions: unexpected value for %s", key)
				}
			}
			return false
		})
	}
	if !found {
		die("NewOptions not found")
	}
	return res
}

// toggleTable: `case "<op>": opts.<Field> = true|false` arms of the notation switch.
func toggleTable(f *ast.File) [][3]string {
	var res [][3]string
	ast.Inspect(f, func(n ast.Node) bool {
		cc, ok := n.(*ast.CaseClause)
		if !ok || len(cc.List) != 1 || len(cc.Body) != 1 {
			return true
		}
		lit, ok := cc.List[0].(*ast.BasicLit)
		if !ok || lit.Kind != token.STRING {
			return true
		}
		as, ok := cc.Body[0].(*ast.AssignStmt)
		if !ok || len(as.Lhs) != 1 || len(as.Rhs) != 1 {
			return true
		}
		sel, ok := as.Lhs[0].(*ast.SelectorExpr)
		if !ok {
			return true
		}
		if x, ok := sel.X.(*ast.Ident); !ok || x.Name != "opts" {
			return true
		}
		val, ok := as.Rhs[0].(*ast.Ident)
		if !ok || (val.Name != "true" && val.Name != "false") {
			return true
		}
		res = append(res, [3]string{unquote(lit), sel.Sel.Name, val.Name})
		return true
	})
	return res
}

// caseLabels: all string case labels of the notation switch in parseNotationInComments.
func caseLabels(f *ast.File) []string {
	var res []string
	for _, d := range f.Decls {
		fd, ok := d.(*ast.FuncDecl)
		if !ok || fd.Name.Name != "parseNotationInComments" {
			continue
		}
		ast.Inspect(fd.Body, func(n ast.Node) bool {
			cc, ok := n.(*ast.CaseClause)
			if !ok {
				return true
			}
			for _, e := range cc.List {
				if lit, ok := e.(*ast.BasicLit); ok && lit.Kind == token.STRING {
					res = append(res, unquote(lit))
				}
			}
			return true
		})
	}
	sort.Strings(res)
	return res
}

// flagTable: flag.String/Bool calls in ParseArgs: (name, kind).
func flagTable(f *ast.File) [][2]string {
	var res [][2]string
	ast.Inspect(f, func(n ast.Node) bool {
		call, ok := n.(*ast.CallExpr)
		if !ok {
			return true
		}
		sel, ok := call.Fun.(*ast.SelectorExpr)
		if !ok {
			return true
		}
		if x, ok := sel.X.(*ast.Ident); !ok || x.Name != "flag" {
			return true
		}
		if (sel.Sel.Name == "String" || sel.Sel.Name == "Bool") && len(call.Args) == 3 {
			if lit, ok := call.Args[0].(*ast.BasicLit); ok {
				def := ""
				switch d := call.Args[1].(type) {
				case *ast.BasicLit:
					def = d.Value
				case *ast.Ident:
					def = d.Name
				}
				res = append(res, [2]string{unquote(lit), sel.Sel.Name + ":" + def})
			}
		}
		return true
	})
	return res
}

// headerLiteral: the string written first by generateContent.
func headerLiteral(f *ast.File) string {
	res := ""
	ast.Inspect(f, func(n ast.Node) bool {
		lit, ok := n.(*ast.BasicLit)
		if ok && lit.Kind == token.STRING && strings.Contains(lit.Value, "Code generated") {
			res = unquote(lit)
		}
		return true
	})
	if res == "" {
		die("header literal not found")
	}
	return res
}

// cutRegexpPieces: the string literals concatenated around reMarker in GenerateBaseCode.
func cutRegexpPieces(f *ast.File) []string {
	var res []string
	for _, d := range f.Decls {
		fd, ok := d.(*ast.FuncDecl)
		if !ok || fd.Name.Name != "GenerateBaseCode" {
			continue
		}
		ast.Inspect(fd.Body, func(n ast.Node) bool {
			call, ok := n.(*ast.CallExpr)
			if !ok {
				return true
			}
			sel, ok := call.Fun.(*ast.SelectorExpr)
			if !ok || sel.Sel.Name != "MustCompile" || len(call.Args) != 1 {
				return true
			}
			var walk func(e ast.Expr)
			walk = func(e ast.Expr) {
				switch x := e.(type) {
				case *ast.BinaryExpr:
					walk(x.X)
					walk(x.Y)
				case *ast.BasicLit:
					res = append(res, unquote(x))
				case *ast.Ident:
					res = append(res, "<"+x.Name+">")
				}
			}
			walk(call.Args[0])
			return true
		})
	}
	return res
}

func writeExtracted(repo, out string) {
	opt := parseFile(repo, "pkg/option/option.go")
	enums := parseFile(repo, "pkg/generator/model/enums.go")
	comment := parseFile(repo, "pkg/parser/comment.go")
	method := parseFile(repo, "pkg/parser/method.go")
	intf := parseFile(repo, "pkg/parser/interface.go")
	pars := parseFile(repo, "pkg/parser/parser.go")
	gen := parseFile(repo, "pkg/generator/generator.go")
	conf := parseFile(repo, "pkg/config/config.go")

	var sb strings.Builder
	sb.WriteString("(** Extracted.v — GENERATED by harness/cmd/translate from /repo's sources on every run. Do not edit. *)\n")
	sb.WriteString("From Coq Require Import List NArith.\nImport ListNotations.\nOpen Scope N_scope.\n\n")
	fmt.Fprintf(&sb, "(* pkg/option/option.go *)\nDefinition valid_ops_intf : list (list N) :=\n  %s.\n\n", coqStrList(mapKeys(opt, "ValidOpsIntf")))
	fmt.Fprintf(&sb, "Definition valid_ops_method : list (list N) :=\n  %s.\n\n", coqStrList(mapKeys(opt, "ValidOpsMethod")))
	defs := newOptionsDefaults(opt, enums)
	get := func(k, dflt string) string {
		if v, ok := defs[k]; ok {
			return v
		}
		return dflt
	}
	fmt.Fprintf(&sb, "(* NewOptions() *)\nDefinition default_style : list N := %s.\nDefinition default_rule : list N := %s.\n", coqStr(get("Style", "")), coqStr(get("Rule", "")))
	for _, k := range []string{"ExactCase", "Getter", "Stringer", "Typecast", "Reverse"} {
		fmt.Fprintf(&sb, "Definition default_%s : bool := %s.\n", strings.ToLower(k), get(k, "false"))
	}
	fmt.Fprintf(&sb, "Definition default_receiver : list N := %s.\n\n", coqStr(strings.Trim(get("Receiver", `""`), `"`)))
	fmt.Fprintf(&sb, "(* pkg/generator/model/enums.go *)\nDefinition dst_var_style_values : list (list N) :=\n  %s.\nDefinition match_rule_values : list (list N) :=\n  %s.\n\n",
		coqStrList(enumValues(enums, "DstVarStyle", "DstVarStyleValues")), coqStrList(enumValues(enums, "MatchRule", "MatchRuleValues")))
	fmt.Fprintf(&sb, "(* pkg/parser/comment.go *)\nDefinition re_notation_src : list N := %s.\nDefinition re_convergen_src : list N := %s.\nDefinition re_literal_src : list N := %s.\n",
		coqStr(regexpSource(comment, "reNotation")), coqStr(regexpSource(comment, "reConvergen")), coqStr(regexpSource(comment, "reLiteral")))
	fmt.Fprintf(&sb, "Definition notation_case_labels : list (list N) :=\n  %s.\n", coqStrList(caseLabels(comment)))
	sb.WriteString("(* toggles: (operation, Options field, value) for arms that are a single boolean assignment *)\nDefinition toggle_table : list (list N * list N * bool) :=\n  [")
	for i, t := range toggleTable(comment) {
		if i > 0 {
			sb.WriteString(";\n   ")
		}
		fmt.Fprintf(&sb, "(%s, %s, %s)", coqStr(t[0]), coqStr(t[1]), t[2])
	}
	sb.WriteString("].\n\n")
	fmt.Fprintf(&sb, "(* pkg/parser/method.go, interface.go, parser.go *)\nDefinition re_go_build_gen_src : list N := %s.\nDefinition intf_name : list N := %s.\nDefinition build_tag : list N := %s.\n",
		coqStr(regexpSource(method, "reGoBuildGen")), coqStr(constString(intf, "intfName")), coqStr(constString(pars, "buildTag")))
	fmt.Fprintf(&sb, "Definition cut_regexp_pieces : list (list N) :=\n  %s.\n\n", coqStrList(cutRegexpPieces(pars)))
	fmt.Fprintf(&sb, "(* pkg/generator/generator.go *)\nDefinition header_literal : list N := %s.\n\n", coqStr(headerLiteral(gen)))
	sb.WriteString("(* pkg/config/config.go: (flag name, kind:default) *)\nDefinition flag_table_src : list (list N * list N) :=\n  [")
	for i, t := range flagTable(conf) {
		if i > 0 {
			sb.WriteString(";\n   ")
		}
		fmt.Fprintf(&sb, "(%s, %s)", coqStr(t[0]), coqStr(t[1]))
	}
	sb.WriteString("].\n")
	if err := os.WriteFile(filepath.Join(out, "Extracted.v"), []byte(sb.String()), 0o644); err != nil {
		die("%v", err)
	}
}

type run struct {
	lo, hi, stride rune
	delta          int
}

func runsOf(f func(rune) rune) []run {
	var res []run
	var singles []run
	for r := rune(0); r <= unicode.MaxRune; r++ {
		d := int(f(r) - r)
		if d == 0 {
			continue
		}
		if n := len(singles); n > 0 && singles[n-1].delta == d && singles[n-1].hi+1 == r && singles[n-1].stride == 1 {
			singles[n-1].hi = r
			continue
		}
		singles = append(singles, run{r, r, 1, d})
	}
	// merge singletons spaced by 2 with equal delta
	for i := 0; i < len(singles); i++ {
		cur := singles[i]
		if cur.lo == cur.hi {
			j := i + 1
			for j < len(singles) && singles[j].lo == singles[j].hi && singles[j].delta == cur.delta && singles[j].lo == cur.hi+2 {
				cur.hi = singles[j].lo
				cur.stride = 2
				j++
			}
			i = j - 1
		}
		res = append(res, cur)
	}
	return res
}

func rangesOf(pred func(rune) bool) [][2]rune {
	var res [][2]rune
	for r := rune(0); r <= unicode.MaxRune; r++ {
		if !pred(r) {
			continue
		}
		if n := len(res); n > 0 && res[n-1][1]+1 == r {
			res[n-1][1] = r
		} else {
			res = append(res, [2]rune{r, r})
		}
	}
	return res
}

func writeRuns(sb *strings.Builder, name string, rs []run) {
	fmt.Fprintf(sb, "Definition %s : list (N * N * N * Z) :=\n  [", name)
	for i, r := range rs {
		if i > 0 {
			sb.WriteString(";")
			if i%4 == 0 {
				sb.WriteString("\n   ")
			} else {
				sb.WriteString(" ")
			}
		}
		fmt.Fprintf(sb, "(%d, %d, %d, (%d)%%Z)", r.lo, r.hi, r.stride, r.delta)
	}
	sb.WriteString("].\n\n")
}

func writeRanges(sb *strings.Builder, name string, rs [][2]rune) {
	fmt.Fprintf(sb, "Definition %s : list (N * N) :=\n  [", name)
	for i, r := range rs {
		if i > 0 {
			sb.WriteString(";")
			if i%6 == 0 {
				sb.WriteString("\n   ")
			} else {
				sb.WriteString(" ")
			}
		}
		fmt.Fprintf(sb, "(%d, %d)", r[0], r[1])
	}
	sb.WriteString("].\n\n")
}

func writeUnicode(out string) {
	var sb strings.Builder
	sb.WriteString("(** UnicodeTables.v — GENERATED by harness/cmd/translate from Go's unicode package (version " + unicode.Version + "). Do not edit. *)\n")
	sb.WriteString("From Coq Require Import List NArith ZArith.\nImport ListNotations.\nOpen Scope N_scope.\n\n")
	writeRuns(&sb, "lower_runs", runsOf(unicode.ToLower))
	writeRuns(&sb, "fold_runs", runsOf(unicode.SimpleFold))
	writeRanges(&sb, "letter_ranges", rangesOf(unicode.IsLetter))
	writeRanges(&sb, "digit_ranges", rangesOf(unicode.IsDigit))
	writeRanges(&sb, "space_ranges", rangesOf(unicode.IsSpace))
	writeRanges(&sb, "upper_ranges", rangesOf(func(r rune) bool { return unicode.Is(unicode.Lu, r) }))
	writeRanges(&sb, "lowerletter_ranges", rangesOf(func(r rune) bool { return unicode.Is(unicode.Ll, r) }))
	writeRanges(&sb, "number_ranges", rangesOf(func(r rune) bool { return unicode.Is(unicode.N, r) }))
	// names accepted by regexp/syntax after \p: categories, scripts, Any
	var names []string
	for k := range unicode.Categories {
		names = append(names, k)
	}
	for k := range unicode.Scripts {
		names = append(names, k)
	}
	names = append(names, "Any")
	sort.Strings(names)
	fmt.Fprintf(&sb, "Definition class_names : list (list N) :=\n  %s.\n", coqStrList(names))
	if err := os.WriteFile(filepath.Join(out, "UnicodeTables.v"), []byte(sb.String()), 0o644); err != nil {
		die("%v", err)
	}
}

func main() {
	repo := flag.String("repo", "/repo", "convergen source tree")
	out := flag.String("out", ".", "output directory")
	flag.Parse()
	writeExtracted(*repo, *out)
	writeUnicode(*out)
	writeFixtureDumps(*repo, *out)
	writeGoFuns(*repo, *out)
}

// writeFixtureDumps: the dumps of the repository's own use-case fixtures as Gallina terms, so that
// the model is evaluated on them inside Coq (non-vacuity examples of the pipeline theorems).
func writeFixtureDumps(repo, out string) {
	files, _ := filepath.Glob(filepath.Join(repo, "tests", "fixtures", "usecase", "*", "setup.go"))
	sort.Strings(files)
	var sb strings.Builder
	sb.WriteString("(** FixtureDumps.v — GENERATED by harness/cmd/translate from /repo/tests/fixtures/usecase on every run. Do not edit. *)\n")
	sb.WriteString("From Coq Require Import String List NArith.\nFrom Cvg Require Import Base.\nImport ListNotations.\nOpen Scope N_scope.\n\n")
	var names []string
	for _, f := range files {
		abs, _ := filepath.Abs(f)
		res, err := dump.Load(abs, strings.TrimSuffix(abs, ".go")+".gen.go", tool.BaseEnv())
		if err != nil || res.LoadFailed != "" || len(res.OutOfModel) > 0 {
			continue
		}
		name := "fx_" + filepath.Base(filepath.Dir(abs))
		names = append(names, name)
		sb.WriteString("Definition " + name + " : sexp :=\n  ")
		res.Dump.CoqTerm(&sb)
		sb.WriteString(".\n\n")
	}
	sb.WriteString("Definition fixtures : list (string * sexp) :=\n  [")
	for i, n := range names {
		if i > 0 {
			sb.WriteString("; ")
		}
		sb.WriteString("(\"" + n + "\"%string, " + n + ")")
	}
	sb.WriteString("].\n")
	if err := os.WriteFile(filepath.Join(out, "FixtureDumps.v"), []byte(sb.String()), 0o644); err != nil {
		fmt.Fprintln(os.Stderr, err)
		os.Exit(1)
	}
}
