package main

import (
	"fmt"
	"os"
	"os/exec"
	"path/filepath"
	"strconv"
	"strings"

	"verif/harness/gen"
	"verif/harness/report"
	"verif/harness/sem"
	"verif/harness/tool"
)

func init() {
	checks["C02"] = func(r *report.Report, tier string, seed int64) error {
		opt := gen.DefaultOptions()
		opt.WellFormed = true
		opt.Hooks = 0.15
		return semCheck(r, "C02", tier, seed, opt, []string{"source-operand-modified", "additional-argument-modified", "destination-differs-from-matched-values", "generated-function-panics", "error-returned-although"},
			"generated functions of the well-formed stream are compiled together with a reflection-based driver and executed on generated operand values in five modes (all non-nil; nested pointers nil; slices nil; slices empty; negative scalars); the expected destination is the pre-state (zero value in return style) updated by each assignment read back from the real output and evaluated on deep copies of the operands; checks: destination equals expected everywhere (assigned fields = their source, every other field keeps its previous value), source and additional arguments deep-equal to their copies, no panic; non-trivial = a function executed with at least one assignment; distinct by file contents")
	}
	checks["C07"] = func(r *report.Report, tier string, seed int64) error {
		opt := gen.DefaultOptions()
		opt.WellFormed = true
		opt.Hooks = 0.6
		opt.Explicit = 1.0
		opt.ErrorBias = true
		opt.UnreturnedErr = 0.12
		return semCheck(r, "C07", tier, seed, opt, []string{"first-error-not-returned", "call-after-failure"},
			"fault enumeration: functions with an error result and k >= 1 error-capable call sites (error-returning converters and getters at top-level and nested paths, pre/post hooks) are executed once per failing site and per pair of failing sites (instrumented user functions fail on command with a distinct sentinel and log their calls); checks: the returned error is the sentinel of the first failing site in call order, no later site is called, nil when none fails; non-trivial = at least one error-capable site; distinct by file contents")
	}
	checks["C10"] = func(r *report.Report, tier string, seed int64) error {
		opt := gen.DefaultOptions()
		opt.WellFormed = true
		opt.Hooks = 1.0
		opt.Explicit = 0.3
		opt.HookReuse = 0.2
		opt.HookGenerated = 0.08
		opt.CrossConv = 0.3
		if err := c10AliasedHook(r); err != nil {
			return err
		}
		return semCheck(r, "C10", tier, seed, opt, []string{"hook-", "preprocess-saw", "postprocess-did-not"},
			"hook signature product (destination/source by pointer or value, with/without error, with/without the additional parameters) x non-reverse method shapes (styles, receiver, pointer-ness, arguments); instrumented hooks record deep copies and addresses of their operands; checks: each hook called exactly once, preprocess first on a destination with no field assigned yet, postprocess last on the fully assigned destination, pointer-taking hooks receive the function's own destination object, source and additional arguments equal the function's; non-trivial = at least one hook executed; distinct by file contents")
	}
	checks["C16"] = func(r *report.Report, tier string, seed int64) error {
		opt := gen.DefaultOptions()
		opt.WellFormed = true
		opt.Hooks = 0
		opt.Explicit = 0.1
		opt.OnlyClasses = []string{"slice", "identical", "getter", "convertible", "assignable"}
		opt.Clones = 0.15
		return semCheck(r, "C16", tier, seed, opt, []string{"nil-source-slice", "slice-elements-differ", "slice-shares-backing"},
			"struct pairs biased to slice fields (identical basic/named/struct/pointer/interface elements, assignable-not-identical, convertible under :typecast, slices of slices and maps, getters returning slices) executed with nil, empty and non-empty source slices; checks: destination slice has the same length and element-wise equal (converted) elements, a different backing array than the source, and a nil source leaves the destination field as it was or nil; non-trivial = at least one slice block executed; distinct by file contents")
	}
}

func hasPrefixAny(s string, ps []string) bool {
	for _, p := range ps {
		if strings.HasPrefix(s, p) {
			return true
		}
	}
	return false
}

// semPost compiles and runs the driver for one case (in the parallel section).
func semPost(cr *caseRun) {
	if cr.Impl.Status != 0 || !cr.Impl.HasOut {
		return
	}
	if ok, out := goBuild(cr.Dir, "pk"); !ok {
		cr.SemNote = "generated-package-does-not-compile: " + trunc(out, 200)
		return
	}
	funcs := genFuncsOf(cr)
	var fs []sem.Func
	srcTypes := map[string]string{}
	for _, it := range cr.C.Interfaces {
		for _, m := range it.Methods {
			gf, ok := funcs[m.Name]
			if !ok || m.RawSig != "" {
				continue
			}
			tg := effectiveToggles(it, m)
			f := sem.Func{Name: m.Name, Text: gf.Text, Style: tg.Style, Reverse: tg.Reverse}
			for _, fd := range cr.C.Struct[m.DstType] {
				if fd.SrcName == "" || explicitlyAddressed(m, fd.Name) || !strings.HasPrefix(fd.Type, "[]") {
					continue
				}
				if !(strings.HasPrefix(fd.Pair.Src, "[]") || fd.Pair.Src == "IntList") {
					continue
				}
				if fd.SrcGetter && !tg.Getter {
					continue
				}
				f.SlicePairs = append(f.SlicePairs, sem.SlicePair{Dst: fd.Name, Src: fd.SrcName, Getter: fd.SrcGetter, Named: fd.Type == "IntList" || fd.Pair.Src == "IntList" || fd.Type == "StrList2" || fd.Pair.Src == "StrList"})
			}
			for _, e := range gf.Entries {
				f.Entries = append(f.Entries, sem.Entry{Kind: e.Kind, Path: e.Path, RHS: e.RHS, Err: e.Err, Raw: e.Raw})
			}
			fs = append(fs, f)
			srcTypes[m.Name] = m.SrcType
		}
	}
	if len(fs) == 0 {
		return
	}
	_ = os.WriteFile(filepath.Join(cr.Dir, "pk", "sem_helpers_test.go"), []byte(sem.HelpersSrc), 0o644)
	_ = os.WriteFile(filepath.Join(cr.Dir, "pk", "sem_driver_test.go"), []byte(sem.Driver(fs, srcTypes, cr.C.DotImport)), 0o644)
	cmd := exec.Command("go", "test", "-v", "-vet=off", "-count=1", "-run", "TestSem", "./pk")
	cmd.Dir = cr.Dir
	cmd.Env = tool.BaseEnv()
	out, err := cmd.CombinedOutput()
	text := string(out)
	for _, l := range strings.Split(text, "\n") {
		if strings.HasPrefix(l, "SEMVIOL\t") {
			p := strings.SplitN(l, "\t", 4)
			if len(p) == 4 {
				d, uerr := strconv.Unquote(p[3])
				if uerr != nil {
					d = p[3]
				}
				cr.Sem = append(cr.Sem, semViol{p[1], p[2], d})
			}
		}
	}
	if err != nil && len(cr.Sem) == 0 {
		if strings.Contains(text, "[build failed]") || strings.Contains(text, "cannot use") || strings.Contains(text, "undefined:") {
			cr.SemNote = "driver-does-not-compile: " + trunc(text, 600)
		} else {
			cr.SemNote = "driver-failed: " + trunc(text, 600)
		}
	}
	cr.C.Files["pk/sem_driver_test.go"] = sem.Driver(fs, srcTypes, cr.C.DotImport)
	cr.C.Files["pk/sem_helpers_test.go"] = sem.HelpersSrc
}

func semCheck(r *report.Report, prop, tier string, seed int64, opt gen.Options, sigs []string, rule string) error {
	r.Rule = rule
	n := tierN(tier, 96, 2500)
	streamPost = semPost
	defer func() { streamPost = nil }()
	driverProblems := 0
	err := pipelineCheck(r, prop, seed, n, opt, nil,
		func(cr *caseRun) bool { return cr.Impl.Status == 0 && cr.SemNote == "" && strings.Contains(cr.Impl.Output, " = ") },
		func(cr *caseRun) [][2]string {
			var vs [][2]string
			if prop == "C07" && cr.Impl.Status == 0 && cr.Impl.HasOut {
				// no error source in a function without error result (whatever the generator asked for)
				for name, gf := range genFuncsOf(cr) {
					if strings.Contains(gf.Header, "error") {
						continue
					}
					for _, e := range gf.Entries {
						if e.Err {
							vs = append(vs, [2]string{"first-error-not-returned:error-source-in-function-without-error-result", name + ": " + e.Raw + "\n" + gf.Header})
						}
					}
				}
			}
			if prop == "C10" && cr.C.Features["misfit-hook-reused"] > 0 && cr.Impl.Status == 0 {
				vs = append(vs, [2]string{"hook-that-does-not-fit-the-method-accepted", "a hook that does not fit the method (declared for other operand types, or returning a concrete type instead of error) was accepted: the tool exited 0"})
			}
			if cr.SemNote != "" {
				r.Count("sem-note:" + strings.SplitN(cr.SemNote, ":", 2)[0])
				if strings.HasPrefix(cr.SemNote, "driver-") {
					driverProblems++
					if driverProblems <= 3 {
						r.Notes = append(r.Notes, fmt.Sprintf("seed=%d index=%d %s", cr.C.Seed, cr.C.Index, cr.SemNote))
					}
				}
				return vs
			}
			if cr.Impl.Status == 0 {
				r.Count("executed")
			}
			for _, v := range cr.Sem {
				if hasPrefixAny(v.Sig, sigs) {
					vs = append(vs, [2]string{v.Sig, v.Method + ": " + v.Detail})
				} else {
					r.Count("other-property-signal:" + v.Sig)
				}
			}
			return vs
		})
	if driverProblems > n/4 {
		r.ModelValidation = append(r.ModelValidation, fmt.Sprintf("the execution driver failed to compile or run on %d of %d cases", driverProblems, n))
	}
	return err
}
