package main

import (
	"strings"

	"verif/harness/gen"
	"verif/harness/report"
)

func init() {
	checks["C03"] = checkC03
	checks["C04"] = checkC04
	checks["C05"] = checkC05
	checks["C06"] = checkC06
	checks["C17"] = checkC17
}

func tierN(tier string, quick, thorough int) int {
	if tier == "thorough" {
		return thorough
	}
	return quick
}

func okWithAssign(cr *caseRun) bool {
	return cr.Impl.Status == 0 && strings.Contains(cr.Impl.Output, " = ")
}

func checkC03(r *report.Report, tier string, seed int64) error {
	opt := gen.DefaultOptions()
	opt.WellFormed = true
	opt.CrossConv = 0.5
	opt.Embedding = 0.15
	opt.SiblingUse = true
	r.Rule = "generated setup files that follow the documented conventions only (WellFormed generator mode: struct operands, syntactically valid notations naming existing functions of an acceptable shape, hooks of fitting shape): 1-2 converter interfaces, 1-3 methods each, all styles/receivers/arguments, surrounding declarations and comments; oracle: exit 0 and one function per method; non-trivial = at least two notations in the file; distinct by file contents"
	if err := pipelineCheck(r, "C03", seed, tierN(tier, 160, 5000), opt, nil,
		func(cr *caseRun) bool { return strings.Count(cr.C.Files[cr.C.SetupPath], "// :") >= 2 }, c03Oracle); err != nil {
		return err
	}
	// layout independence: comments in every position, interface sizes from one very short method up
	r.Rule += "; plus the layout stream (comments in every position, one-line interfaces with method names of 1..25 bytes, declarations around and between interfaces, no comments at all)"
	return pipelineCheck(r, "C03", seed+1, tierN(tier, 128, 4000), gen.Options{}, func(i int) *gen.Case { return gen.GenerateLayout(seed+1, i, false) },
		func(cr *caseRun) bool { return true }, c03Oracle)
}

func checkC04(r *report.Report, tier string, seed int64) error {
	opt := gen.DefaultOptions()
	opt.WellFormed = true
	opt.Explicit = 0.15
	opt.Hooks = 0
	opt.Styles = false
	opt.MaxFields = 9
	r.Rule = "struct pairs drawn by relation class (identical, assignable-not-identical, convertible-only, stringer-able, nested struct pair, pointer variants, slices, getters, unrelated, missing) with field names varying in case and export status x the 2^4 toggles x match rule, few explicit notations; oracle: an independent reference matcher written on go/types from the property text (existential form), opt-in checks on every emitted conversion/String()/getter call; non-trivial = exit 0 with an assignment; distinct by file contents"
	return pipelineCheck(r, "C04", seed, tierN(tier, 224, 8000), opt, nil, okWithAssign, c04Oracle)
}

func checkC05(r *report.Report, tier string, seed int64) error {
	opt := gen.DefaultOptions()
	opt.WellFormed = true
	opt.Hooks = 0.1
	opt.HiddenBias = true
	opt.Explicit = 0.8
	r.Rule = "destination shapes (nested, embedded, anonymous, imported with unexported members, empty) x notation sets; oracle: reachable fields recomputed from go/types, each must be covered exactly once (own entry, or member-wise entries) in the real output, invisible fields never mentioned, each `no match` has a positioned warning; non-trivial = exit 0 with at least one nested or no-match entry; distinct by file contents"
	return pipelineCheck(r, "C05", seed, tierN(tier, 288, 8000), opt, nil,
		func(cr *caseRun) bool { return cr.Impl.Status == 0 && strings.Contains(cr.Impl.Output, "// no match") }, c05Oracle)
}

func checkC06(r *report.Report, tier string, seed int64) error {
	opt := gen.DefaultOptions()
	opt.WellFormed = true
	opt.Explicit = 1.2
	opt.Hooks = 0
	r.Rule = "notation sets addressing top-level and nested destination paths (:skip plain/regexp/case variants, :map incl. getter chains and $n, :conv, :literal, duplicates) with both case modes; oracle on the real output: a path matching a :skip pattern is never written (also not through an enclosing copy), an explicitly targeted path is fed from exactly that source or reported no match; non-trivial = exit 0 and at least one explicit notation; distinct by file contents"
	nt := func(cr *caseRun) bool {
		s := cr.C.Files[cr.C.SetupPath]
		return cr.Impl.Status == 0 && (strings.Contains(s, ":skip") || strings.Contains(s, ":map") || strings.Contains(s, ":conv") || strings.Contains(s, ":literal"))
	}
	if err := pipelineCheck(r, "C06", seed, tierN(tier, 160, 6000), opt, nil, nt, c06Oracle); err != nil {
		return err
	}
	// case-biased: :case:off in half of the methods, explicit targets and :skip patterns that differ from the field in case only
	opt.CaseBias = true
	return pipelineCheck(r, "C06", seed+3, tierN(tier, 96, 3000), opt, nil, nt, c06Oracle)
}

func checkC17(r *report.Report, tier string, seed int64) error {
	opt := gen.DefaultOptions()
	opt.WellFormed = true
	opt.MaxInterfaces = 3
	opt.MaxFields = 3
	opt.Explicit = 0.2
	opt.Embedding = 0.2
	r.Rule = "input files mixing marked, unmarked and Convergen-named interfaces in random order, sibling files of the package containing marked interfaces and a Convergen interface, files without converter interface; oracle: generated functions = methods of the marked/Convergen-named interfaces of the input file, unmarked interfaces carried over, none-marked files rejected; non-trivial = at least two interfaces in the package; distinct by file contents"
	return pipelineCheck(r, "C17", seed, tierN(tier, 192, 5000), opt, func(i int) *gen.Case { return gen.GenerateSelection(seed, i, opt) },
		func(cr *caseRun) bool { return strings.Count(cr.C.Files[cr.C.SetupPath]+cr.C.Files["pk/sibling.go"], " interface {") >= 2 },
		func(cr *caseRun) [][2]string {
			vs := c17Oracle(cr)
			// "any other interface in that file is carried over untouched": the declaration-level comparison of C11
			for _, v := range c11Oracle(cr) {
				if v[0] == "declaration-not-carried-over-intact" || v[0] == "comment-outside-converter-interfaces-lost" {
					vs = append(vs, [2]string{"unmarked-declaration-not-carried-over-untouched", v[1]})
				}
			}
			return vs
		})
}
