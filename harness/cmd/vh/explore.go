package main

import (
	"fmt"
	"os"
	"strconv"

	"verif/harness/gen"
	"verif/harness/report"
)

// `vh explore`: model vs implementation on the general stream (development aid).
func init() {
	checks["explore"] = func(r *report.Report, tier string, seed int64) error {
		n := 200
		if v := os.Getenv("VERIF_N"); v != "" {
			n, _ = strconv.Atoi(v)
		}
		opt := gen.DefaultOptions()
		kinds := map[string]int{}
		err := runStream(seed, n, opt, nil, func(cr *caseRun) {
			r.Eval(fmt.Sprint(cr.C.Index), true)
			for k, v := range cr.C.Features {
				r.Distribution[k] += v
			}
			kinds["model="+cr.Model.Kind]++
			if cr.Impl.Panicked {
				kinds["impl=panic"]++
			} else if cr.Impl.Status != 0 {
				kinds["impl=err"]++
			} else {
				kinds["impl=ok"]++
			}
			if cr.FullDone {
				kinds["fullfile-done"]++
				if cr.FullWhy == "" && cr.Impl.Status == 0 {
					kinds["fullfile-bytes-compared"]++
				}
				if cr.FullWhy != "" {
					kinds["fullfile-late-failure"]++
				}
			}
			recordCorrespondence(r, "explore", cr)
		})
		fmt.Println(kinds)
		return err
	}
}
