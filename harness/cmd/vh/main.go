// vh — the correspondence harness: runs the implementation and the extracted
// Coq model on the same generated inputs, compares projected observables, and
// runs the per-property executable oracles that search for failing inputs.
package main

import (
	"flag"
	"fmt"
	"os"
	"strconv"

	"verif/harness/report"
)

type checkFn func(r *report.Report, tier string, seed int64) error

var checks = map[string]checkFn{}

func main() {
	if len(os.Args) < 2 {
		fmt.Fprintln(os.Stderr, "usage: vh <property> [-tier quick|thorough] [-seed n] [-report file]")
		os.Exit(2)
	}
	prop := os.Args[1]
	if prop == "imports-process" {
		importsProcess()
		return
	}
	fs := flag.NewFlagSet("vh", flag.ExitOnError)
	tier := fs.String("tier", "quick", "quick or thorough")
	seedS := fs.String("seed", "1", "PRNG seed")
	out := fs.String("report", "", "report file (JSON)")
	_ = fs.Parse(os.Args[2:])
	seed, err := strconv.ParseInt(*seedS, 10, 64)
	if err != nil {
		seed = 1
	}
	fn, ok := checks[prop]
	if !ok {
		fmt.Fprintf(os.Stderr, "vh: no harness for %s\n", prop)
		os.Exit(2)
	}
	r := report.New(prop, *tier, seed)
	if err := fn(r, *tier, seed); err != nil {
		fmt.Fprintf(os.Stderr, "vh: harness error: %v\n", err)
		os.Exit(3)
	}
	if *out != "" {
		if err := r.Write(*out); err != nil {
			fmt.Fprintf(os.Stderr, "vh: %v\n", err)
			os.Exit(3)
		}
	}
	fmt.Printf("vh %s: evaluations=%d distinct_nontrivial=%d mismatches=%d violations=%d\n",
		prop, r.Evaluations, r.DistinctNontrivial, len(r.Mismatches), len(r.Violations))
}
