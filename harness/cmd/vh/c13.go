package main

import (
	"fmt"
	"os"
	"path/filepath"
	"strings"
	"sync"

	"verif/harness/cases"
	"verif/harness/cmpr"
	"verif/harness/gen"
	"verif/harness/report"
	"verif/harness/tool"
)

func init() { checks["C13"] = checkC13 }

// two packages with the same last path element, imported blank: which one is called `local` must not depend on map order
const localA = `package local

import "cvcase/ext"

func Fix(d *ext.Pub2, s *ext.Pub1) { d.Extra = true }
`
const localB = `package local

import "cvcase/ext"

func Other(d *ext.Pub2, s *ext.Pub1) {}
`

func blankImportCase(seed int64, i int) *gen.Case {
	c := gen.Generate(seed, i, gen.Options{MaxFields: 3, MaxMethods: 2, MaxInterfaces: 1, WellFormed: true, Toggles: true})
	c.Files["a/local/local.go"] = localA
	c.Files["b/local/local.go"] = localB
	setup := c.Files[c.SetupPath]
	setup = strings.Replace(setup, "import (\n", "import (\n\t_ \"cvcase/a/local\"\n\t_ \"cvcase/b/local\"\n", 1)
	// one more method using the name `local`
	setup = strings.Replace(setup, " interface {\n", " interface {\n\t// :postprocess local.Fix\n\tPubConv(*ext.Pub1) *ext.Pub2\n", 1)
	c.Files[c.SetupPath] = setup
	c.Features["two-blank-imports-same-name"]++
	return c
}

type runObs struct {
	Status int
	Stderr string
	Stdout string
	Out    string
	HasOut bool
}

func observe(dir, cwdRel string, args []string, env []string) runObs {
	res := tool.Run(filepath.Join(dir, cwdRel), args, env, 0)
	o := runObs{Status: res.Status, Stderr: strings.Join(cmpr.NormStderr(res.Stderr), "\n"), Stdout: res.Stdout}
	if b, err := os.ReadFile(filepath.Join(dir, "pk", "setup.gen.go")); err == nil {
		o.Out, o.HasOut = string(b), true
	}
	return o
}

func checkC13(r *report.Report, tier string, seed int64) error {
	n := tierN(tier, 40, 600)
	reps := tierN(tier, 6, 24)
	r.Rule = fmt.Sprintf("accepted and rejected inputs of the general stream, single-file packages (the setup file is the only source of its directory), inputs with several imports incl. two blank imports sharing their last path element plus a notation using that name, each run %d times in fresh processes: from the package directory with a relative path, from the module root, with an absolute path, with extra environment variables, with a different TMPDIR, a second time in place under the environment go generate sets for a directive of another package (GOPACKAGE, GOLINE, ...), and concurrently; plus histories (run, edit an imported package in another directory, run) compared with a run from a clean copy; observables: exit status, normalised stderr, stdout, output bytes; non-trivial = the run produced an output file or a diagnostic; distinct by file contents", reps)
	type job struct{ c *gen.Case }
	var jobs []job
	opt := gen.DefaultOptions()
	for i := 0; i < n; i++ {
		if i%3 == 0 {
			jobs = append(jobs, job{blankImportCase(seed, i)})
		} else {
			jobs = append(jobs, job{gen.Generate(seed, i, opt)})
		}
	}
	// packages whose only source file is the setup file (everything declared in it)
	for k, name := range []string{"simple", "twointf", "hooks"} {
		jobs = append(jobs, job{&gen.Case{Seed: seed, Index: 100000 + k, Files: tool.Files{"pk/setup.go": cases.Fixed[name]}, SetupPath: "pk/setup.go",
			Features: map[string]int{"single-file-package": 1}, Struct: map[string][]gen.FieldDecl{}}})
	}
	// a qualifier that is the NAME of imported packages but the last path element of none: the import table
	// (built from path elements) has no entry for it; three packages of that name are imported by the package's files
	jobs = append(jobs, job{&gen.Case{Seed: seed, Index: 100010, SetupPath: "pk/setup.go", Features: map[string]int{"package-name-differs-from-import-path": 1}, Struct: map[string][]gen.FieldDecl{},
		Files: tool.Files{
			"pk/setup.go": "//go:build convergen\n\npackage pk\n\nimport \"cvcase/lab1\"\n\nvar _ = labels.Of\n\ntype S struct {\n\tCode  int\n\tLabel string\n}\n\ntype D struct {\n\tCode  int\n\tLabel string\n}\n\ntype Convergen interface {\n\t// :conv labels.Of Code Label\n\tToD(*S) *D\n}\n",
			"pk/other.go": "package pk\n\nimport (\n\tlegacy \"cvcase/lab2\"\n\ti18n \"cvcase/lab3\"\n)\n\nvar _ = legacy.Of\nvar _ = i18n.Of\n",
			"lab1/l.go":   "package labels\n\nimport \"strconv\"\n\nfunc Of(i int) string { return \"l1:\" + strconv.Itoa(i) }\n",
			"lab2/l.go":   "package labels\n\nimport \"strconv\"\n\nfunc Of(i int) (string, error) { return \"l2:\" + strconv.Itoa(i), nil }\n",
			"lab3/l.go":   "package labels\n\nfunc Of(s string) string { return \"l3:\" + s }\n",
		}}})
	var mu sync.Mutex
	var wg sync.WaitGroup
	sem := make(chan struct{}, 8)
	for ji := range jobs {
		wg.Add(1)
		sem <- struct{}{}
		go func(ji int) {
			defer wg.Done()
			defer func() { <-sem }()
			c := jobs[ji].c
			var obs []runObs
			var descs []string
			for k := 0; k < reps; k++ {
				dir, err := cases.NewScratch("c13", c.Files)
				if err != nil {
					return
				}
				var o runObs
				switch k % 6 {
				case 5:
					// a second run in place (previous output present) under the environment `go generate` sets
					// for a directive that lives in a file of another package
					_ = observe(dir, "pk", []string{"setup.go"}, nil)
					o = observe(dir, "pk", []string{"setup.go"}, []string{"GOPACKAGE=tools", "GOLINE=7", "GOARCH=amd64", "GOOS=linux", "DOLLAR=$"})
					descs = append(descs, "second run in place, go-generate environment of another package")
				case 0:
					o = observe(dir, "pk", []string{"setup.go"}, nil)
					descs = append(descs, "cwd=pk relative")
				case 1:
					o = observe(dir, "", []string{"pk/setup.go"}, []string{"CVG_UNRELATED=1", "LANG=C"})
					descs = append(descs, "cwd=module root, extra env")
				case 2:
					o = observe(dir, "pk", []string{filepath.Join(dir, "pk", "setup.go")}, nil)
					descs = append(descs, "absolute path")
				case 3:
					tmp, _ := os.MkdirTemp(tool.ScratchRoot(), "cv-tmpdir-")
					o = observe(dir, "pk", []string{"./setup.go"}, []string{"TMPDIR=" + tmp})
					os.RemoveAll(tmp)
					descs = append(descs, "other TMPDIR, ./ path")
				default:
					if _, ok := c.Files["ext/ext.go"]; !ok {
						o = observe(dir, "", []string{"./pk/../pk/setup.go"}, nil)
						descs = append(descs, "cwd=module root, unclean path")
						break
					}
					o = observe(dir, "ext", []string{"../pk/setup.go"}, nil)
					descs = append(descs, "cwd=sibling package, ../ path")
				}
				os.RemoveAll(dir)
				obs = append(obs, o)
			}
			mu.Lock()
			defer mu.Unlock()
			r.Eval(tool.Hash(c.Files[c.SetupPath], c.Files["pk/types.go"]), obs[0].HasOut || obs[0].Stderr != "")
			for k, v := range c.Features {
				r.Distribution[k] += v
			}
			if len(r.Samples) < 3 {
				r.Sample(map[string]any{"seed": c.Seed, "index": c.Index, "runs": descs, "exit": obs[0].Status, "output_len": len(obs[0].Out)}, 3)
			}
			for k := 1; k < len(obs); k++ {
				a, b := obs[0], obs[k]
				sig := ""
				switch {
				case a.Status != b.Status:
					sig = "exit-status-differs-between-runs"
				case a.Out != b.Out || a.HasOut != b.HasOut:
					sig = "output-bytes-differ-between-runs"
				case a.Stderr != b.Stderr:
					sig = "diagnostics-differ-between-runs"
				}
				if sig != "" {
					rep := cases.SaveReplay("C13", fmt.Sprintf("case-%d-%d", c.Seed, c.Index), c.Files, fmt.Sprintf("C13: run 0 (%s) and run %d (%s) differ: %s\n-- run 0: status %d\n%s\n-- run %d: status %d\n%s\n", descs[0], k, descs[k], sig, a.Status, a.Stderr, k, b.Status, b.Stderr))
					r.Violation(report.Violation{Signature: sig, What: fmt.Sprintf("seed=%d index=%d: %s vs %s", c.Seed, c.Index, descs[0], descs[k]), Replay: rep})
					break
				}
			}
		}(ji)
	}
	wg.Wait()
	// histories: run, edit an imported package elsewhere in the module, run again; compare with a clean run
	nh := tierN(tier, 12, 150)
	for i := 0; i < nh; i++ {
		c := gen.Generate(seed+7, i, gen.Options{MaxFields: 4, MaxMethods: 2, MaxInterfaces: 1, WellFormed: true, Toggles: true, OnlyClasses: []string{"nested", "identical", "convertible"}})
		edited := strings.Replace(gen.ExtSrc, "type Pub2 struct {\n\tName   string", "type Pub2 struct {\n\tAdded  int\n\tName   string", 1)
		edited = strings.Replace(edited, "type Pub1 struct {\n\tName   string", "type Pub1 struct {\n\tAdded  int\n\tName   string", 1)
		dir, err := cases.NewScratch("c13h", c.Files)
		if err != nil {
			return err
		}
		first := observe(dir, "pk", []string{"setup.go"}, nil)
		_ = os.WriteFile(filepath.Join(dir, "ext", "ext.go"), []byte(edited), 0o644)
		second := observe(dir, "pk", []string{"setup.go"}, nil)
		os.RemoveAll(dir)
		files2 := tool.Files{}
		for k, v := range c.Files {
			files2[k] = v
		}
		files2["ext/ext.go"] = edited
		dir2, err := cases.NewScratch("c13h", files2)
		if err != nil {
			return err
		}
		clean := observe(dir2, "pk", []string{"setup.go"}, nil)
		os.RemoveAll(dir2)
		r.Eval(tool.Hash("hist", c.Files[c.SetupPath], c.Files["pk/types.go"]), first.HasOut)
		r.Count("history")
		if second.Status != clean.Status || second.Out != clean.Out || second.Stderr != clean.Stderr {
			rep := cases.SaveReplay("C13", fmt.Sprintf("hist-%d-%d", c.Seed, c.Index), files2, "C13 history: run; add a field to ext.Pub1/ext.Pub2; run again in the same directory: differs from a run on a clean copy of the edited sources\n-- in place:\n"+second.Stderr+"\n-- clean:\n"+clean.Stderr)
			r.Violation(report.Violation{Signature: "result-depends-on-earlier-run", What: fmt.Sprintf("seed=%d index=%d", c.Seed, c.Index), Replay: rep})
		}
	}
	return nil
}
