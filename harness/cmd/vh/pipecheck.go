package main

import (
	"fmt"
	"regexp"
	"sort"
	"strings"

	"verif/harness/gen"
	"verif/harness/report"
)

// oracleFn inspects one run of the implementation and returns violations of the property
// as (signature, description) pairs. It must not consult the model.
type oracleFn func(cr *caseRun) [][2]string

// pipelineCheck: the generic shape of a check over generated setup packages:
// correspondence of Pipeline.run_pipeline with the binary + the property's oracle on the implementation.
func pipelineCheck(r *report.Report, prop string, seed int64, n int, opt gen.Options, mk func(i int) *gen.Case,
	nontrivial func(cr *caseRun) bool, oracle oracleFn) error {
	seenSig := map[string]bool{}
	corpusRun(r, prop)
	return runStream(seed, n, opt, mk, func(cr *caseRun) {
		key := fmt.Sprintf("%d/%d/%s", cr.C.Seed, cr.C.Index, tool_hash(cr.C.Files[cr.C.SetupPath], cr.C.Files["pk/types.go"]))
		r.Eval(key, nontrivial == nil || nontrivial(cr))
		for k, v := range cr.C.Features {
			r.Distribution[k] += v
		}
		switch {
		case cr.Impl.Panicked:
			r.Count("outcome=panic")
		case cr.Impl.TimedOut:
			r.Count("outcome=timeout")
		case cr.Impl.Status != 0:
			r.Count("outcome=error")
		default:
			r.Count("outcome=ok")
		}
		if len(r.Samples) < 3 {
			r.Sample(map[string]any{"seed": cr.C.Seed, "index": cr.C.Index, "setup.go": cr.C.Files[cr.C.SetupPath], "exit": cr.Impl.Status, "stderr": cmprNorm(cr.Impl.Stderr), "output": trunc(cr.Impl.Output, 1500)}, 3)
		}
		viols := oracle(cr)
		for _, v := range viols {
			rep := ""
			if !seenSig[v[0]] {
				seenSig[v[0]] = true
				rep = saveCase(prop, "violation-"+reSafe.ReplaceAllString(v[0], "_"), cr, "property "+prop+" violated: "+v[0]+"\n"+v[1])
			}
			r.Violation(report.Violation{Signature: v[0], What: fmt.Sprintf("seed=%d index=%d: %s", cr.C.Seed, cr.C.Index, trunc(v[1], 300)), Replay: rep})
		}
		recordCorrespondence(r, prop, cr)
	})
}

var rePanicFunc = regexp.MustCompile(`(?m)^github\.com/reedom/convergen/[A-Za-z0-9_/]*\.(?:\(\*?[A-Za-z0-9_]+\)\.)?([A-Za-z0-9_]+(?:\.func\d+)?)\(`)
var rePanicMsg = regexp.MustCompile(`(?m)^panic: (.*)$`)

// panicSignature: the first convergen frame of the stack trace + the panic message class.
func panicSignature(stderr string) string {
	fn := "unknown"
	if m := rePanicFunc.FindStringSubmatch(stderr); m != nil {
		fn = m[1]
	}
	msg := ""
	if m := rePanicMsg.FindStringSubmatch(stderr); m != nil {
		msg = m[1]
		msg = regexp.MustCompile(`\d+`).ReplaceAllString(msg, "N")
		if i := strings.Index(msg, " ["); i > 0 {
			msg = msg[:i]
		}
	}
	return "panic@" + fn + ":" + trunc(msg, 60)
}

var (
	reGoErrPos = regexp.MustCompile(`(?m)^(?:vet: )?[^\s:]+\.go:\d+:\d+: `)
	reQuoted   = regexp.MustCompile("`[^`]*`|\"[^\"]*\"")
)

// compileErrorClass maps the first compiler diagnostic to a narrow class name.
func compileErrorClass(out string) (string, string) {
	var first string
	for _, l := range strings.Split(out, "\n") {
		if reGoErrPos.MatchString(l) {
			first = reGoErrPos.ReplaceAllString(l, "")
			break
		}
	}
	if first == "" {
		first = strings.TrimSpace(out)
	}
	table := []struct{ pat, class string }{
		{`undefined: err$`, "err-undeclared-in-function-without-error-result"},
		{`assignment mismatch: 1 variable but .* returns 2 values`, "two-valued-call-in-single-value-context"},
		{`multiple-value .* in single-value context`, "two-valued-call-in-single-value-context"},
		{`cannot call pointer method`, "pointer-method-on-non-addressable-value"},
		{`arguments to copy .* have different element types`, "copy-between-different-element-types"},
		{`cannot use .* as .* value in argument to`, "call-argument-type-mismatch"},
		{`cannot use .* as .* value in assignment`, "assignment-type-mismatch"},
		{`cannot use .* as .* value in return`, "return-type-mismatch"},
		{`cannot convert`, "invalid-conversion"},
		{`invalid operation: cannot indirect`, "invalid-indirect"},
		{`cannot indirect`, "invalid-indirect"},
		{`\(type\) is not an expression`, "type-used-as-expression"},
		{`is not an expression`, "type-used-as-expression"},
		{`undefined: `, "undefined-identifier"},
		{`has no field or method`, "selector-not-found"},
		{`cannot refer to unexported`, "unexported-member-referenced"},
		{`undefined \(type .* has no field or method`, "selector-not-found"},
		{`declared and not used`, "declared-and-not-used"},
		{`redeclared in this block`, "redeclared"},
		{`no new variables on left side`, "no-new-variables"},
		{`too many return values|not enough return values`, "return-count-mismatch"},
		{`not enough arguments in call|too many arguments in call`, "call-argument-count-mismatch"},
		{`invalid argument: .* for built-in len`, "len-of-non-collection"},
		{`cannot range over`, "range-over-non-collection"},
		{`cannot assign to`, "not-assignable"},
		{`missing return`, "missing-return"},
		{`expected|syntax error`, "syntax-error"},
		{`imported and not used`, "unused-import"},
		{`could not import|package .* is not in std`, "unresolved-import"},
	}
	for _, t := range table {
		if regexp.MustCompile(t.pat).MatchString(first) {
			return t.class, first
		}
	}
	gen := reQuoted.ReplaceAllString(first, "Q")
	gen = regexp.MustCompile(`\b[a-z][A-Za-z0-9_]*\.[A-Za-z0-9_.]+`).ReplaceAllString(gen, "X")
	return "other:" + trunc(gen, 60), first
}

func cmprNorm(s string) []string {
	var res []string
	for _, l := range strings.Split(s, "\n") {
		if l != "" {
			res = append(res, l)
		}
	}
	sort.Strings(res)
	if len(res) > 12 {
		res = res[:12]
	}
	return res
}
