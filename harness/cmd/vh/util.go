package main

import (
	"go/ast"
	"go/parser"
	"go/token"
	"os"
	"path/filepath"
	"regexp"
	"unicode"

	"verif/harness/cases"
	"verif/harness/tool"
)

func isUpperRune(r rune) bool { return unicode.IsUpper(r) }

var reSafe = regexp.MustCompile(`[^A-Za-z0-9_.-]+`)

// casesSaveText writes a one-file replay and returns its path.
func casesSaveText(prop, name, text string) string {
	dir := filepath.Join(cases.ReplayRoot(), prop)
	_ = os.MkdirAll(dir, 0o755)
	p := filepath.Join(dir, reSafe.ReplaceAllString(name, "_")+".txt")
	_ = os.WriteFile(p, []byte(text), 0o644)
	return p
}

func min(a, b int) int {
	if a < b {
		return a
	}
	return b
}

func tool_hash(parts ...string) string { return toolHash(parts...) }

func toolHash(parts ...string) string { return tool.Hash(parts...) }

func parseGo(src string) (*ast.File, error) {
	return parser.ParseFile(token.NewFileSet(), "x.go", src, parser.ParseComments)
}
