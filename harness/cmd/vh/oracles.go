package main

import (
	"path/filepath"
	"fmt"
	"go/ast"
	"go/types"
	"regexp"
	"strings"

	"verif/harness/gen"
)

// effective toggles of a method: interface-level notations then method-level ones, last wins (the documented scoping).
type toggles struct {
	Case, Getter, Stringer, Typecast bool
	Rule, Style                      string
	Reverse                          bool
	Recv                             string
}

func effectiveToggles(it gen.Interface, m gen.Method) toggles {
	t := toggles{Case: true, Rule: "name", Style: "return"}
	apply := func(lines []string, methodLevel bool) {
		for _, n := range lines {
			f := strings.Fields(n)
			if len(f) == 0 {
				continue
			}
			switch f[0] {
			case ":case":
				t.Case = true
			case ":case:off":
				t.Case = false
			case ":getter":
				t.Getter = true
			case ":getter:off":
				t.Getter = false
			case ":stringer":
				t.Stringer = true
			case ":stringer:off":
				t.Stringer = false
			case ":typecast":
				t.Typecast = true
			case ":typecast:off":
				t.Typecast = false
			case ":match":
				if len(f) > 1 && (f[1] == "name" || f[1] == "none" || f[1] == "tag") {
					t.Rule = f[1]
				}
			case ":style":
				if len(f) > 1 && (f[1] == "arg" || f[1] == "return") {
					t.Style = f[1]
				}
			case ":reverse":
				if methodLevel {
					t.Reverse = true
				}
			case ":recv":
				if methodLevel && len(f) > 1 {
					t.Recv = f[1]
				}
			}
		}
	}
	apply(it.Notations, false)
	apply(m.Notations, true)
	return t
}

func lookupStruct(pkg *types.Package, name string) (*types.Named, *types.Struct) {
	obj := pkg.Scope().Lookup(name)
	if obj == nil {
		return nil, nil
	}
	n, _ := obj.Type().(*types.Named)
	if n == nil {
		return nil, nil
	}
	s, _ := n.Underlying().(*types.Struct)
	return n, s
}

func rootOf(entries []entry) string {
	for _, e := range entries {
		if (e.Kind == "assign" || e.Kind == "skip" || e.Kind == "nomatch" || e.Kind == "slice") && strings.Contains(e.Path, ".") {
			return e.Path[:strings.Index(e.Path, ".")]
		}
	}
	return ""
}

func fieldVisible(pkg *types.Package, f *types.Var) bool {
	return f.Exported() || f.Pkg() == nil || f.Pkg().Path() == pkg.Path()
}

func accessibleFields(pkg *types.Package, s *types.Struct) int {
	n := 0
	for i := 0; i < s.NumFields(); i++ {
		if fieldVisible(pkg, s.Field(i)) {
			n++
		}
	}
	return n
}

// c05Cover checks that [entries] cover the fields of struct s (paths prefixed by prefix) exactly once.
func c05Cover(pkg *types.Package, s *types.Struct, anon bool, prefix string, entries []entry, out *[][2]string, ctx string) {
	for i := 0; i < s.NumFields(); i++ {
		f := s.Field(i)
		path := prefix + "." + f.Name()
		var exact, under []entry
		for _, e := range entries {
			if e.Kind != "assign" && e.Kind != "skip" && e.Kind != "nomatch" && e.Kind != "slice" {
				continue
			}
			if e.Path == path {
				exact = append(exact, e)
			} else if strings.HasPrefix(e.Path, path+".") {
				under = append(under, e)
			}
		}
		if !fieldVisible(pkg, f) {
			if len(exact)+len(under) > 0 {
				// narrow: whether the struct holding the invisible member is an anonymous struct type
				// (nested in an imported type) or a named one
				sig := "invisible-field-mentioned:member-of-a-named-struct-type"
				if anon {
					sig = "invisible-field-mentioned:member-of-an-anonymous-struct-type"
				}
				*out = append(*out, [2]string{sig, fmt.Sprintf("%s: %s is not visible from the generated package but appears in %q", ctx, path, append(exact, under...)[0].Raw)})
			}
			continue
		}
		switch {
		case len(exact) > 1:
			*out = append(*out, [2]string{"field-covered-twice", fmt.Sprintf("%s: %s has %d entries", ctx, path, len(exact))})
		case len(exact) == 1 && len(under) > 0:
			*out = append(*out, [2]string{"field-covered-whole-and-memberwise", fmt.Sprintf("%s: %s has an entry of its own and entries on its members", ctx, path)})
		case len(exact) == 0 && len(under) == 0:
			sig := "field-silently-dropped"
			if st, ok := f.Type().Underlying().(*types.Struct); ok && accessibleFields(pkg, st) == 0 {
				sig = "field-silently-dropped:struct-without-accessible-members"
			}
			*out = append(*out, [2]string{sig, fmt.Sprintf("%s: %s is neither assigned, skipped nor reported", ctx, path)})
		case len(exact) == 0:
			st, ok := f.Type().Underlying().(*types.Struct)
			if !ok {
				*out = append(*out, [2]string{"member-entries-on-non-struct", fmt.Sprintf("%s: %s", ctx, path)})
			} else {
				_, isAnon := f.Type().(*types.Struct)
				c05Cover(pkg, st, isAnon, path, under, out, ctx)
			}
		}
	}
}

func c05Oracle(cr *caseRun) [][2]string {
	if cr.Impl.Status != 0 || !cr.Impl.HasOut || cr.Dump == nil || cr.Dump.Pkg == nil {
		return nil
	}
	var vs [][2]string
	funcs := genFuncsOf(cr)
	pkg := cr.Dump.Pkg.Types
	nomatch := 0
	for _, it := range cr.C.Interfaces {
		for _, m := range it.Methods {
			gf, ok := funcs[m.Name]
			if !ok || m.RawSig != "" {
				continue
			}
			tg := effectiveToggles(it, m)
			lhsType := m.DstType
			if tg.Reverse {
				lhsType = m.SrcType
			}
			_, st := lookupStruct(pkg, lhsType)
			root := rootOf(gf.Entries)
			if st == nil {
				continue
			}
			if root == "" {
				if accessibleFields(pkg, st) > 0 {
					// the recorded finding when every accessible field is a struct without accessible members
					sig := "field-silently-dropped:struct-without-accessible-members"
					for i := 0; i < st.NumFields(); i++ {
						f := st.Field(i)
						if !fieldVisible(pkg, f) {
							continue
						}
						if fs, ok := f.Type().Underlying().(*types.Struct); !ok || accessibleFields(pkg, fs) != 0 {
							sig = "no-entries-at-all"
						}
					}
					vs = append(vs, [2]string{sig, m.Name + ": the function body mentions no destination field"})
				}
				continue
			}
			c05Cover(pkg, st, false, root, gf.Entries, &vs, m.Name)
			for _, e := range gf.Entries {
				if e.Kind == "nomatch" {
					nomatch++
					if !strings.Contains(cr.Impl.Stderr, "no assignment for "+e.Path+" [") {
						vs = append(vs, [2]string{"nomatch-without-warning", m.Name + ": `// no match: " + e.Path + "` has no warning on stderr"})
					}
				}
			}
		}
	}
	// every warning line carries a position
	warnings := 0
	for _, l := range strings.Split(cr.Impl.Stderr, "\n") {
		if strings.Contains(l, "no assignment for ") {
			warnings++
			if !rePosLine.MatchString(l) {
				vs = append(vs, [2]string{"warning-without-position", l})
			} else if want := filepath.Join(cr.Dir, "pk", "setup.go") + ":"; !strings.HasPrefix(l, want) {
				vs = append(vs, [2]string{"warning-position-names-another-file", "want prefix " + want + "\n got " + l})
			}
		}
	}
	if warnings != nomatch && len(funcs) == len(expectedFuncs(cr.C)) {
		vs = append(vs, [2]string{"warning-count-differs-from-nomatch-count", fmt.Sprintf("%d warnings, %d `no match` comments", warnings, nomatch)})
	}
	return vs
}

// ---- C04: an independent reference matcher for default (name) matching, written from the property text.

func hasStringMethod(t types.Type) bool {
	ms := types.NewMethodSet(t)
	for i := 0; i < ms.Len(); i++ {
		f, ok := ms.At(i).Obj().(*types.Func)
		if !ok || f.Name() != "String" {
			continue
		}
		sg := f.Type().(*types.Signature)
		if sg.Params().Len() == 0 && sg.Results().Len() == 1 && types.Identical(sg.Results().At(0).Type(), types.Typ[types.String]) {
			return true
		}
	}
	return false
}

func castableTarget(t types.Type) bool {
	if p, ok := t.(*types.Pointer); ok {
		t = p.Elem()
	}
	switch t.(type) {
	case *types.Named, *types.Basic:
		return true
	}
	return false
}

// fits: c can be assigned to t directly or through an opted-in conversion.
func fits(tg toggles, c, t types.Type) bool {
	if types.AssignableTo(c, t) {
		return true
	}
	if cs, ok := c.(*types.Slice); ok {
		if ts, ok := t.(*types.Slice); ok {
			if types.AssignableTo(cs.Elem(), ts.Elem()) {
				return true
			}
			if tg.Typecast && types.ConvertibleTo(cs.Elem(), ts.Elem()) {
				return true
			}
		}
	}
	if tg.Stringer && types.AssignableTo(types.Typ[types.String], t) && hasStringMethod(c) {
		return true
	}
	if tg.Typecast && types.ConvertibleTo(c, t) && castableTarget(t) {
		return true
	}
	return false
}

func bothStructsByValue(a, b types.Type) bool {
	_, ok1 := a.Underlying().(*types.Struct)
	_, ok2 := b.Underlying().(*types.Struct)
	return ok1 && ok2
}

type cand struct {
	name   string
	typ    types.Type
	getter bool
}

func nameEq(tg toggles, a, b string) bool {
	if tg.Case {
		return a == b
	}
	return strings.EqualFold(a, b)
}

func candidatesOf(pkg *types.Package, tg toggles, srcNamed *types.Named, srcStruct *types.Struct, name string) (getters, fields []cand) {
	local := srcNamed.Obj().Pkg() != nil && srcNamed.Obj().Pkg().Path() == pkg.Path()
	if tg.Getter {
		for i := 0; i < srcNamed.NumMethods(); i++ {
			m := srcNamed.Method(i)
			sg := m.Type().(*types.Signature)
			if sg.Params().Len() != 0 || sg.Results().Len() != 1 || sg.Results().At(0).Type().String() == "error" {
				continue
			}
			if !(local || m.Exported()) || !nameEq(tg, name, m.Name()) {
				continue
			}
			getters = append(getters, cand{m.Name(), sg.Results().At(0).Type(), true})
		}
	}
	if tg.Rule == "name" {
		for i := 0; i < srcStruct.NumFields(); i++ {
			f := srcStruct.Field(i)
			if !(local || f.Exported()) || !nameEq(tg, name, f.Name()) {
				continue
			}
			fields = append(fields, cand{f.Name(), f.Type(), false})
		}
	}
	return
}

var reConvCall = regexp.MustCompile(`^\(?\*?[A-Za-z_][A-Za-z0-9_.]*\)?\(`)

// explicitlyAddressed: some notation names this destination path (or a path below/above it), or a skip pattern might.
func explicitlyAddressed(m gen.Method, field string) bool {
	for _, n := range m.Notations {
		f := strings.Fields(n)
		if len(f) < 2 {
			continue
		}
		var dst string
		switch f[0] {
		case ":skip":
			return true // any skip pattern: leave the field to C06
		case ":map":
			if len(f) >= 3 {
				dst = f[2]
			}
		case ":conv":
			if len(f) >= 4 {
				dst = f[3]
			} else if len(f) == 3 {
				dst = f[2]
			}
		case ":literal":
			dst = f[1]
		}
		if dst == "" {
			continue
		}
		if dst == field || strings.HasPrefix(dst, field+".") {
			return true
		}
	}
	return false
}

func c04Oracle(cr *caseRun) [][2]string {
	if cr.Impl.Status != 0 || !cr.Impl.HasOut || cr.Dump == nil || cr.Dump.Pkg == nil {
		return nil
	}
	var vs [][2]string
	funcs := genFuncsOf(cr)
	pkg := cr.Dump.Pkg.Types
	for _, it := range cr.C.Interfaces {
		for _, m := range it.Methods {
			gf, ok := funcs[m.Name]
			if !ok || m.RawSig != "" {
				continue
			}
			tg := effectiveToggles(it, m)
			lhsT, rhsT := m.DstType, m.SrcType
			if tg.Reverse {
				lhsT, rhsT = rhsT, lhsT
			}
			_, dst := lookupStruct(pkg, lhsT)
			srcN, src := lookupStruct(pkg, rhsT)
			root := rootOf(gf.Entries)
			if dst == nil || src == nil || root == "" {
				continue
			}
			for i := 0; i < dst.NumFields(); i++ {
				f := dst.Field(i)
				if explicitlyAddressed(m, f.Name()) {
					continue
				}
				path := root + "." + f.Name()
				var exact []entry
				nested := false
				for _, e := range gf.Entries {
					if e.Path == path && (e.Kind == "assign" || e.Kind == "slice" || e.Kind == "nomatch" || e.Kind == "skip") {
						exact = append(exact, e)
					} else if strings.HasPrefix(e.Path, path+".") {
						nested = true
					}
				}
				getters, fields := candidatesOf(pkg, tg, srcN, src, f.Name())
				all := append(append([]cand{}, getters...), fields...)
				var fitting []cand
				descend := false
				for _, c := range all {
					if fits(tg, c.typ, f.Type()) {
						fitting = append(fitting, c)
					} else if bothStructsByValue(c.typ, f.Type()) {
						descend = true
					}
				}
				ctx := fmt.Sprintf("%s %s [case=%v getter=%v stringer=%v typecast=%v match=%s]", m.Name, path, tg.Case, tg.Getter, tg.Stringer, tg.Typecast, tg.Rule)
				assigned := len(exact) == 1 && (exact[0].Kind == "assign" || exact[0].Kind == "slice")
				switch {
				case assigned && len(fitting) == 0:
					sig := "assigned-without-fitting-same-named-candidate"
					if tg.Rule != "name" {
						sig = "match-none-but-matched-by-name"
						if tg.Getter {
							sig = "match-none-but-getter-matched-by-name"
						}
					}
					vs = append(vs, [2]string{sig, ctx + ": " + exact[0].Raw})
				case !assigned && !nested && len(fitting) > 0:
					sig := "fitting-candidate-not-assigned:" + fitReason(tg, fitting[0].typ, f.Type())
					if len(all) > 1 {
						sig = "fitting-candidate-hidden-by-an-earlier-same-named-member"
					}
					vs = append(vs, [2]string{sig, fmt.Sprintf("%s: candidates %v fit but the field is not assigned", ctx, fitting)})
				case !assigned && !nested && len(fitting) == 0 && !descend:
					// expected: no match
					if len(exact) == 1 && exact[0].Kind != "nomatch" {
						vs = append(vs, [2]string{"unmatched-field-not-reported-as-no-match", ctx})
					}
				}
				if assigned && exact[0].Kind == "assign" {
					rhs := exact[0].RHS
					if strings.HasSuffix(rhs, ".String()") && !tg.Stringer {
						vs = append(vs, [2]string{"stringer-call-without-opt-in", ctx + ": " + exact[0].Raw})
					}
					callee := rhs
					if i := strings.Index(rhs, "("); i >= 0 {
						callee = rhs[:i]
					}
					isMethodCall := strings.Contains(callee, ".") && !strings.HasPrefix(callee, "(") && (strings.HasSuffix(rhs, "()") || strings.HasSuffix(rhs, ".String()")) && strings.HasPrefix(callee, srcVarOf(m, tg)+".")
					if reConvCall.MatchString(rhs) && !isMethodCall && !tg.Typecast {
						vs = append(vs, [2]string{"conversion-without-opt-in", ctx + ": " + exact[0].Raw})
					}
					inner := strings.TrimSuffix(rhs, ".String()")
					if strings.HasSuffix(inner, "()") && !strings.HasSuffix(inner, ")()") && !tg.Getter {
						vs = append(vs, [2]string{"getter-call-without-opt-in", ctx + ": " + exact[0].Raw})
					}
				}
			}
		}
	}
	return vs
}

// ---- C06: explicit notations honoured as written.
func c06Oracle(cr *caseRun) [][2]string {
	if cr.Impl.Status != 0 || !cr.Impl.HasOut {
		return nil
	}
	var vs [][2]string
	funcs := genFuncsOf(cr)
	for _, it := range cr.C.Interfaces {
		for _, m := range it.Methods {
			gf, ok := funcs[m.Name]
			if !ok || m.RawSig != "" {
				continue
			}
			tg := effectiveToggles(it, m)
			root := rootOf(gf.Entries)
			if root == "" {
				continue
			}
			written := map[string]entry{} // path -> entry that writes it (assign/slice), including enclosing copies
			for _, e := range gf.Entries {
				if e.Kind == "assign" || e.Kind == "slice" {
					written[strings.TrimPrefix(e.Path, root+".")] = e
				}
			}
			firstFor := map[string]string{} // dst path -> first explicit notation of the highest-precedence kind
			prec := map[string]int{":conv": 4, ":map": 3, ":map$": 2, ":literal": 1}
			best := map[string]int{}
			for _, n := range m.Notations {
				f := strings.Fields(n)
				if len(f) < 2 {
					continue
				}
				switch f[0] {
				case ":skip":
					pat := f[1]
					for p, e := range written {
						if skipMatches(pat, p, tg.Case) {
							vs = append(vs, [2]string{"skipped-path-assigned", fmt.Sprintf("%s: `%s` but `%s`", m.Name, n, e.Raw)})
						}
						// an enclosing whole-struct copy writes the skipped member too
						if !strings.HasPrefix(pat, "/") && strings.HasPrefix(pat, p+".") {
							vs = append(vs, [2]string{"skipped-path-written-through-enclosing-copy", fmt.Sprintf("%s: `%s` but `%s` copies the enclosing struct", m.Name, n, e.Raw)})
						}
					}
				case ":map", ":conv", ":literal":
					var dst, kind string
					switch f[0] {
					case ":map":
						if len(f) < 3 {
							continue
						}
						dst, kind = f[2], ":map"
						if strings.HasPrefix(f[1], "$") {
							kind = ":map$"
						}
					case ":conv":
						if len(f) < 3 {
							continue
						}
						dst = f[2]
						if len(f) >= 4 {
							dst = f[3]
						}
						kind = ":conv"
					case ":literal":
						if len(f) < 3 {
							continue
						}
						dst, kind = f[1], ":literal"
					}
					if prec[kind] > best[dst] {
						best[dst] = prec[kind]
						firstFor[dst] = n
					}
				}
			}
			for dst, n := range firstFor {
				skipped := false
				for _, sn := range m.Notations {
					f := strings.Fields(sn)
					if len(f) >= 2 && f[0] == ":skip" && skipMatches(f[1], dst, tg.Case) {
						skipped = true
					}
				}
				if skipped {
					continue
				}
				f := strings.Fields(n)
				var e *entry
				for i := range gf.Entries {
					if gf.Entries[i].Path == root+"."+dst {
						e = &gf.Entries[i]
					}
				}
				if e == nil {
					// is the path below a field copied whole, or not a destination path at all?
					for p, w := range written {
						if strings.HasPrefix(dst, p+".") {
							vs = append(vs, [2]string{"explicit-notation-ignored-under-enclosing-copy", fmt.Sprintf("%s: `%s` but `%s` copies the enclosing struct", m.Name, n, w.Raw)})
						}
					}
					continue
				}
				if e.Kind == "nomatch" {
					continue
				}
				switch f[0] {
				case ":literal":
					lit := strings.TrimSpace(strings.TrimPrefix(strings.TrimSpace(strings.TrimPrefix(n, ":literal")), f[1]))
					if e.Kind != "assign" || e.RHS != lit {
						vs = append(vs, [2]string{"literal-not-assigned-as-written", fmt.Sprintf("%s: `%s` but `%s`", m.Name, n, e.Raw)})
					}
				case ":conv":
					if e.Kind != "assign" || !strings.Contains(e.RHS, f[1]+"(") {
						vs = append(vs, [2]string{"conv-target-not-fed-by-the-converter", fmt.Sprintf("%s: `%s` but `%s`", m.Name, n, e.Raw)})
					}
				case ":map":
					src := f[1]
					if strings.HasPrefix(src, "$") {
						continue // checked by execution (C02)
					}
					last := src
					if i := strings.LastIndex(src, "."); i >= 0 {
						last = src[i+1:]
					}
					if e.Kind == "skip" || !strings.Contains(e.RHS+e.Raw, "."+last) {
						vs = append(vs, [2]string{"map-target-not-fed-by-the-mapped-source", fmt.Sprintf("%s: `%s` but `%s`", m.Name, n, e.Raw)})
					}
				}
			}
		}
	}
	return vs
}

// skipMatches: the documented meaning of a :skip pattern.
func skipMatches(pat, path string, exact bool) bool {
	if strings.HasPrefix(pat, "/") && strings.HasSuffix(pat, "/") && len(pat) >= 2 {
		expr := pat[1 : len(pat)-1]
		if !exact {
			expr = "(?i)" + expr
		}
		re, err := regexp.Compile(expr)
		if err != nil {
			return false
		}
		return re.MatchString(path)
	}
	if exact {
		return pat == path
	}
	return strings.EqualFold(pat, path)
}

// ---- C17 / C03: which interfaces are converted, and that every method gets its function.
func c17Oracle(cr *caseRun) [][2]string {
	var vs [][2]string
	marked := 0
	for _, it := range cr.C.Interfaces {
		if it.Name == "Convergen" || it.Marked {
			marked++
		}
	}
	if marked == 0 {
		if cr.Impl.Status == 0 {
			vs = append(vs, [2]string{"file-without-converter-interface-accepted", "exit 0 although no interface is named Convergen or marked"})
		}
		return vs
	}
	if cr.Impl.Status != 0 || !cr.Impl.HasOut {
		return nil
	}
	f, err := parseGo(cr.Impl.Output)
	if err != nil {
		return nil
	}
	want := map[string]bool{}
	for _, it := range cr.C.Interfaces {
		if it.Name == "Convergen" || it.Marked {
			for _, m := range it.Methods {
				want[m.Name] = true
			}
			for _, m := range it.Embeds {
				want[m.Name] = true
			}
		}
	}
	in, _ := parseGo(cr.C.Files[cr.C.SetupPath])
	inFuncs := map[string]bool{}
	inIfaces := map[string]bool{}
	if in != nil {
		for _, d := range in.Decls {
			switch x := d.(type) {
			case *ast.FuncDecl:
				inFuncs[x.Name.Name] = true
			case *ast.GenDecl:
				for _, s := range x.Specs {
					if ts, ok := s.(*ast.TypeSpec); ok {
						if _, ok := ts.Type.(*ast.InterfaceType); ok {
							inIfaces[ts.Name.Name] = true
						}
					}
				}
			}
		}
	}
	got := map[string]int{}
	gotTotal := 0
	outIfaces := map[string]bool{}
	for _, d := range f.Decls {
		switch x := d.(type) {
		case *ast.FuncDecl:
			if !inFuncs[x.Name.Name] {
				got[x.Name.Name]++
				gotTotal++
			}
		case *ast.GenDecl:
			for _, s := range x.Specs {
				if ts, ok := s.(*ast.TypeSpec); ok {
					if _, ok := ts.Type.(*ast.InterfaceType); ok {
						outIfaces[ts.Name.Name] = true
					}
				}
			}
		}
	}
	wantTotal := 0
	for _, it := range cr.C.Interfaces {
		if it.Name == "Convergen" || it.Marked {
			wantTotal += len(it.Methods) + len(it.Embeds)
		}
	}
	for n := range want {
		if got[n] == 0 {
			vs = append(vs, [2]string{"method-of-marked-interface-without-function", n})
		}
	}
	if gotTotal != wantTotal {
		vs = append(vs, [2]string{"number-of-generated-functions-differs-from-number-of-methods", fmt.Sprintf("%d functions for %d methods", gotTotal, wantTotal)})
	}
	for n := range got {
		if !want[n] {
			vs = append(vs, [2]string{"function-for-unmarked-interface-or-foreign-method", n})
		}
	}
	for _, it := range cr.C.Interfaces {
		conv := it.Name == "Convergen" || it.Marked
		if conv && outIfaces[it.Name] {
			vs = append(vs, [2]string{"converter-interface-left-in-output", it.Name})
		}
	}
	for n := range inIfaces {
		isConv := false
		for _, it := range cr.C.Interfaces {
			if it.Name == n && (n == "Convergen" || it.Marked) {
				isConv = true
			}
		}
		if !isConv && !outIfaces[n] {
			vs = append(vs, [2]string{"unmarked-interface-not-carried-over", n})
		}
	}
	return vs
}

func c03Oracle(cr *caseRun) [][2]string {
	var vs [][2]string
	if cr.Impl.Status != 0 {
		sig := "well-formed-input-rejected"
		switch {
		case cr.Impl.Panicked:
			sig += ":panic"
		case strings.Contains(cr.Impl.Stderr, "error on optimizing imports") || strings.Contains(cr.Impl.Stderr, "error on formatting"):
			sig += ":generated-code-does-not-parse"
			if m := regexp.MustCompile(`setup\.gen\.go:\d+:\d+: (.*)`).FindStringSubmatch(cr.Impl.Stderr); m != nil {
				sig += ":" + regexp.MustCompile(`found [A-Za-z_][A-Za-z0-9_]*`).ReplaceAllString(regexp.MustCompile(`'[^']*'|\d+`).ReplaceAllString(m[1], "_"), "found IDENT")
			}
		default:
			lines := strings.Split(strings.TrimSpace(cr.Impl.Stderr), "\n")
			sig += ":" + trunc(regexp.MustCompile(`\d+`).ReplaceAllString(rePosLine.ReplaceAllString(lines[len(lines)-1], ""), "N"), 50)
		}
		vs = append(vs, [2]string{sig, trunc(cr.Impl.Stderr, 500)})
		return vs
	}
	funcs := genFuncsOf(cr)
	for name := range expectedFuncs(cr.C) {
		if _, ok := funcs[name]; !ok {
			vs = append(vs, [2]string{"method-without-function", name})
		}
	}
	return vs
}

// srcVarOf: the documented name of the right-hand variable of a method's assignments.
func srcVarOf(m gen.Method, tg toggles) string {
	if tg.Reverse {
		if m.DstName != "" && m.DstName != "_" {
			return m.DstName
		}
		return "src" // default names are swapped under :reverse: the destination variable is called src
	}
	if tg.Recv != "" {
		return tg.Recv
	}
	if m.SrcName != "" && m.SrcName != "_" {
		return m.SrcName
	}
	return "src"
}

// fitReason names the clause of the property by which c fits t (for narrow signatures).
func fitReason(tg toggles, c, t types.Type) string {
	switch {
	case types.AssignableTo(c, t):
		return "assignable"
	case tg.Stringer && types.AssignableTo(types.Typ[types.String], t) && hasStringMethod(c):
		if _, ok := c.(*types.Pointer); ok {
			return "stringer-on-pointer-typed-source"
		}
		return "stringer"
	case tg.Typecast && types.ConvertibleTo(c, t) && castableTarget(t):
		return "typecast"
	}
	return "slice-elements"
}
