package main

import (
	"fmt"
	"math/rand"
	"os"
	"path/filepath"
	"strings"
	"sync"

	"verif/harness/cases"
	"verif/harness/mdl"
	"verif/harness/report"
	"verif/harness/sx"
	"verif/harness/tool"
)

func init() { checks["C12"] = checkC12 }

// versions of one setup file: a history edits between them.
var c12Versions = []string{
	`//go:build convergen

package pk

import "strconv"

type S struct {
	A int
	B string
	N []string
}

type D struct {
	A string
	B string
	N []string
}

func itoa(i int) string { return strconv.Itoa(i) }

type Convergen interface {
	// First converts.
	// :conv itoa A
	First(s *S) (d *D)
	// :skip A
	Second(s *S) (d *D)
	// :style arg
	// :skip A
	Third(s *S) (d *D, err error)
}
`,
	`//go:build convergen

package pk

type S struct {
	A int
	B string
}

type D struct {
	A string
	B string
}

type Convergen interface {
	// :skip A
	Second(s *S) (d *D)
}
`,
	`//go:build convergen

package pk

type S struct {
	B string
}

type D struct {
	B string
	C bool
}

type Convergen interface {
	Second(s *S) (d *D)
	Extra(s S) (d D)
}
`,
}

type c12step struct {
	Kind    string // "edit" (setup := version V), "corrupt" (output := bytes), "remove", "run"
	V       int
	Corrupt string
	Label   string
}

// corruptions of an output file [code].
func corruptions(code string, rng *rand.Rand, stride int) []c12step {
	var out []c12step
	for off := 0; off <= len(code); off += stride {
		out = append(out, c12step{Kind: "corrupt", Corrupt: code[:off], Label: fmt.Sprintf("truncate@%d", off)})
	}
	out = append(out,
		c12step{Kind: "corrupt", Corrupt: "\x00\xff garbage {{{ not go", Label: "garbage"},
		c12step{Kind: "corrupt", Corrupt: "package pk\n\nfunc Second( {\n", Label: "broken-func"},
		c12step{Kind: "corrupt", Corrupt: "package pk\n\nimport \"nosuch/pkg\"\n\nvar _ = pkg.X\n", Label: "wrong-import"},
		c12step{Kind: "corrupt", Corrupt: "package pk\n\ntype S struct{}\ntype D struct{}\n", Label: "duplicate-decls"},
		c12step{Kind: "corrupt", Corrupt: "//go:build ignore\n\npackage pk\n", Label: "build-ignore"},
		c12step{Kind: "corrupt", Corrupt: "package pk\n\nvar s = \"unterminated\n", Label: "unterminated-string"},
		c12step{Kind: "corrupt", Corrupt: code + strings.Repeat("// stale tail from a longer, older output\n", 30), Label: "longer-old-output"},
		c12step{Kind: "corrupt", Corrupt: "", Label: "empty-file"},
		c12step{Kind: "remove", Label: "removed"},
	)
	return out
}

func checkC12(r *report.Report, tier string, seed int64) error {
	rng := rand.New(rand.NewSource(seed))
	stride := 7
	if tier == "thorough" {
		stride = 1
	}
	r.Rule = fmt.Sprintf("histories over 3 versions of a setup file: (edit setup, run)* with, before each run, the output path left in one state: every %d-th truncation point of the previously produced output, garbage, broken Go, wrong imports, duplicate declarations, build-ignore, longer stale output, empty, removed; plus random multi-step histories; each run compared (status, stdout, bytes at the output path, rest of the tree) with the model's history machine whose pipeline oracle is the tool's result on a pristine tree with the output path absent; non-trivial = a run over a present, differing output file; distinct by (version, corruption bytes)", stride)
	// pipeline oracle per version: run on pristine tree
	code := make([]string, len(c12Versions))
	for v, src := range c12Versions {
		dir, err := cases.NewScratch("c12ref", tool.Files{"pk/setup.go": src})
		if err != nil {
			return err
		}
		res := tool.Run(filepath.Join(dir, "pk"), []string{"setup.go"}, nil, 0)
		b, rerr := os.ReadFile(filepath.Join(dir, "pk", "setup.gen.go"))
		os.RemoveAll(dir)
		if res.Status != 0 || rerr != nil {
			return fmt.Errorf("reference run of version %d failed: %s", v, res.Stderr)
		}
		code[v] = string(b)
	}
	// histories
	var hists [][]c12step
	for v := range c12Versions {
		prev := (v + 1) % len(c12Versions) // the output lying around comes from another version
		for _, c := range corruptions(code[prev], rng, stride) {
			hists = append(hists, []c12step{{Kind: "edit", V: v}, c, {Kind: "run"}, {Kind: "run"}})
		}
	}
	nrand := 40
	if tier == "thorough" {
		nrand = 400
	}
	for i := 0; i < nrand; i++ {
		var h []c12step
		n := 2 + rng.Intn(5)
		cur := rng.Intn(len(c12Versions))
		h = append(h, c12step{Kind: "edit", V: cur})
		for j := 0; j < n; j++ {
			switch rng.Intn(4) {
			case 0:
				cur = rng.Intn(len(c12Versions))
				h = append(h, c12step{Kind: "edit", V: cur})
			case 1:
				cs := corruptions(code[rng.Intn(len(code))], rng, 1+rng.Intn(40))
				h = append(h, cs[rng.Intn(len(cs))])
			default:
				h = append(h, c12step{Kind: "run"})
			}
		}
		h = append(h, c12step{Kind: "run"})
		hists = append(hists, h)
	}

	type runObs struct {
		status int
		stdout string
		stderr string
	}
	type obsT struct {
		runs  []runObs
		final tool.Files
	}
	// every third history is replayed with the output named through a second path: a symbolic link to the
	// package directory (-out ../pklink/setup.gen.go). It is the same file, so nothing may change.
	viaLink := make([]bool, len(hists))
	nh := len(hists)
	for i := 0; i < nh; i += 3 {
		hists = append(hists, hists[i])
		viaLink = append(viaLink, true)
	}
	obs := make([]obsT, len(hists))
	var wg sync.WaitGroup
	sem := make(chan struct{}, 16)
	for i := range hists {
		wg.Add(1)
		sem <- struct{}{}
		go func(i int) {
			defer wg.Done()
			defer func() { <-sem }()
			dir, err := cases.NewScratch("c12", tool.Files{"pk/setup.go": c12Versions[0]})
			if err != nil {
				return
			}
			defer os.RemoveAll(dir)
			outp := filepath.Join(dir, "pk", "setup.gen.go")
			args := []string{"setup.go"}
			if viaLink[i] {
				if err := os.Symlink("pk", filepath.Join(dir, "pklink")); err != nil {
					return
				}
				args = []string{"-out", "../pklink/setup.gen.go", "setup.go"}
			}
			for _, s := range hists[i] {
				switch s.Kind {
				case "edit":
					_ = os.WriteFile(filepath.Join(dir, "pk", "setup.go"), []byte(c12Versions[s.V]), 0o644)
				case "corrupt":
					_ = os.WriteFile(outp, []byte(s.Corrupt), 0o644)
				case "remove":
					_ = os.Remove(outp)
				case "run":
					res := tool.Run(filepath.Join(dir, "pk"), args, nil, 0)
					obs[i].runs = append(obs[i].runs, runObs{res.Status, res.Stdout, res.Stderr})
				}
			}
			obs[i].final, _ = tool.Snapshot(dir)
		}(i)
	}
	wg.Wait()

	// model
	var ms []*sx.Node
	cfg := sx.T("config", sx.A("pk/setup.go"), sx.A("pk/setup.gen.go"), sx.A(""), sx.B(false), sx.B(false))
	for _, h := range hists {
		files := sx.L(sx.L(sx.A("go.mod"), sx.A(cases.GoMod)), sx.L(sx.A("pk/setup.go"), sx.A(c12Versions[0])))
		steps := sx.L()
		cur := 0
		for _, s := range h {
			switch s.Kind {
			case "edit":
				cur = s.V
				steps.List = append(steps.List, sx.T("edit", sx.A("pk/setup.go"), sx.A(c12Versions[s.V])))
			case "corrupt":
				steps.List = append(steps.List, sx.T("edit", sx.A("pk/setup.gen.go"), sx.A(s.Corrupt)))
			case "remove":
				steps.List = append(steps.List, sx.T("del", sx.A("pk/setup.gen.go")))
			case "run":
				steps.List = append(steps.List, sx.T("run", cfg, sx.L(), sx.T("code", sx.A(code[cur]))))
			}
		}
		ms = append(ms, sx.T("history", files, steps))
	}
	res, err := mdl.RunBatch(ms)
	if err != nil {
		return err
	}
	for i, h := range hists {
		var labels []string
		cur, nontrivial := 0, false
		key := ""
		for _, s := range h {
			switch s.Kind {
			case "edit":
				cur = s.V
				labels = append(labels, fmt.Sprintf("edit->v%d", s.V))
			case "run":
				labels = append(labels, "run")
			default:
				labels = append(labels, s.Label)
				if s.Corrupt != code[cur] {
					nontrivial = true
				}
				key += tool.Hash(s.Corrupt)
			}
			r.Count("step=" + s.Kind)
		}
		desc := strings.Join(labels, " ; ")
		if viaLink[i] {
			desc = "[-out through a symlinked directory] " + desc
			r.Count("output-named-through-symlink")
		}
		r.Eval(tool.Hash(desc, key), nontrivial)
		m := res[i]
		want := tool.Files{}
		for _, f := range m.Arg(0).List {
			want[f.List[0].Str()] = f.List[1].Str()
		}
		ok := len(want) == len(obs[i].final)
		for p, c := range want {
			if obs[i].final[p] != c {
				ok = false
			}
		}
		mruns := m.Arg(1).List
		if len(mruns) != len(obs[i].runs) {
			ok = false
		} else {
			for k, mr := range mruns {
				if mr.Arg(2).Int() != obs[i].runs[k].status || mr.Arg(1).Str() != obs[i].runs[k].stdout {
					ok = false
				}
			}
		}
		r.Sample(map[string]any{"history": desc, "final_output_len": len(obs[i].final["pk/setup.gen.go"]), "agree": ok}, 6)
		if ok {
			continue
		}
		// property oracle: final bytes and statuses must be those of the run on an empty path
		viol := ""
		last := 0
		for _, s := range h {
			if s.Kind == "edit" {
				last = s.V
			}
		}
		for k, ro := range obs[i].runs {
			if ro.status != 0 {
				viol = fmt.Sprintf("run-fails-over-leftover-output")
				_ = k
			}
		}
		if viol == "" && obs[i].final["pk/setup.gen.go"] != code[last] {
			viol = "bytes-differ-from-run-on-empty-path"
		}
		var stderrs []string
		for _, ro := range obs[i].runs {
			stderrs = append(stderrs, ro.stderr)
		}
		files := tool.Files{"pk/setup.go": c12Versions[last]}
		for _, s := range h {
			if s.Kind == "corrupt" {
				files["pk/setup.gen.go"] = s.Corrupt
			}
		}
		rep := cases.SaveReplay("C12", fmt.Sprintf("hist%04d", i), files, fmt.Sprintf("C12 history: %s\n(each 'run' = cd pk && convergen setup.go)\nexpected final output = result of a run with the output path absent\nstderr of runs: %q\n", desc, stderrs))
		if viol != "" {
			r.Violation(report.Violation{Signature: viol, What: desc, Replay: rep})
		} else {
			r.Mismatch(report.Mismatch{Correspondence: "Cli.run_history vs binary over a history", Case: desc, Model: "see replay", Impl: "see replay", Replay: rep})
		}
	}
	return nil
}
