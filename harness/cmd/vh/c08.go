package main

import (
	"fmt"
	"regexp"
	"strings"

	"verif/harness/gen"
	"verif/harness/report"
)

func init() { checks["C08"] = checkC08; checks["C09"] = checkC09 }

// sigCombo is one point of the documented product.
type sigCombo struct {
	Style    string // return | arg
	Recv     bool
	Reverse  bool
	SrcPtr   bool
	DstPtr   bool
	Err      bool
	NArgs    int
	Named    bool
	Imported int // 0: local operands; 1: imported source; 2: imported destination; 3: both
}

func (c sigCombo) legal() bool {
	if c.Reverse && (c.Style != "arg" || c.NArgs > 0) {
		return false
	}
	if c.Recv && (c.Imported == 1 || c.Imported == 3) {
		return false
	}
	return true
}

func (c sigCombo) method(i int) gen.Method {
	m := gen.Method{Name: fmt.Sprintf("M%04d", i), SrcType: "SigS", DstType: "SigD", SrcPtr: c.SrcPtr, DstPtr: c.DstPtr, RetErr: c.Err}
	if c.Imported == 1 || c.Imported == 3 {
		m.SrcType = "ext.Pub1"
	}
	if c.Imported == 2 || c.Imported == 3 {
		m.DstType = "ext.Pub2"
		if i%2 == 1 {
			m.DstType = "v2.Pod" // import path .../api/v2, package v2
		}
	}
	if c.Named {
		m.SrcName, m.DstName = "from", "to"
	}
	argTypes := []string{"int", "*ext.Person", "[]ext2.Item"}
	if i%3 == 1 {
		argTypes = []string{"v2.Kind", "*v2.Pod", "[]v2.Kind"}
	}
	for k := 0; k < c.NArgs; k++ {
		a := gen.Arg{Type: argTypes[k]}
		if c.Named {
			a.Name = fmt.Sprintf("p%d", k)
		}
		m.Args = append(m.Args, a)
	}
	if c.Style == "arg" {
		m.Notations = append(m.Notations, ":style arg")
	}
	if c.Recv {
		m.Notations = append(m.Notations, ":recv rc")
	}
	if c.Reverse {
		m.Notations = append(m.Notations, ":reverse")
	}
	return m
}

// documentedHeader: the signature the README documents for the combination.
func documentedHeader(c sigCombo, m gen.Method) string {
	srcT, dstT := m.SrcType, m.DstType
	fullSrc := srcT
	if c.SrcPtr {
		fullSrc = "*" + srcT
	}
	fullDst := dstT
	if c.DstPtr {
		fullDst = "*" + dstT
	}
	srcName, dstName := "src", "dst"
	if c.Reverse {
		srcName, dstName = "dst", "src"
	}
	if c.Named {
		srcName, dstName = "from", "to"
	}
	var sb strings.Builder
	sb.WriteString("func ")
	if c.Recv {
		srcName = "rc"
		fmt.Fprintf(&sb, "(%s %s) ", srcName, fullSrc)
	}
	sb.WriteString(m.Name + "(")
	var ps []string
	if c.Style == "arg" {
		ps = append(ps, dstName+" *"+dstT)
	}
	if !c.Recv {
		ps = append(ps, srcName+" "+fullSrc)
	}
	for k, a := range m.Args {
		n := a.Name
		if n == "" {
			n = fmt.Sprintf("arg%d", k)
		}
		ps = append(ps, n+" "+a.Type)
	}
	sb.WriteString(strings.Join(ps, ", ") + ")")
	switch {
	case c.Style == "return" && c.Err:
		fmt.Fprintf(&sb, " (%s %s, err error)", dstName, fullDst)
	case c.Style == "return":
		fmt.Fprintf(&sb, " (%s %s)", dstName, fullDst)
	case c.Err:
		sb.WriteString(" (err error)")
	}
	return sb.String()
}

const sigTypes = `
type SigS struct {
	A int
	B string
}
type SigD struct {
	A int
	B string
}
`

var reSpaces = regexp.MustCompile(`\s+`)

func checkC08(r *report.Report, tier string, seed int64) error {
	r.Rule = "complete product style{return,arg} x receiver x reverse x source{pointer,value} x destination{pointer,value} x error result x 0..3 additional arguments x named/unnamed parameters x {local, imported source, imported destination, both}: 2048 combinations; legal ones grouped 16 per setup file, each illegal one alone (its rejection is part of the statement); oracle: the func line of the real output equals the header documented for the combination, one function per method, illegal combinations rejected; non-trivial: every combination; distinct by combination"
	r.Exhaustive = true
	var combos []sigCombo
	for _, style := range []string{"return", "arg"} {
		for _, recv := range []bool{false, true} {
			for _, rev := range []bool{false, true} {
				for _, sp := range []bool{false, true} {
					for _, dp := range []bool{false, true} {
						for _, e := range []bool{false, true} {
							for n := 0; n <= 3; n++ {
								for _, named := range []bool{false, true} {
									for imp := 0; imp < 4; imp++ {
										combos = append(combos, sigCombo{style, recv, rev, sp, dp, e, n, named, imp})
									}
								}
							}
						}
					}
				}
			}
		}
	}
	type group struct {
		combos []sigCombo
		idx    []int
	}
	var groups []group
	var cur group
	for i, c := range combos {
		if !c.legal() {
			groups = append(groups, group{[]sigCombo{c}, []int{i}})
			continue
		}
		cur.combos = append(cur.combos, c)
		cur.idx = append(cur.idx, i)
		if len(cur.combos) == 16 {
			groups = append(groups, cur)
			cur = group{}
		}
	}
	if len(cur.combos) > 0 {
		groups = append(groups, cur)
	}
	if tier == "quick" {
		// the quick tier keeps every legal group and every 6th illegal combination
		var keep []group
		k := 0
		for _, g := range groups {
			if len(g.combos) > 1 || g.combos[0].legal() {
				keep = append(keep, g)
				continue
			}
			k++
			if k%6 == 0 {
				keep = append(keep, g)
			}
		}
		groups = keep
		r.Exhaustive = false
		r.Rule += " (quick tier: all 16-method groups of legal combinations, every 6th illegal combination)"
	}
	mk := func(i int) *gen.Case {
		g := groups[i]
		var ms []gen.Method
		for k, c := range g.combos {
			ms = append(ms, c.method(g.idx[k]))
		}
		return gen.SignatureCase(seed, i, ms, sigTypes, nil)
	}
	// "each method yields exactly one function", also when several interfaces use the same method names and receiver identifier
	selOpt := gen.DefaultOptions()
	selOpt.WellFormed = true
	selOpt.MaxInterfaces = 3
	selOpt.MaxFields = 3
	selOpt.Explicit = 0.1
	selOpt.Hooks = 0
	selOpt.Embedding = 0.3 // methods that reach the converter interface through an embedded one count too
	if err := pipelineCheck(r, "C08", seed, tierN(tier, 48, 600), selOpt, func(i int) *gen.Case { return gen.GenerateSelection(seed, i, selOpt) }, nil,
		func(cr *caseRun) [][2]string {
			var vs [][2]string
			for _, v := range c17Oracle(cr) {
				if v[0] == "number-of-generated-functions-differs-from-number-of-methods" || v[0] == "method-of-marked-interface-without-function" {
					vs = append(vs, [2]string{"not-exactly-one-function-per-method", v[1]})
				}
			}
			return vs
		}); err != nil {
		return err
	}
	return pipelineCheck(r, "C08", seed, len(groups), gen.Options{}, mk, nil, func(cr *caseRun) [][2]string {
		g := groups[cr.C.Index]
		var vs [][2]string
		if len(g.combos) == 1 && !g.combos[0].legal() {
			if cr.Impl.Status == 0 {
				vs = append(vs, [2]string{"illegal-combination-accepted", fmt.Sprintf("%+v", g.combos[0])})
			}
			return vs
		}
		if cr.Impl.Status != 0 {
			vs = append(vs, [2]string{"legal-combination-rejected", trunc(cr.Impl.Stderr, 300)})
			return vs
		}
		funcs := genFuncsOf(cr)
		for k, c := range g.combos {
			m := c.method(g.idx[k])
			gf, ok := funcs[m.Name]
			if !ok {
				vs = append(vs, [2]string{"method-without-function", m.Name})
				continue
			}
			want := documentedHeader(c, m)
			got := reSpaces.ReplaceAllString(gf.Header, " ")
			if got != want {
				vs = append(vs, [2]string{"signature-differs-from-documented-shape", fmt.Sprintf("%+v\n got: %s\nwant: %s", c, got, want)})
			}
		}
		return vs
	})
}

func checkC09(r *report.Report, tier string, seed int64) error {
	opt := gen.DefaultOptions()
	opt.WellFormed = true
	opt.IntfLevel = 0.9
	opt.MaxInterfaces = 3
	opt.MaxMethods = 3
	opt.MaxFields = 5
	opt.Hooks = 0.1
	opt.Embedding = 0.3
	opt.SkipTwins = 0.15
	n := tierN(tier, 56, 1500)
	r.Rule = "files with 1-3 converter interfaces x 1-3 methods, interface-level {unset,on,off} toggles, :style and :match on most interfaces, method-level overrides, per-method :skip/:map/:conv/:literal lists; metamorphic oracle on the real tool: the function generated for each method in the full file must equal the function generated from a file containing only that method (under its interface's notations); plus the correspondence with the model, whose effective options are apply(method doc, apply(interface doc, defaults)); non-trivial = at least two methods in the file; distinct by file contents"
	type pending struct {
		sub  *gen.Case
		name string
		full string
		idx  int
	}
	var subs []pending
	err := pipelineCheck(r, "C09", seed, n, opt, nil,
		func(cr *caseRun) bool { return len(expectedFuncs(cr.C)) >= 2 },
		func(cr *caseRun) [][2]string {
			if cr.Impl.Status != 0 || !cr.Impl.HasOut {
				return nil
			}
			full := genFuncsOf(cr)
			names := expectedFuncs(cr.C)
			if len(names) < 2 {
				return nil
			}
			for name := range names {
				subs = append(subs, pending{cr.C.OnlyMethod(name, opt), name, full[name].Text, cr.C.Index})
			}
			return nil
		})
	if err != nil {
		return err
	}
	seen := map[string]bool{}
	err = runStream(seed, len(subs), opt, func(i int) *gen.Case { return subs[i].sub }, func(s *caseRun) {
		// find the pending entry of this sub-case (same object)
		for _, p := range subs {
			if p.sub != s.C {
				continue
			}
			r.Count("single-method-run")
			sig, what := "", ""
			if s.Impl.Status != 0 {
				sig, what = "method-alone-fails-but-succeeds-in-company", p.name
			} else if alone := genFuncsOf(s)[p.name].Text; alone != p.full {
				sig, what = "method-result-depends-on-other-methods-or-interfaces", fmt.Sprintf("%s (full file: generator index %d)\n-- in the full file:\n%s\n-- alone:\n%s", p.name, p.idx, p.full, alone)
			}
			if sig != "" {
				rep := ""
				if !seen[sig] {
					seen[sig] = true
					rep = saveCase("C09", "violation-"+sig, s, what)
				}
				r.Violation(report.Violation{Signature: sig, What: trunc(what, 300), Replay: rep})
			}
		}
	})
	return err
}
