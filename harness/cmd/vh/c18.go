package main

import (
	"fmt"
	"os"
	"path/filepath"
	"sort"
	"strings"
	"sync"

	"verif/harness/cases"
	"verif/harness/mdl"
	"verif/harness/report"
	"verif/harness/sx"
	"verif/harness/tool"
)

func init() { checks["C18"] = checkC18 }

// cliCase is one command line on one input package.
type cliCase struct {
	Input   string   // name in cases.Fixed
	Dir     string   // directory of the package, relative to the module root
	File    string   // setup file name
	Cwd     string   // cwd relative to module root ("" = root, "pkgdir" = the package dir)
	Abs     bool     // give the input as an absolute path
	Args    []string // flags (before the input)
	Input0  string   // the positional argument ("" = none: use GOFILE)
	GoFile  string   // GOFILE value ("" = unset)
	OutFlag string   // value of -out ("" none)
	Link    string   // when set, Dir/File is a symbolic link to this path (relative to Dir): the setup file lives elsewhere under another name
}

type cliObs struct {
	Status  int
	Stdout  string
	Created map[string]string // relative to the scratch root
	Changed []string
	Stderr  string
}

// refCode generates the reference code of each fixed input with default flags.
func refCode(name string) (string, error) {
	dir, err := cases.NewScratch("c18ref", tool.Files{"pk/setup.go": cases.Fixed[name]})
	if err != nil {
		return "", err
	}
	defer os.RemoveAll(dir)
	r := tool.Run(filepath.Join(dir, "pk"), []string{"setup.go"}, nil, 0)
	if r.Status != 0 {
		return "", fmt.Errorf("reference run of %s failed: %s", name, r.Stderr)
	}
	b, err := os.ReadFile(filepath.Join(dir, "pk", "setup.gen.go"))
	if err != nil {
		return "", err
	}
	return string(b), nil
}

func checkC18(r *report.Report, tier string, seed int64) error {
	r.Rule = "complete product: 2^4 flag combinations (-out, -log, -dry, -print; flag spellings varied) x input path spellings (relative in cwd, nested relative, ./ prefix, absolute, dotted directory, file without extension... ) x -out spellings (next to the input, absolute, a bare file name while the input lies in another directory) x GOFILE/positional x fixed accepted inputs; a case is non-trivial when the tool was actually run and produced an observation; distinct by (input, argv, cwd, GOFILE)"
	r.Exhaustive = true
	inputs := []string{"simple", "twointf", "hooks"}
	if tier == "quick" {
		inputs = []string{"simple", "twointf"}
	}
	ref := map[string]string{}
	for _, in := range inputs {
		c, err := refCode(in)
		if err != nil {
			return err
		}
		ref[in] = c
	}

	type layout struct {
		dir, file, cwd string
		abs, dotslash  bool
		bareOut        bool // -out is a bare file name: relative to the working directory, not to the input
		link           string
	}
	layouts := []layout{
		{"pk", "setup.go", "pk", false, false, false, ""},
		{"pk", "setup.go", "", false, false, false, ""},
		{"pk", "setup.go", "pk", false, true, false, ""},
		{"pk", "setup.go", "", true, false, false, ""},
		{"a.b/pk", "setup.go", "", false, false, false, ""},
		{"a.b/pk", "conv.setup.go", "a.b", false, false, false, ""},
		{"pk", "setup.go", "", false, false, true, ""},
		{"a.b/pk", "setup.go", "a.b", false, false, true, ""},
		{"pk", "setup.go", "pk", false, false, false, "../tpl/person_setup.go"}, // the setup file is a symbolic link to a file elsewhere
		{"pk", "setup.x", "pk", false, false, false, ""},                        // unusual extension (not .go: the loader rejects it -> failing run)
	}
	if tier == "quick" {
		layouts = layouts[:9]
	}
	var cs []cliCase
	for _, in := range inputs {
		for _, l := range layouts {
			for mask := 0; mask < 16; mask++ {
				for gofileMode := 0; gofileMode < 3; gofileMode++ {
					// gofileMode 0: positional only; 1: GOFILE only; 2: both (positional wins)
					if gofileMode != 0 && (mask%4 != 0 && tier == "quick") {
						continue
					}
					c := cliCase{Input: in, Dir: l.dir, File: l.file, Cwd: l.cwd, Abs: l.abs, Link: l.link}
					rel := l.dir + "/" + l.file
					if l.cwd != "" {
						rel = strings.TrimPrefix(rel, l.cwd+"/")
					}
					if l.dotslash {
						rel = "./" + rel
					}
					pathArg := rel
					if l.abs {
						pathArg = "@ABS@/" + l.dir + "/" + l.file
					}
					if mask&1 != 0 {
						out := filepath.ToSlash(filepath.Join(filepath.Dir(rel), "custom_out.go"))
						if mask&8 != 0 {
							out = filepath.ToSlash(filepath.Join(filepath.Dir(rel), "other.name.txt.go"))
						}
						if l.abs {
							out = "@ABS@/" + l.dir + "/custom_out.go"
						}
						if l.bareOut {
							out = "bare_out.go"
						}
						c.OutFlag = out
						if mask&2 != 0 {
							c.Args = append(c.Args, "-out="+out)
						} else {
							c.Args = append(c.Args, "-out", out)
						}
					}
					if mask&2 != 0 {
						c.Args = append(c.Args, "-log")
					}
					if mask&4 != 0 {
						if mask&1 != 0 {
							c.Args = append(c.Args, "--dry=true")
						} else {
							c.Args = append(c.Args, "-dry")
						}
					}
					if mask&8 != 0 {
						c.Args = append(c.Args, "-print")
					}
					switch gofileMode {
					case 0:
						c.Input0 = pathArg
					case 1:
						c.GoFile = pathArg
					case 2:
						c.Input0 = pathArg
						c.GoFile = "nonexistent_other.go"
					}
					cs = append(cs, c)
				}
			}
		}
	}
	// a few malformed command lines: usage paths
	for _, a := range [][]string{{}, {"-nosuch", "x.go"}, {"-dry=maybe", "x.go"}, {"-out"}, {"-h"}, {"--", "-dry"}, {"---x"}} {
		cs = append(cs, cliCase{Input: "simple", Dir: "pk", File: "setup.go", Cwd: "pk", Args: a})
	}

	obs := make([]cliObs, len(cs))
	roots := make([]string, len(cs))
	var wg sync.WaitGroup
	sem := make(chan struct{}, 16)
	var firstErr error
	var mu sync.Mutex
	for i := range cs {
		wg.Add(1)
		sem <- struct{}{}
		go func(i int) {
			defer wg.Done()
			defer func() { <-sem }()
			c := cs[i]
			files := tool.Files{c.Dir + "/" + c.File: cases.Fixed[c.Input]}
			if c.Link != "" {
				files = tool.Files{filepath.ToSlash(filepath.Join(c.Dir, c.Link)): cases.Fixed[c.Input], c.Dir + "/doc.go": "package pk\n"}
			}
			if i%3 == 1 && c.OutFlag == "" && strings.HasSuffix(c.File, ".go") {
				// a longer, older output already lies at the default output path
				ext := filepath.Ext(c.File)
				files[c.Dir+"/"+strings.TrimSuffix(c.File, ext)+".gen"+ext] = ref[c.Input] + strings.Repeat("// stale tail of a longer, older output\n", 40)
			}
			dir, err := cases.NewScratch("c18", files)
			if err != nil {
				mu.Lock(); firstErr = err; mu.Unlock()
				return
			}
			defer os.RemoveAll(dir)
			roots[i] = dir
			if c.Link != "" {
				if err := os.Symlink(c.Link, filepath.Join(dir, filepath.FromSlash(c.Dir), c.File)); err != nil {
					mu.Lock(); firstErr = err; mu.Unlock()
					return
				}
			}
			before, _ := tool.Snapshot(dir)
			args := append([]string{}, c.Args...)
			for j := range args {
				args[j] = strings.ReplaceAll(args[j], "@ABS@", dir)
			}
			if c.Input0 != "" {
				args = append(args, strings.ReplaceAll(c.Input0, "@ABS@", dir))
			}
			var env []string
			if c.GoFile != "" {
				env = append(env, "GOFILE="+strings.ReplaceAll(c.GoFile, "@ABS@", dir))
			}
			res := tool.Run(filepath.Join(dir, filepath.FromSlash(c.Cwd)), args, env, 0)
			after, _ := tool.Snapshot(dir)
			created, modified, deleted := tool.Diff(before, after)
			o := cliObs{Status: res.Status, Stdout: res.Stdout, Stderr: res.Stderr, Created: map[string]string{}}
			for _, p := range created {
				o.Created[p] = after[p]
			}
			for _, p := range modified {
				o.Created[p] = after[p] // an existing output overwritten: compared like a created file
			}
			o.Changed = deleted
			obs[i] = o
		}(i)
	}
	wg.Wait()
	if firstErr != nil {
		return firstErr
	}

	// model: parse_args, then run_core with the reference code as the pipeline oracle
	var m1 []*sx.Node
	for i, c := range cs {
		args := append([]string{}, c.Args...)
		for j := range args {
			args[j] = strings.ReplaceAll(args[j], "@ABS@", roots[i])
		}
		if c.Input0 != "" {
			args = append(args, strings.ReplaceAll(c.Input0, "@ABS@", roots[i]))
		}
		m1 = append(m1, sx.T("cli", sx.Strs(args), sx.A(strings.ReplaceAll(c.GoFile, "@ABS@", roots[i]))))
	}
	cfgs, err := mdl.RunBatch(m1)
	if err != nil {
		return err
	}
	var m2 []*sx.Node
	var m2idx []int
	for i, cfg := range cfgs {
		if cfg.Tag() != "config" {
			continue
		}
		c := cs[i]
		gen := sx.T("code", sx.A(ref[c.Input]))
		if !strings.HasSuffix(c.File, ".go") || !realInput(c) {
			gen = sx.T("fail")
		}
		m2 = append(m2, sx.T("runcore", cfg, sx.L(), gen))
		m2idx = append(m2idx, i)
	}
	runs, err := mdl.RunBatch(m2)
	if err != nil {
		return err
	}
	runOf := map[int]*sx.Node{}
	for k, i := range m2idx {
		runOf[i] = runs[k]
	}

	for i, c := range cs {
		o := obs[i]
		key := tool.Hash(c.Input, strings.Join(c.Args, "\x00"), c.Input0, c.GoFile, c.Cwd, c.Dir, c.File)
		r.Eval(key, true)
		r.Count(fmt.Sprintf("flags=%d", len(c.Args)))
		desc := fmt.Sprintf("input=%s cwd=%q argv=%q positional=%q GOFILE=%q", c.Input, c.Cwd, c.Args, c.Input0, c.GoFile)
		cfg := cfgs[i]
		var modelDesc string
		ok := true
		resolve := func(p string) string {
			p = strings.ReplaceAll(p, roots[i], "@ABS@")
			if strings.HasPrefix(p, "@ABS@/") {
				return strings.TrimPrefix(p, "@ABS@/")
			}
			return filepath.ToSlash(filepath.Join(c.Cwd, p))
		}
		if cfg.Tag() == "usage" {
			want := cfg.Arg(0).Int()
			modelDesc = fmt.Sprintf("usage exit %d, no files", want)
			if o.Status != want || len(o.Created) != 0 || len(o.Changed) != 0 {
				ok = false
			}
			r.Count("usage")
		} else {
			run := runOf[i]
			wantStatus := run.Arg(2).Int()
			wantStdout := run.Arg(1).Str()
			wantFiles := map[string]string{}
			logs := map[string]bool{}
			for _, e := range run.Arg(0).List {
				switch e.Tag() {
				case "truncate":
					p := resolve(e.Arg(0).Str())
					wantFiles[p] = "\x00LOG"
					logs[p] = true
				case "write":
					wantFiles[resolve(e.Arg(0).Str())] = e.Arg(1).Str()
				}
			}
			var names []string
			for p := range wantFiles {
				names = append(names, p)
			}
			sort.Strings(names)
			modelDesc = fmt.Sprintf("status=%d files=%v stdout_len=%d", wantStatus, names, len(wantStdout))
			if o.Status != wantStatus || o.Stdout != wantStdout || len(o.Changed) != 0 || len(o.Created) != len(wantFiles) {
				ok = false
			}
			for p, content := range wantFiles {
				got, present := o.Created[p]
				if !present || (!logs[p] && got != content) {
					ok = false
				}
			}
			r.Count(fmt.Sprintf("status=%d", wantStatus))
		}
		var created []string
		for p := range o.Created {
			created = append(created, p)
		}
		sort.Strings(created)
		implDesc := fmt.Sprintf("status=%d files=%v changed=%v stdout_len=%d", o.Status, created, o.Changed, len(o.Stdout))
		r.Sample(map[string]any{"case": desc, "model": modelDesc, "impl": implDesc}, 6)
		if ok {
			continue
		}
		// correspondence broken: run the property oracle on the observation to find a concrete failing input
		files := tool.Files{c.Dir + "/" + c.File: cases.Fixed[c.Input]}
		readme := fmt.Sprintf("C18 replay\n%s\nmodel: %s\nimpl:  %s\nstdout:\n%s\nstderr:\n%s\n", desc, modelDesc, implDesc, o.Stdout, o.Stderr)
		rep := cases.SaveReplay("C18", fmt.Sprintf("case%04d", i), files, readme)
		viol := c18Oracle(c, o, ref[c.Input], cfg, resolve)
		if viol != "" {
			r.Violation(report.Violation{Signature: viol, What: desc + " :: " + viol, Replay: rep})
		} else {
			r.Mismatch(report.Mismatch{Correspondence: "Cli.parse_args/run_core vs binary", Case: desc, Model: modelDesc, Impl: implDesc, Replay: rep})
		}
	}
	return nil
}

// realInput: the command line names the setup file that exists.
func realInput(c cliCase) bool {
	in := c.Input0
	if in == "" {
		in = c.GoFile
	}
	return strings.HasSuffix(in, c.File)
}

// c18Oracle states the property directly on the observation (independent of
// the model's run_core): returns a signature of the violated clause or "".
func c18Oracle(c cliCase, o cliObs, code string, cfg *sx.Node, resolve func(string) string) string {
	if cfg.Tag() != "config" || !strings.HasSuffix(c.File, ".go") || !realInput(c) {
		return ""
	}
	has := func(f string) bool {
		for _, a := range c.Args {
			if a == "-"+f || strings.HasPrefix(a, "--"+f) || strings.HasPrefix(a, "-"+f+"=") {
				return true
			}
		}
		return false
	}
	dry, prints, logf := has("dry"), has("print"), has("log")
	if o.Status != 0 {
		return "accepted-input-fails"
	}
	// expected output path from the property text (not from the model)
	in := c.Input0
	if in == "" {
		in = c.GoFile
	}
	in = resolve(in)
	exp := in
	if c.OutFlag != "" {
		exp = resolve(c.OutFlag)
	} else {
		ext := filepath.Ext(in)
		exp = strings.TrimSuffix(in, ext) + ".gen" + ext
	}
	if !dry {
		got, ok := o.Created[exp]
		if !ok {
			return "output-not-at-documented-path"
		}
		if got != code {
			return "log-or-flags-change-generated-code"
		}
	} else if _, ok := o.Created[exp]; ok {
		return "dry-run-wrote-output"
	}
	if prints && o.Stdout != code {
		if !dry {
			return "print-without-dry-stdout-differs-from-code"
		}
		return "print-with-dry-stdout-differs-from-code"
	}
	if !prints && o.Stdout != "" {
		return "stdout-without-print"
	}
	if logf {
		ext := filepath.Ext(exp)
		lp := strings.TrimSuffix(exp, ext) + ".log"
		if _, ok := o.Created[lp]; !ok {
			return "log-not-next-to-output"
		}
	}
	n := 0
	if !dry {
		n++
	}
	if logf {
		n++
	}
	if len(o.Created) != n || len(o.Changed) != 0 {
		return "unexpected-files-touched"
	}
	return ""
}
