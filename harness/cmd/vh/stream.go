package main

import (
	"fmt"
	"os"
	"os/exec"
	"path/filepath"
	"strings"
	"sync"

	"verif/harness/cases"
	"verif/harness/cmpr"
	"verif/harness/dump"
	"verif/harness/gen"
	"verif/harness/mdl"
	"verif/harness/report"
	"verif/harness/sx"
	"verif/harness/tool"
)

// caseRun is one generated case run through the implementation and the model.
type caseRun struct {
	C     *gen.Case
	Dir   string // scratch module root (exists while the callback runs)
	Impl  cmpr.Impl
	Dump  *dump.Result
	Model cmpr.Model
	Diffs []cmpr.Diff
	Args  []string
	Sem   []semViol // violations reported by the executed driver (semantic checks)
	SemNote string
	FullWhy string
	FullDone bool
	FlagDiffs []cmpr.Diff // disagreements between the plain run and the same run under -dry -log -print
}

type semViol struct{ Method, Sig, Detail string }

// streamPost, when set, runs in the parallel section right after the tool ran on a case.
var streamPost func(cr *caseRun)

// runStream generates n cases, runs the binary and the model on each, and calls each(run).
// The scratch directories are removed after the callback returns.
func runStream(seed int64, n int, opt gen.Options, mk func(i int) *gen.Case, each func(cr *caseRun)) error {
	const batch = 64
	for start := 0; start < n; start += batch {
		end := start + batch
		if end > n {
			end = n
		}
		runs := make([]*caseRun, end-start)
		var wg sync.WaitGroup
		sem := make(chan struct{}, 16)
		var mu sync.Mutex
		var firstErr error
		for i := start; i < end; i++ {
			wg.Add(1)
			sem <- struct{}{}
			go func(i int) {
				defer wg.Done()
				defer func() { <-sem }()
				var c *gen.Case
				if mk != nil {
					c = mk(i)
				} else {
					c = gen.Generate(seed, i, opt)
				}
				prefix := "gen"
				if c.Index%8 == 3 {
					prefix = "g%20n%d" // a directory name with printf verbs in it
				}
				dir, err := cases.NewScratch(prefix, c.Files)
				if err != nil {
					mu.Lock()
					firstErr = err
					mu.Unlock()
					return
				}
				cr := &caseRun{C: c, Dir: dir}
				src := filepath.Join(dir, filepath.FromSlash(c.SetupPath))
				ext := filepath.Ext(src)
				dst := src[:len(src)-len(ext)] + ".gen" + ext
				d, err := dump.Load(src, dst, tool.BaseEnv())
				if err != nil {
					mu.Lock()
					firstErr = err
					mu.Unlock()
					return
				}
				cr.Dump = d
				cr.Args = []string{filepath.Base(src)}
				res := tool.Run(filepath.Dir(src), cr.Args, nil, 0)
				cr.Impl = cmpr.Impl{Status: res.Status, Stdout: res.Stdout, Stderr: res.Stderr, Panicked: res.Panicked, TimedOut: res.TimedOut}
				if b, err := os.ReadFile(dst); err == nil {
					cr.Impl.Output, cr.Impl.HasOut = string(b), true
				}
				if c.Index%4 == 1 && !res.TimedOut && !res.Panicked {
					// the same input under -dry -log -print (Cli.v: -log is inert but for the log file, -dry
					// writes nothing, -print prints exactly the code): same status, same diagnostics on
					// stderr, the code on stdout, the output file untouched
					flags := []string{"-dry", "-log", "-print", filepath.Base(src)}
					res2 := tool.Run(filepath.Dir(src), flags, nil, 0)
					if res2.Status != res.Status {
						cr.FlagDiffs = append(cr.FlagDiffs, cmpr.Diff{What: "flags -dry -log -print: exit status differs from the plain run", Model: fmt.Sprint(res.Status), Impl: fmt.Sprint(res2.Status)})
					}
					if res2.Stderr != res.Stderr {
						cr.FlagDiffs = append(cr.FlagDiffs, cmpr.Diff{What: "flags -dry -log -print: stderr (diagnostics, warnings) differs from the plain run", Model: trunc(res.Stderr, 800), Impl: trunc(res2.Stderr, 800)})
					}
					if res.Status == 0 && cr.Impl.HasOut && res2.Stdout != cr.Impl.Output {
						cr.FlagDiffs = append(cr.FlagDiffs, cmpr.Diff{What: "flags -dry -log -print: stdout is not the code the plain run wrote", Model: trunc(cr.Impl.Output, 800), Impl: trunc(res2.Stdout, 800)})
					}
					if b, err := os.ReadFile(dst); (err == nil) != cr.Impl.HasOut || (err == nil && string(b) != cr.Impl.Output) {
						cr.FlagDiffs = append(cr.FlagDiffs, cmpr.Diff{What: "flags -dry -log -print: the dry run changed the output file"})
					}
				}
				if streamPost != nil {
					streamPost(cr)
				}
				runs[i-start] = cr
			}(i)
		}
		wg.Wait()
		if firstErr != nil {
			return firstErr
		}
		var ms []*sx.Node
		var idx []int
		for k, cr := range runs {
			if cr.Dump.LoadFailed == "" {
				ms = append(ms, sx.T("gen", cr.Dump.Dump))
				idx = append(idx, k)
			}
		}
		res, err := mdl.RunBatch(ms)
		if err != nil {
			return err
		}
		for k, j := range idx {
			runs[j].Model = cmpr.DecodeModel(res[k])
			runs[j].Diffs = append(cmpr.Compare(runs[j].Impl, runs[j].Model), runs[j].FlagDiffs...)
		}
		// whole-file correspondence: model's comment surgery + cut + content vs the bytes written
		var wg2 sync.WaitGroup
		for _, j := range idx {
			cr := runs[j]
			if cr.Model.Kind != "ok" || cr.Impl.Panicked || cr.Impl.TimedOut {
				continue
			}
			wg2.Add(1)
			sem <- struct{}{}
			go func(cr *caseRun) {
				defer wg2.Done()
				defer func() { <-sem }()
				want, why := fullFile(cr)
				cr.FullWhy = why
				switch {
				case why != "" && cr.Impl.Status == 0:
					cr.Diffs = append(cr.Diffs, cmpr.Diff{What: "whole file: model pipeline fails late (" + why + ") but the tool succeeded", Model: trunc(want, 1500), Impl: trunc(cr.Impl.Output, 1500)})
				case why == "" && cr.Impl.Status != 0:
					cr.Diffs = append(cr.Diffs, cmpr.Diff{What: "whole file: model produces a file but the tool failed", Model: trunc(want, 1500), Impl: cr.Impl.Stderr})
				case why == "" && cr.Impl.HasOut && want != cr.Impl.Output:
					cr.Diffs = append(cr.Diffs, cmpr.Diff{What: "whole file bytes", Model: want, Impl: cr.Impl.Output})
				}
				cr.FullDone = true
			}(cr)
		}
		wg2.Wait()
		for _, cr := range runs {
			each(cr)
			os.RemoveAll(cr.Dir)
		}
	}
	return nil
}

// goBuild type-checks/compiles package dir (ordinary build: no convergen tag) in the scratch module.
func goBuild(dir, pkg string) (bool, string) {
	cmd := exec.Command("go", "build", "./"+pkg)
	cmd.Dir = dir
	cmd.Env = tool.BaseEnv()
	out, err := cmd.CombinedOutput()
	return err == nil, string(out)
}

func gofmtClean(path string) (bool, string) {
	out, err := exec.Command("gofmt", "-l", path).CombinedOutput()
	return err == nil && strings.TrimSpace(string(out)) == "", string(out)
}

// saveCase stores the generated module as a replay.
func saveCase(prop, name string, cr *caseRun, readme string) string {
	files := tool.Files{"go.mod": cases.GoMod}
	for k, v := range cr.C.Files {
		files[k] = v
	}
	if cr.Impl.HasOut {
		files["pk/setup.gen.go.observed"] = cr.Impl.Output
	}
	txt := fmt.Sprintf("%s\nreplay: cd pk && convergen %s   (generator seed=%d index=%d)\nexit status: %d\nstderr:\n%s\n", readme, strings.Join(cr.Args, " "), cr.C.Seed, cr.C.Index, cr.Impl.Status, cr.Impl.Stderr)
	return cases.SaveReplay(prop, name, files, txt)
}

// recordCorrespondence files the model/implementation disagreements of a run.
func recordCorrespondence(r *report.Report, prop string, cr *caseRun) bool {
	if cr.Dump.LoadFailed != "" {
		r.Count("load-failed:" + cr.Dump.LoadFailed)
		return false
	}
	if cr.Model.Kind == "unsup" || cr.Model.Kind == "decode-error" {
		r.OutOfModel++
		r.Count("model-" + cr.Model.Kind)
		if cr.Model.Kind == "decode-error" {
			r.ModelValidation = append(r.ModelValidation, fmt.Sprintf("model cannot decode the dump of seed=%d index=%d: %s", cr.C.Seed, cr.C.Index, cr.Model.Msg))
		}
		return false
	}
	if len(cr.Diffs) == 0 {
		return true
	}
	name := fmt.Sprintf("case-%d-%d", cr.C.Seed, cr.C.Index)
	var sb strings.Builder
	for _, d := range cr.Diffs {
		fmt.Fprintf(&sb, "== %s\n-- model:\n%s\n-- implementation:\n%s\n", d.What, d.Model, d.Impl)
	}
	rep := saveCase(prop, name, cr, "correspondence between the Coq model (Pipeline.run_pipeline) and the implementation broke:\n"+sb.String())
	d := cr.Diffs[0]
	r.Mismatch(report.Mismatch{Correspondence: "Pipeline.run_pipeline vs binary (" + d.What + ")", Case: name, Model: trunc(d.Model, 600), Impl: trunc(d.Impl, 600), Replay: rep})
	return false
}

func trunc(s string, n int) string {
	if len(s) > n {
		return s[:n] + "..."
	}
	return s
}
