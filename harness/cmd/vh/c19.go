package main

import (
	"fmt"
	"math/rand"
	"regexp"
	"strings"

	"github.com/reedom/convergen/pkg/option"

	"verif/harness/gen"
	"verif/harness/mdl"
	"verif/harness/report"
	"verif/harness/sx"
	"verif/harness/tool"
)

func init() { checks["C19"] = checkC19 }

var c19Alphabet = []string{"a", "A", "b", "B", ".", "ſ", "s", "S", "σ", "ς", "Σ", "İ", "i", "I", "ı", "K", "k", "K", "É", "é", "_", "1"}

func c19Strings(maxLen int, alpha []string) []string {
	res := []string{""}
	cur := []string{""}
	for l := 1; l <= maxLen; l++ {
		var next []string
		for _, p := range cur {
			for _, a := range alpha {
				next = append(next, p+a)
			}
		}
		res = append(res, next...)
		cur = next
	}
	return res
}

type pmAnswer struct {
	newErr  bool
	answers []string // "1", "0", "panic"
}

func implSeq(pattern string, ex0 bool, qs [][2]string) (a pmAnswer) {
	m, err := func() (m *option.PatternMatcher, err error) {
		defer func() {
			if r := recover(); r != nil {
				err = fmt.Errorf("panic in NewPatternMatcher: %v", r)
			}
		}()
		return option.NewPatternMatcher(pattern, ex0)
	}()
	if err != nil {
		a.newErr = true
		return
	}
	for _, q := range qs {
		ans := func() (s string) {
			defer func() {
				if r := recover(); r != nil {
					s = "panic"
				}
			}()
			if m.Match(q[0], q[1] == "1") {
				return "1"
			}
			return "0"
		}()
		a.answers = append(a.answers, ans)
	}
	return
}

// oracle: the property text. plain: equality / Unicode fold equality; /re/: RE2 search, (?i) when the rule is off.
func oracleMatch(pattern, ident string, exact bool) (ans string, valid bool) {
	if strings.HasPrefix(pattern, "/") && strings.HasSuffix(pattern, "/") && len(pattern) >= 2 {
		expr := pattern[1 : len(pattern)-1]
		if _, err := regexp.Compile(expr); err != nil {
			return "", false
		}
		if !exact {
			expr = "(?i)" + expr
		}
		re, err := regexp.Compile(expr)
		if err != nil {
			return "", false
		}
		if re.MatchString(ident) {
			return "1", true
		}
		return "0", true
	}
	if !validUTF8(pattern) {
		return "", false // a plain pattern that is not UTF-8 can match no Go identifier; rejecting it is a diagnostic
	}
	var eq bool
	if exact {
		eq = pattern == ident
	} else {
		eq = strings.EqualFold(pattern, ident)
	}
	if eq {
		return "1", true
	}
	return "0", true
}

func validUTF8(s string) bool {
	for _, r := range s {
		if r == 0xFFFD {
			return strings.ToValidUTF8(s, "") == s
		}
	}
	return true
}

func randRegexp(rng *rand.Rand, depth int) string {
	atoms := []string{"a", "A", "b", "s", "ſ", "k", "K", "É", "i", "İ", ".", `\.`, `\d`, `\D`, `\w`, `\W`, `\s`, `\S`, `\b`, `\B`, "^", "$", `\A`, `\z`,
		"[a-c]", "[^A]", "[A-Z]", `[\w.]`, "[[:alpha:]]", "[[:^digit:]]", `\pL`, `\PL`, `\p{Lu}`, `\p{Ll}`, `\x41`, `\x{17F}`, `\101`, `\Qa.b\E`, "Name", "name", "User", "ID", "[]a]", "[a-]", `\pN`, `\p{Greek}`}
	if depth <= 0 || rng.Intn(3) == 0 {
		return atoms[rng.Intn(len(atoms))]
	}
	switch rng.Intn(8) {
	case 0:
		return randRegexp(rng, depth-1) + randRegexp(rng, depth-1)
	case 1:
		return randRegexp(rng, depth-1) + "|" + randRegexp(rng, depth-1)
	case 2:
		return "(" + randRegexp(rng, depth-1) + ")"
	case 3:
		return "(?:" + randRegexp(rng, depth-1) + ")" + []string{"*", "+", "?", "{2}", "{1,2}", "{0,}", "*?", "+?"}[rng.Intn(8)]
	case 4:
		return "(?i)" + randRegexp(rng, depth-1)
	case 5:
		return "(?i:" + randRegexp(rng, depth-1) + ")" + randRegexp(rng, depth-1)
	case 6:
		return atoms[rng.Intn(len(atoms))] + []string{"*", "+", "?", "{2}", "{0,1}"}[rng.Intn(5)]
	default:
		return "(?P<n>" + randRegexp(rng, depth-1) + ")" + randRegexp(rng, depth-1)
	}
}

var c19Malformed = []string{"(", ")", "[a", "a**", `\`, "x{2,1}", `\pl`, `\Z`, "(?z)", "*a", "a{1001}", `\8`, "[z-a]", "(?P<>a)", `\p{Nope}`, "a|*", "[[:nope:]]", `\C`, "(?i", "a{2}{3}", "\xff", "a\xc3"}

func randSubject(rng *rand.Rand) string {
	parts := []string{"Name", "name", "NAME", "User", "user", "ID", "Id", "id", "a", "A", "b", ".", "ſ", "s", "S", "K", "k", "K", "É", "é", "İ", "i", "ı", "σ", "ς", "1", "_", " ", "\n", "ab", "Abc"}
	n := rng.Intn(4)
	var sb strings.Builder
	for i := 0; i <= n; i++ {
		sb.WriteString(parts[rng.Intn(len(parts))])
	}
	return sb.String()
}

func checkC19(r *report.Report, tier string, seed int64) error {
	rng := rand.New(rand.NewSource(seed))
	maxLen := 2
	nRe, nSeq := 1500, 600
	if tier == "thorough" {
		maxLen = 3
		nRe, nSeq = 60000, 20000
	}
	r.Rule = fmt.Sprintf("(1) library validation: strings.ToLower/EqualFold/Fields, regexp.QuoteMeta, ast.IsExported vs the Gallina versions on the strings below; (2) exhaustive small scope: all (pattern, path) pairs over a %d-symbol alphabet (mixed case, dot, ſ/s, σ/ς/Σ, İ/i/ı, K/k/Kelvin, É/é) up to length %d (sampled at length 3) x both case rules for IdentMatcher and plain PatternMatcher; (3) %d random regexps from the Re.v grammar and a malformed stream (validity must agree with regexp.Compile) x random subjects x both rules; (4) %d query sequences alternating the case rule on one matcher; (5) the matchers at their call sites: generated packages with :skip patterns and :map/:conv/:literal destinations that differ from a field name only in case, under both case rules (pipeline correspondence + an oracle on the real output). Implementation = exported option API (in-process, with recover). non-trivial = the pattern compiles and at least one answer is a match or the two case rules answer differently; distinct by (pattern, subjects, rules)", len(c19Alphabet), maxLen, nRe, nSeq)

	// (1) library validation
	strs := c19Strings(2, c19Alphabet)
	for i := 0; i < 200; i++ {
		strs = append(strs, randSubject(rng))
	}
	strs = append(strs, "a\xffb", "\xc3", "A B c", " x\ty z ", "ǅ", "ǆ", "Ǆ", "ß", "ẞ", "µ", "Μ", "μ")
	var lv []*sx.Node
	for _, s := range strs {
		lv = append(lv, sx.T("strfun", sx.A("to_lower"), sx.A(s)), sx.T("strfun", sx.A("fields"), sx.A(s)), sx.T("strfun", sx.A("quote_meta"), sx.A(s)), sx.T("strfun", sx.A("is_exported"), sx.A(s)))
	}
	lres, err := mdl.RunBatch(lv)
	if err != nil {
		return err
	}
	for i, s := range strs {
		if got := lres[4*i].Str(); got != strings.ToLower(s) {
			r.ModelValidation = append(r.ModelValidation, fmt.Sprintf("to_lower(%q): model %q, Go %q", s, got, strings.ToLower(s)))
		}
		var mf []string
		for _, x := range lres[4*i+1].List {
			mf = append(mf, x.Str())
		}
		if strings.Join(mf, "\x00") != strings.Join(strings.Fields(s), "\x00") {
			r.ModelValidation = append(r.ModelValidation, fmt.Sprintf("fields(%q): model %q, Go %q", s, mf, strings.Fields(s)))
		}
		if got := lres[4*i+2].Str(); got != regexp.QuoteMeta(s) {
			r.ModelValidation = append(r.ModelValidation, fmt.Sprintf("quote_meta(%q): model %q, Go %q", s, got, regexp.QuoteMeta(s)))
		}
		if got := lres[4*i+3].Str() == "1"; got != isExported(s) {
			r.ModelValidation = append(r.ModelValidation, fmt.Sprintf("is_exported(%q): model %v", s, got))
		}
	}
	var ef []*sx.Node
	var efPairs [][2]string
	for i := 0; i < len(strs); i += 3 {
		for j := 0; j < len(strs); j += 7 {
			efPairs = append(efPairs, [2]string{strs[i], strs[j]})
			ef = append(ef, sx.T("strfun", sx.A("equal_fold"), sx.A(strs[i]), sx.A(strs[j])))
		}
	}
	eres, err := mdl.RunBatch(ef)
	if err != nil {
		return err
	}
	for i, p := range efPairs {
		if (eres[i].Str() == "1") != strings.EqualFold(p[0], p[1]) {
			r.ModelValidation = append(r.ModelValidation, fmt.Sprintf("equal_fold(%q,%q): model %s", p[0], p[1], eres[i].Str()))
		}
	}
	if len(r.ModelValidation) > 0 {
		return nil
	}

	type job struct {
		kind    string // ident | pm
		pattern string
		ex0     bool
		qs      [][2]string
	}
	var jobs []job
	// (2) exhaustive small scope
	small := c19Strings(maxLen, c19Alphabet)
	if maxLen >= 3 {
		// sample the length-3 part
		var keep []string
		for _, s := range small {
			if len([]rune(s)) < 3 || rng.Intn(12) == 0 {
				keep = append(keep, s)
			}
		}
		small = keep
	}
	step := 1
	if tier == "quick" {
		step = 3
	}
	for pi, p := range small {
		if p == "" {
			continue
		}
		var qs [][2]string
		for si := (pi % step); si < len(small); si += step {
			qs = append(qs, [2]string{small[si], "1"}, [2]string{small[si], "0"})
		}
		// always include the pattern itself and its case variants
		for _, v := range []string{p, strings.ToLower(p), strings.ToUpper(p)} {
			qs = append(qs, [2]string{v, "1"}, [2]string{v, "0"})
		}
		jobs = append(jobs, job{"ident", p, true, qs})
		jobs = append(jobs, job{"pm", p, pi%2 == 0, qs})
	}
	// (3) regexps
	for i := 0; i < nRe; i++ {
		var expr string
		if i%10 == 9 {
			expr = c19Malformed[rng.Intn(len(c19Malformed))]
			if rng.Intn(2) == 0 {
				expr = randRegexp(rng, 2) + expr
			}
		} else {
			expr = randRegexp(rng, 1+rng.Intn(3))
		}
		var qs [][2]string
		for k := 0; k < 6; k++ {
			s := randSubject(rng)
			qs = append(qs, [2]string{s, "1"}, [2]string{s, "0"})
		}
		jobs = append(jobs, job{"pm", "/" + expr + "/", rng.Intn(2) == 0, qs})
	}
	// (4) sequences alternating the rule
	seqPatterns := []string{"Name", "name", "/^n/", "/N/", `/^\S+$/`, `/\pL/`, `/\PL/`, `/\Z/`, `/\Qa\E/`, "ſ", "İ", "/[A-Z]/", "/(?i)x|Name/", `/\x{17F}/`, "K", `/\W/`, `/\D$/`, `/\Bam/`}
	for i := 0; i < nSeq; i++ {
		p := seqPatterns[rng.Intn(len(seqPatterns))]
		if rng.Intn(3) == 0 {
			p = "/" + randRegexp(rng, 2) + "/"
		}
		var qs [][2]string
		n := 2 + rng.Intn(6)
		for k := 0; k < n; k++ {
			ex := "0"
			if rng.Intn(2) == 0 {
				ex = "1"
			}
			qs = append(qs, [2]string{randSubject(rng), ex})
		}
		jobs = append(jobs, job{"pm", p, rng.Intn(2) == 0, qs})
	}

	// model
	var ms []*sx.Node
	for _, j := range jobs {
		if j.kind == "ident" {
			for _, q := range j.qs {
				ms = append(ms, sx.T("ident", sx.A(j.pattern), sx.A(q[0]), sx.A(q[1])))
			}
		} else {
			ql := sx.L()
			for _, q := range j.qs {
				ql.List = append(ql.List, sx.L(sx.A(q[0]), sx.A(q[1])))
			}
			ms = append(ms, sx.T("pmseq", sx.A(j.pattern), sx.B(j.ex0), ql))
		}
	}
	mres, err := mdl.RunBatch(ms)
	if err != nil {
		return err
	}
	mi := 0
	for ji, j := range jobs {
		if j.kind == "ident" {
			im := option.NewIdentMatcher(j.pattern)
			match := false
			for _, q := range j.qs {
				got := im.Match(q[0], q[1] == "1")
				model := mres[mi].Str() == "1"
				mi++
				want, _ := oracleMatch(j.pattern, q[0], q[1] == "1")
				match = match || got
				if got != (want == "1") {
					r.Violation(report.Violation{Signature: "ident-matcher-differs-from-fold-equality", What: fmt.Sprintf("IdentMatcher(%q).Match(%q, exact=%s) = %v", j.pattern, q[0], q[1], got)})
				} else if got != model {
					r.Mismatch(report.Mismatch{Correspondence: "Matcher.ident_match vs option.IdentMatcher", Case: fmt.Sprintf("%q %q %s", j.pattern, q[0], q[1]), Model: fmt.Sprint(model), Impl: fmt.Sprint(got)})
				}
			}
			r.Eval(tool.Hash("ident", j.pattern), match)
			r.Count("ident-matcher")
			continue
		}
		m := mres[mi]
		mi++
		impl := implSeq(j.pattern, j.ex0, j.qs)
		desc := fmt.Sprintf("NewPatternMatcher(%q, exact=%v) then %q", j.pattern, j.ex0, j.qs)
		if len(desc) > 400 {
			desc = desc[:400] + "..."
		}
		r.Count("pattern-matcher")
		if m.Tag() == "unsup" {
			r.OutOfModel++
			// still run the oracle on the implementation
		}
		// oracle on the implementation
		_, valid := oracleMatch(j.pattern, "", j.ex0)
		nontrivial := false
		violated := ""
		if impl.newErr != !valid {
			violated = "validity-differs-from-regexp-compile"
		} else if !impl.newErr {
			seenDiff := false
			for k, q := range j.qs {
				want, _ := oracleMatch(j.pattern, q[0], q[1] == "1")
				if impl.answers[k] == "1" {
					nontrivial = true
				}
				other, _ := oracleMatch(j.pattern, q[0], q[1] != "1")
				if other != want {
					seenDiff = true
				}
				if impl.answers[k] != want && violated == "" {
					switch {
					case impl.answers[k] == "panic":
						violated = "matcher-panics-after-case-rule-change"
					case strings.HasPrefix(j.pattern, "/"):
						violated = "regexp-pattern-answer-differs-from-RE2"
						if q[1] == "0" {
							violated = "regexp-pattern-case-insensitive-answer-differs-from-(?i)RE2"
						}
					default:
						violated = "plain-pattern-answer-differs-from-equality"
						if q[1] == "0" {
							violated = "plain-pattern-answer-differs-from-unicode-fold-equality"
						}
					}
					desc = fmt.Sprintf("NewPatternMatcher(%q, exact=%v): query #%d Match(%q, exact=%s) = %s, want %s", j.pattern, j.ex0, k, q[0], q[1], impl.answers[k], want)
				}
			}
			nontrivial = nontrivial || seenDiff
		}
		r.Eval(tool.Hash("pm", j.pattern, fmt.Sprint(j.ex0), fmt.Sprint(j.qs)), nontrivial)
		if ji%97 == 0 {
			r.Sample(map[string]any{"pattern": j.pattern, "exact0": j.ex0, "queries": j.qs[:min(4, len(j.qs))], "impl": impl.answers[:min(4, len(impl.answers))]}, 8)
		}
		if violated != "" {
			r.Violation(report.Violation{Signature: violated, What: desc})
			continue
		}
		if m.Tag() == "unsup" {
			continue
		}
		// correspondence
		agree := true
		if (m.Tag() == "new-error") != impl.newErr {
			agree = false
		} else if !impl.newErr {
			if len(m.List)-1 != len(impl.answers) {
				agree = false
			} else {
				for k := range impl.answers {
					ma := m.List[k+1].Str()
					if ma == "unsup" {
						continue
					}
					if ma != impl.answers[k] {
						agree = false
					}
				}
			}
		}
		if !agree {
			r.Mismatch(report.Mismatch{Correspondence: "Matcher.pm_match (Re.v) vs option.PatternMatcher", Case: desc, Model: m.String(), Impl: fmt.Sprint(impl)})
		}
	}
	// (5) the matchers at their call sites in the builder: destinations of :map/:conv/:literal compare
	// case-sensitively whatever the case rule; :skip patterns follow the rule
	bopt := gen.DefaultOptions()
	bopt.WellFormed = true
	bopt.Explicit = 1.4
	bopt.Hooks = 0
	bopt.MaxInterfaces = 1
	bopt.CaseBias = true
	if err := pipelineCheck(r, "C19", seed, tierN(tier, 112, 2000), bopt, nil,
		func(cr *caseRun) bool {
			return cr.C.Features["explicit-target-case-variant"]+cr.C.Features["skip-case"]+cr.C.Features["skip-re"]+cr.C.Features["skip-before-case-off"] > 0
		},
		func(cr *caseRun) [][2]string {
			vs := c19BuilderOracle(cr)
			// :skip patterns at their call site: a path the pattern matches (Go's regexp / EqualFold as judge) is never written
			for _, v := range c06Oracle(cr) {
				if v[0] == "skipped-path-assigned" {
					vs = append(vs, v)
				}
			}
			return vs
		}); err != nil {
		return err
	}
	// replay files for violations: one text file per signature
	seen := map[string]bool{}
	for i := range r.Violations {
		v := &r.Violations[i]
		if !seen[v.Signature] {
			seen[v.Signature] = true
			v.Replay = casesSaveText("C19", v.Signature, "C19 violation ("+v.Signature+")\n"+v.What+"\nreplay: call the exported option API as described above; the oracle is strings.EqualFold / regexp.MustCompile(\"(?i)\"+expr).\n")
		}
	}
	return nil
}

// c19BuilderOracle: a :map/:conv/:literal whose destination differs from a field's name only in case
// addresses no field: that field must not receive the notation's source.
func c19BuilderOracle(cr *caseRun) [][2]string {
	if cr.Impl.Status != 0 || !cr.Impl.HasOut {
		return nil
	}
	var vs [][2]string
	funcs := genFuncsOf(cr)
	for _, it := range cr.C.Interfaces {
		for _, m := range it.Methods {
			gf, ok := funcs[m.Name]
			if !ok {
				continue
			}
			exact := map[string]bool{}
			for _, fd := range cr.C.Struct[m.DstType] {
				exact[fd.Name] = true
			}
			for _, n := range m.Notations {
				f := strings.Fields(n)
				var target, mark string
				switch {
				case len(f) == 3 && f[0] == ":map" && f[1] == "SpareInt":
					target, mark = f[2], ".SpareInt"
				case len(f) == 4 && f[0] == ":conv" && f[1] == "localConv" && f[2] == "SpareInt":
					target, mark = f[3], "localConv("
				default:
					continue
				}
				if exact[target] || strings.Contains(target, ".") {
					continue
				}
				for _, fd := range cr.C.Struct[m.DstType] {
					if !strings.EqualFold(fd.Name, target) {
						continue
					}
					// no other notation may address the field exactly with the same source
					other := false
					for _, n2 := range m.Notations {
						f2 := strings.Fields(n2)
						if len(f2) >= 3 && f2[len(f2)-1] == fd.Name && (f2[0] == ":map" || f2[0] == ":conv") {
							other = true
						}
					}
					if other {
						continue
					}
					for _, e := range gf.Entries {
						if e.Kind == "assign" && strings.HasSuffix(e.Path, "."+fd.Name) && strings.Count(e.Path, ".") == 1 && strings.Contains(e.RHS, mark) {
							vs = append(vs, [2]string{"explicit-destination-compared-case-insensitively", fmt.Sprintf("%s: notation %q addresses %q, yet field %s got %s", m.Name, n, target, fd.Name, e.Raw)})
						}
					}
				}
			}
		}
	}
	return vs
}

func isExported(s string) bool {
	for _, r := range s {
		return isUpperRune(r)
	}
	return false
}
