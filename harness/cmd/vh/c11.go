package main

import (
	"bytes"
	"fmt"
	"go/ast"
	"go/parser"
	"go/printer"
	"go/token"
	"regexp"
	"sort"
	"strings"

	"verif/harness/gen"
	"verif/harness/report"
)

func init() { checks["C11"] = checkC11 }

var reNotationLine = regexp.MustCompile(`^\s*//\s*:(\S+)`)

func renderDecl(fset *token.FileSet, f *ast.File, d ast.Decl) string {
	var buf bytes.Buffer
	_ = printer.Fprint(&buf, fset, &printer.CommentedNode{Node: d, Comments: f.Comments})
	return buf.String()
}

func isConverterDecl(d ast.Decl, conv map[string]bool) bool {
	gd, ok := d.(*ast.GenDecl)
	if !ok || gd.Tok != token.TYPE {
		return false
	}
	for _, s := range gd.Specs {
		if ts, ok := s.(*ast.TypeSpec); ok && conv[ts.Name.Name] {
			return true
		}
	}
	return false
}

// c11Oracle: AST / comment comparison of the real output against the setup file.
func c11Oracle(cr *caseRun) [][2]string {
	if cr.Impl.Status != 0 || !cr.Impl.HasOut {
		return nil
	}
	var vs [][2]string
	inSrc := cr.C.Files[cr.C.SetupPath]
	fsetI, fsetO := token.NewFileSet(), token.NewFileSet()
	in, err1 := parser.ParseFile(fsetI, "in.go", inSrc, parser.ParseComments)
	out, err2 := parser.ParseFile(fsetO, "out.go", cr.Impl.Output, parser.ParseComments)
	if err1 != nil || err2 != nil {
		return nil
	}
	conv := map[string]bool{}
	methods := map[string]gen.Method{}
	for _, it := range cr.C.Interfaces {
		if it.Name == "Convergen" || it.Marked {
			conv[it.Name] = true
			for _, m := range it.Methods {
				methods[m.Name] = m
			}
			for _, m := range it.Embeds {
				methods[m.Name] = m
			}
		}
	}
	// interfaces embedded in a converter interface: their methods are converter methods, whose
	// notation lines are consumed like those written inside the converter interface itself
	embedded := map[string]bool{}
	ast.Inspect(in, func(n ast.Node) bool {
		ts, ok := n.(*ast.TypeSpec)
		if !ok || !conv[ts.Name.Name] {
			return true
		}
		if it, ok := ts.Type.(*ast.InterfaceType); ok {
			for _, f := range it.Methods.List {
				if id, ok := f.Type.(*ast.Ident); ok && len(f.Names) == 0 {
					embedded[id.Name] = true
				}
			}
		}
		return true
	})
	isEmbeddedDecl := func(d ast.Decl) bool { return isConverterDecl(d, embedded) }
	dropNotationLines := func(s string) string {
		var keep []string
		for _, l := range strings.Split(s, "\n") {
			t := strings.TrimSpace(l)
			if t == "" || reNotationLine.MatchString(t) {
				continue
			}
			keep = append(keep, l)
		}
		return strings.Join(keep, "\n")
	}
	// 1. declarations other than imports and converter interfaces are carried over unchanged, in order
	var inDecls, outDecls []string
	for _, d := range in.Decls {
		if gd, ok := d.(*ast.GenDecl); ok && gd.Tok == token.IMPORT {
			continue
		}
		if isConverterDecl(d, conv) {
			if n := len(inDecls); n == 0 || inDecls[n-1] != "<converter>" {
				inDecls = append(inDecls, "<converter>")
			}
			continue
		}
		if isEmbeddedDecl(d) {
			inDecls = append(inDecls, dropNotationLines(renderDecl(fsetI, in, d)))
			continue
		}
		inDecls = append(inDecls, renderDecl(fsetI, in, d))
	}
	for _, d := range out.Decls {
		if gd, ok := d.(*ast.GenDecl); ok && gd.Tok == token.IMPORT {
			continue
		}
		if fd, ok := d.(*ast.FuncDecl); ok {
			if _, gen := methods[fd.Name.Name]; gen {
				if n := len(outDecls); n == 0 || outDecls[n-1] != "<converter>" {
					outDecls = append(outDecls, "<converter>")
				}
				continue
			}
		}
		if isEmbeddedDecl(d) {
			outDecls = append(outDecls, dropNotationLines(renderDecl(fsetO, out, d)))
			continue
		}
		outDecls = append(outDecls, renderDecl(fsetO, out, d))
	}
	if strings.Join(inDecls, "\x00") != strings.Join(outDecls, "\x00") {
		detail := ""
		for i := 0; i < len(inDecls) || i < len(outDecls); i++ {
			a, b := "<none>", "<none>"
			if i < len(inDecls) {
				a = inDecls[i]
			}
			if i < len(outDecls) {
				b = outDecls[i]
			}
			if a != b {
				detail = fmt.Sprintf("declaration #%d\n-- setup file:\n%s\n-- output:\n%s", i, a, b)
				break
			}
		}
		sig := "declaration-not-carried-over-intact"
		if strings.Contains(detail, "//go:generate") {
			sig = "go-generate-looking-comment-inside-a-declaration-removed"
		}
		if strings.Contains(detail, "interface") && strings.Contains(detail, "<converter>") {
			sig = "converter-interface-not-replaced-in-place"
		}
		vs = append(vs, [2]string{sig, detail})
	}
	// 2. no directive or notation left
	for _, g := range out.Comments {
		for _, c := range g.List {
			t := c.Text
			switch {
			case strings.HasPrefix(t, "//go:build") && strings.Contains(t, "convergen"), strings.HasPrefix(t, "// +build") && strings.Contains(t, "convergen"):
				vs = append(vs, [2]string{"convergen-build-constraint-left-in-output", t})
			case strings.HasPrefix(t, "//go:generate") && fsetO.Position(c.Pos()).Column == 1:
				vs = append(vs, [2]string{"go-generate-directive-left-in-output", t})
			}
		}
	}
	// 3. generated functions' doc = non-notation lines of the method doc
	wantDoc := map[string][]string{}
	ast.Inspect(in, func(n ast.Node) bool {
		ts, ok := n.(*ast.TypeSpec)
		if !ok || !conv[ts.Name.Name] {
			return true
		}
		if it, ok := ts.Type.(*ast.InterfaceType); ok {
			for _, f := range it.Methods.List {
				if len(f.Names) != 1 {
					continue
				}
				var lines []string
				if f.Doc != nil {
					for _, c := range f.Doc.List {
						if !reNotationLine.MatchString(c.Text) {
							lines = append(lines, c.Text)
						}
					}
				}
				wantDoc[f.Names[0].Name] = lines
			}
		}
		return true
	})
	for _, d := range out.Decls {
		fd, ok := d.(*ast.FuncDecl)
		if !ok {
			continue
		}
		want, gen := wantDoc[fd.Name.Name]
		if !gen {
			continue
		}
		var got []string
		if fd.Doc != nil {
			for _, c := range fd.Doc.List {
				got = append(got, c.Text)
			}
		}
		if strings.Join(got, "\n") != strings.Join(want, "\n") {
			vs = append(vs, [2]string{"function-doc-differs-from-method-doc", fmt.Sprintf("%s: got %q want %q", fd.Name.Name, got, want)})
		}
	}
	// 4. every comment of the setup file outside converter interfaces (and other than directives) survives
	convSpans := [][2]token.Pos{}
	embSpans := [][2]token.Pos{}
	for _, d := range in.Decls {
		if isEmbeddedDecl(d) {
			embSpans = append(embSpans, [2]token.Pos{d.Pos(), d.End()})
		}
		if isConverterDecl(d, conv) {
			start := d.Pos()
			if gd := d.(*ast.GenDecl); gd.Doc != nil {
				start = gd.Doc.Pos()
			}
			convSpans = append(convSpans, [2]token.Pos{start, d.End()})
		}
	}
	inside := func(p token.Pos) bool {
		for _, s := range convSpans {
			if s[0] <= p && p <= s[1] {
				return true
			}
		}
		return false
	}
	outTexts := map[string]int{}
	for _, g := range out.Comments {
		for _, c := range g.List {
			outTexts[c.Text]++
		}
	}
	var lost []string
	for _, g := range in.Comments {
		for _, c := range g.List {
			if inside(c.Pos()) {
				continue
			}
			t := c.Text
			inEmb := false
			for _, sp := range embSpans {
				if sp[0] <= c.Pos() && c.Pos() <= sp[1] {
					inEmb = true
				}
			}
			if inEmb && reNotationLine.MatchString(t) {
				continue // a method-level notation of a promoted converter method
			}
			if (strings.HasPrefix(t, "//go:build") || strings.HasPrefix(t, "// +build")) && strings.Contains(t, "convergen") {
				continue
			}
			if strings.HasPrefix(t, "//go:generate") && fsetI.Position(c.Pos()).Column == 1 {
				continue
			}
			if outTexts[t] == 0 {
				lost = append(lost, t)
			} else {
				outTexts[t]--
			}
		}
	}
	if len(lost) > 0 {
		sort.Strings(lost)
		sig := "comment-outside-converter-interfaces-lost"
		all := true
		for _, l := range lost {
			if !strings.HasPrefix(l, "//go:generate") {
				all = false
			}
		}
		if all {
			sig = "go-generate-looking-comment-inside-a-declaration-removed"
		}
		vs = append(vs, [2]string{sig, strings.Join(lost, " | ")})
	}
	return vs
}

func checkC11(r *report.Report, tier string, seed int64) error {
	r.Rule = "layout stream: setup files with declarations (const/var/func/type/grouped type/plain interfaces) and doc/line/block/trailing/detached comments before, between and after 1-3 converter interfaces (one-line interfaces, methods with and without docs, comments inside the interface), notation-looking lines in foreign doc comments and in the package doc, build-constraint spellings; oracle on the real output: every non-import declaration other than the converter interfaces is printed identically (with its comments) and in order, each converter interface replaced in place by its functions, function docs = non-notation lines of the method docs, no convergen constraint / go:generate directive left, every comment outside the converter interfaces survives; plus whole-file byte correspondence with the model (BaseCode.v: directive removal, marker insertion, regexp cut, content assembly, with go/printer, goimports and gofmt as shared oracles); non-trivial = at least one surrounding declaration or comment; distinct by file contents"
	n := tierN(tier, 192, 6000)
	return pipelineCheck(r, "C11", seed, n, gen.Options{}, func(i int) *gen.Case { return gen.GenerateLayout(seed, i, i%9 == 8) },
		func(cr *caseRun) bool { return strings.Count(cr.C.Files[cr.C.SetupPath], "//") > 3 }, c11Oracle)
}
