package main

import (
	"fmt"
	"os"
	"path/filepath"
	"regexp"
	"strings"

	"verif/harness/cases"
	"verif/harness/tool"

	"verif/harness/cmpr"
	"verif/harness/gen"
	"verif/harness/report"
)

func init() { checks["C14"] = checkC14; checks["C01"] = checkC01 }

var rePosLine = regexp.MustCompile(`[^\s:]+\.go:\d+:\d+: `)

// number of functions the output must contain: one per method of every converter interface
func expectedFuncs(c *gen.Case) map[string]bool {
	res := map[string]bool{}
	for _, it := range c.Interfaces {
		for _, m := range it.Methods {
			res[m.Name] = true
		}
		for _, m := range it.Embeds {
			res[m.Name] = true
		}
	}
	return res
}

func c14Oracle(cr *caseRun) [][2]string {
	var vs [][2]string
	im := cr.Impl
	for _, d := range cr.FlagDiffs {
		// the twin run under -dry -log -print: a rejected input must stay rejected whatever the flags
		if im.Status != 0 && !im.Panicked && strings.Contains(d.What, "exit status differs") {
			vs = append(vs, [2]string{"rejected-input-accepted-under-other-flags", "the plain run exits " + d.Model + ", the same input under -dry -log -print exits " + d.Impl})
		}
	}
	switch {
	case im.Panicked:
		vs = append(vs, [2]string{panicSignature(im.Stderr), "the tool panicked:\n" + trunc(im.Stderr, 600)})
	case im.TimedOut:
		vs = append(vs, [2]string{"hang", "the tool did not terminate within the time limit"})
	case im.Status == 0:
		if !im.HasOut {
			vs = append(vs, [2]string{"success-without-output", "exit 0 but no output file"})
			break
		}
		decls, err := cmpr.FuncDecls(im.Output)
		if err != nil {
			break // C01's business
		}
		for name := range expectedFuncs(cr.C) {
			if len(decls[name]) == 0 && len(decls["(recv)."+name]) == 0 {
				vs = append(vs, [2]string{"success-while-dropping-a-method", "exit 0 but no function for method " + name})
			}
		}
	default:
		if strings.TrimSpace(im.Stderr) == "" {
			vs = append(vs, [2]string{"failure-without-message", fmt.Sprintf("exit %d with empty stderr", im.Status)})
			break
		}
		// notation and method errors carry file:line:col; later phases (imports/format/write) are not notation errors
		lines := strings.Split(strings.TrimSpace(im.Stderr), "\n")
		last := lines[len(lines)-1]
		late := strings.Contains(im.Stderr, "error on optimizing imports") || strings.Contains(im.Stderr, "error on formatting") || strings.Contains(im.Stderr, "error on writing")
		if !late && last != "abort" && !rePosLine.MatchString(last) {
			vs = append(vs, [2]string{"diagnostic-without-position", "last stderr line has no file:line:col: " + last})
		}
		if last == "abort" {
			ok := false
			for _, l := range lines {
				if rePosLine.MatchString(l) {
					ok = true
				}
			}
			if !ok {
				vs = append(vs, [2]string{"abort-without-positioned-diagnostic", im.Stderr})
			}
		}
	}
	return vs
}

// c14Configs: the tool must not crash on an accepted setup file whatever the output path is:
// the setup file itself, a hard link to it, a directory, a path below a regular file.
func c14Configs(r *report.Report) {
	type cfg struct {
		name string
		args []string
		prep func(dir string)
	}
	cfgs := []cfg{
		{"out-is-setup", []string{"-out", "setup.go", "setup.go"}, nil},
		{"out-is-setup-dry-print", []string{"-dry", "-print", "-out", "setup.go", "setup.go"}, nil},
		{"out-is-hardlink", []string{"-out", "link.go", "setup.go"}, func(dir string) { os.Link(filepath.Join(dir, "pk/setup.go"), filepath.Join(dir, "pk/link.go")) }},
		{"out-is-dir", []string{"-out", "sub", "setup.go"}, func(dir string) { os.MkdirAll(filepath.Join(dir, "pk/sub"), 0o755) }},
		{"out-below-file", []string{"-out", "notes.txt/x.go", "setup.go"}, nil},
		{"out-is-sibling-source", []string{"-dry", "-out", "other.go", "setup.go"}, nil},
	}
	for _, in := range []string{"simple", "twointf"} {
		for _, c := range cfgs {
			files := tool.Files{"pk/setup.go": cases.Fixed[in], "pk/other.go": "package pk\n\ntype Other struct{ Z int }\n", "pk/notes.txt": "keep\n"}
			dir, err := cases.NewScratch("c14cfg", files)
			if err != nil {
				continue
			}
			if c.prep != nil {
				c.prep(dir)
			}
			res := tool.Run(filepath.Join(dir, "pk"), c.args, nil, 0)
			r.Eval("config/"+in+"/"+c.name, true)
			r.Count("config=" + c.name)
			var sig, what string
			switch {
			case res.Panicked:
				sig, what = panicSignature(res.Stderr), "the tool panicked:\n"+trunc(res.Stderr, 600)
			case res.TimedOut:
				sig, what = "hang", "the tool did not terminate"
			case res.Status != 0 && strings.TrimSpace(res.Stderr) == "":
				sig, what = "failure-without-message", "non-zero exit with empty stderr"
			}
			if sig != "" {
				rep := cases.SaveReplay("C14", "config-"+in+"-"+c.name, files, fmt.Sprintf("C14 replay: cd pk && convergen %s\n%s\n", strings.Join(c.args, " "), what))
				r.Violation(report.Violation{Signature: sig, What: fmt.Sprintf("input=%s config=%s: %s", in, c.name, trunc(what, 300)), Replay: rep})
			}
			os.RemoveAll(dir)
		}
	}
}

func checkC14(r *report.Report, tier string, seed int64) error {
	c14Configs(r)
	n := 320
	if tier == "thorough" {
		n = 6000
	}
	opt := gen.DefaultOptions()
	opt.Malformed = 0.5
	opt.Hooks = 0.5
	opt.Explicit = 0.8
	opt.Embedding = 0.25
	opt.CrossConv = 0.3
	r.Rule = "generated setup packages biased to malformed input: byte strings in notation position (valid and invalid UTF-8, NBSP, missing arguments, unknown operations), :conv/:preprocess/:postprocess naming functions of every arity and result shape (missing, unexported, variables, non-functions), error-/interface-/func-typed fields, zero-parameter/zero-result/non-struct/pointer-to-pointer methods, files without converter interface; binary run under a time limit; non-trivial = the run ends in an error or panic, or has at least one explicit notation; distinct by file contents"
	// every fourth package is well-formed and drawn from the classes whose handling reads the
	// package of a named type (conversions, slices, interface- and error-typed members)
	opt2 := opt
	opt2.Malformed = 0
	opt2.OnlyClasses = []string{"convertible", "slice", "assignable", "identical", "stringer"}
	return pipelineCheck(r, "C14", seed, n, opt, func(i int) *gen.Case {
		if i%4 == 3 {
			return gen.Generate(seed, i, opt2)
		}
		return gen.GenerateMalformed(seed, i, opt)
	},
		func(cr *caseRun) bool { return cr.Impl.Status != 0 || len(cr.C.Features) > 3 }, c14Oracle)
}

func c01Oracle(cr *caseRun) [][2]string {
	if cr.Impl.Status != 0 || !cr.Impl.HasOut {
		return nil
	}
	var vs [][2]string
	outPath := cr.Dir + "/pk/setup.gen.go"
	if ok, _ := gofmtClean(outPath); !ok {
		vs = append(vs, [2]string{"output-not-gofmt-clean", "gofmt -l lists the output"})
	}
	if ok, out := goBuild(cr.Dir, "pk"); !ok {
		class, first := compileErrorClass(out)
		if class == "unexported-member-referenced" && regexp.MustCompile(`\.Pos\.y\b`).MatchString(first) {
			// the recorded finding: the unexported member y of the anonymous struct Pos inside ext.WithAnon
			class = "unexported-member-referenced:member-of-an-anonymous-struct-type"
		}
		if class == "undefined-identifier" && strings.HasSuffix(strings.TrimSpace(first), "undefined: Item") {
			// deep.Item: a type of a package the setup file does not import itself, spelled without qualifier
			class = "undefined-identifier:type-of-a-package-the-setup-file-does-not-import"
		}
		vs = append(vs, [2]string{"does-not-compile:" + class, first + "\n" + trunc(out, 800)})
	}
	return vs
}

func checkC01(r *report.Report, tier string, seed int64) error {
	n := 256
	if tier == "thorough" {
		n = 8000
	}
	opt := gen.DefaultOptions()
	opt.CrossConv = 0.3
	opt.Embedding = 0.1
	opt.UnreturnedErr = 0.08
	r.Rule = "generated setup packages over the type alphabet of harness/gen (basic, named, pointer, slice, array, map, chan, func, interface, error, struct: local, imported with unexported members, anonymous, embedded, nested) x relation classes x toggles x explicit notations x styles/receiver/reverse/arguments x hooks; on every exit-0 run the package is type-checked with `go vet` under the ordinary build (setup file excluded by its tag, output included) and the output checked with gofmt -l; non-trivial = exit 0 with at least one assignment emitted; distinct by file contents"
	return pipelineCheck(r, "C01", seed, n, opt, nil,
		func(cr *caseRun) bool { return cr.Impl.Status == 0 && strings.Contains(cr.Impl.Output, " = ") }, c01Oracle)
}
