package main

import (
	"regexp"
	"strings"

	"verif/harness/cmpr"
	"verif/harness/gen"
)

// entry is one line-level item of a generated function body, read back from the real output.
type entry struct {
	Kind string // assign | skip | nomatch | slice | hook | init | other
	Path string // destination path including the variable: dst.X.Y
	RHS  string
	Err  bool // "x, err = ..."
	Raw  string
}

var (
	reSkipLine    = regexp.MustCompile(`^// skip: (\S+)$`)
	reNoMatchLine = regexp.MustCompile(`^// no match: (\S+)$`)
	reAssignLine  = regexp.MustCompile(`^([A-Za-z_][A-Za-z0-9_]*(?:\.[A-Za-z_][A-Za-z0-9_]*)+)(, err)? = (.*)$`)
	reMakeLine    = regexp.MustCompile(`^([A-Za-z_][A-Za-z0-9_.]*) = make\((.*), len\((.*)\)\)$`)
	reHookLine    = regexp.MustCompile(`^(err = )?([A-Za-z_][A-Za-z0-9_.]*)\((.*)\)$`)
)

// genFunc is a generated function read back from the output file.
type genFunc struct {
	Name    string
	Text    string
	Header  string
	Entries []entry
}

// parseGenFunc splits the text of one function declaration (as found in the output).
func parseGenFunc(name, text string) genFunc {
	gf := genFunc{Name: name, Text: text}
	lines := strings.Split(text, "\n")
	i := 0
	for ; i < len(lines); i++ {
		if strings.HasPrefix(lines[i], "func ") {
			gf.Header = strings.TrimSuffix(strings.TrimSpace(lines[i]), " {")
			i++
			break
		}
	}
	for ; i < len(lines); i++ {
		l := strings.TrimSpace(lines[i])
		switch {
		case l == "" || l == "}" || l == "return" || strings.HasPrefix(l, "return "):
			continue
		case strings.HasPrefix(l, "if err != nil {"):
			continue
		case reSkipLine.MatchString(l):
			gf.Entries = append(gf.Entries, entry{Kind: "skip", Path: reSkipLine.FindStringSubmatch(l)[1], Raw: l})
		case reNoMatchLine.MatchString(l):
			gf.Entries = append(gf.Entries, entry{Kind: "nomatch", Path: reNoMatchLine.FindStringSubmatch(l)[1], Raw: l})
		case strings.HasPrefix(l, "if ") && strings.HasSuffix(l, " != nil {"):
			// slice copy block: the next line is the make
			if i+1 < len(lines) {
				if m := reMakeLine.FindStringSubmatch(strings.TrimSpace(lines[i+1])); m != nil {
					var body []string
					depth := 1
					j := i + 1
					for ; j < len(lines) && depth > 0; j++ {
						t := strings.TrimSpace(lines[j])
						if strings.HasSuffix(t, "{") {
							depth++
						}
						if t == "}" {
							depth--
						}
						body = append(body, t)
					}
					gf.Entries = append(gf.Entries, entry{Kind: "slice", Path: m[1], RHS: m[3], Raw: strings.Join(body, "\n")})
					i = j - 1
					continue
				}
			}
			gf.Entries = append(gf.Entries, entry{Kind: "other", Raw: l})
		case reAssignLine.MatchString(l):
			m := reAssignLine.FindStringSubmatch(l)
			if strings.HasPrefix(m[3], "&") && strings.HasSuffix(m[3], "{}") && !strings.Contains(m[1], ".") {
				gf.Entries = append(gf.Entries, entry{Kind: "init", Path: m[1], RHS: m[3], Raw: l})
			} else {
				gf.Entries = append(gf.Entries, entry{Kind: "assign", Path: m[1], RHS: m[3], Err: m[2] != "", Raw: l})
			}
		case reHookLine.MatchString(l):
			m := reHookLine.FindStringSubmatch(l)
			gf.Entries = append(gf.Entries, entry{Kind: "hook", Path: m[2], RHS: m[3], Err: m[1] != "", Raw: l})
		default:
			if strings.Contains(l, " = &") {
				gf.Entries = append(gf.Entries, entry{Kind: "init", Raw: l})
			} else {
				gf.Entries = append(gf.Entries, entry{Kind: "other", Raw: l})
			}
		}
	}
	return gf
}

// genFuncsOf reads the generated functions of a run back from the output, keyed by method name.
func genFuncsOf(cr *caseRun) map[string]genFunc {
	res := map[string]genFunc{}
	if !cr.Impl.HasOut {
		return res
	}
	decls, err := cmpr.FuncDecls(cr.Impl.Output)
	if err != nil {
		return res
	}
	for _, it := range cr.C.Interfaces {
		for _, m := range append(append([]gen.Method{}, it.Methods...), it.Embeds...) {
			for _, key := range []string{m.Name, "(recv)." + m.Name} {
				if ds := decls[key]; len(ds) > 0 {
					res[m.Name] = parseGenFunc(m.Name, ds[0])
				}
			}
		}
	}
	return res
}

// dstVarOf: the name of the destination variable of a method as documented (declared name, else dst/src under :reverse).
func notationOps(m gen.Method) map[string]bool {
	res := map[string]bool{}
	for _, n := range m.Notations {
		f := strings.Fields(n)
		if len(f) > 0 {
			res[f[0]] = true
			if len(f) > 1 {
				res[f[0]+" "+f[1]] = true
			}
		}
	}
	return res
}
