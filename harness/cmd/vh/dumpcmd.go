package main

import (
	"fmt"
	"os"
	"path/filepath"

	"verif/harness/dump"
	"verif/harness/report"
	"verif/harness/tool"
)

// `vh dump-file` prints the dump of VERIF_DUMP_FILE (debugging aid).
func init() {
	checks["dump-file"] = func(r *report.Report, tier string, seed int64) error {
		src := os.Getenv("VERIF_DUMP_FILE")
		abs, _ := filepath.Abs(src)
		ext := filepath.Ext(abs)
		res, err := dump.Load(abs, abs[:len(abs)-len(ext)]+".gen"+ext, tool.BaseEnv())
		if err != nil {
			return err
		}
		if res.LoadFailed != "" {
			fmt.Println("load failed:", res.LoadFailed)
			return nil
		}
		fmt.Println(res.Dump.String())
		fmt.Fprintln(os.Stderr, "out of model:", res.OutOfModel, "named:", res.NamedCount)
		return nil
	}
}
