package main

import (
	"os"
	"os/exec"
	"path/filepath"
	"strings"

	"verif/harness/cases"
	"verif/harness/gen"
	"verif/harness/report"
	"verif/harness/tool"
)

// An imported hook under an import alias, next to another imported package with the same declared name
// and same-named functions: the generated call must reach the package the notation names.
func aliasedHookFiles() tool.Files {
	hooks := func(tag string) string {
		return "package hooks\n\nimport (\n\t\"cvcase/ext\"\n\t\"cvcase/hookreg\"\n)\n\nfunc Begin(d *ext.Pub2, s *ext.Pub1)  { hookreg.Calls = append(hookreg.Calls, \"" + tag + ".Begin\") }\nfunc Finish(d *ext.Pub2, s *ext.Pub1) { hookreg.Calls = append(hookreg.Calls, \"" + tag + ".Finish:\"+d.Name) }\n"
	}
	return tool.Files{
		"ext/ext.go":             gen.ExtSrc,
		"ext2/ext2.go":           gen.Ext2Src,
		"hookreg/reg.go":         "package hookreg\n\nvar Calls []string\n",
		"audit/hooks/hooks.go":   hooks("audit"),
		"legacy/hooks/hooks.go":  hooks("legacy"),
		"pk/setup.go": `//go:build convergen

package pk

import (
	"cvcase/ext"
	audit "cvcase/audit/hooks"
	"cvcase/legacy/hooks"
)

type Convergen interface {
	// :preprocess audit.Begin
	// :postprocess audit.Finish
	ConvNew(*ext.Pub1) *ext.Pub2
	// :preprocess hooks.Begin
	// :postprocess hooks.Finish
	ConvOld(*ext.Pub1) *ext.Pub2
}
`,
		"pk/alias_test.go": `package pk

import (
	"fmt"
	"strings"
	"testing"

	"cvcase/ext"
	"cvcase/hookreg"
)

func TestAlias(t *testing.T) {
	hookreg.Calls = nil
	ConvNew(&ext.Pub1{Name: "rex"})
	if got := strings.Join(hookreg.Calls, ","); got != "audit.Begin,audit.Finish:rex" {
		fmt.Printf("SEMVIOL\tConvNew\timported-hook-of-another-package-called\t%q\n", got)
	}
	hookreg.Calls = nil
	ConvOld(&ext.Pub1{Name: "rex"})
	if got := strings.Join(hookreg.Calls, ","); got != "legacy.Begin,legacy.Finish:rex" {
		fmt.Printf("SEMVIOL\tConvOld\timported-hook-of-another-package-called\t%q\n", got)
	}
}
`,
	}
}

func c10AliasedHook(r *report.Report) error {
	dir, err := cases.NewScratch("c10alias", aliasedHookFiles())
	if err != nil {
		return err
	}
	defer os.RemoveAll(dir)
	res := tool.Run(filepath.Join(dir, "pk"), []string{"setup.go"}, nil, 0)
	r.Eval("aliased-imported-hook", true)
	r.Count("aliased-imported-hook")
	if res.Status != 0 {
		r.Violation(report.Violation{Signature: "aliased-imported-hook-rejected", What: trunc(res.Stderr, 300),
			Replay: cases.SaveReplay("C10", "aliased-hook", aliasedHookFiles(), "cd pk && convergen setup.go\n"+res.Stderr)})
		return nil
	}
	cmd := exec.Command("go", "test", "-v", "-vet=off", "-count=1", "-run", "TestAlias", "./pk")
	cmd.Dir = dir
	cmd.Env = tool.BaseEnv()
	out, terr := cmd.CombinedOutput()
	text := string(out)
	found := false
	for _, l := range strings.Split(text, "\n") {
		if strings.HasPrefix(l, "SEMVIOL\t") {
			p := strings.SplitN(l, "\t", 4)
			found = true
			r.Violation(report.Violation{Signature: p[2], What: p[1] + ": hooks called: " + p[3],
				Replay: cases.SaveReplay("C10", "aliased-hook", aliasedHookFiles(), "cd pk && convergen setup.go && go test -run TestAlias ./pk\n"+text)})
		}
	}
	if terr != nil && !found {
		r.Violation(report.Violation{Signature: "aliased-imported-hook-output-does-not-build", What: trunc(text, 300),
			Replay: cases.SaveReplay("C10", "aliased-hook", aliasedHookFiles(), "cd pk && convergen setup.go && go test ./pk\n"+text)})
	}
	return nil
}
