package main

import (
	"bytes"
	"fmt"
	"go/ast"
	"go/format"
	"go/printer"
	"go/token"
	"io"
	"os"
	"os/exec"
	"path/filepath"
	"strings"

	"golang.org/x/tools/imports"

	"verif/harness/mdl"
	"verif/harness/sx"
	"verif/harness/tool"
)

// importsProcess: `vh imports-process <file>` reads Go source on stdin and writes imports.Process(file, src)
// to stdout; it runs with the case's package directory as working directory.
func importsProcess() {
	src, err := io.ReadAll(os.Stdin)
	if err != nil || len(os.Args) < 3 {
		os.Exit(2)
	}
	out, err := imports.Process(os.Args[2], src, nil)
	if err != nil {
		fmt.Fprintln(os.Stderr, err)
		os.Exit(1)
	}
	os.Stdout.Write(out)
}

// fullFile reproduces the whole output file from the model: the comment groups
// computed by BaseCode.base_groups are put on the (pristine) AST of the setup
// file, go/printer prints it, BaseCode.assemble_texts cuts the interfaces out and
// puts the functions in, and imports.Process + format.Source (the same oracles
// convergen calls) finish it. Returns the bytes and "" or a reason it cannot be done.
func fullFile(cr *caseRun) (string, string) {
	raw := cr.Model.Raw
	if raw == nil || raw.Tag() != "ok" || raw.Arg(2) == nil {
		return "", "model result has no comment groups"
	}
	file, fset := cr.Dump.File, cr.Dump.Fset
	orig := file.Comments
	var groups []*ast.CommentGroup
	for _, g := range raw.Arg(2).List {
		cg := &ast.CommentGroup{}
		for _, c := range g.List {
			switch c.Tag() {
			case "orig":
				gi, ci := c.Arg(0).Int(), c.Arg(1).Int()
				if gi < 0 || gi >= len(orig) || ci < 0 || ci >= len(orig[gi].List) {
					return "", "model refers to a comment that does not exist"
				}
				cg.List = append(cg.List, orig[gi].List[ci])
			case "marker":
				cg.List = append(cg.List, &ast.Comment{Slash: token.Pos(c.Arg(0).Int()), Text: c.Arg(1).Str()})
			}
		}
		groups = append(groups, cg)
	}
	// print a shallow copy of the file with the new comment list
	f2 := *file
	f2.Comments = groups
	var buf bytes.Buffer
	if err := printer.Fprint(&buf, fset, &f2); err != nil {
		return "", "printer: " + err.Error()
	}
	blocks := sx.L()
	for _, b := range cr.Model.Blocks {
		var sb strings.Builder
		for _, f := range b.Funcs {
			sb.WriteString(f.Text)
		}
		blocks.List = append(blocks.List, sx.L(sx.N(b.Index), sx.A(sb.String())))
	}
	res, err := mdl.RunBatch([]*sx.Node{sx.T("assemble", sx.A(buf.String()), blocks)})
	if err != nil || len(res) != 1 || !res[0].IsAtom {
		return "", fmt.Sprintf("assemble failed: %v", err)
	}
	content := res[0].Atom
	outPath := filepath.Join(cr.Dir, "pk", "setup.gen.go")
	// imports.Process resolves packages relative to the working directory of the process: run it,
	// as convergen does, from inside the module of the case
	cmd := exec.Command(os.Args[0], "imports-process", outPath)
	cmd.Dir = filepath.Dir(outPath)
	cmd.Env = tool.BaseEnv()
	cmd.Stdin = strings.NewReader(content)
	var stdout, stderr bytes.Buffer
	cmd.Stdout, cmd.Stderr = &stdout, &stderr
	if err := cmd.Run(); err != nil {
		return content, "imports.Process: " + strings.TrimSpace(stderr.String())
	}
	optimized := stdout.Bytes()
	formatted, err := format.Source(optimized)
	if err != nil {
		return content, "format.Source: " + err.Error()
	}
	return string(formatted), ""
}
