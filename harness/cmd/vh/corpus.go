package main

import (
	"fmt"
	"os"
	"path/filepath"
	"strings"

	"verif/harness/cases"
	"verif/harness/cmpr"
	"verif/harness/mdl"
	"verif/harness/report"
	"verif/harness/sx"
	"verif/harness/tool"
)

// corpusRoot holds one self-contained module per known finding (see corpus/README.md).
func corpusRoot() string {
	if p := os.Getenv("VERIF_CORPUS"); p != "" {
		return p
	}
	return "/verif/corpus"
}

var corpusDone = map[string]bool{}

// corpusRun runs the witnesses of the property's known findings first: the model must agree with the
// binary on each of them (the model mirrors the recorded defects), and a witness that no longer shows
// its EXPECT text is noted (the finding may have been repaired; a note, never a violation).
func corpusRun(r *report.Report, prop string) {
	if corpusDone[prop] {
		return
	}
	corpusDone[prop] = true
	dirs, _ := filepath.Glob(filepath.Join(corpusRoot(), prop+"-*"))
	for _, d := range dirs {
		files := tool.Files{}
		_ = filepath.Walk(d, func(p string, info os.FileInfo, err error) error {
			if err != nil || info.IsDir() {
				return nil
			}
			rel, _ := filepath.Rel(d, p)
			switch rel {
			case "EXPECT", "EXPECT_ABSENT", "WHAT", "go.mod":
				return nil
			}
			b, _ := os.ReadFile(p)
			files[filepath.ToSlash(rel)] = string(b)
			return nil
		})
		name := filepath.Base(d)
		dir, err := cases.NewScratch("corpus", files)
		if err != nil {
			continue
		}
		im, dres, err := runOnFile(filepath.Join(dir, "pk", "setup.go"))
		if err != nil || dres.LoadFailed != "" {
			r.Notes = append(r.Notes, fmt.Sprintf("corpus %s: could not be loaded", name))
			os.RemoveAll(dir)
			continue
		}
		res, err := mdl.RunBatch([]*sx.Node{sx.T("gen", dres.Dump)})
		if err == nil && len(res) == 1 {
			m := cmpr.DecodeModel(res[0])
			for _, df := range cmpr.Compare(im, m) {
				r.Mismatch(report.Mismatch{Correspondence: "pipeline on the witness of a known finding", Case: name + ": " + df.What, Model: df.Model, Impl: df.Impl})
			}
		}
		r.Eval("corpus/"+name, true)
		reproduces := im.Status == 0
		if b, err := os.ReadFile(filepath.Join(d, "EXPECT")); err == nil && !strings.Contains(im.Output, strings.TrimSpace(string(b))) {
			reproduces = false
		}
		if b, err := os.ReadFile(filepath.Join(d, "EXPECT_ABSENT")); err == nil && strings.Contains(im.Output, strings.TrimSpace(string(b))) {
			reproduces = false
		}
		if reproduces {
			r.Count("witness-reproduces:" + name)
		} else {
			r.Count("witness-no-longer-reproduces:" + name)
			r.Notes = append(r.Notes, fmt.Sprintf("corpus %s: the witness no longer shows the recorded behaviour", name))
		}
		os.RemoveAll(dir)
	}
}
