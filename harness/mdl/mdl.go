// Package mdl runs the extracted Coq model (OCaml binary build/ocaml/model_driver).
package mdl

import (
	"bufio"
	"bytes"
	"fmt"
	"os"
	"os/exec"
	"strings"

	"verif/harness/sx"
)

// DriverPath is the extracted model's executable.
var DriverPath = "/verif/build/ocaml/model_driver"

// RunBatch evaluates all cases with one process and returns one result per case.
func RunBatch(cases []*sx.Node) ([]*sx.Node, error) {
	if len(cases) == 0 {
		return nil, nil
	}
	if p := os.Getenv("VERIF_MODEL_DRIVER"); p != "" {
		DriverPath = p
	}
	var in bytes.Buffer
	for _, c := range cases {
		in.WriteString(c.String())
		in.WriteByte('\n')
	}
	cmd := exec.Command(DriverPath)
	cmd.Stdin = &in
	var out, errb bytes.Buffer
	cmd.Stdout = &out
	cmd.Stderr = &errb
	if err := cmd.Run(); err != nil {
		return nil, fmt.Errorf("model driver: %v: %s", err, errb.String())
	}
	var res []*sx.Node
	sc := bufio.NewScanner(&out)
	sc.Buffer(make([]byte, 1<<20), 1<<28)
	for sc.Scan() {
		line := strings.TrimSpace(sc.Text())
		if line == "" {
			continue
		}
		n, err := sx.Parse(line)
		if err != nil {
			return nil, fmt.Errorf("model output: %v: %.200s", err, line)
		}
		res = append(res, n)
	}
	if len(res) != len(cases) {
		return nil, fmt.Errorf("model driver returned %d results for %d cases", len(res), len(cases))
	}
	return res, nil
}
