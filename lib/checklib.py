"""Orchestration of one property check (see /verif/check and DESIGN.md section 4)."""
import fcntl, hashlib, json, os, re, shutil, subprocess, sys, time

VERIF = os.path.dirname(os.path.dirname(os.path.abspath(__file__)))
REPO = os.environ.get("VERIF_REPO", "/repo")
COQ = os.path.join(VERIF, "coq")
BUILD = os.path.join(VERIF, "build")
HARNESS = os.path.join(VERIF, "harness")
OCAML_SRC = os.path.join(VERIF, "ocaml")

GOENV = dict(os.environ, GOFLAGS="-mod=mod", GOPROXY="off", GOSUMDB="off", GOTOOLCHAIN="local",
             CGO_ENABLED="0")

STD_AXIOMS_ALLOWED = set()   # none needed so far; any axiom printed is reported in the evidence

AUDIT_RE = re.compile(r"\b(Admitted|admit|Axiom|Axioms|Parameter|Parameters|Conjecture|Conjectures|Hypothesis|Hypotheses|Variable|Variables)\b|Unset\s+Guard|bypass_check|type-in-type|impredicative-set|Admit Obligations|native_compute")


def log(*a):
    print("[check]", *a, file=sys.stderr, flush=True)


def run(cmd, cwd=None, env=None, timeout=None, capture=True):
    p = subprocess.run(cmd, cwd=cwd, env=env or GOENV, timeout=timeout,
                       stdout=subprocess.PIPE if capture else None,
                       stderr=subprocess.STDOUT if capture else None, text=True)
    return p.returncode, (p.stdout or "")


def file_hash(paths):
    h = hashlib.sha256()
    for p in sorted(paths):
        h.update(p.encode())
        try:
            with open(p, "rb") as f:
                h.update(f.read())
        except OSError:
            h.update(b"<missing>")
    return h.hexdigest()


def coq_files():
    res = []
    for root, _, files in os.walk(COQ):
        for f in files:
            if f.endswith(".v"):
                res.append(os.path.join(root, f))
    return sorted(res)


def read_coqproject():
    files = []
    with open(os.path.join(COQ, "_CoqProject")) as f:
        for line in f:
            line = line.strip()
            if line.endswith(".v"):
                files.append(line)
    return files


class Broken(Exception):
    """The check itself cannot run (not a property violation)."""


def build_go():
    os.makedirs(os.path.join(BUILD, "bin"), exist_ok=True)
    shutil.copyfile(os.path.join(REPO, "go.sum"), os.path.join(HARNESS, "go.sum"))
    rc, out = run(["go", "build", "-tags", "verif", "-o", os.path.join(BUILD, "bin", "convergen"), "."], cwd=REPO, timeout=600)
    if rc != 0:
        raise Broken("go build of /repo failed:\n" + out)
    rc, out = run(["go", "build", "-tags", "verif", "-o", os.path.join(BUILD, "bin", "vh"), "./cmd/vh"], cwd=HARNESS, timeout=600)
    if rc != 0:
        raise Broken("go build of the harness failed (the harness links /repo's packages):\n" + out)
    if os.path.isdir(os.path.join(HARNESS, "cmd", "translate")):
        rc, out = run(["go", "build", "-o", os.path.join(BUILD, "bin", "translate"), "./cmd/translate"], cwd=HARNESS, timeout=600)
        if rc != 0:
            raise Broken("go build of the translator failed:\n" + out)


def run_translator():
    """Regenerate coq/gen/*.v from /repo's sources; leave files untouched when identical."""
    tr = os.path.join(BUILD, "bin", "translate")
    if not os.path.exists(tr):
        return None
    gen_dir = os.path.join(COQ, "gen")
    os.makedirs(gen_dir, exist_ok=True)
    tmp = os.path.join(BUILD, "gen.tmp")
    shutil.rmtree(tmp, ignore_errors=True)
    os.makedirs(tmp)
    rc, out = run([tr, "-repo", REPO, "-out", tmp], timeout=120)
    if rc != 0:
        return "translator failed: " + out
    for f in os.listdir(tmp):
        src, dst = os.path.join(tmp, f), os.path.join(gen_dir, f)
        if not os.path.exists(dst) or open(src, "rb").read() != open(dst, "rb").read():
            shutil.copyfile(src, dst)
    shutil.rmtree(tmp, ignore_errors=True)
    return None


def coq_make():
    """Full .vo build. Returns (ok, output, failed_file)."""
    if not os.path.exists(os.path.join(COQ, "Makefile")) or \
       os.path.getmtime(os.path.join(COQ, "Makefile")) < os.path.getmtime(os.path.join(COQ, "_CoqProject")):
        rc, out = run(["coq_makefile", "-f", "_CoqProject", "-o", "Makefile"], cwd=COQ)
        if rc != 0:
            raise Broken("coq_makefile failed: " + out)
    rc, out = run(["timeout", "3000", "make", "-j16", "-k"], cwd=COQ, timeout=3100)
    failed = re.findall(r'File "\./([^"]+)", line \d+', out) if rc != 0 else []
    return rc == 0, out, failed


def coq_deps(vfile):
    """Transitive closure of project-local dependencies of a .v file (relative paths)."""
    rc, out = run(["coqdep", "-Q", ".", "Cvg"] + read_coqproject(), cwd=COQ)
    deps = {}
    for line in out.splitlines():
        if ":" not in line:
            continue
        lhs, rhs = line.split(":", 1)
        targets = [t for t in lhs.split() if t.endswith(".vo")]
        srcs = [s[:-1] if s.endswith(".vo") else s for s in rhs.split()]
        for t in targets:
            v = t[:-1]
            deps[v] = [s + "" for s in rhs.split() if s.endswith(".vo")]
    seen, stack = set(), [vfile]
    while stack:
        v = stack.pop()
        if v in seen:
            continue
        seen.add(v)
        for d in deps.get(v, []):
            dv = d[:-1]
            if dv.startswith("./"):
                dv = dv[2:]
            stack.append(dv)
    return sorted(seen)


STMT_RE = re.compile(r"^\s*(Theorem|Lemma|Corollary|Example|Fact|Proposition|Remark)\s+([A-Za-z0-9_']+)", re.M)


def count_statements(vfiles):
    n, names = 0, []
    for v in vfiles:
        try:
            txt = open(os.path.join(COQ, v)).read()
        except OSError:
            continue
        for m in STMT_RE.finditer(txt):
            n += 1
            names.append(v + ":" + m.group(2))
    return n, names


def check_props_file(prop):
    """Re-run coqc on props/<prop>.v; return (ok, assumptions dict theorem->text, output)."""
    rel = "props/%s.v" % prop
    if not os.path.exists(os.path.join(COQ, rel)):
        return False, {}, "missing " + rel
    rc, out = run(["timeout", "900", "coqc", "-Q", ".", "Cvg", rel], cwd=COQ, timeout=1000)
    txt = open(os.path.join(COQ, rel)).read()
    printed = re.findall(r"Print Assumptions\s+([A-Za-z0-9_']+)\s*\.", txt)
    blocks = re.split(r"(?=Closed under the global context|Axioms:)", out)
    blocks = [b.strip() for b in blocks if b.strip().startswith(("Closed under", "Axioms:"))]
    assum = {}
    for i, name in enumerate(printed):
        assum[name] = blocks[i] if i < len(blocks) else "<no output>"
    return rc == 0, assum, out


def audit():
    """Forbidden constructs anywhere in the development (comments stripped)."""
    hits = []
    for v in coq_files():
        txt = open(v).read()
        # strip comments (nested)
        out, depth, i = [], 0, 0
        while i < len(txt):
            if txt.startswith("(*", i):
                depth += 1; i += 2
            elif txt.startswith("*)", i) and depth > 0:
                depth -= 1; i += 2
            else:
                if depth == 0:
                    out.append(txt[i])
                elif txt[i] == "\n":
                    out.append("\n")
                i += 1
        code = "".join(out)
        # Section-local Variable/Hypothesis are allowed; find those outside sections
        depth_sec = 0
        for ln, line in enumerate(code.splitlines(), 1):
            s = line.strip()
            if re.match(r"^(Section|Module Type)\b", s):
                depth_sec += 1
            elif re.match(r"^End\b", s) and depth_sec > 0:
                depth_sec -= 1
            for m in AUDIT_RE.finditer(line):
                w = m.group(0)
                if w.split()[0] in ("Variable", "Variables", "Hypothesis", "Hypotheses") and depth_sec > 0:
                    continue
                if w == "admit" and "admit" not in s.split("."):  # the word inside an identifier/string
                    if not re.search(r"\badmit\b", s):
                        continue
                hits.append("%s:%d: %s" % (os.path.relpath(v, VERIF), ln, s[:120]))
    return hits


def build_model_driver():
    """Extract the model and build the OCaml driver if the model changed."""
    out_dir = os.path.join(BUILD, "ocaml")
    os.makedirs(out_dir, exist_ok=True)
    closure = [os.path.join(COQ, v) for v in coq_deps("Driver.v")] + [os.path.join(COQ, "extract", "Extract.v"), os.path.join(OCAML_SRC, "driver.ml")]
    h = file_hash(closure)
    stamp = os.path.join(out_dir, "stamp")
    drv = os.path.join(out_dir, "model_driver")
    if os.path.exists(stamp) and os.path.exists(drv) and open(stamp).read() == h:
        return
    rc, out = run(["timeout", "900", "coqc", "-Q", COQ, "Cvg", os.path.join(COQ, "extract", "Extract.v")], cwd=out_dir, timeout=1000)
    if rc != 0:
        raise Broken("extraction failed:\n" + out)
    shutil.copyfile(os.path.join(OCAML_SRC, "driver.ml"), os.path.join(out_dir, "driver.ml"))
    rc, out = run(["ocamlfind", "ocamlopt", "-O2", "-unboxed-types", "-package", "str", "model.mli", "model.ml", "driver.ml", "-o", "model_driver"], cwd=out_dir, timeout=900)
    if rc != 0:
        rc, out = run(["ocamlfind", "ocamlopt", "-package", "str", "model.mli", "model.ml", "driver.ml", "-o", "model_driver"], cwd=out_dir, timeout=900)
    if rc != 0:
        raise Broken("ocaml build failed:\n" + out)
    open(stamp, "w").write(h)


def coqchk_once():
    """Thorough tier: independent re-check of all .vo files, cached per tree hash."""
    h = file_hash(coq_files())
    stamp = os.path.join(BUILD, "coqchk.stamp")
    outf = os.path.join(BUILD, "coqchk.out")
    if os.path.exists(stamp) and open(stamp).read() == h and os.path.exists(outf):
        return open(outf).read()
    mods = []
    for v in read_coqproject():
        if v.startswith("extract/"):
            continue
        mods.append("Cvg." + v[:-2].replace("/", "."))
    rc, out = run(["timeout", "3000", "coqchk", "-silent", "-o", "-Q", ".", "Cvg"] + mods, cwd=COQ, timeout=3100)
    res = "exit=%d\n%s" % (rc, out[-6000:])
    open(outf, "w").write(res)
    if rc == 0:
        open(stamp, "w").write(h)
    return res


def load_known():
    p = os.path.join(VERIF, "known_findings.json")
    if not os.path.exists(p):
        return []
    return json.load(open(p)).get("findings", [])


TRUSTED_BASE = [
    "Coq 8.16.1 kernel (coqc; coqchk in the thorough tier); vm_compute used, native_compute not used",
    "axioms: none (Print Assumptions under each property theorem is recorded in this file under 'assumptions_printed')",
    "extraction: ExtrOcamlBasic only (bool, option, unit, prod, list, sumbool, sumor mapped to OCaml; N/positive/nat kept as Coq datatypes), OCaml 4.13.1, ocaml/driver.ml s-expression reader/printer",
    "translator harness/cmd/translate (go/ast, go/types): regenerates on every run coq/gen/Extracted.v (tables, regexp sources, literals), gen/FixtureDumps.v, and gen/GoFuns.v = pkg/generator's FuncToString/AssignmentToString/ManipulatorToString and pkg/generator/model's String()/RetError()/loopVars/FullType translated statement by statement into Gallina (gofun.go; proofs/GenTieProofs.v proves Gen.v equal to them)",
    "correspondence harness harness/cmd/vh: generators, dumper (go/packages, go/types), projections, oracles",
    "hand-written model of pkg/config, pkg/runner, pkg/parser, pkg/builder, pkg/util, pkg/option, pkg/generator tied by correspondence; go/printer, go/format, x/tools/imports, go list, the OS are oracles outside the model",
]


def main(argv):
    t0 = time.time()
    if not argv:
        print(__doc__)
        return 2
    prop = argv[0]
    tier = os.environ.get("VERIF_TIER", "quick")
    replay = None
    i = 1
    while i < len(argv):
        if argv[i] == "--tier":
            tier = argv[i + 1]; i += 2
        elif argv[i] == "--replay":
            replay = argv[i + 1]; i += 2
        else:
            i += 1
    if tier not in ("quick", "thorough"):
        tier = "quick"
    try:
        seed = int(os.environ.get("VERIF_SEED", "1"))
    except ValueError:
        seed = 1
    os.makedirs(BUILD, exist_ok=True)
    os.makedirs(os.path.join(VERIF, "evidence"), exist_ok=True)
    lock = open(os.path.join(BUILD, ".lock"), "w")
    fcntl.flock(lock, fcntl.LOCK_EX)
    try:
        return check(prop, tier, seed, replay, t0)
    except Broken as e:
        print("CHECK-BROKEN property=%s %s" % (prop, str(e)[:4000]))
        return 2
    finally:
        fcntl.flock(lock, fcntl.LOCK_UN)


def check(prop, tier, seed, replay, t0):
    replay_root = os.path.join(BUILD, "replay", prop)
    os.makedirs(replay_root, exist_ok=True)
    proof_problems = []     # theorems / files that no longer check

    # 1-2. build, translate, make
    build_go()
    terr = run_translator()
    if terr:
        proof_problems.append(terr)
    ok, make_out, failed = coq_make()
    closure = coq_deps("props/%s.v" % prop)
    if not ok:
        bad = [f for f in failed if f in closure]
        if bad:
            proof_problems.append("coqc failed on %s (in the dependency closure of props/%s.v):\n%s" % (", ".join(sorted(set(bad))), prop, make_out[-3000:]))
        elif any(f in coq_deps("Driver.v") for f in failed):
            raise Broken("the Coq model no longer builds:\n" + make_out[-3000:])
    # 3. property theorems + assumptions
    pok, assum, pout = check_props_file(prop)
    if not pok and not proof_problems:
        proof_problems.append("coqc props/%s.v failed:\n%s" % (prop, pout[-3000:]))
    axioms_bad = {k: v for k, v in assum.items() if not v.startswith("Closed under the global context")}
    # 4. audit
    hits = audit()
    if hits:
        proof_problems.append("audit: forbidden constructs in the development:\n" + "\n".join(hits[:20]))
    n_obl, obl_names = count_statements(closure)
    discharged = n_obl if (pok and not proof_problems) else max(0, n_obl - 1 - len(proof_problems))
    chk = None
    if tier == "thorough":
        chk = coqchk_once()
        if not chk.startswith("exit=0"):
            proof_problems.append("coqchk failed:\n" + chk[-2000:])

    # 5. correspondence + oracle
    build_model_driver()
    rep_path = os.path.join(BUILD, "reports")
    os.makedirs(rep_path, exist_ok=True)
    rep_file = os.path.join(rep_path, "%s.json" % prop)
    if os.path.exists(rep_file):
        os.remove(rep_file)
    env = dict(GOENV, VERIF_REPLAY_DIR=os.path.join(BUILD, "replay"), VERIF_REPO=REPO,
               VERIF_CONVERGEN_BIN=os.path.join(BUILD, "bin", "convergen"),
               VERIF_MODEL_DRIVER=os.path.join(BUILD, "ocaml", "model_driver"),
               VERIF_CORPUS=os.path.join(VERIF, "corpus"))
    cmd = [os.path.join(BUILD, "bin", "vh"), prop, "-tier", tier, "-seed", str(seed), "-report", rep_file]
    if replay:
        cmd += ["-replay", replay]
    rc, out = run(cmd, cwd=VERIF, env=env, timeout=7200 if tier == "thorough" else 1800)
    sys.stderr.write(out)
    if rc != 0 or not os.path.exists(rep_file):
        raise Broken("harness failed (exit %d):\n%s" % (rc, out[-3000:]))
    rep = json.load(open(rep_file))
    if rep.get("model_validation_failures"):
        raise Broken("model validation failed (the model must be repaired before it is believed):\n" + "\n".join(rep["model_validation_failures"][:10]))

    # 6. outcome
    known = [k for k in load_known() if k.get("property") == prop]
    known_sigs = {k["signature"]: k for k in known if k.get("status") == "known"}
    lines, new_violations, seen_known = [], [], {}
    for v in rep.get("violations", []):
        if v["signature"] in known_sigs:
            seen_known.setdefault(v["signature"], v)
        else:
            new_violations.append(v)
    for sig, v in sorted(seen_known.items()):
        lines.append("KNOWN-FINDING: property=%s %s [%s]" % (prop, known_sigs[sig].get("what", v["what"]), sig))
    status = 0
    reported = set()
    for v in new_violations:
        if v["signature"] in reported:
            continue
        reported.add(v["signature"])
        rp = v.get("replay") or write_replay(replay_root, "violation-" + re.sub(r"[^A-Za-z0-9_.-]+", "_", v["signature"])[:80], v)
        lines.append("VIOLATION property=%s replay=%s" % (prop, rp))
        status = 1
    if not new_violations:
        unexplained = rep.get("mismatches", [])
        if unexplained:
            rp = write_replay(replay_root, "correspondence-broken", {
                "what": "the correspondence between the Coq model and the implementation no longer holds; no input violating the property was found by the oracle",
                "correspondence": unexplained[0].get("correspondence"),
                "theorems_no_longer_about_the_code": "props/%s.v" % prop,
                "first_disagreements": unexplained[:5]})
            lines.append("VIOLATION property=%s replay=%s no-failing-input-found" % (prop, rp))
            status = 1
        elif proof_problems:
            rp = write_replay(replay_root, "proof-broken", {
                "what": "a proof obligation no longer checks; no input violating the property was found by the oracle",
                "theorem_file": "coq/props/%s.v" % prop, "problems": proof_problems})
            lines.append("VIOLATION property=%s replay=%s no-failing-input-found" % (prop, rp))
            status = 1
    for l in lines:
        print(l)

    # 7. evidence
    cov = {
        "obligations": n_obl, "discharged": discharged,
        "checker_cmd": "cd /verif/coq && make -j16 && coqc -Q . Cvg props/%s.v%s" % (prop, " && coqchk -silent -o (all modules)" if tier == "thorough" else ""),
        "trusted_base": TRUSTED_BASE,
        "evaluations": rep.get("evaluations", 0),
        "distinct_nontrivial": rep.get("distinct_nontrivial", 0),
        "rule": rep.get("rule", ""),
        "samples": rep.get("samples", [])[:8],
        "exhaustive": bool(rep.get("exhaustive")),
        "generator_distribution": rep.get("generator_distribution", {}),
        "out_of_model": rep.get("out_of_model", 0),
        "correspondence_mismatches": len(rep.get("mismatches", [])),
        "oracle_violations_total": len(rep.get("violations", [])),
        "known_findings_seen": sorted(seen_known),
        "property_theorems": sorted(assum),
        "assumptions_printed": assum,
        "obligation_names": obl_names[:400],
        "proof_problems": proof_problems,
        "notes": rep.get("notes", []),
    }
    cov.update(rep.get("extra", {}) or {})
    if chk is not None:
        cov["coqchk"] = chk[-1500:]
    if axioms_bad:
        cov["axioms_reported"] = axioms_bad
    ev = {
        "property_id": prop, "tier": tier, "seed": seed, "level": "proof",
        "coverage": cov,
        "assumptions": TRUSTED_BASE + rep.get("notes", []),
        "wall_s": round(time.time() - t0, 2),
        "violations": 0 if status == 0 else max(1, len(reported)),
    }
    with open(os.path.join(VERIF, "evidence", "%s.json" % prop), "w") as f:
        json.dump(ev, f, indent=1)
    return status


def write_replay(root, name, obj):
    p = os.path.join(root, name + ".json")
    with open(p, "w") as f:
        json.dump(obj, f, indent=1)
    return p
