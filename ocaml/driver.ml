(* driver.ml — reads one s-expression per line on stdin, converts it to the
   extracted [Model.sexp], calls [Model.run_case], prints the result as one line.
   Atoms: bare tokens over letters, digits and _.:/+*$@%=,- or double-quoted
   strings with backslash escapes (backslash, double quote, xHH). *)
module M = Model

let rec pos_of_int (i : int) : M.positive =
  if i = 1 then M.XH
  else if i land 1 = 0 then M.XO (pos_of_int (i lsr 1))
  else M.XI (pos_of_int (i lsr 1))
let n_of_int (i : int) : M.n = if i = 0 then M.N0 else M.Npos (pos_of_int i)
let rec int_of_pos (p : M.positive) : int =
  match p with M.XH -> 1 | M.XO q -> 2 * int_of_pos q | M.XI q -> 2 * int_of_pos q + 1
let int_of_n (x : M.n) : int = match x with M.N0 -> 0 | M.Npos p -> int_of_pos p

let str_of_string (s : string) : M.n list =
  List.init (String.length s) (fun i -> n_of_int (Char.code s.[i]))
let string_of_str (l : M.n list) : string =
  let b = Buffer.create 64 in
  List.iter (fun x -> Buffer.add_char b (Char.chr ((int_of_n x) land 255))) l;
  Buffer.contents b

exception Parse_error of string

let is_bare c =
  match c with
  | 'A'..'Z' | 'a'..'z' | '0'..'9' | '_' | '.' | ':' | '/' | '+' | '*' | '$' | '@' | '%' | '=' | ',' | '-' -> true
  | _ -> false

let hexval c =
  match c with
  | '0'..'9' -> Char.code c - 48
  | 'a'..'f' -> Char.code c - 87
  | 'A'..'F' -> Char.code c - 55
  | _ -> raise (Parse_error "hex")

let parse (s : string) : M.sexp =
  let n = String.length s in
  let pos = ref 0 in
  let rec skip () = if !pos < n && (s.[!pos] = ' ' || s.[!pos] = '\t' || s.[!pos] = '\r') then (incr pos; skip ()) in
  let rec item () : M.sexp =
    skip ();
    if !pos >= n then raise (Parse_error "eof");
    match s.[!pos] with
    | '(' ->
        incr pos;
        let items = ref [] in
        let rec loop () =
          skip ();
          if !pos >= n then raise (Parse_error "unclosed");
          if s.[!pos] = ')' then incr pos
          else (items := item () :: !items; loop ()) in
        loop ();
        M.SList (List.rev !items)
    | '"' ->
        incr pos;
        let b = Buffer.create 32 in
        let rec loop () =
          if !pos >= n then raise (Parse_error "unclosed string");
          let c = s.[!pos] in
          if c = '"' then incr pos
          else if c = '\\' then begin
            if !pos + 1 >= n then raise (Parse_error "escape");
            let d = s.[!pos + 1] in
            if d = 'x' then begin
              if !pos + 3 >= n then raise (Parse_error "hex escape");
              Buffer.add_char b (Char.chr (16 * hexval s.[!pos + 2] + hexval s.[!pos + 3]));
              pos := !pos + 4
            end else begin Buffer.add_char b d; pos := !pos + 2 end;
            loop ()
          end else begin Buffer.add_char b c; incr pos; loop () end in
        loop ();
        M.Atom (str_of_string (Buffer.contents b))
    | c when is_bare c ->
        let st = !pos in
        while !pos < n && is_bare s.[!pos] do incr pos done;
        M.Atom (str_of_string (String.sub s st (!pos - st)))
    | _ -> raise (Parse_error (Printf.sprintf "unexpected char at %d" !pos))
  in
  let r = item () in
  skip ();
  if !pos < n then raise (Parse_error "trailing input");
  r

let rec print (b : Buffer.t) (e : M.sexp) : unit =
  match e with
  | M.Atom a ->
      let s = string_of_str a in
      let bare = String.length s > 0 && (let ok = ref true in String.iter (fun c -> if not (is_bare c) then ok := false) s; !ok) in
      if bare then Buffer.add_string b s
      else begin
        Buffer.add_char b '"';
        String.iter (fun c ->
          let k = Char.code c in
          if c = '"' || c = '\\' then (Buffer.add_char b '\\'; Buffer.add_char b c)
          else if k < 32 || k > 126 then Buffer.add_string b (Printf.sprintf "\\x%02x" k)
          else Buffer.add_char b c) s;
        Buffer.add_char b '"'
      end
  | M.SList l ->
      Buffer.add_char b '(';
      List.iteri (fun i x -> if i > 0 then Buffer.add_char b ' '; print b x) l;
      Buffer.add_char b ')'

let () =
  try
    while true do
      let line = input_line stdin in
      if String.length line > 0 then begin
        let out =
          try
            let e = parse line in
            let r = M.run_case e in
            let b = Buffer.create 256 in
            print b r; Buffer.contents b
          with
          | Parse_error m -> Printf.sprintf "(driver-error \"%s\")" m
          | Stack_overflow -> "(driver-error \"stack overflow\")" in
        print_string out; print_newline ()
      end
    done
  with End_of_file -> ()
