(** Extraction of the executable model.  ExtrOcamlBasic only: bool, option, unit,
    prod, list, sumbool, sumor are mapped to OCaml's; N/positive/nat stay Coq
    datatypes.  No other Extract directive is used. *)
From Coq Require Import ExtrOcamlBasic.
From Cvg Require Import Base Driver.
Extraction "model.ml" Driver.run_case.
