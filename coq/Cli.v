(** Cli.v — model of pkg/config (flag parsing, output/log path derivation)
    and of the effect sequence of pkg/runner.Run + generator.Generate.
    Executable part only; no std++ here so that it extracts with ExtrOcamlBasic. *)
From Coq Require Import String.
From Cvg Require Import Base.
Open Scope N_scope.

(** ** path.Ext: suffix starting at the last '.' of the last '/'-separated element. *)
Fixpoint ext_rev (r : str) (acc : str) : str :=
  match r with
  | [] => []
  | c :: r' =>
      if N.eqb c 47 (* '/' *) then []
      else if N.eqb c 46 (* '.' *) then c :: acc
      else ext_rev r' (c :: acc)
  end.
Definition path_ext (p : str) : str := ext_rev (rev p) [].

(** p[0 : len(p)-len(ext)] *)
Definition stem (p : str) : str := firstn (length p - length (path_ext p)) p.

Definition insert_before_ext (p ins : str) : str := stem p ++ ins ++ path_ext p.
Definition replace_ext (p newext : str) : str := stem p ++ newext.

(** ** Config (pkg/config.Config) *)
Record config := {
  c_input : str;
  c_output : str;
  c_log : str;      (* "" = no log *)
  c_dry : bool;
  c_prints : bool;
}.

(** ** Go's flag package, for the four flags of config.ParseArgs.
    [flagdef]: (name, is_bool).  The table is regenerated from config.go by the
    translator (Extracted.flag_table) and pinned against this one. *)
Definition flag_table : list (str * bool) :=
  [ (s2b "out", false); (s2b "log", true); (s2b "dry", true); (s2b "print", true) ].

Record flagvals := {
  f_out : str; f_log : bool; f_dry : bool; f_print : bool;
}.
Definition flag_defaults : flagvals := {| f_out := []; f_log := false; f_dry := false; f_print := false |}.

(** strconv.ParseBool *)
Definition parse_bool (s : str) : option bool :=
  if mem_str s [s2b "1"; s2b "t"; s2b "T"; s2b "TRUE"; s2b "true"; s2b "True"] then Some true
  else if mem_str s [s2b "0"; s2b "f"; s2b "F"; s2b "FALSE"; s2b "false"; s2b "False"] then Some false
  else None.

Inductive args_result :=
| ArgsOk (v : flagvals) (rest : list str)
| ArgsHelp                 (* -h / -help: usage, exit 0 *)
| ArgsBad.                 (* bad flag syntax / unknown flag / bad value: usage, exit 2 *)

Definition lookup_flag (name : str) : option bool :=
  match find (fun d => str_eqb (fst d) name) flag_table with
  | Some d => Some (snd d)
  | None => None
  end.

Definition set_str_flag (v : flagvals) (name val : str) : flagvals :=
  if str_eqb name (s2b "out") then
    {| f_out := val; f_log := f_log v; f_dry := f_dry v; f_print := f_print v |}
  else v.
Definition set_bool_flag (v : flagvals) (name : str) (b : bool) : flagvals :=
  if str_eqb name (s2b "log") then {| f_out := f_out v; f_log := b; f_dry := f_dry v; f_print := f_print v |}
  else if str_eqb name (s2b "dry") then {| f_out := f_out v; f_log := f_log v; f_dry := b; f_print := f_print v |}
  else if str_eqb name (s2b "print") then {| f_out := f_out v; f_log := f_log v; f_dry := f_dry v; f_print := b |}
  else v.

(** split "name=value" at the first '=' found from index 1 on (flag.parseOne). *)
Fixpoint split_eq (s : str) (acc : str) : (str * option str) :=
  match s with
  | [] => (rev acc, None)
  | c :: s' => if N.eqb c 61 then (rev acc, Some s') else split_eq s' (c :: acc)
  end.

(** One step of flag.FlagSet.parseOne; [args] is structurally decreasing. *)
Fixpoint parse_flags (v : flagvals) (args : list str) : args_result :=
  match args with
  | [] => ArgsOk v []
  | a :: rest =>
      match a with
      | [] => ArgsOk v args                               (* len(s) < 2 *)
      | [_] => ArgsOk v args
      | c0 :: c1 :: more =>
          if negb (N.eqb c0 45) then ArgsOk v args          (* not '-' *)
          else
            let '(name0, dd) :=
              if N.eqb c1 45 then (more, true) else (c1 :: more, false) in
            if dd && match name0 with [] => true | _ => false end then ArgsOk v rest   (* "--" terminator *)
            else
              match name0 with
              | [] => ArgsBad
              | n0 :: ntl =>
                if N.eqb n0 45 || N.eqb n0 61 then ArgsBad     (* bad flag syntax *)
                else
                  (* search '=' from index 1 of the name *)
                  let '(ntl', val) := split_eq ntl [] in
                  let name := n0 :: ntl' in
                  match lookup_flag name with
                  | None =>
                      if str_eqb name (s2b "help") || str_eqb name (s2b "h") then ArgsHelp else ArgsBad
                  | Some true =>
                      match val with
                      | Some s =>
                          match parse_bool s with
                          | Some b => parse_flags (set_bool_flag v name b) rest
                          | None => ArgsBad
                          end
                      | None => parse_flags (set_bool_flag v name true) rest
                      end
                  | Some false =>
                      match val with
                      | Some s => parse_flags (set_str_flag v name s) rest
                      | None =>
                          match rest with
                          | [] => ArgsBad                     (* flag needs an argument *)
                          | s :: rest' => parse_flags (set_str_flag v name s) rest'
                          end
                      end
                  end
              end
      end
  end.

Inductive cli_result :=
| CliConfig (c : config)
| CliUsage (status : N).     (* usage text on stderr, exit with [status] *)

(** config.ParseArgs: [gofile] is the value of $GOFILE ("" if unset). *)
Definition parse_args (args : list str) (gofile : str) : cli_result :=
  match parse_flags flag_defaults args with
  | ArgsHelp => CliUsage 0
  | ArgsBad => CliUsage 2
  | ArgsOk v rest =>
      let input0 := match rest with [] => [] | a :: _ => a end in
      let input := match input0 with [] => gofile | _ => input0 end in
      match input with
      | [] => CliUsage 1
      | _ =>
          let output := match f_out v with
                        | [] => insert_before_ext input (s2b ".gen")
                        | o => o
                        end in
          let log := if f_log v then replace_ext output (s2b ".log") else [] in
          CliConfig {| c_input := input; c_output := output; c_log := log;
                       c_dry := f_dry v; c_prints := f_print v |}
      end
  end.

(** ** Effects of a run (runner.Run + Generator.Generate), given what the
    pipeline computed.  [gen_result] is what parser+builder+generator produce
    from the sources (a function of the file system minus the output path: see
    Run.v); the file-system side is a list of effects. *)
Inductive gen_result :=
| GenFail                       (* load / parse / build error *)
| GenContentFail (raw : str)    (* imports.Process or format.Source failed on [raw] *)
| GenCode (code : str).         (* formatted code *)

Inductive effect :=
| Truncate (p : str)            (* os.OpenFile(p, O_RDWR|O_TRUNC|O_CREATE) *)
| WriteFile (p : str) (b : str). (* os.WriteFile(p, b, 0644) *)

Record run_out := {
  r_effects : list effect;
  r_stdout : str;
  r_status : N;                 (* 0 ok, 1 error *)
}.


(** [can_write p]: opening [p] for writing (create/truncate) succeeds.
    With -print the code goes to stdout byte-identically, whether or not the
    file is written (C18). *)
Definition run_core (c : config) (can_write : str -> bool) (g : gen_result) : run_out :=
  let logeff := match c_log c with [] => Some [] | l => if can_write l then Some [Truncate l] else None end in
  match logeff with
  | None => {| r_effects := []; r_stdout := []; r_status := 1 |}
  | Some le =>
      match g with
      | GenFail => {| r_effects := le; r_stdout := []; r_status := 1 |}
      | GenContentFail raw =>
          {| r_effects := le; r_stdout := if c_prints c then raw ++ nl else []; r_status := 1 |}
      | GenCode code =>
          if c_dry c then
            {| r_effects := le; r_stdout := if c_prints c then code else []; r_status := 0 |}
          else if can_write (c_output c) then
            {| r_effects := le ++ [WriteFile (c_output c) code];
               r_stdout := if c_prints c then code else [];
               r_status := 0 |}
          else {| r_effects := le; r_stdout := []; r_status := 1 |}
      end
  end.

(** ** Executable file system (association list) used by the correspondence
    runs of histories; Run.v states the same machine over std++ gmap. *)
Definition afs := list (str * str).

Fixpoint afs_get (f : afs) (p : str) : option str :=
  match f with
  | [] => None
  | (q, b) :: f' => if str_eqb q p then Some b else afs_get f' p
  end.
Fixpoint afs_del (f : afs) (p : str) : afs :=
  match f with
  | [] => []
  | (q, b) :: f' => if str_eqb q p then afs_del f' p else (q, b) :: afs_del f' p
  end.
Definition afs_set (f : afs) (p b : str) : afs := (p, b) :: afs_del f p.

Definition afs_apply (f : afs) (e : effect) : afs :=
  match e with
  | Truncate p => afs_set f p []
  | WriteFile p b => afs_set f p b
  end.

Inductive hstep :=
| HEdit (p : str) (content : option str)
| HRun (c : config) (unwritable : list str) (g : gen_result).
   (* [g]: what the pipeline yields on the current sources with the output path absent *)

Definition hstep_apply (st : afs * list run_out) (s : hstep) : afs * list run_out :=
  let '(f, outs) := st in
  match s with
  | HEdit p (Some b) => (afs_set f p b, outs)
  | HEdit p None => (afs_del f p, outs)
  | HRun c unw g =>
      let r := run_core c (fun p => negb (mem_str p unw)) g in
      (fold_left afs_apply (r_effects r) f, outs ++ [r])
  end.

Definition run_history (f : afs) (steps : list hstep) : afs * list run_out :=
  fold_left hstep_apply steps (f, []).
