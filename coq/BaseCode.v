(** BaseCode.v — Parser.GenerateBaseCode and Generator.generateContent:
    removal of build/generate directives, marker insertion into the comment
    groups (util.InsertComment, verbatim including its merge branch), the regexp
    cut of the printed text, replacement of each marker by its functions and the
    header.  go/printer sits between insertion and cut: it is an oracle (the
    harness prints the file with the comment groups computed here). *)
From Coq Require Import String.
From Cvg Require Import Base GoTypes Re Unicode Matcher Dump Options Front Builder Gen Pipeline.
From Cvg.gen Require Extracted.
Open Scope N_scope.

(** ** comment groups *)
Definition group_pos (g : list comment) : N := match g with c :: _ => c_pos c | [] => 0 end.
Definition group_end (g : list comment) : N := match rev g with c :: _ => c_end c | [] => 0 end.

(** util.RemoveMatchComments(file, reGoBuildGen) *)
Definition remove_directives (gs : list (list comment)) : list (list comment) :=
  List.map (List.filter (fun c => negb (is_build_or_generate (c_text c)))) gs.

Definition marker_comment (text : str) (pos : N) : comment :=
  {| c_pos := pos; c_end := pos + N.of_nat (List.length text); c_line := 0; c_col := 0; c_text := text; c_orig := None |}.

(** util.InsertComment *)
Fixpoint insert_comment (gs : list (list comment)) (c : comment) : list (list comment) :=
  match gs with
  | [] => [[c]]
  | g :: gs' =>
      match g with
      | [] => g :: insert_comment gs' c
      | _ =>
          if c_pos c <? group_pos g then [c] :: g :: gs'
          else if c_pos c <? group_end g then (g ++ [c]) :: gs'       (* lands inside the group's span: appended to it *)
          else g :: insert_comment gs' c
      end
  end.

(** minPos / maxPos over the field lists of the enclosing GenDecl *)
Fixpoint span_loop (fls : list (N * N)) (mn mx : N) : N * N :=
  match fls with
  | [] => (mn, mx)
  | (p, cl) :: fls' =>
      if mn =? 0 then span_loop fls' p cl
      else if p <? mn then span_loop fls' p mx
      else if mx <? cl then span_loop fls' mn cl
      else span_loop fls' mn mx
  end.
Definition interface_span (i : iface_decl) : N * N := span_loop (if_fieldlists i) 0 0.

(** the marker of entry number k: same length and alphabet as a nanoid *)
Definition model_marker (k : N) : str :=
  let dgs := dec k in
  s2b "CVGMODELMARK" ++ List.repeat 48 (9 - List.length dgs) ++ dgs.

Definition insert_markers (gs : list (list comment)) (blocks : list block) : list (list comment) :=
  fold_left (fun acc b =>
    let '(mn, mx) := interface_span (b_decl b) in
    let m := model_marker (b_index b) in
    (* the closing marker first: see parser.GenerateBaseCode *)
    insert_comment (insert_comment acc (marker_comment m mx)) (marker_comment m mn)) blocks gs.

(** comment groups handed to the printer *)
Definition base_groups (st : store) (blocks : list block) : list (list comment) :=
  insert_markers (remove_directives (st_groups st)) blocks.

(** ** the cut: regexp  .+ M .* (\n|.)*? M  replaced by M, all matches (pinned against Extracted.cut_regexp_pieces) *)
Fixpoint find_from (m : str) (s : str) (i : nat) : option nat :=     (* first occurrence of m in s, offset by i *)
  match s with
  | [] => if match m with [] => true | _ => false end then Some i else None
  | _ :: s' => if is_prefix m s then Some i else find_from m s' (S i)
  end.

Fixpoint line_len (s : str) : nat := match s with [] => O | c :: s' => if c =? 10 then O else S (line_len s') end.

(** occurrences of m that start within the first [n] bytes of s (offsets), ascending *)
Fixpoint occs_within (m s : str) (n i : nat) : list nat :=
  match n with
  | O => []
  | S n' => match s with
            | [] => []
            | _ :: s' => (if is_prefix m s then [i] else []) ++ occs_within m s' n' (S i)
            end
  end.

(** match of the cut regexp starting at the head of [s] (which is at a position where
    the rest of its line is [line_len s] long): returns the length of the match.
    [try_end m s p]: with the first marker at offset p (the end of .+), where the match ends *)
Definition try_end (m s : str) (p : nat) : option nat :=
  let ml := List.length m in
  let q0 := (p + ml)%nat in
  let rest := skipn q0 s in
  let rl := line_len rest in                       (* .* can take up to the end of the line *)
  match find_from m (skipn rl rest) 0 with
  | Some k => Some (q0 + rl + k + ml)%nat              (* an occurrence at or after the end of the line: lazy part stops at the first *)
  | None =>
      (* otherwise .* backs off to the last occurrence on the rest of this line *)
      match rev (occs_within m rest (S rl) 0) with
      | last :: _ => Some (q0 + last + ml)%nat
      | [] => None
      end
  end.

Fixpoint first_some (f : nat -> option nat) (l : list nat) : option nat :=
  match l with
  | [] => None
  | p :: l' => match f p with Some e => Some e | None => first_some f l' end
  end.

Definition match_here (m s : str) : option nat :=
  (* candidate ends of .+ : occurrences of m on this line at offset >= 1, greedy = last first *)
  first_some (try_end m s) (rev (List.filter (fun p => Nat.leb 1 p) (occs_within m s (line_len s) 0))).

Fixpoint cut_aux (fuel : nat) (m s : str) : str :=
  match fuel with
  | O => s
  | S f =>
      match s with
      | [] => []
      | c :: s' =>
          match match_here m s with
          | Some len => m ++ cut_aux f m (skipn len s)
          | None => c :: cut_aux f m s'
          end
      end
  end.
Definition cut (m s : str) : str := cut_aux (S (List.length s)) m s.

(** strings.Replace(code, marker, text, 1) *)
Fixpoint replace_first (m text s : str) : str :=
  match s with
  | [] => []
  | c :: s' => if is_prefix m s then text ++ skipn (List.length m) s else c :: replace_first m text s'
  end.

(** GenerateBaseCode after printing, then generateContent; [blocks]: (entry index, text of its functions) *)
Definition assemble_texts (printed : str) (blocks : list (N * str)) : str :=
  let base := fold_left (fun acc b => cut (model_marker (fst b)) acc) blocks printed in
  let code := fold_left (fun acc b => replace_first (model_marker (fst b)) (snd b) acc) blocks base in
  Extracted.header_literal ++ code.

Definition block_text (b : block) : N * str := (b_index b, concat_str (List.map func_to_string (b_funcs b))).

Definition assemble (printed : str) (blocks : list block) : str :=
  assemble_texts printed (List.map block_text blocks).
