(** Driver.v — the single entry point used by both evaluation paths
    (extraction to OCaml, and vm_compute inside Coq): [run_case : sexp -> sexp].
    Decoding of cases and encoding of results is Gallina, so it is the same code
    in both paths. *)
From Coq Require Import String.
From Cvg Require Import Base Cli GoTypes Re Unicode Matcher Dump Options Front Builder Gen Pipeline BaseCode.
Open Scope N_scope.

Definition sx_str (s : str) : sexp := Atom s.
Definition sx_err (m : string) : sexp := sx_tag "decode-error" [Atom (s2b m)].

Definition enc_config (c : config) : sexp :=
  sx_tag "config" [Atom (c_input c); Atom (c_output c); Atom (c_log c); sx_bool (c_dry c); sx_bool (c_prints c)].

Definition dec_config (e : sexp) : option config :=
  match e with
  | SList [Atom _; Atom i; Atom o; Atom l; d; p] =>
      let? d := bool_of d in let? p := bool_of p in
      Some {| c_input := i; c_output := o; c_log := l; c_dry := d; c_prints := p |}
  | _ => None
  end.

Definition enc_cli (r : cli_result) : sexp :=
  match r with
  | CliConfig c => enc_config c
  | CliUsage st => sx_tag "usage" [sx_num st]
  end.

Definition dec_gen (e : sexp) : option gen_result :=
  match e with
  | SList [Atom t] => if str_eqb t (s2b "fail") then Some GenFail else None
  | SList [Atom t; Atom b] =>
      if str_eqb t (s2b "code") then Some (GenCode b)
      else if str_eqb t (s2b "rawfail") then Some (GenContentFail b) else None
  | _ => None
  end.

Definition enc_effect (e : effect) : sexp :=
  match e with
  | Truncate p => sx_tag "truncate" [Atom p]
  | WriteFile p b => sx_tag "write" [Atom p; Atom b]
  end.

Definition enc_run (r : run_out) : sexp :=
  sx_tag "run" [SList (List.map enc_effect (r_effects r)); Atom (r_stdout r); sx_num (r_status r)].

(** (cli (arg ...) gofile) *)
Definition case_cli (l : list sexp) : sexp :=
  match l with
  | [SList args; Atom gofile] =>
      match map_opt atom_of args with
      | Some a => enc_cli (parse_args a gofile)
      | None => sx_err "cli args"
      end
  | _ => sx_err "cli"
  end.

(** (runcore config (unwritable-path ...) gen) *)
Definition case_runcore (l : list sexp) : sexp :=
  match l with
  | [cfg; SList unw; g] =>
      match dec_config cfg, map_opt atom_of unw, dec_gen g with
      | Some c, Some unw, Some g =>
          enc_run (run_core c (fun p => negb (mem_str p unw)) g)
      | _, _, _ => sx_err "runcore fields"
      end
  | _ => sx_err "runcore"
  end.

(** (history ((path content) ...) (step ...)) with step = (edit p content) | (del p) | (run config (unw ...) gen) *)
Definition dec_file (e : sexp) : option (str * str) :=
  match e with SList [Atom p; Atom b] => Some (p, b) | _ => None end.
Definition dec_hstep (e : sexp) : option hstep :=
  match e with
  | SList [Atom t; Atom p; Atom b] => if str_eqb t (s2b "edit") then Some (HEdit p (Some b)) else None
  | SList [Atom t; Atom p] => if str_eqb t (s2b "del") then Some (HEdit p None) else None
  | SList [Atom t; cfg; SList unw; g] =>
      if str_eqb t (s2b "run") then
        let? c := dec_config cfg in let? u := map_opt atom_of unw in let? g := dec_gen g in Some (HRun c u g)
      else None
  | _ => None
  end.
Definition case_history (l : list sexp) : sexp :=
  match l with
  | [SList files; SList steps] =>
      match map_opt dec_file files, map_opt dec_hstep steps with
      | Some f, Some st =>
          let '(f', outs) := run_history f st in
          sx_tag "history" [SList (List.map (fun pb => SList [Atom (fst pb); Atom (snd pb)]) f');
                            SList (List.map enc_run outs)]
      | _, _ => sx_err "history fields"
      end
  | _ => sx_err "history"
  end.

(** (ident pattern ident exact) *)
Definition case_ident (l : list sexp) : sexp :=
  match l with
  | [Atom p; Atom i; ex] =>
      match bool_of ex with
      | Some ex => sx_bool (ident_match p i ex)
      | None => sx_err "ident exact"
      end
  | _ => sx_err "ident"
  end.

Definition enc_mresult (r : mresult) : sexp :=
  match r with
  | MBool b => sx_bool b
  | MPanic => Atom (s2b "panic")
  | MUnsup => Atom (s2b "unsup")
  end.

(** (pmseq pattern exact0 ((ident exact) ...)): NewPatternMatcher then a query sequence *)
Fixpoint pm_run (m : pmatcher) (qs : list (str * bool)) : list mresult :=
  match qs with
  | [] => []
  | (i, ex) :: qs' => let '(r, m') := pm_match m i ex in r :: pm_run m' qs'
  end.
Definition dec_query (e : sexp) : option (str * bool) :=
  match e with SList [Atom i; ex] => let? b := bool_of ex in Some (i, b) | _ => None end.
Definition case_pmseq (l : list sexp) : sexp :=
  match l with
  | [Atom p; ex0; SList qs] =>
      match bool_of ex0, map_opt dec_query qs with
      | Some ex0, Some qs =>
          match compile_pattern p ex0 with
          | CNil => sx_tag "new-error" []
          | CUnsup => sx_tag "unsup" []
          | c => sx_tag "answers" (List.map enc_mresult (pm_run {| pm_pattern := p; pm_re := c; pm_exact := ex0 |} qs))
          end
      | _, _ => sx_err "pmseq fields"
      end
  | _ => sx_err "pmseq"
  end.

(** (strfun name arg): GoLib validation — to_lower, equal_fold (two args), fields, quote_meta *)
Definition case_strfun (l : list sexp) : sexp :=
  match l with
  | [Atom f; Atom a] =>
      if str_eqb f (s2b "to_lower") then Atom (str_to_lower a)
      else if str_eqb f (s2b "fields") then SList (List.map Atom (ufields a))
      else if str_eqb f (s2b "quote_meta") then Atom (quote_meta a)
      else if str_eqb f (s2b "is_exported") then sx_bool (is_exported a)
      else if str_eqb f (s2b "path_ext") then Atom (path_ext a)
      else sx_err "strfun name"
  | [Atom f; Atom a; Atom b] =>
      if str_eqb f (s2b "equal_fold") then sx_bool (str_equal_fold a b)
      else sx_err "strfun2 name"
  | _ => sx_err "strfun"
  end.

(** (gen <dump>): the pipeline up to the function texts *)
Definition enc_event (e : event) : sexp :=
  match e with
  | EvStderr l => sx_tag "stderr" [Atom l]
  | EvStdout l => sx_tag "stdout" [Atom l]
  end.

Fixpoint enc_assignment (a : assignment) : sexp :=
  match a with
  | ASkip l => sx_tag "skip" [Atom (matcher_expr l)]
  | ANoMatch l => sx_tag "nomatch" [Atom (matcher_expr l)]
  | ASimple l r err => sx_tag "assign" [Atom (matcher_expr l); Atom (rhs_string r); sx_bool err]
  | ANest cs => sx_tag "nest" (List.map enc_assignment cs)
  | ASlice l r t => sx_tag "slice" [Atom (matcher_expr l); Atom (assign_expr r); Atom t]
  | ASliceLoop l r t => sx_tag "sliceloop" [Atom (matcher_expr l); Atom (assign_expr r); Atom t]
  | ASliceCast l r t c => sx_tag "slicecast" [Atom (matcher_expr l); Atom (assign_expr r); Atom t; Atom c]
  end.

Definition enc_function (f : function) : sexp :=
  sx_tag "func" [Atom (fn_name f); Atom (fn_receiver f); Atom (func_to_string f);
                 SList (List.map enc_assignment (fn_assignments f)); Atom (func_header f)].

Definition enc_block (b : block) : sexp :=
  sx_tag "block" [sx_num (b_index b); Atom (if_name (b_decl b)); SList (List.map enc_function (b_funcs b))].

Definition enc_comment (c : comment) : sexp :=
  match c_orig c with
  | Some (gi, ci) => sx_tag "orig" [sx_num gi; sx_num ci]
  | None => sx_tag "marker" [sx_num (c_pos c); Atom (c_text c)]
  end.

(** (assemble printed ((index text) ...)): cut + generateContent *)
Definition case_assemble (l : list sexp) : sexp :=
  match l with
  | [Atom printed; SList bs] =>
      match map_opt (fun b => match b with SList [i; Atom t] => let? i := num_of i in Some (i, t) | _ => None end) bs with
      | Some bs => Atom (assemble_texts printed bs)
      | None => sx_err "assemble blocks"
      end
  | _ => sx_err "assemble"
  end.

Definition case_gen (l : list sexp) : sexp :=
  match l with
  | [dmp] =>
      match dec_dump dmp with
      | None => sx_err "dump"
      | Some d =>
          let po := run_pipeline d in
          let evs := SList (List.map enc_event (po_events po)) in
          (* the hypotheses of the no-panic and no-fuel-exhaustion theorems, reported with every run *)
          let wf := sx_tag "wf" [sx_bool (dump_wf_b d); sx_bool (rank_ok_b d)] in
          match po_result po with
          | Ok bs => sx_tag "ok" [evs; SList (List.map enc_block bs);
                                  SList (List.map (fun g => SList (List.map enc_comment g)) (base_groups (po_store po) bs)); wf]
          | Err m => sx_tag "err" [evs; Atom m; wf]
          | Panic s => sx_tag "panic" [evs; Atom s; wf]
          | Fuel => sx_tag "fuel" [evs; wf]
          | Unsup w => sx_tag "unsup" [evs; Atom w; wf]
          end
      end
  | _ => sx_err "gen"
  end.

Definition run_case (e : sexp) : sexp :=
  match e with
  | SList (Atom tag :: rest) =>
      if str_eqb tag (s2b "cli") then case_cli rest
      else if str_eqb tag (s2b "runcore") then case_runcore rest
      else if str_eqb tag (s2b "history") then case_history rest
      else if str_eqb tag (s2b "ident") then case_ident rest
      else if str_eqb tag (s2b "pmseq") then case_pmseq rest
      else if str_eqb tag (s2b "strfun") then case_strfun rest
      else if str_eqb tag (s2b "gen") then case_gen rest
      else if str_eqb tag (s2b "assemble") then case_assemble rest
      else sx_err "unknown case tag"
  | _ => sx_err "case shape"
  end.
