(** Proofs about Cli.v: path laws and the run effect machine. *)
From Coq Require Import String.
From Cvg Require Import Base Cli.
Open Scope N_scope.

(** ** path_ext is a suffix without '/', empty or starting with its only '.' *)
Lemma ext_rev_spec r acc :
  (forall c, In c acc -> c <> 47 /\ c <> 46) ->
  (ext_rev r acc = [] /\ True) \/
  (exists r1 r2, r = r1 ++ 46 :: r2 /\ ext_rev r acc = 46 :: rev r1 ++ acc /\
                 forall c, In c r1 -> c <> 47 /\ c <> 46).
Proof.
  revert acc; induction r as [|c r IH]; intros acc Hacc; simpl.
  - now left.
  - destruct (N.eqb_spec c 47) as [->|H47]; [now left|].
    destruct (N.eqb_spec c 46) as [->|H46].
    + right. exists [], r. simpl. split; [reflexivity|]. split; [reflexivity|]. intros ? [].
    + destruct (IH (c :: acc)) as [[H _]|(r1 & r2 & -> & H & Hr1)].
      * intros d [<-|Hd]; [split; assumption|auto].
      * now left.
      * right. exists (c :: r1), r2. split; [reflexivity|]. split.
        -- rewrite H. simpl. rewrite <- app_assoc. reflexivity.
        -- intros d [<-|Hd]; [split; assumption|auto].
Qed.

Lemma path_ext_suffix p : exists s, p = s ++ path_ext p.
Proof.
  unfold path_ext.
  destruct (ext_rev_spec (rev p) []) as [[H _]|(r1 & r2 & Hp & H & _)].
  - intros ? [].
  - exists p. rewrite H. now rewrite app_nil_r.
  - exists (rev r2). rewrite H. rewrite app_nil_r.
    rewrite <- (rev_involutive p), Hp. rewrite rev_app_distr. simpl. rewrite <- app_assoc. reflexivity.
Qed.

Lemma stem_ext p : stem p ++ path_ext p = p.
Proof.
  destruct (path_ext_suffix p) as [s Hs]. unfold stem.
  assert (L : List.length p = (List.length s + List.length (path_ext p))%nat).
  { rewrite Hs at 1. apply app_length. }
  rewrite L. replace (List.length s + List.length (path_ext p) - List.length (path_ext p))%nat with (List.length s) by lia.
  rewrite Hs at 1. rewrite firstn_app, Nat.sub_diag, firstn_all. simpl. rewrite app_nil_r. symmetry; exact Hs.
Qed.

(** the extension is empty, or a '.' followed by bytes that are neither '.' nor '/' *)
Lemma path_ext_shape p :
  path_ext p = [] \/ exists e, path_ext p = 46 :: e /\ forall c, In c e -> c <> 47 /\ c <> 46.
Proof.
  unfold path_ext.
  destruct (ext_rev_spec (rev p) []) as [[H _]|(r1 & r2 & Hp & H & Hr1)].
  - intros ? [].
  - now left.
  - right. exists (rev r1). rewrite H, app_nil_r. split; [reflexivity|].
    intros c Hc. apply Hr1. now apply in_rev.
Qed.

(** the extension belongs to the last path element: no '/' after the stem *)
Lemma path_ext_last_element p s :
  p = s ++ path_ext p -> forall c, In c (path_ext p) -> c <> 47.
Proof.
  intros _ c Hc. destruct (path_ext_shape p) as [E|(e & E & He)].
  - rewrite E in Hc. destruct Hc.
  - rewrite E in Hc. destruct Hc as [<-|Hc]; [discriminate|]. now apply He.
Qed.

(** if the last element has no dot, the extension is empty *)
Lemma ext_rev_nodot r acc :
  (forall c, In c r -> c <> 46) -> ext_rev r acc = [].
Proof.
  revert acc; induction r as [|c r IH]; intros acc H; simpl; [reflexivity|].
  destruct (N.eqb c 47); [reflexivity|].
  destruct (N.eqb_spec c 46) as [->|_]; [exfalso; apply (H 46); [now left|reflexivity]|].
  apply IH. intros d Hd. apply H. now right.
Qed.

(** ** parse_args *)
Lemma parse_args_config args gofile c :
  parse_args args gofile = CliConfig c ->
  exists v rest,
    parse_flags flag_defaults args = ArgsOk v rest /\
    c_input c = match rest with a :: _ => match a with [] => gofile | _ => a end | [] => gofile end /\
    c_input c <> [] /\
    c_output c = match f_out v with [] => insert_before_ext (c_input c) (s2b ".gen") | o => o end /\
    c_log c = (if f_log v then replace_ext (c_output c) (s2b ".log") else []) /\
    c_dry c = f_dry v /\ c_prints c = f_print v.
Proof.
  unfold parse_args. destruct (parse_flags flag_defaults args) as [v rest| |] eqn:E; try discriminate.
  intros H. exists v, rest. split; [reflexivity|].
  set (input0 := match rest with [] => [] | a :: _ => a end) in *.
  set (input := match input0 with [] => gofile | _ => input0 end) in *.
  destruct input as [|i0 it] eqn:Ein; [discriminate|].
  injection H as <-. simpl.
  assert (Hin : (i0 :: it) = match rest with a :: _ => match a with [] => gofile | _ => a end | [] => gofile end).
  { rewrite <- Ein. unfold input, input0. destruct rest as [|[|? ?] ?]; reflexivity. }
  repeat split; try assumption; try discriminate.
Qed.

(** ** run_core *)
Lemma run_core_effect_paths c cw g e :
  In e (r_effects (run_core c cw g)) ->
  (e = Truncate (c_log c) /\ c_log c <> []) \/
  (exists code, e = WriteFile (c_output c) code /\ g = GenCode code /\ c_dry c = false).
Proof.
  unfold run_core.
  destruct (c_log c) as [|l0 lt] eqn:El.
  - destruct g as [|raw|code]; simpl; try tauto.
    destruct (c_dry c) eqn:Ed; simpl; [tauto|].
    destruct (cw (c_output c)); simpl; [|tauto].
    intros [<-|[]]. right. now exists code.
  - destruct (cw (l0 :: lt)); simpl; [|tauto].
    destruct g as [|raw|code]; simpl.
    + intros [<-|[]]. left. split; [reflexivity|discriminate].
    + intros [<-|[]]. left. split; [reflexivity|discriminate].
    + destruct (c_dry c) eqn:Ed; simpl.
      * intros [<-|[]]. left. split; [reflexivity|discriminate].
      * destruct (cw (c_output c)); simpl.
        -- intros [<-|[<-|[]]]; [left; split; [reflexivity|discriminate]|right; now exists code].
        -- intros [<-|[]]. left. split; [reflexivity|discriminate].
Qed.

(** Dry or failed runs produce no write to the output path. *)
Lemma run_core_no_output_write c cw g e :
  (c_dry c = true \/ r_status (run_core c cw g) <> 0) ->
  In e (r_effects (run_core c cw g)) -> e = Truncate (c_log c) /\ c_log c <> [].
Proof.
  intros H Hin. destruct (run_core_effect_paths _ _ _ _ Hin) as [?|(code & -> & -> & Hd)]; [assumption|].
  exfalso. destruct H as [H|H]; [congruence|]. apply H. clear H.
  revert Hin. unfold run_core. rewrite Hd.
  destruct (c_log c) as [|l0 lt]; [|destruct (cw (l0 :: lt))]; simpl;
    destruct (cw (c_output c)); simpl; try reflexivity;
    intros Hin; repeat (destruct Hin as [Hin|Hin]; try discriminate); try destruct Hin.
Qed.

(** With -print, a successful run prints exactly the code (once the print defect is repaired). *)
Lemma run_core_print c cw g :
  c_prints c = true -> r_status (run_core c cw g) = 0 ->
  exists code, g = GenCode code /\ r_stdout (run_core c cw g) = code.
Proof.
  intros Hp. unfold run_core.
  destruct (c_log c) as [|l0 lt]; [|destruct (cw (l0 :: lt))]; simpl;
    destruct g as [|raw|code]; simpl; try discriminate;
    destruct (c_dry c); simpl; rewrite ?Hp; simpl; try (intros _; now exists code);
    destruct (cw (c_output c)); simpl; try discriminate; intros _; now exists code.
Qed.

(** The log flag is inert for status, stdout and the code written, provided the log can be opened. *)
Definition without_log (c : config) : config :=
  {| c_input := c_input c; c_output := c_output c; c_log := []; c_dry := c_dry c; c_prints := c_prints c |}.

Lemma run_core_log_inert c cw g :
  (c_log c <> [] -> cw (c_log c) = true) ->
  let r := run_core c cw g in let r0 := run_core (without_log c) cw g in
  r_status r = r_status r0 /\ r_stdout r = r_stdout r0 /\
  (forall code, In (WriteFile (c_output c) code) (r_effects r) <-> In (WriteFile (c_output c) code) (r_effects r0)).
Proof.
  intros Hl. unfold run_core, without_log; simpl.
  destruct (c_log c) as [|l0 lt] eqn:El.
  - repeat split; auto.
  - rewrite Hl by discriminate.
    destruct g as [|raw|code]; simpl; [| |destruct (c_dry c); simpl; [|destruct (cw (c_output c)); simpl]];
      (split; [reflexivity|]); (split; [reflexivity|]); intros code'; simpl; intuition (try discriminate).
Qed.

(** ** Lemmas in the exact shape of props/C18.v *)
Lemma C18_default_output_lemma :
  forall args gofile c v rest,
    parse_args args gofile = CliConfig c ->
    parse_flags flag_defaults args = ArgsOk v rest -> f_out v = [] ->
    c_output c = stem (c_input c) ++ s2b ".gen" ++ path_ext (c_input c) /\
    stem (c_input c) ++ path_ext (c_input c) = c_input c /\
    (path_ext (c_input c) = [] \/
     exists e, path_ext (c_input c) = 46 :: e /\ forall b, In b e -> b <> 47 /\ b <> 46).
Proof.
  intros args gofile c v rest H Hf Ho.
  destruct (parse_args_config _ _ _ H) as (v' & rest' & Hf' & _ & _ & Hout & _).
  rewrite Hf in Hf'. injection Hf' as <- <-. rewrite Ho in Hout.
  split; [exact Hout|]. split; [apply stem_ext|apply path_ext_shape].
Qed.

Lemma C18_out_overrides_lemma :
  forall args gofile c v rest,
    parse_args args gofile = CliConfig c ->
    parse_flags flag_defaults args = ArgsOk v rest -> f_out v <> [] ->
    c_output c = f_out v.
Proof.
  intros args gofile c v rest H Hf Ho.
  destruct (parse_args_config _ _ _ H) as (v' & rest' & Hf' & _ & _ & Hout & _).
  rewrite Hf in Hf'. injection Hf' as <- <-. destruct (f_out v); [contradiction|exact Hout].
Qed.

Lemma C18_gofile_lemma :
  forall args gofile c v rest,
    parse_args args gofile = CliConfig c ->
    parse_flags flag_defaults args = ArgsOk v rest ->
    (rest = [] -> c_input c = gofile) /\
    (forall a rest', rest = a :: rest' -> a <> [] -> c_input c = a).
Proof.
  intros args gofile c v rest H Hf.
  destruct (parse_args_config _ _ _ H) as (v' & rest' & Hf' & Hin & _).
  rewrite Hf in Hf'. injection Hf' as <- <-. split.
  - intros ->. exact Hin.
  - intros a r -> Ha. rewrite Hin. destruct a; [contradiction|reflexivity].
Qed.

Lemma C18_log_path_lemma :
  forall args gofile c v rest,
    parse_args args gofile = CliConfig c ->
    parse_flags flag_defaults args = ArgsOk v rest ->
    c_log c = if f_log v then stem (c_output c) ++ s2b ".log" else [].
Proof.
  intros args gofile c v rest H Hf.
  destruct (parse_args_config _ _ _ H) as (v' & rest' & Hf' & _ & _ & _ & Hlog & _).
  rewrite Hf in Hf'. injection Hf' as <- <-. exact Hlog.
Qed.

Lemma C18_print_lemma :
  forall c can_write g,
    c_prints c = true -> r_status (run_core c can_write g) = 0 ->
    exists code, g = GenCode code /\ r_stdout (run_core c can_write g) = code /\
      (c_dry c = false -> In (WriteFile (c_output c) code) (r_effects (run_core c can_write g))).
Proof.
  intros c cw g Hp Hs. destruct (run_core_print c cw g Hp Hs) as (code & -> & Hout).
  exists code. split; [reflexivity|]. split; [exact Hout|].
  intros Hd. revert Hs. unfold run_core. rewrite Hd.
  destruct (c_log c) as [|l0 lt]; [|destruct (cw (l0 :: lt))]; simpl; try discriminate;
    destruct (cw (c_output c)); simpl; try discriminate; intros _; auto using in_eq, in_cons.
Qed.
