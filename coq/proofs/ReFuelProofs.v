(** ReFuelProofs.v — the regexp parser never exhausts the fuel parse_re gives it. *)
From Coq Require Import String Lia.
From Cvg Require Import Base Re Unicode Matcher.
From Cvg.proofs Require Import ReProofs.
Open Scope N_scope.

Notation len := (@List.length N).

(** ** the helper readers return a suffix no longer than their input *)
Lemma read_int_len : forall s acc nd v nd' r, read_int s acc nd = (v, nd', r) -> (len r <= len s)%nat.
Proof.
  induction s as [|c s IH]; intros acc nd v nd' r H; cbn [read_int] in H.
  - injection H as _ _ <-. lia.
  - destruct (is_digit c).
    + apply IH in H. simpl. lia.
    + injection H as _ _ <-. lia.
Qed.

Lemma parse_repeat_len s mn mx r : parse_repeat s = Some (mn, mx, r) -> (len r < len s)%nat.
Proof.
  unfold parse_repeat. destruct (read_int s 0 0) as [[n nd] s1] eqn:E1.
  pose proof (read_int_len _ _ _ _ _ _ E1) as L1.
  destruct (Nat.eqb nd 0); [discriminate|]. intros H.
  repeat match type of H with
         | match ?x with _ => _ end = _ =>
             lazymatch x with
             | context [read_int] => fail
             | _ => destruct x eqn:?
             end
         end; try discriminate; try (injection H as _ _ <-; simpl in *; lia).
  all: match type of H with context [read_int ?x 0 0%nat] =>
         destruct (read_int x 0 0%nat) as [[m md] s3] eqn:E2; pose proof (read_int_len _ _ _ _ _ _ E2) as L2
       end;
       destruct (Nat.eqb md 0); [discriminate|];
       repeat match type of H with
              | match ?x with _ => _ end = _ => destruct x eqn:?
              end; try discriminate; injection H as _ _ <-; simpl in *; lia.
Qed.

Lemma skip_lazy_len s : (len (skip_lazy s) <= len s)%nat.
Proof. unfold skip_lazy. destruct s as [|c t]; [lia|]. destruct (c =? 63); simpl; lia. Qed.

Lemma is_rparen_len s r : is_rparen s = Some r -> (len r < len s)%nat.
Proof. unfold is_rparen. destruct s as [|c t]; [discriminate|]. destruct (c =? 41); [|discriminate]. intros H. injection H as <-. simpl. lia. Qed.

Lemma skip_group_name_len : forall s n r, skip_group_name s n = Some r -> (len r < len s)%nat.
Proof.
  induction s as [|c s IH]; intros n r H; cbn [skip_group_name] in H; [discriminate|].
  repeat match type of H with
         | match ?x with _ => _ end = _ => destruct x eqn:?
         | (if ?x then _ else _) = _ => destruct x eqn:?
         end; try discriminate; try (injection H as <-; simpl; lia); try (apply IH in H; simpl in *; lia).
Qed.

Lemma parse_flags_hdr_len : forall s f neg sn sf, (len (snd (parse_flags_hdr s f neg sn sf)) <= len s)%nat.
Proof.
  induction s as [|c s IH]; intros f neg sn sf; [simpl; lia|]. cbn [parse_flags_hdr].
  repeat match goal with
         | |- context [match ?x with _ => _ end] =>
             lazymatch x with
             | context [parse_flags_hdr] => fail
             | _ => destruct x
             end
         end; cbn [snd]; try (simpl; lia);
  match goal with |- context [parse_flags_hdr s ?f' ?a ?b ?c] => specialize (IH f' a b c); simpl; lia end.
Qed.

Lemma read_quote_len : forall s acc q r, read_quote s acc = (q, r) -> (len r <= len s)%nat.
Proof.
  induction s as [|c s IH]; intros acc q r H; cbn [read_quote] in H.
  - injection H as _ <-. lia.
  - repeat match type of H with
           | match ?x with _ => _ end = _ => destruct x eqn:?
           end; try (injection H as _ <-; simpl; lia); try (apply IH in H; simpl in *; lia);
      try (match goal with E : s = _ |- _ => rewrite <- E in H end; apply IH in H; simpl in *; subst; simpl in *; lia).
Qed.

Lemma read_hex_braced_len : forall s acc nd v r, read_hex_braced s acc nd = Some (v, r) -> (len r < len s)%nat.
Proof.
  induction s as [|c s IH]; intros acc nd v r H; cbn [read_hex_braced] in H; [discriminate|].
  repeat match type of H with
         | match ?x with _ => _ end = _ => destruct x eqn:?
         | (if ?x then _ else _) = _ => destruct x eqn:?
         end; try discriminate; try (injection H as _ <-; simpl; lia); try (apply IH in H; simpl in *; lia).
Qed.

Lemma read_until_brace_len : forall s acc q r, read_until_brace s acc = Some (q, r) -> (len r < len s)%nat.
Proof.
  induction s as [|c s IH]; intros acc q r H; cbn [read_until_brace] in H; [discriminate|].
  repeat match type of H with
         | match ?x with _ => _ end = _ => destruct x eqn:?
         end; try discriminate; try (injection H as _ <-; simpl; lia); try (apply IH in H; simpl in *; lia).
Qed.

Lemma read_posix_len : forall s acc q r, read_posix s acc = Some (q, r) -> (len r < len s)%nat.
Proof.
  induction s as [|c s IH]; intros acc q r H; cbn [read_posix] in H; [discriminate|].
  repeat match type of H with
         | match ?x with _ => _ end = _ => destruct x eqn:?
         | (if ?x then _ else _) = _ => destruct x eqn:?
         end; try discriminate; try (injection H as _ <-; simpl; lia); try (apply IH in H; simpl in *; lia).
Qed.

Lemma parse_escape_len U b s e r : parse_escape U b s = (e, r) -> (len r <= len s)%nat.
Proof.
  unfold parse_escape. intros H.
  repeat match type of H with
         | match ?x with _ => _ end = _ =>
             lazymatch x with
             | context [read_hex_braced] => fail
             | context [read_until_brace] => fail
             | _ => destruct x eqn:?
             end
         | (if ?x then _ else _) = _ => destruct x eqn:?
         | (let '(_, _) := ?x in _) = _ => destruct x eqn:?
         end;
  try (injection H as _ <-; simpl in *; lia).
  all: try (match type of H with context [read_hex_braced ?x ?a ?n] =>
              destruct (read_hex_braced x a n) as [[v rest]|] eqn:Eh;
              [apply read_hex_braced_len in Eh|]; injection H as _ <-; simpl in *; lia
            end).
  all: try (match type of H with context [read_until_brace ?x ?a] =>
              destruct (read_until_brace x a) as [[nm rest]|] eqn:Eu; [apply read_until_brace_len in Eu|];
              repeat match type of H with
                     | match ?y with _ => _ end = _ => destruct y eqn:?
                     | (let '(_, _) := ?y in _) = _ => destruct y eqn:?
                     end; injection H as _ <-; simpl in *; lia
            end).
Qed.

Lemma tl_len (l : list N) : (len (tl l) <= len l)%nat.
Proof. destruct l; simpl; lia. Qed.

Lemma class_head_len (l : list N) b l0 :
  match l with h :: t => if h =? 94 then (true, t) else (false, l) | [] => (false, l) end = (b, l0) -> (len l0 <= len l)%nat.
Proof. destruct l as [|h t]; [intros H; injection H as _ <-; lia|]. destruct (h =? 94); intros H; injection H as _ <-; simpl; lia. Qed.

Ltac len_facts :=
  repeat match goal with
         | E : parse_escape _ _ _ = (_, _) |- _ => apply parse_escape_len in E
         | E : read_posix _ _ = Some (_, _) |- _ => apply read_posix_len in E
         | E : parse_repeat _ = Some (_, _, _) |- _ => apply parse_repeat_len in E
         | E : skip_group_name _ _ = Some _ |- _ => apply skip_group_name_len in E
         | E : is_rparen _ = Some _ |- _ => apply is_rparen_len in E
         | E : read_quote _ _ = (_, _) |- _ => apply read_quote_len in E
         | E : match ?l with [] => _ | _ :: _ => _ end = (_, _) |- _ => apply class_head_len in E
         end.

Definition ok_le {A} (r : pres (A * list N)) (s : list N) : Prop :=
  r <> PFuel /\ forall a rest, r = POk (a, rest) -> (len rest <= len s)%nat.

(** ** the class-body parser *)
Lemma class_body_fuel U : forall fuel,
  (forall s first acc, (2 * len s + 1 <= fuel)%nat -> ok_le (parse_class_body U fuel s first acc) s) /\
  (forall lo s acc, (2 * len s + 2 <= fuel)%nat -> ok_le (parse_class_item U fuel lo s acc) s).
Proof.
  induction fuel as [|f [IHb IHi]]; [split; intros; simpl in *; lia|].
  assert (Hb : forall s0 s first acc, (2 * len s + 1 <= f)%nat -> (len s <= len s0)%nat -> ok_le (parse_class_body U f s first acc) s0).
  { intros s0 s first acc H1 H2. destruct (IHb s first acc H1) as [Ha Hr]. split; [exact Ha|]. intros a rest E. specialize (Hr a rest E). lia. }
  assert (Hi : forall s0 lo s acc, (2 * len s + 2 <= f)%nat -> (len s <= len s0)%nat -> ok_le (parse_class_item U f lo s acc) s0).
  { intros s0 lo s acc H1 H2. destruct (IHi lo s acc H1) as [Ha Hr]. split; [exact Ha|]. intros a rest E. specialize (Hr a rest E). lia. }
  split.
  - intros s first acc Hf. cbn [parse_class_body].
    repeat match goal with
           | |- ok_le (match ?x with _ => _ end) _ =>
               lazymatch x with
               | context [parse_class_body] => fail | context [parse_class_item] => fail
               | _ => destruct x eqn:?
               end
           | |- ok_le (if ?x then _ else _) _ => destruct x eqn:?
           | |- ok_le (let '(_, _) := ?x in _) _ => destruct x eqn:?
           end; len_facts; try match goal with H : context [tl ?l] |- _ => pose proof (tl_len l) end; subst; simpl in *;
    first [ apply Hb; simpl in *; lia | apply Hi; simpl in *; lia
          | split; [discriminate|intros ? ? E; try discriminate E; injection E as _ <-; simpl in *; lia] ].
  - intros lo s acc Hf. cbn [parse_class_item].
    repeat match goal with
           | |- ok_le (match ?x with _ => _ end) _ =>
               lazymatch x with
               | context [parse_class_body] => fail | context [parse_class_item] => fail
               | _ => destruct x eqn:?
               end
           | |- ok_le (if ?x then _ else _) _ => destruct x eqn:?
           end; len_facts; try match goal with H : context [tl ?l] |- _ => pose proof (tl_len l) end; subst; simpl in *;
    first [ apply Hb; simpl in *; lia | apply Hi; simpl in *; lia
          | split; [discriminate|intros ? ? E; try discriminate E; injection E as _ <-; simpl in *; lia] ].
Qed.

(** ** the regexp parser proper *)
Definition ok3 (r : pres (re * list N * flags)) (s : list N) : Prop :=
  r <> PFuel /\ forall a rest f, r = POk (a, rest, f) -> (len rest <= len s)%nat.

Arguments parse_class_body : simpl never.
Arguments parse_class_item : simpl never.

Section FuelBody.
  Variable U : utables.
  Variable altn : flags -> list N -> nat -> pres (re * list N).
  Variable seq : flags -> list N -> nat -> re -> atom_state -> pres (re * list N * flags).
  Variable n : nat.
  Hypothesis Ha : forall s0 f s d, (2 * len s + 2 <= n)%nat -> (len s <= len s0)%nat -> ok_le (altn f s d) s0.
  Hypothesis Hs : forall s0 f s d acc cur, (2 * len s + 1 <= n)%nat -> (len s <= len s0)%nat -> ok3 (seq f s d acc cur) s0.

  Lemma altn_body_fuel f s d : (2 * len s + 2 <= S n)%nat -> ok_le (altn_body U altn seq f s d) s.
  Proof.
    intros Hf. unfold altn_body.
    destruct (Hs s f s d Eps NoAtom ltac:(lia) ltac:(lia)) as [H1 H2].
    destruct (seq f s d Eps NoAtom) as [[[r rest] f']| | |] eqn:E; try (split; [discriminate|intros ? ? X; discriminate X]); [|congruence].
    specialize (H2 _ _ _ eq_refl).
    destruct rest as [|c rest1]; [split; [discriminate|intros ? ? X; injection X as _ <-; simpl; lia]|].
    destruct (c =? 124); [|split; [discriminate|intros ? ? X; injection X as _ <-; simpl in *; lia]].
    simpl in H2.
    destruct (Ha s f' rest1 d ltac:(lia) ltac:(lia)) as [H3 H4].
    destruct (altn f' rest1 d) as [[r2 rest2]| | |]; try (split; [discriminate|intros ? ? X; discriminate X]); [|congruence].
    split; [discriminate|]. intros ? ? X. injection X as _ <-. apply (H4 _ _ eq_refl).
  Qed.

  Ltac fsplit :=
    match goal with
    | |- ok3 (if ?b then _ else _) _ =>
        lazymatch b with
        | context [seq] => fail | context [altn] => fail
        | _ => destruct b eqn:?
        end
    | |- ok3 (match ?x with _ => _ end) _ =>
        lazymatch x with
        | context [seq] => fail | context [altn] => fail | context [parse_class_body] => fail
        | _ => destruct x eqn:?
        end
    | |- ok3 (let '(_, _) := ?x in _) _ =>
        lazymatch x with
        | context [seq] => fail | context [altn] => fail | context [parse_class_body] => fail
        | _ => destruct x eqn:?
        end
    end.

  Ltac hdr_fact :=
    match goal with
    | E : parse_flags_hdr ?s ?f ?a ?b ?c = (_, _) |- _ =>
        let X := fresh "X" in pose proof (parse_flags_hdr_len s f a b c) as X; rewrite E in X; cbn [snd] in X; clear E
    end.

  Ltac lenlia := try match goal with H : context [len (tl ?l)] |- _ => pose proof (tl_len l) end; cbn [List.length] in *; lia.
  Ltac fconst := let Q := fresh "Q" in split; [discriminate|intros ? ? ? Q; try discriminate Q; injection Q as _ <- _; lenlia].
  Ltac ftail :=
    try match goal with |- context [skip_lazy ?l] => pose proof (skip_lazy_len l) end;
    apply Hs; lenlia.
  Ltac fgroup :=
    match goal with
    | |- ok3 (match altn ?fa ?body ?dd with _ => _ end) ?s0 =>
        let G1 := fresh "G1" in let G2 := fresh "G2" in let Er := fresh "Er" in
        destruct (Ha s0 fa body dd ltac:(lenlia) ltac:(lenlia)) as [G1 G2];
        destruct (altn fa body dd) as [[? ?]| | |];
        [ specialize (G2 _ _ eq_refl);
          match goal with |- context [is_rparen ?r] => destruct (is_rparen r) eqn:Er end;
          [apply is_rparen_len in Er; ftail | fconst]
        | fconst | fconst | congruence ]
    end.
  Ltac fclass :=
    match goal with
    | |- ok3 (match parse_class_body ?U0 ?fu ?s1 ?b ?a with _ => _ end) _ =>
        let C1 := fresh "C1" in let C2 := fresh "C2" in
        destruct (proj1 (class_body_fuel U0 fu) s1 b a ltac:(lenlia)) as [C1 C2];
        destruct (parse_class_body U0 fu s1 b a) as [[? ?]| | |];
        [ specialize (C2 _ _ eq_refl); ftail | fconst | fconst | congruence ]
    end.

  Lemma seq_body_fuel f s d acc cur : (2 * len s + 1 <= S n)%nat -> ok3 (seq_body U altn seq f s d acc cur) s.
  Proof.
    intros Hf. unfold seq_body. cbv zeta.
    repeat fsplit; len_facts; repeat hdr_fact; subst.
    all: try fconst.
    all: try ftail.
    all: try fgroup.
    all: try fclass.
  Qed.
End FuelBody.

Theorem parser_fuel U : forall n,
  (forall s0 f s d, (2 * len s + 2 <= n)%nat -> (len s <= len s0)%nat -> ok_le (parse_altn U n f s d) s0) /\
  (forall s0 f s d acc cur, (2 * len s + 1 <= n)%nat -> (len s <= len s0)%nat -> ok3 (parse_seq U n f s d acc cur) s0).
Proof.
  induction n as [|n [IHa IHs]]; [split; intros; lia|].
  split.
  - intros s0 f s d Hf Hl. rewrite parse_altn_S.
    destruct (altn_body_fuel U (parse_altn U n) (parse_seq U n) n IHa IHs f s d Hf) as [H1 H2].
    split; [exact H1|]. intros a rest E. specialize (H2 a rest E). lia.
  - intros s0 f s d acc cur Hf Hl. rewrite parse_seq_S.
    destruct (seq_body_fuel U (parse_altn U n) (parse_seq U n) n IHa IHs f s d acc cur Hf) as [H1 H2].
    split; [exact H1|]. intros a rest f' E. specialize (H2 a rest f' E). lia.
Qed.

(** regexp.Compile in the model always gets enough fuel *)
Theorem parse_re_never_out_of_fuel U e : parse_re U e <> PFuel.
Proof.
  unfold parse_re. destruct (negb (str_eqb (encode (decode e)) e)); [discriminate|].
  destruct (proj1 (parser_fuel U (S (S (len (decode e))) * 3)) (decode e) flags0 (decode e) 0%nat ltac:(lia) ltac:(lia)) as [H _].
  destruct (parse_altn U (S (S (len (decode e))) * 3) flags0 (decode e) 0) as [[r [|c rest]]| | |]; try discriminate. congruence.
Qed.
