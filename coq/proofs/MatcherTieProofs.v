(** MatcherTieProofs.v — pkg/option's IdentMatcher / NameMatcher / FieldConverter matching as
    translated from the Go source on every run (gen/GoFuns.v, module GoNode) equals the model's
    [ident_match] / [for_getter] (Matcher.v). *)
From Coq Require Import String.
From Cvg Require Import Base GoLib GoTypes Re Unicode Matcher GoFuns.
Import GoNode.
Open Scope N_scope.

Lemma has_prefix_tie : forall p s, go_has_prefix s p = is_prefix p s.
Proof.
  induction p as [|y p IH]; intros s; destruct s as [|x s]; cbn [go_has_prefix is_prefix]; try reflexivity.
  rewrite IH. f_equal. apply N.eqb_sym.
Qed.

Lemma has_suffix_tie s p : go_has_suffix s p = is_suffix p s.
Proof. unfold go_has_suffix, is_suffix. apply has_prefix_tie. Qed.

Definition mk_ident (pattern : str) : IdentMatcher_t :=
  {| IdentMatcher_pattern := pattern; IdentMatcher_paths := ident_paths pattern |}.

Lemma ident_match_tie pattern paths ident exact :
  IdentMatcher_Match {| IdentMatcher_pattern := pattern; IdentMatcher_paths := paths |} ident exact
  = ident_match pattern ident exact.
Proof. reflexivity. Qed.

Lemma for_getter_tie pattern paths k :
  IdentMatcher_ForGetter {| IdentMatcher_pattern := pattern; IdentMatcher_paths := paths |} k
  = for_getter (nth (Z.to_nat k) paths []).
Proof. unfold IdentMatcher_ForGetter, for_getter. cbn [IdentMatcher_paths]. apply has_suffix_tie. Qed.

Lemma name_matcher_tie sm dm pos src dst exact :
  NameMatcher_Match {| NameMatcher_src := sm; NameMatcher_dst := dm; NameMatcher_pos := pos |} src dst exact
  = ident_match (IdentMatcher_pattern sm) src exact && ident_match (IdentMatcher_pattern dm) dst exact.
Proof. destruct sm, dm. reflexivity. Qed.

(** FieldConverter.Match (the :conv lookup of the builder) is case-sensitive whatever the case rule *)
Lemma converter_match_tie c src dst :
  FieldConverter_Match c src dst
  = str_eqb (IdentMatcher_pattern (NameMatcher_src (FieldConverter_m c))) src
    && str_eqb (IdentMatcher_pattern (NameMatcher_dst (FieldConverter_m c))) dst.
Proof. destruct c as [[[sp sps] [dp dps] pos] cv at_ rt re]. reflexivity. Qed.

(** Options.CompareFieldName: the comparison of a destination field's name with a source member's name
    (the name pass of the builder): equality, or simple-fold equality under :case:off *)
Lemma compare_field_name_tie o a b :
  Options_CompareFieldName o a b = if Options_ExactCase o then str_eqb a b else str_equal_fold a b.
Proof. reflexivity. Qed.
