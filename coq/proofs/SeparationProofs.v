(** SeparationProofs.v — the partition of the destination's fields (C05) makes
    the written paths of different entries independent, which is the hypothesis
    of the value/frame theorems of ValSemProofs.v (C02). *)
From Coq Require Import String.
From Cvg Require Import Base GoTypes Dump Options Front Builder ValSem.
From Cvg.proofs Require Import BuilderProofs PartitionProofs ValSemProofs.
Open Scope N_scope.

Lemma prefix_refl p : is_path_prefix p p = true.
Proof. induction p as [|x p IH]; simpl; [reflexivity|]. now rewrite str_eqb_refl. Qed.

Lemma prefix_app p q : is_path_prefix p (p ++ q) = true.
Proof. induction p as [|x p IH]; simpl; [reflexivity|]. now rewrite str_eqb_refl. Qed.

Lemma prefix_trans p q r : is_path_prefix p q = true -> is_path_prefix q r = true -> is_path_prefix p r = true.
Proof.
  revert q r; induction p as [|x p IH]; intros q r H1 H2; [reflexivity|].
  destruct q as [|y q]; [discriminate|]. destruct r as [|z r]; [discriminate|].
  simpl in *. apply andb_true_iff in H1 as [E1 H1]. apply andb_true_iff in H2 as [E2 H2].
  apply str_eqb_eq in E1 as ->. apply str_eqb_eq in E2 as ->. rewrite str_eqb_refl. simpl. eapply IH; eassumption.
Qed.

(** extensions of P ++ [x] and P ++ [y] with x <> y are independent *)
Lemma diverging_independent P x y p q :
  str_eqb x y = false ->
  is_path_prefix (P ++ [x]) p = true -> is_path_prefix (P ++ [y]) q = true -> independent p q.
Proof.
  revert p q; induction P as [|a P IH]; intros p q Hxy Hp Hq; simpl in *.
  - destruct p as [|x' p]; [discriminate|]. destruct q as [|y' q]; [discriminate|].
    apply andb_true_iff in Hp as [Ex _]. apply andb_true_iff in Hq as [Ey _].
    apply str_eqb_eq in Ex as <-. apply str_eqb_eq in Ey as <-.
    unfold independent. simpl. rewrite Hxy.
    assert (Hyx : str_eqb y x = false).
    { destruct (str_eqb y x) eqn:E; [|reflexivity]. apply str_eqb_eq in E as ->. now rewrite str_eqb_refl in Hxy. }
    rewrite Hyx. split; reflexivity.
  - destruct p as [|a' p]; [discriminate|]. destruct q as [|a'' q]; [discriminate|].
    apply andb_true_iff in Hp as [Ea Hp]. apply andb_true_iff in Hq as [Ea' Hq].
    apply str_eqb_eq in Ea as <-. apply str_eqb_eq in Ea' as <-.
    destruct (IH p q Hxy Hp Hq) as [H1 H2]. unfold independent. simpl. rewrite str_eqb_refl. simpl. split; assumption.
Qed.

Section Separation.
  Variable d : dump.

  Scheme about_mut := Induction for about Sort Prop
    with covers_mut := Induction for covers Sort Prop.

  (** every path an entry about f may write extends f's own path *)
  Lemma about_paths_extend :
    forall f a, about d f a -> forall p, In p (wpaths a) -> is_path_prefix (node_path f) p = true.
  Proof.
    apply (about_mut d
      (fun f a _ => forall p, In p (wpaths a) -> is_path_prefix (node_path f) p = true)
      (fun L fs l _ => (forall f, In f fs -> exists g, f = NField L g) ->
                       forall a p, In a l -> In p (wpaths a) -> is_path_prefix (node_path L) p = true));
      simpl.
    - intros f p [].
    - intros f p [].
    - intros f r e p [<-|[]]. apply prefix_refl.
    - intros f r t p [<-|[]]. apply prefix_refl.
    - intros f r t p [<-|[]]. apply prefix_refl.
    - intros f r t c p [<-|[]]. apply prefix_refl.
    - (* nest *)
      intros f cs Hne Hc IH p Hp. apply in_concat in Hp as (ps & Hps & Hp).
      apply in_map_iff in Hps as (c & <- & Hc'). eapply IH; [|exact Hc'|exact Hp].
      intros f' Hf'. unfold field_nodes in Hf'. apply in_map_iff in Hf' as (g & <- & _). eauto.
    - intros L _ a p [].
    - intros L f fs l _ _ IH Hfs a p Ha Hp. eapply IH; eauto; intros f' Hf'; apply Hfs; now right.
    - intros L f fs a l _ Hab IHa _ IHc Hfs x p [<-|Hx] Hp.
      + destruct (Hfs f (or_introl eq_refl)) as (g & ->). specialize (IHa p Hp). simpl in IHa.
        eapply prefix_trans; [apply prefix_app|exact IHa].
      + eapply IHc; eauto; intros f' Hf'; apply Hfs; now right.
    - intros L f fs l _ _ _ _ _ IHc Hfs a p Ha Hp. eapply IHc; eauto; intros f' Hf'; apply Hfs; now right.
  Qed.

  (** names of a list of field nodes *)
  Definition names (fs : list node) : list str := List.map obj_name fs.

  (** covered entries of a field list with pairwise different names write independent paths *)
  Lemma covers_separated :
    forall L fs l, covers d L fs l ->
      (forall f, In f fs -> exists g, f = NField L g) ->
      (forall f1 f2 fs1 fs2 fs3, fs = fs1 ++ f1 :: fs2 ++ f2 :: fs3 -> str_eqb (obj_name f1) (obj_name f2) = false) ->
      separated l /\
      (forall a p, In a l -> In p (wpaths a) -> exists f, In f fs /\ is_path_prefix (node_path f) p = true).
  Proof.
    induction 1 as [L|L f fs l Hh Hc IH|L f fs a l Ha Hab Hc IH|L f fs l Ha Hs Hc0 _ Hc IH]; intros Hfs Hnd.
    - split; [exact I|intros a p []].
    - destruct IH as [IH1 IH2].
      + intros f' Hf'. apply Hfs. now right.
      + intros f1 f2 fs1 fs2 fs3 E. apply (Hnd f1 f2 (f :: fs1) fs2 fs3). simpl. now rewrite E.
      + split; [exact IH1|]. intros a p Hain Hp. destruct (IH2 a p Hain Hp) as (f' & Hf' & Hpre). exists f'. split; [now right|exact Hpre].
    - destruct IH as [IH1 IH2].
      + intros f' Hf'. apply Hfs. now right.
      + intros f1 f2 fs1 fs2 fs3 E. apply (Hnd f1 f2 (f :: fs1) fs2 fs3). simpl. now rewrite E.
      + split.
        * simpl. split; [|exact IH1].
          intros p b q Hp Hb Hq.
          destruct (IH2 b q Hb Hq) as (f' & Hf' & Hpre').
          pose proof (about_paths_extend f a Hab p Hp) as Hpre.
          destruct (Hfs f (or_introl eq_refl)) as (g & ->).
          destruct (Hfs f' (or_intror Hf')) as (g' & ->).
          apply in_split in Hf' as (fs2 & fs3 & ->).
          assert (Hne : str_eqb (f_name g) (f_name g') = false) by (apply (Hnd (NField L g) (NField L g') [] fs2 fs3); reflexivity).
          simpl in Hpre, Hpre'. eapply diverging_independent; eassumption.
        * intros x p [<-|Hx] Hp.
          -- exists f. split; [now left|]. eapply about_paths_extend; eassumption.
          -- destruct (IH2 x p Hx Hp) as (f' & Hf' & Hpre). exists f'. split; [now right|exact Hpre].
    - destruct IH as [IH1 IH2].
      + intros f' Hf'. apply Hfs. now right.
      + intros f1 f2 fs1 fs2 fs3 E. apply (Hnd f1 f2 (f :: fs1) fs2 fs3). simpl. now rewrite E.
      + split; [exact IH1|]. intros a p Hain Hp. destruct (IH2 a p Hain Hp) as (f' & Hf' & Hpre). exists f'. split; [now right|exact Hpre].
  Qed.
End Separation.
