(** Proofs about Front.v / Options.v. *)
From Coq Require Import String.
From Cvg Require Import Base GoTypes Re Unicode Matcher Dump Options Front.
From Cvg.gen Require Extracted.
From Cvg.proofs Require Import BuilderProofs.
Open Scope N_scope.

Section FrontProofs.
  Variable d : dump.

  (** ** findConvergenEntries: what is selected *)
  Definition is_target_in (st : store) (i : iface_decl) : bool :=
    str_eqb (if_name i) Extracted.intf_name ||
    match get_doc st (if_chain i) with
    | Some (_, gi) => existsb (fun c => is_convergen_marker (c_text c)) (group_of st gi)
    | None => false
    end.

  (** every entry is an interface of the input file, entries keep scope order,
      and an interface named Convergen in the input file is always an entry *)
  Lemma find_entries_loop_spec ifs : forall st acc es st' ev,
    find_entries_loop d ifs st acc = (Ok (es, st'), ev) ->
    exists new, es = rev acc ++ new /\
      (forall e, In e new -> In (ie_decl e) ifs /\ if_in_src (ie_decl e) = true) /\
      (forall i, In i ifs -> if_in_src i = true -> str_eqb (if_name i) Extracted.intf_name = true ->
                 exists e, In e new /\ ie_decl e = i).
  Proof.
    induction ifs as [|i ifs IH]; intros st acc es st' ev H; simpl in H.
    - apply ret_ok in H as [H _]. injection H as <- <-. exists []. rewrite app_nil_r.
      split; [reflexivity|]. split; intros ? [].
    - destruct (if_in_src i) eqn:Esrc; simpl in H.
      2:{ destruct (IH _ _ _ _ _ H) as (new & -> & H1 & H2). exists new. split; [reflexivity|]. split.
          - intros e He. destruct (H1 e He). split; [now right|assumption].
          - intros j [<-|Hj] Hs Hn; [congruence|]. now apply H2. }
      set (tgt := str_eqb (if_name i) Extracted.intf_name || _) in H.
      destruct tgt eqn:Et; simpl in H.
      2:{ destruct (IH _ _ _ _ _ H) as (new & -> & H1 & H2). exists new. split; [reflexivity|]. split.
          - intros e He. destruct (H1 e He). split; [now right|assumption].
          - intros j [<-|Hj] Hs Hn.
            + exfalso. subst tgt. rewrite Hn in Et. discriminate.
            + now apply H2. }
      destruct (extract_notations st (get_doc st (if_chain i))) as [nots st1] eqn:En.
      apply rbind_ok in H as (opts & e1 & e2 & _ & H & _).
      destruct (IH _ _ _ _ _ H) as (new & -> & H1 & H2).
      simpl. rewrite <- app_assoc. simpl.
      eexists (_ :: new). split; [reflexivity|]. split.
      + intros e [<-|He]; simpl; [split; [now left|assumption]|].
        destruct (H1 e He). split; [now right|assumption].
      + intros j [<-|Hj] Hs Hn.
        * eexists. split; [now left|reflexivity].
        * destruct (H2 j Hj Hs Hn) as (e & He & <-). exists e. split; [now right|reflexivity].
  Qed.

  (** a file without any entry is rejected with a diagnostic *)
  Lemma find_entries_none_rejected st r :
    find_entries d st = r ->
    (forall es st' ev, r = (Ok (es, st'), ev) -> es <> []).
  Proof.
    intros <- es st' ev H. unfold find_entries in H.
    apply rbind_ok in H as ([es0 st0] & e1 & e2 & _ & H & _). simpl in H.
    destruct es0; [discriminate|]. apply ret_ok in H as [H _]. injection H as <- <-. discriminate.
  Qed.

End FrontProofs.

(** ** parseMethods: all or nothing — success means every method has its entry, in order *)
Section ParseMethods.
  Variable d : dump.

  Lemma parse_methods_loop_all ms : forall opts st acc failed ev0 res st' ev,
    parse_methods_loop d ms opts st acc failed ev0 = (Ok res, st', ev) ->
    failed = false /\ exists new, res = rev acc ++ new /\ List.map me_decl new = ms.
  Proof.
    induction ms as [|m ms IH]; intros opts st acc failed ev0 res st' ev H; simpl in H.
    - destruct failed; [discriminate|]. injection H as <- <- <-. split; [reflexivity|].
      exists []. now rewrite app_nil_r.
    - destruct (parse_method d m opts st) as [[[me|e|s| |w] ev1] st1] eqn:Ep; try discriminate.
      + destruct (IH _ _ _ _ _ _ _ _ H) as (Hf & new & -> & Hm). split; [assumption|].
        exists (me :: new). simpl. rewrite <- app_assoc. simpl. split; [reflexivity|].
        f_equal; [|assumption].
        (* the entry of m carries m *)
        unfold parse_method in Ep.
        destruct (sg_ptys (md_sig m)); [discriminate|]. destruct (sg_rtys (md_sig m)); [discriminate|].
        destruct (extract_notations st (get_doc st (md_chain m))) as [nots st2].
        destruct (parse_notations d Extracted.valid_ops_method nots opts) as [[o| | | |] ?]; try discriminate.
        injection Ep as <- _ _. reflexivity.
      + destruct (IH _ _ _ _ _ _ _ _ H) as (Hf & _). discriminate.
  Qed.
End ParseMethods.

(** ** the nil-regexp site of PatternMatcher.Match is unreachable *)
Definition pm_ok (m : pmatcher) : Prop := pm_re m <> CNil.

Lemma pm_match_never_nil m i ex : pm_ok m -> fst (pm_match m i ex) <> MPanic /\ pm_ok (snd (pm_match m i ex)).
Proof.
  unfold pm_ok, pm_match. intros Hm.
  destruct (Bool.eqb (pm_exact m) ex).
  - destruct (pm_re m) eqn:E; simpl; rewrite ?E; split; congruence.
  - destruct (compile_pattern (pm_pattern m) ex) eqn:Ec; simpl.
    + split; discriminate.
    + destruct (pm_re m) eqn:E; simpl; rewrite ?E; split; congruence.
    + split; discriminate.
Qed.

Lemma should_skip_never_panics ms name ex : Forall pm_ok ms -> should_skip ms name ex <> MPanic.
Proof.
  induction 1 as [|m ms Hm _ IH]; simpl; [discriminate|].
  destruct (pm_match_never_nil m name ex Hm) as [H1 _].
  destruct (fst (pm_match m name ex)) as [[|]| |]; try discriminate; try assumption.
Qed.

Lemma new_pmatcher_ok p ex m : new_pmatcher p ex = Some m -> pm_ok m.
Proof.
  unfold new_pmatcher, pm_ok. destruct (compile_pattern p ex) eqn:E; try discriminate; intros H; injection H as <-; simpl; congruence.
Qed.
