(** UtilTieProofs.v — the class predicates of pkg/util/types.go (IsSliceType, IsBasicType,
    IsNamedType, IsPtr, DerefPtr, Deref), translated from the Go source on every run
    (gen/GoFuns.v, module GoUtil: a type assertion t.( *types.Slice) is the recogniser of the
    model's constructor), equal the predicates of GoTypes.v that the builder model consults. *)
From Cvg Require Import Base GoLib GoTypes GoFuns.
Import GoUtil.

Lemma is_slice_tie t : IsSliceType t = is_slice t.   Proof. destruct t; reflexivity. Qed.
Lemma is_basic_tie t : IsBasicType t = is_basic t.   Proof. destruct t; reflexivity. Qed.
Lemma is_named_tie t : IsNamedType t = is_named t.   Proof. destruct t; reflexivity. Qed.
Lemma is_ptr_tie t : IsPtr t = is_ptr t.             Proof. destruct t; reflexivity. Qed.
Lemma deref_ptr_tie t : DerefPtr t = deref_ptr t.    Proof. destruct t; reflexivity. Qed.
Lemma deref_tie t : Deref t = (deref_ptr t, is_ptr t). Proof. destruct t; reflexivity. Qed.
