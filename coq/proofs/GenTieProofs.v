(** GenTieProofs.v — the hand-written generator model (Gen.v) IS the Go code of pkg/generator.

    gen/GoFuns.v is regenerated on every run from /repo's pkg/generator/function.go,
    assignment.go, manipulator.go and pkg/generator/model/{assignment,var}.go by the
    statement-by-statement translator harness/cmd/translate/gofun.go.  This file proves, for
    every function record, that Gen.v's definitions — the ones every text theorem of
    C01/C07/C08/C10/C16 is about — compute the same bytes as the translated Go functions.
    An edit of the Go string builders changes GoFuns.v; if it changes what they compute for
    some input, one of these proofs stops going through. *)
From Coq Require Import String.
From Cvg Require Import Base GoLib GoTypes Dump Options Front Builder Gen GoFuns.
Import GoGen.
Open Scope N_scope.

(** ** the records the builder hands to the generator (pkg/builder/method.go, assignment.go
    fill model.Var, model.Manipulator, model.SimpleField{LHS: lhs.AssignExpr(), ...}, ...) *)
Definition lower_var (v : gvar) : Var_t :=
  {| Var_Name := v_name v; Var_Type := v_type v; Var_Pointer := v_pointer v; Var_External := v_external v |}.

Definition lower_manip (m : gmanip) : Manipulator_t :=
  {| Manipulator_Pkg := gm_pkg m; Manipulator_Name := gm_name m; Manipulator_IsDstPtr := gm_dst_ptr m;
     Manipulator_IsSrcPtr := gm_src_ptr m; Manipulator_HasAdditionalArgs := gm_has_args m;
     Manipulator_RetError := gm_ret_err m |}.

Fixpoint lower_assignment (a : assignment) : Assignment_t :=
  match a with
  | ASkip l => SkipField (assign_expr l)
  | ANoMatch l => NoMatchField (assign_expr l)
  | ASimple l r e => SimpleField (assign_expr l) (rhs_string r) e
  | ANest cs => NestStruct [] [] (List.map lower_assignment cs)
  | ASlice l r t => SliceAssignment (assign_expr l) (assign_expr r) t
  | ASliceLoop l r t => SliceLoopAssignment (assign_expr l) (assign_expr r) t
  | ASliceCast l r t c => SliceTypecastAssignment (assign_expr l) (assign_expr r) t c
  end.

Definition lower_function (f : function) : Function_t :=
  {| Function_Comments := fn_comments f; Function_Name := fn_name f; Function_Receiver := fn_receiver f;
     Function_Src := lower_var (fn_src f); Function_Dst := lower_var (fn_dst f);
     Function_AdditionalArgs := List.map lower_var (fn_args f);
     Function_RetError := fn_ret_err f; Function_DstVarStyle := fn_style f;
     Function_Assignments := List.map lower_assignment (fn_assignments f);
     Function_PreProcess := option_map lower_manip (fn_pre f);
     Function_PostProcess := option_map lower_manip (fn_post f) |}.

(** ** the two loop shapes the translator produces *)
Lemma fold_write {A} (g : A -> str) xs : forall sb,
  fold_left (fun sb x => sb ++ g x) xs sb = sb ++ concat_str (List.map g xs).
Proof.
  induction xs as [|x xs IH]; intros sb; cbn [fold_left List.map concat_str]; [now rewrite app_nil_r|].
  now rewrite IH, <- app_assoc.
Qed.

Lemma fold_write' {A} (f : str -> A -> str) (g : A -> str) :
  (forall sb x, f sb x = sb ++ g x) -> forall xs sb, fold_left f xs sb = sb ++ concat_str (List.map g xs).
Proof.
  intros H xs. induction xs as [|x xs IH]; intros sb; cbn [fold_left List.map concat_str]; [now rewrite app_nil_r|].
  now rewrite IH, H, <- app_assoc.
Qed.

Lemma fold_append {A B} (g : A -> B) xs : forall acc,
  fold_left (fun acc x => acc ++ [g x]) xs acc = acc ++ List.map g xs.
Proof.
  induction xs as [|x xs IH]; intros acc; cbn [fold_left List.map]; [now rewrite app_nil_r|].
  now rewrite IH, <- app_assoc.
Qed.

Ltac eval_literals :=
  repeat match goal with
         | |- context [s2b ?s] => let v := eval vm_compute in (s2b s) in change (s2b s) with v
         end.

Ltac norm := cbv zeta; rewrite <- ?app_assoc; cbn [app].

(** ** loopVars *)
Lemma index_from_nonneg s c : forall i, (0 <= i)%Z -> (go_index_byte_from s c i = -1 \/ i <= go_index_byte_from s c i)%Z.
Proof.
  induction s as [|x s IH]; intros i Hi; cbn [go_index_byte_from]; [now left|].
  destruct (x =? c); [right; lia|]. destruct (IH (i + 1)%Z ltac:(lia)) as [H|H]; [now left|right; lia].
Qed.

Lemma until_dot_index s : forall i, (0 <= i)%Z ->
  let n := go_index_byte_from s 46 i in
  until_dot s = if (n >=? 0)%Z then firstn (Z.to_nat (n - i)) s else s.
Proof.
  induction s as [|x s IH]; intros i Hi; cbn [go_index_byte_from until_dot].
  - reflexivity.
  - destruct (x =? 46) eqn:E.
    + replace (i >=? 0)%Z with true by lia. now rewrite Z.sub_diag.
    + specialize (IH (i + 1)%Z ltac:(lia)). cbv zeta in IH. rewrite IH.
      destruct (index_from_nonneg s 46 (i + 1)%Z ltac:(lia)) as [H|H].
      * rewrite H. reflexivity.
      * replace (go_index_byte_from s 46 (i + 1) >=? 0)%Z with true by lia.
        replace (Z.to_nat (go_index_byte_from s 46 (i + 1) - i)) with (S (Z.to_nat (go_index_byte_from s 46 (i + 1) - (i + 1)))) by lia.
        reflexivity.
Qed.

Lemma loopVars_tie lhs : loopVars lhs = loop_vars lhs.
Proof.
  unfold loopVars, loop_vars. cbv zeta. eval_literals.
  pose proof (until_dot_index lhs 0%Z ltac:(lia)) as H. cbv zeta in H. rewrite Z.sub_0_r in H.
  fold (go_index_byte lhs 46) in H. rewrite H.
  destruct (go_index_byte lhs 46 >=? 0)%Z; reflexivity.
Qed.

(** ** Assignment.String(), Assignment.RetError() *)
Lemma assignment_string_tie : forall a, Assignment_String (lower_assignment a) = assignment_string a.
Proof.
  fix IH 1. intros a.
  destruct a as [l|l|l r e|cs|l r t|l r t|l r t c]; cbn [lower_assignment Assignment_String assignment_string].
  - eval_literals. unfold nl. norm. reflexivity.
  - eval_literals. unfold nl. norm. reflexivity.
  - eval_literals. unfold nl. destruct e; norm; reflexivity.
  - cbn [str_eqb negb]. cbv zeta. rewrite fold_write. cbn [app]. rewrite map_map.
    induction cs as [|c cs IHcs]; [reflexivity|].
    cbn [List.map concat_str]. now rewrite IH, IHcs.
  - eval_literals. unfold nl. norm. reflexivity.
  - rewrite loopVars_tie. destruct (loop_vars (assign_expr l)) as [iv ev]. eval_literals. unfold nl. norm. reflexivity.
  - rewrite loopVars_tie. destruct (loop_vars (assign_expr l)) as [iv ev]. eval_literals. unfold nl. norm. reflexivity.
Qed.

Lemma assignment_ret_error_tie a : Assignment_RetError (lower_assignment a) = assignment_ret_error a.
Proof. destruct a; reflexivity. Qed.

(** ** generator.AssignmentToString *)
Lemma lower_style f : Function_DstVarStyle (lower_function f) = fn_style f.
Proof. reflexivity. Qed.

Lemma assignment_to_string_tie f : forall a,
  AssignmentToString (lower_function f) (lower_assignment a) = assignment_to_string f a.
Proof.
  fix IH 1. intros a.
  destruct a as [l|l|l r e|cs|l r t|l r t|l r t c];
    try (cbn [lower_assignment AssignmentToString assignment_to_string Assignment_RetError assignment_ret_error];
         cbv zeta; cbn [app]; rewrite <- assignment_string_tie; cbn [lower_assignment]; rewrite ?app_nil_r; reflexivity).
  - (* SimpleField *)
    cbn [lower_assignment AssignmentToString assignment_to_string Assignment_RetError assignment_ret_error].
    cbv zeta. cbn [app]. rewrite <- assignment_string_tie. cbn [lower_assignment].
    destruct e; [|now rewrite app_nil_r].
    unfold err_check. cbn [lower_function Function_DstVarStyle Function_Dst lower_var Var_Pointer].
    unfold style_return. eval_literals. unfold nl.
    destruct (str_eqb (fn_style f) _ && v_pointer (fn_dst f)); reflexivity.
  - (* NestStruct *)
    cbn [lower_assignment AssignmentToString assignment_to_string]. cbn [str_eqb negb]. cbv zeta.
    rewrite fold_write. cbn [app]. rewrite map_map.
    induction cs as [|c cs IHcs]; [reflexivity|].
    cbn [List.map concat_str]. now rewrite IH, IHcs.
Qed.

(** ** generator.ManipulatorToString *)
Lemma manipulator_to_string_tie m src dst args :
  ManipulatorToString (lower_manip m) (lower_var src) (lower_var dst) (List.map lower_var args)
  = manipulator_to_string m src dst args.
Proof.
  unfold ManipulatorToString, manipulator_to_string, hook_call_text, hook_err_check.
  cbn [lower_manip lower_var Manipulator_RetError Manipulator_Pkg Manipulator_Name Manipulator_IsDstPtr
       Manipulator_IsSrcPtr Manipulator_HasAdditionalArgs Var_Pointer Var_Name].
  cbv zeta. rewrite (fold_write' _ (fun arg => [44; 32] ++ Var_Name arg)) by (intros; now rewrite <- app_assoc).
  rewrite map_map. cbn [lower_var Var_Name].
  eval_literals. unfold nl.
  destruct (gm_ret_err m), (gm_pkg m) as [|p0 pk], (v_pointer dst), (gm_dst_ptr m), (v_pointer src), (gm_src_ptr m), (gm_has_args m);
    cbn [str_eqb negb Bool.eqb]; rewrite <- ?app_assoc; cbn [app]; rewrite ?app_nil_r, <- ?app_assoc; reflexivity.
Qed.

(** ** generator.FuncToString *)
Lemma full_type_tie v : Var_FullType (lower_var v) = full_type v.
Proof. unfold Var_FullType, full_type. cbn [lower_var Var_Pointer Var_Type]. destruct (v_pointer v); reflexivity. Qed.

Lemma hook_dst_tie f :
  (if str_eqb (fn_style f) style_arg
   then {| Var_Name := Var_Name (lower_var (fn_dst f)); Var_Type := Var_Type (lower_var (fn_dst f));
           Var_Pointer := true; Var_External := Var_External (lower_var (fn_dst f)) |}
   else lower_var (fn_dst f)) = lower_var (hook_dst f).
Proof. unfold hook_dst. destruct (str_eqb (fn_style f) style_arg); reflexivity. Qed.

Lemma params_tie f :
  fold_left (fun params args => params ++ [(Var_Name args ++ [32]) ++ Var_FullType args]) (List.map lower_var (fn_args f))
    ((if str_eqb (fn_style f) style_arg then [] ++ [(v_name (fn_dst f) ++ [32; 42]) ++ v_type (fn_dst f)] else []) ++
     (if str_eqb (fn_receiver f) [] then [(v_name (fn_src f) ++ [32]) ++ full_type (fn_src f)] else []))
  = func_params f.
Proof.
  unfold func_params.
  rewrite (fold_append (fun args => (Var_Name args ++ [32]) ++ Var_FullType args)), map_map.
  rewrite <- app_assoc. f_equal.
  - destruct (str_eqb (fn_style f) style_arg); [|reflexivity]. cbn [app]. eval_literals. now rewrite <- app_assoc.
  - f_equal.
    + destruct (fn_receiver f); cbn [str_eqb]; [|reflexivity]. now rewrite <- app_assoc.
    + apply map_ext. intros a. rewrite full_type_tie. cbn [lower_var Var_Name]. now rewrite <- app_assoc.
Qed.

Theorem func_to_string_tie f : FuncToString (lower_function f) = func_to_string f.
Proof.
  unfold FuncToString, func_to_string, func_header.
  cbn [lower_function Function_Comments Function_Name Function_Receiver Function_Src Function_Dst
       Function_AdditionalArgs Function_RetError Function_DstVarStyle Function_Assignments
       Function_PreProcess Function_PostProcess].
  cbv zeta.
  rewrite (fold_write' _ (fun x => x ++ [10])) by (intros; now rewrite <- app_assoc).
  rewrite (fold_write (AssignmentToString (lower_function f))), map_map.
  rewrite (map_ext _ _ (assignment_to_string_tie f)).
  rewrite !full_type_tie. unfold Var_PtrLessFullType. cbn [lower_var Var_Name Var_Type Var_Pointer].
  change [97; 114; 103] with style_arg. change [114; 101; 116; 117; 114; 110] with style_return.
  (* the parameter list *)
  assert (Hp := params_tie f).
  set (ps := func_params f) in *.
  match goal with
  | |- context [join_str _ ?p] =>
      replace p with ps
        by (rewrite <- Hp; f_equal; destruct (str_eqb (fn_style f) style_arg), (str_eqb (fn_receiver f) []); reflexivity)
  end.
  (* the hooks *)
  rewrite hook_dst_tie.
  eval_literals. unfold nl.
  destruct (fn_pre f) as [pre|], (fn_post f) as [post|]; cbn [option_map]; rewrite ?manipulator_to_string_tie;
  destruct (fn_receiver f) as [|r0 rs]; cbn [str_eqb negb];
  destruct (str_eqb (fn_style f) style_return), (fn_ret_err f), (v_pointer (fn_dst f));
  cbn [orb andb]; rewrite <- ?app_assoc; cbn [app]; rewrite ?app_nil_r, <- ?app_assoc; cbn [app]; reflexivity.
Qed.
