(** TypedProofs.v — the typing side-conditions hold for EVERY entry structToStruct returns, at
    any nesting depth (C01): each assignment's right-hand side is the literal the user wrote, or
    an expression that castNode fitted to the assigned field's type (assignable as it stands, a
    String() call opted in, or a conversion opted in between convertible types), and each slice
    block copies between element types that are identical and basic (copy), assignable (loop)
    or convertible under :typecast (converting loop). *)
From Coq Require Import String.
From Cvg Require Import Base GoTypes Re Unicode Matcher Dump Options Front Builder.
From Cvg.proofs Require Import BuilderProofs.
Open Scope N_scope.

Section Typed.
  Variable d : dump.
  Variable o : options.
  Variable mpos : position.
  Let E := d_env d.

  Inductive typed_entry : assignment -> Prop :=
  | TESkip l : typed_entry (ASkip l)
  | TENoMatch l : typed_entry (ANoMatch l)
  | TESimple l src n e : cast_shape d o src (expr_type l) n -> typed_entry (ASimple l (RNode n) e)
  | TELiteral l t e : typed_entry (ASimple l (RLiteral t) e)
  | TENest cs : Forall typed_entry cs -> typed_entry (ANest cs)
  | TESlice l r t le re :
      slice_elem (expr_type l) = Some le -> slice_elem (expr_type r) = Some re ->
      assignable E re le = true -> is_basic re = true -> identical false le re = true ->
      typed_entry (ASlice l r t)
  | TESliceLoop l r t le re :
      slice_elem (expr_type l) = Some le -> slice_elem (expr_type r) = Some re ->
      assignable E re le = true -> typed_entry (ASliceLoop l r t)
  | TESliceCast l r t c le re :
      slice_elem (expr_type l) = Some le -> slice_elem (expr_type r) = Some re ->
      o_typecast o = true -> convertible E re le = true -> typed_entry (ASliceCast l r t c).

  Definition otyped (a : option assignment) : Prop := match a with Some x => typed_entry x | None => True end.

  Lemma slice_to_slice_typed lhs r a ev :
    slice_to_slice d o lhs r = (Ok (Some a), ev) -> typed_entry a.
  Proof.
    unfold slice_to_slice.
    destruct (slice_elem (expr_type lhs)) as [le|] eqn:El; [|intros H; apply ret_ok in H as [H _]; discriminate].
    destruct (slice_elem (expr_type r)) as [re|] eqn:Er; [|intros H; apply ret_ok in H as [H _]; discriminate].
    fold E. destruct (assignable E re le) eqn:Ea.
    - destruct (is_basic re && identical false le re) eqn:Eb.
      + intros H. apply ret_ok in H as [H _]. injection H as <-. apply andb_true_iff in Eb as [E1 E2].
        eapply TESlice; eassumption.
      + intros H. apply rbind_ok in H as (tn & e1 & e2 & _ & H & _). apply ret_ok in H as [H _]. injection H as <-.
        eapply TESliceLoop; eassumption.
    - destruct (o_typecast o && convertible E re le) eqn:Et.
      + intros H. apply rbind_ok in H as (tn & e1 & e2 & _ & H & _). apply ret_ok in H as [H _]. injection H as <-.
        apply andb_true_iff in Et as [E1 E2]. eapply TESliceCast; eassumption.
      + intros H. apply ret_ok in H as [H _]. discriminate.
  Qed.

  Lemma create_with_converter_typed lhs rhs c a ev :
    create_with_converter d o mpos lhs rhs c = (Ok a, ev) -> typed_entry a.
  Proof.
    intros H. destruct (create_with_converter_shape d o mpos _ _ _ _ _ H) as [->|(src & arg & n & _ & _ & _ & -> & Hn)].
    - constructor.
    - econstructor. exact Hn.
  Qed.

  Lemma create_with_mapper_typed lhs rhs m a ev :
    create_with_mapper d o mpos lhs rhs m = (Ok a, ev) -> typed_entry a.
  Proof.
    intros H. destruct (create_with_mapper_shape d o mpos _ _ _ _ _ H) as [->|(src & n & _ & -> & Hn)].
    - constructor.
    - econstructor. exact Hn.
  Qed.

  Lemma create_with_templated_typed lhs rhs args m a ev :
    create_with_templated d o mpos lhs rhs args m = (Ok a, ev) -> typed_entry a.
  Proof.
    unfold create_with_templated. intros H.
    apply rbind_ok in H as (mn & e1 & e2 & Hm & H & _).
    destruct mn as [n|].
    - apply ret_ok in H as [<- _].
      destruct (resolve_templated d (nm_src m) (rhs :: args)) as [rn|]; [|apply ret_ok in Hm as [Hm _]; discriminate].
      econstructor. eapply cast_node_shape. exact Hm.
    - apply no_match_warn_shape in H as ->. constructor.
  Qed.

  Definition ptyped (r : pass_result) : Prop :=
    match r with PDone (Some a) _ => typed_entry a | _ => True end.

  Lemma name_pass_typed s2s lhs R :
    (forall l r cs ev, s2s l r = (Ok cs, ev) -> Forall typed_entry cs) ->
    forall cands res ev, name_pass d o mpos s2s lhs R cands = (Ok res, ev) -> ptyped res.
  Proof.
    intros Hs. induction cands as [|r cands IH]; intros res ev H; cbn [name_pass] in H.
    - apply ret_ok in H as [<- _]. exact I.
    - destruct (negb (is_field_accessible d R (obj_name r)) || negb (compare_field_name o (obj_name lhs) (obj_name r))).
      { eapply IH; eassumption. }
      apply rbind_ok in H as (sl & e1 & e2 & Hsl & H & _).
      destruct sl as [a|].
      + apply ret_ok in H as [<- _]. cbn [ptyped].
        destruct (is_slice (expr_type lhs) && is_slice (expr_type r)).
        * eapply slice_to_slice_typed; eassumption.
        * apply ret_ok in Hsl as [Hsl _]. discriminate.
      + apply rbind_ok in H as (c & e3 & e4 & Hc & H & _).
        destruct c as [cn|].
        * apply ret_ok in H as [<- _]. cbn [ptyped]. econstructor. eapply cast_node_shape. exact Hc.
        * destruct (is_struct_type (d_env d) (expr_type lhs) && is_struct_type (d_env d) (expr_type r)).
          -- apply rbind_ok in H as (cs & e5 & e6 & Hcs & H & _).
             apply ret_ok in H as [<- _]. specialize (Hs _ _ _ _ Hcs).
             destruct cs as [|c0 cs]; cbn [ptyped]; [exact I|]. now constructor.
          -- apply ret_ok in H as [<- _]. exact I.
  Qed.

  Lemma name_match_with_typed s2s lhs R a ev :
    (forall l r cs ev, s2s l r = (Ok cs, ev) -> Forall typed_entry cs) ->
    name_match_with d o mpos s2s lhs R = (Ok a, ev) -> otyped a.
  Proof.
    intros Hs H. unfold name_match_with in H.
    apply rbind_ok in H as (g & e1 & e2 & Hg & H & _).
    assert (Pg : ptyped g).
    { destruct (o_getter o); [eapply name_pass_typed; eassumption|apply ret_ok in Hg as [<- _]; exact I]. }
    assert (Fin : forall (b : bool) ev', (if b then ret None else doR x <- no_match_warn d mpos lhs; ret (Some x)) = (Ok a, ev') -> otyped a).
    { intros b ev' H'. destruct b.
      - apply ret_ok in H' as [<- _]. exact I.
      - apply rbind_ok in H' as (x & e5 & e6 & Hx & H' & _).
        apply ret_ok in H' as [<- _]. apply no_match_warn_shape in Hx as ->. constructor. }
    destruct g as [|[ga|] gn]; cbn [fst snd] in H.
    - apply rbind_ok in H as (f & e3 & e4 & Hf & H & _).
      assert (Pf : ptyped f).
      { destruct (str_eqb (o_rule o) rule_name); [eapply name_pass_typed; eassumption|apply ret_ok in Hf as [<- _]; exact I]. }
      destruct f as [|[fa|] fn]; cbn [fst snd] in H; [eapply Fin; exact H|apply ret_ok in H as [<- _]; exact Pf|eapply Fin; exact H].
    - apply ret_ok in H as [<- _]. exact Pg.
    - apply rbind_ok in H as (f & e3 & e4 & Hf & H & _).
      assert (Pf : ptyped f).
      { destruct (str_eqb (o_rule o) rule_name); [eapply name_pass_typed; eassumption|apply ret_ok in Hf as [<- _]; exact I]. }
      destruct f as [|[fa|] fn]; cbn [fst snd] in H; [eapply Fin; exact H|apply ret_ok in H as [<- _]; exact Pf|eapply Fin; exact H].
  Qed.

  Lemma match_field_with_typed nm lhs rhs args a ev :
    (forall l r x ev, nm l r = (Ok x, ev) -> otyped x) ->
    match_field_with d o mpos nm lhs rhs args = (Ok a, ev) -> otyped a.
  Proof.
    intros Hnm H. unfold match_field_with in H.
    destruct (should_skip (o_skip o) (matcher_expr lhs) (o_exact o)) as [[|]| |]; try discriminate.
    { apply ret_ok in H as [<- _]. constructor. }
    destruct (find _ (o_conv o)) as [c|].
    { apply rbind_ok in H as (x & e1 & e2 & Hx & H & _). apply ret_ok in H as [<- _].
      eapply create_with_converter_typed; eassumption. }
    destruct (find _ (o_map o)) as [m|].
    { apply rbind_ok in H as (x & e1 & e2 & Hx & H & _). apply ret_ok in H as [<- _].
      eapply create_with_mapper_typed; eassumption. }
    destruct (find _ (o_tmap o)) as [m|].
    { apply rbind_ok in H as (x & e1 & e2 & Hx & H & _). apply ret_ok in H as [<- _].
      eapply create_with_templated_typed; eassumption. }
    destruct (find _ (o_lit o)) as [l|].
    { apply ret_ok in H as [<- _]. constructor. }
    eapply Hnm; eassumption.
  Qed.

  Lemma fields_loop_typed mf L :
    (forall lf a ev, mf lf = (Ok a, ev) -> otyped a) ->
    forall fs l ev, fields_loop d mf L fs = (Ok l, ev) -> Forall typed_entry l.
  Proof.
    intros Hmf. induction fs as [|f fs IH]; intros l ev H; cbn [fields_loop] in H.
    - apply ret_ok in H as [<- _]. constructor.
    - destruct (negb (is_field_accessible d L (obj_name f))).
      + eapply IH; eassumption.
      + apply rbind_ok in H as (a & e1 & e2 & Ha & H & _).
        apply rbind_ok in H as (rest & e3 & e4 & Hr & H & _).
        apply ret_ok in H as [<- _].
        specialize (Hmf _ _ _ Ha). specialize (IH _ _ Hr).
        destruct a as [x|]; [constructor; assumption|assumption].
  Qed.

  Theorem struct_to_struct_typed fuel : forall L R args l ev,
    struct_to_struct d o mpos fuel L R args = (Ok l, ev) -> Forall typed_entry l.
  Proof.
    induction fuel as [|fuel IH]; intros L R args l ev H; cbn [struct_to_struct] in H; [discriminate|].
    eapply fields_loop_typed; [|eassumption].
    intros lf a ev' Hlf. cbv beta in Hlf. eapply match_field_with_typed; [|exact Hlf].
    intros l0 r0 x ev0 Hnm. cbv beta in Hnm. eapply name_match_with_typed; [|exact Hnm].
    intros l1 r1 cs ev1 Hs. cbv beta in Hs. eapply IH; exact Hs.
  Qed.
End Typed.

(** ** structToStruct's result is, field by field, what the precedence chain answered *)
Section Decided.
  Variable d : dump.
  Variable o : options.
  Variable mpos : position.

  Definition opt_list {A} (x : option A) : list A := match x with Some a => [a] | None => [] end.

  Lemma fields_loop_spec mf L : forall fs l ev,
    fields_loop d mf L fs = (Ok l, ev) ->
    exists rs, Forall2 (fun lf r => exists e, mf lf = (Ok r, e))
                 (List.filter (fun f => is_field_accessible d L (obj_name f)) fs) rs /\
               l = flat_map opt_list rs.
  Proof.
    induction fs as [|f fs IH]; intros l ev H; cbn [fields_loop] in H.
    - apply ret_ok in H as [<- _]. exists []. split; constructor.
    - cbn [List.filter]. destruct (is_field_accessible d L (obj_name f)); cbn [negb] in H.
      + apply rbind_ok in H as (a & e1 & e2 & Ha & H & _).
        apply rbind_ok in H as (rest & e3 & e4 & Hr & H & _).
        apply ret_ok in H as [<- _]. destruct (IH _ _ Hr) as (rs & Hf & ->).
        exists (a :: rs). split; [constructor; [eauto|exact Hf]|]. destruct a; reflexivity.
      + exact (IH _ _ H).
  Qed.

  (** every accessible field of the destination gets exactly the answer of matchStructFieldAndStruct
      (skip > :conv > :map > $-map > :literal > name match) for it, in field order *)
  Theorem struct_to_struct_decided fuel L R args l ev :
    struct_to_struct d o mpos (S fuel) L R args = (Ok l, ev) ->
    exists rs, Forall2 (fun lf r => exists e, match_field d o mpos fuel lf R args = (Ok r, e))
                 (List.filter (fun f => is_field_accessible d L (obj_name f)) (field_nodes d L)) rs /\
               l = flat_map opt_list rs.
  Proof. cbn [struct_to_struct]. intros H. exact (fields_loop_spec _ _ _ _ _ H). Qed.
End Decided.
