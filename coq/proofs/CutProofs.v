(** CutProofs.v — the law of the regexp cut of GenerateBaseCode: in a printed text in
    which the marker occurs exactly twice, everything from the start of the line of the
    first occurrence through the second occurrence is replaced by the marker, whatever
    lies between them (one line or many), and nothing else changes. *)
From Coq Require Import String Lia.
From Cvg Require Import Base GoTypes Re Unicode Matcher Dump Options Front Builder Gen Pipeline BaseCode.
From Cvg.proofs Require Import BaseCodeProofs.
Open Scope nat_scope.

Definition occ (m s : str) (k : nat) : bool := is_prefix m (skipn k s).

Lemma skipn_add {A} (j k : nat) : forall (s : list A), skipn j (skipn k s) = skipn (k + j) s.
Proof. induction k as [|k IH]; intros s; [reflexivity|]. destruct s; [now rewrite !skipn_nil|]. apply IH. Qed.

Lemma occ_skipn m s k j : occ m (skipn k s) j = occ m s (k + j).
Proof. unfold occ. now rewrite skipn_add. Qed.

Lemma occ_beyond m s k : m <> [] -> List.length s <= k -> occ m s k = false.
Proof. intros Hm Hk. unfold occ. rewrite skipn_all2 by exact Hk. destruct m; [contradiction|reflexivity]. Qed.

Lemma occ_app_l m a b k : k = List.length a -> occ m (a ++ m ++ b) k = true.
Proof. intros ->. unfold occ. rewrite skipn_app, skipn_all, Nat.sub_diag. simpl. apply is_prefix_app. Qed.

(** ** occs_within, find_from, line_len *)
Lemma occs_within_In m : forall n s i p,
  In p (occs_within m s n i) <-> exists j, j < n /\ j < List.length s /\ p = i + j /\ occ m s j = true.
Proof.
  induction n as [|n IH]; intros s i p; cbn [occs_within].
  - destruct s; simpl; (split; [intros H; destruct H|intros (j & Hj & _); lia]).
  - destruct s as [|c s'].
    + simpl. split; [intros H; destruct H|intros (j & _ & Hj & _); simpl in Hj; lia].
    + cbn [occs_within]. rewrite in_app_iff, IH. split.
      * intros [H|(j & Hj & Hl & -> & Ho)].
        -- destruct (is_prefix m (c :: s')) eqn:E; [|destruct H]. destruct H as [<-|[]].
           exists 0. repeat split; try lia; [simpl; lia|exact E].
        -- exists (S j). repeat split; try lia; [simpl; lia|exact Ho].
      * intros (j & Hj & Hl & -> & Ho). destruct j as [|j].
        -- left. unfold occ in Ho. simpl in Ho. rewrite Ho. left. lia.
        -- right. exists j. repeat split; try lia; [simpl in Hl; lia|exact Ho].
Qed.

Lemma find_from_none m : m <> [] -> forall s i, find_from m s i = None <-> (forall j, occ m s j = false).
Proof.
  intros Hm. induction s as [|c s IH]; intros i; cbn [find_from].
  - destruct m as [|x m']; [contradiction|]. split; [|reflexivity].
    intros _ j. apply occ_beyond; [discriminate|simpl; lia].
  - destruct (is_prefix m (c :: s)) eqn:E.
    + split; [discriminate|]. intros H. specialize (H 0). unfold occ in H. simpl in H. congruence.
    + rewrite IH. split.
      * intros H [|j]; [exact E|]. apply (H j).
      * intros H j. apply (H (S j)).
Qed.

Lemma find_from_some m : forall s i r, find_from m s i = Some r ->
  exists j, r = i + j /\ occ m s j = true /\ forall j', j' < j -> occ m s j' = false.
Proof.
  induction s as [|c s IH]; intros i r; cbn [find_from].
  - destruct m; [|discriminate]. intros H. injection H as <-. exists 0. repeat split; [lia|intros; lia].
  - destruct (is_prefix m (c :: s)) eqn:E.
    + intros H. injection H as <-. exists 0. repeat split; [lia|exact E|intros; lia].
    + intros H. destruct (IH _ _ H) as (j & -> & Ho & Hmin). exists (S j). repeat split; [lia|exact Ho|].
      intros [|j'] Hj; [exact E|]. apply Hmin. lia.
Qed.

Definition no_nl (s : str) : Prop := forall c, In c s -> c <> 10%N.

Lemma line_len_app a b : no_nl a -> line_len (a ++ b) = List.length a + line_len b.
Proof.
  induction a as [|c a IH]; intros H; [reflexivity|]. cbn [app line_len List.length].
  destruct (N.eqb_spec c 10) as [->|_]; [exfalso; apply (H 10%N); [now left|reflexivity]|].
  rewrite IH; [reflexivity|]. intros x Hx. apply H. now right.
Qed.

Lemma line_len_le s : line_len s <= List.length s.
Proof. induction s as [|c s IH]; simpl; [lia|]. destruct (c =? 10)%N; lia. Qed.

Lemma line_len_nl a b : line_len (a ++ 10%N :: b) <= List.length a.
Proof. induction a as [|c a IH]; simpl; [lia|]. destruct (c =? 10)%N; lia. Qed.

(** ** first_some *)
Lemma first_some_none f l : (forall p, In p l -> f p = None) -> first_some f l = None.
Proof. induction l as [|p l IH]; intros H; simpl; [reflexivity|]. rewrite (H p (or_introl eq_refl)). apply IH. intros q Hq. apply H. now right. Qed.

Lemma first_some_same f l e :
  (forall p, In p l -> f p = None \/ f p = Some e) -> (exists p, In p l /\ f p = Some e) ->
  first_some f l = Some e.
Proof.
  induction l as [|p l IH]; intros Hall (q & Hq & Hf); [destruct Hq|]. simpl.
  destruct (Hall p (or_introl eq_refl)) as [Hn|Hs]; rewrite ?Hs; [|reflexivity]. rewrite Hn.
  apply IH; [intros x Hx; apply Hall; now right|].
  destruct Hq as [<-|Hq]; [congruence|]. exists q. auto.
Qed.

(** ** match_here *)
Lemma match_here_none m s :
  (forall j, 1 <= j -> j < line_len s -> occ m s j = false) -> match_here m s = None.
Proof.
  intros H. unfold match_here. apply first_some_none. intros p Hp.
  apply in_rev, filter_In in Hp as [Hp H1]. apply Nat.leb_le in H1.
  apply occs_within_In in Hp as (j & Hj & _ & -> & Ho). simpl in H1. rewrite H in Ho; [discriminate|lia|exact Hj].
Qed.

Section Cut.
  Variables m L X post : str.
  Hypothesis Hm : m <> [].
  Hypothesis Hm_nl : no_nl m.
  Hypothesis HL : L <> [].
  Hypothesis HL_nl : no_nl L.

  Let lenL := List.length L.
  Let lenM := List.length m.
  Let lenX := List.length X.
  Let s0 := L ++ m ++ X ++ m ++ post.
  Let second := lenL + lenM + lenX.

  (** the marker occurs exactly twice *)
  Hypothesis Honly : forall j, occ m s0 j = true -> j = lenL \/ j = second.

  Lemma skip_first : skipn (lenL + lenM) s0 = X ++ m ++ post.
  Proof.
    unfold s0, lenL, lenM. rewrite <- skipn_add. rewrite skipn_app, skipn_all, Nat.sub_diag. simpl.
    rewrite skipn_app, skipn_all, Nat.sub_diag. reflexivity.
  Qed.

  Lemma skip_second : skipn (second + lenM) s0 = post.
  Proof.
    unfold second. replace (lenL + lenM + lenX + lenM) with ((lenL + lenM) + (lenX + lenM)) by lia.
    rewrite <- skipn_add, skip_first. unfold lenX, lenM. rewrite <- skipn_add.
    rewrite skipn_app, skipn_all, Nat.sub_diag. simpl.
    rewrite skipn_app, skipn_all, Nat.sub_diag. reflexivity.
  Qed.

  Lemma occ_first : occ m s0 lenL = true.
  Proof. unfold s0. apply occ_app_l. reflexivity. Qed.

  Lemma occ_second : occ m s0 second = true.
  Proof.
    unfold s0. replace (L ++ m ++ X ++ m ++ post) with ((L ++ m ++ X) ++ m ++ post) by now rewrite <- !app_assoc.
    apply occ_app_l. unfold second, lenL, lenM, lenX. rewrite !app_length. lia.
  Qed.

  Lemma lenM_pos : 0 < lenM.
  Proof. unfold lenM. destruct m; [contradiction|simpl; lia]. Qed.
  Lemma lenL_pos : 0 < lenL.
  Proof. unfold lenL. destruct L; [contradiction|simpl; lia]. Qed.

  Lemma post_no_occ : forall j, occ m post j = false.
  Proof.
    intros j. rewrite <- skip_second, occ_skipn.
    destruct (occ m s0 (second + lenM + j)) eqn:E; [|reflexivity].
    pose proof lenM_pos. destruct (Honly _ E); unfold second in *; lia.
  Qed.

  Definition match_len := second + lenM.

  Lemma try_end_second : try_end m s0 second = None.
  Proof.
    unfold try_end. fold lenM. rewrite skip_second.
    assert (E : find_from m (skipn (line_len post) post) 0 = None).
    { apply find_from_none; [exact Hm|]. intros j. rewrite occ_skipn. apply post_no_occ. }
    rewrite E.
    destruct (occs_within m post (S (line_len post)) 0) as [|x l] eqn:Eo; [reflexivity|].
    assert (Hin : In x (occs_within m post (S (line_len post)) 0)) by (rewrite Eo; now left).
    apply occs_within_In in Hin as (j & _ & _ & _ & Ho). now rewrite post_no_occ in Ho.
  Qed.

  Lemma rest_occ j : occ m (X ++ m ++ post) j = true -> j = lenX.
  Proof.
    rewrite <- skip_first, occ_skipn. intros E. pose proof lenM_pos. pose proof lenL_pos.
    destruct (Honly _ E); unfold second in *; lia.
  Qed.

  Lemma try_end_first : try_end m s0 lenL = Some match_len.
  Proof.
    unfold try_end. fold lenM. rewrite skip_first. set (r := X ++ m ++ post). set (rl := line_len r).
    assert (Hx : occ m r lenX = true) by (unfold r; apply occ_app_l; reflexivity).
    destruct (find_from m (skipn rl r) 0) as [k|] eqn:Ef.
    - apply find_from_some in Ef as (j & -> & Ho & _). rewrite occ_skipn in Ho.
      apply rest_occ in Ho. unfold match_len, second. f_equal; simpl; lia.
    - assert (Hlt : lenX < rl).
      { destruct (Nat.lt_ge_cases lenX rl) as [H|H]; [exact H|exfalso].
        pose proof (proj1 (find_from_none m Hm (skipn rl r) 0) Ef (lenX - rl)) as Hn.
        rewrite occ_skipn in Hn. replace (rl + (lenX - rl)) with lenX in Hn by lia. congruence. }
      assert (Hin : In lenX (occs_within m r (S rl) 0)).
      { apply occs_within_In. exists lenX. repeat split; [lia| |exact Hx].
        unfold r, lenX. rewrite !app_length. pose proof lenM_pos. unfold lenM in *. lia. }
      assert (Hall : forall x, In x (occs_within m r (S rl) 0) -> x = lenX).
      { intros x Hx'. apply occs_within_In in Hx' as (j & _ & _ & -> & Ho). apply rest_occ in Ho. lia. }
      destruct (rev (occs_within m r (S rl) 0)) as [|last l] eqn:Er.
      + apply in_rev in Hin. rewrite Er in Hin. destruct Hin.
      + assert (Hl : In last (occs_within m r (S rl) 0)) by (apply in_rev; rewrite Er; now left).
        rewrite (Hall _ Hl). unfold match_len, second. f_equal; lia.
  Qed.

  (** at the start of the line of the first marker the regexp matches through the second marker *)
  Lemma match_here_marker_line : match_here m s0 = Some match_len.
  Proof.
    unfold match_here. apply first_some_same.
    - intros p Hp. apply in_rev, filter_In in Hp as [Hp _].
      apply occs_within_In in Hp as (j & _ & _ & -> & Ho). simpl.
      destruct (Honly _ Ho) as [->| ->]; [right; apply try_end_first|left; apply try_end_second].
    - exists lenL. split; [|apply try_end_first].
      apply in_rev. rewrite rev_involutive. apply filter_In. split.
      + apply occs_within_In. exists lenL. repeat split; [| |exact occ_first].
        * unfold s0. rewrite line_len_app by exact HL_nl. rewrite line_len_app by exact Hm_nl.
          pose proof lenM_pos. fold lenL lenM. lia.
        * unfold s0, lenL. rewrite !app_length. pose proof lenM_pos. unfold lenM in *. lia.
      + apply Nat.leb_le. apply lenL_pos.
  Qed.
End Cut.

(** ** cut *)
Lemma cut_aux_id m : forall f s, (forall k, match_here m (skipn k s) = None) -> cut_aux f m s = s.
Proof.
  induction f as [|f IH]; intros s H; [reflexivity|]. destruct s as [|c s']; [reflexivity|].
  cbn [cut_aux]. pose proof (H 0) as H0. cbn [skipn] in H0. rewrite H0. f_equal.
  apply IH. intros k. apply (H (S k)).
Qed.

Lemma cut_aux_prefix m : forall pre f s,
  (forall k, k < List.length pre -> match_here m (skipn k (pre ++ s)) = None) ->
  cut_aux (List.length pre + f) m (pre ++ s) = pre ++ cut_aux f m s.
Proof.
  induction pre as [|c pre IH]; intros f s H; [reflexivity|].
  cbn [List.length Nat.add app cut_aux]. pose proof (H 0 (Nat.lt_0_succ _)) as H0. cbn [skipn app] in H0.
  rewrite H0. f_equal. apply IH. intros k Hk. apply (H (S k)). simpl. lia.
Qed.

Lemma cut_aux_step m f s len :
  s <> [] -> match_here m s = Some len -> cut_aux (S f) m s = m ++ cut_aux f m (skipn len s).
Proof. intros Hs H. destruct s as [|c s']; [contradiction|]. cbn [cut_aux]. now rewrite H. Qed.

(** The law. [text] is the printed file: [pre] ends a line (or is empty), the line of the
    first marker starts with the non-empty [L] (the regexp's .+), [X] is everything between
    the two markers (the rest of that line and any number of further lines, or nothing),
    and the marker occurs nowhere else. *)
Theorem cut_law m pre L X post :
  m <> [] -> no_nl m -> L <> [] -> no_nl L ->
  (pre = [] \/ exists p, pre = p ++ [10%N]) ->
  (forall k, occ m (pre ++ L ++ m ++ X ++ m ++ post) k = true ->
             k = List.length pre + List.length L \/
             k = List.length pre + (List.length L + List.length m + List.length X)) ->
  cut m (pre ++ L ++ m ++ X ++ m ++ post) = pre ++ m ++ post.
Proof.
  intros Hm Hmnl HL HLnl Hpre Honly.
  set (s0 := L ++ m ++ X ++ m ++ post) in *.
  assert (Honly0 : forall j, occ m s0 j = true ->
            j = List.length L \/ j = List.length L + List.length m + List.length X).
  { intros j Hj. destruct (Honly (List.length pre + j)) as [H|H]; [|lia|lia].
    unfold occ in *. rewrite skipn_app, skipn_all2 by lia.
    replace (List.length pre + j - List.length pre) with j by lia. exact Hj. }
  unfold cut. rewrite app_length. replace (S (List.length pre + List.length s0)) with (List.length pre + S (List.length s0)) by lia.
  rewrite cut_aux_prefix.
  - f_equal.
    rewrite (cut_aux_step m _ s0 (match_len m L X)).
    + f_equal. unfold match_len, s0. rewrite (skip_second m L X post). apply cut_aux_id. intros k.
      apply match_here_none. intros j _ _. rewrite occ_skipn.
      eapply (post_no_occ m L X post); eassumption.
    + unfold s0. destruct L; [contradiction|discriminate].
    + apply (match_here_marker_line m L X post); assumption.
  - intros k Hk. apply match_here_none. intros j Hj1 Hj2. rewrite occ_skipn.
    destruct (occ m (pre ++ s0) (k + j)) eqn:E; [exfalso|reflexivity].
    destruct Hpre as [->|(p & ->)]; [simpl in Hk; lia|].
    rewrite app_length in Hk. simpl in Hk.
    rewrite <- app_assoc in Hj2. cbn [app] in Hj2.
    rewrite skipn_app in Hj2. replace (k - List.length p) with 0 in Hj2 by lia. cbn [skipn] in Hj2.
    pose proof (line_len_nl (skipn k p) s0) as Hle. rewrite skipn_length in Hle.
    assert (Hl : 0 < List.length L) by (destruct L; [contradiction|simpl; lia]).
    destruct (Honly _ E) as [H|H]; rewrite app_length in H; simpl in H; lia.
Qed.

(** ** generateContent after the cut: one interface, its functions in its place *)
Lemma is_prefix_before_nl m : no_nl m -> forall a b, is_prefix m (a ++ 10%N :: b) = true -> is_prefix m a = true.
Proof.
  intros Hm a. revert m Hm. induction a as [|x a IH]; intros m Hm b H.
  - destruct m as [|y m']; [reflexivity|]. simpl in H. apply andb_true_iff in H as [H _].
    apply N.eqb_eq in H. exfalso. apply (Hm y); [now left|exact H].
  - destruct m as [|y m']; [reflexivity|]. simpl in *. apply andb_true_iff in H as [H1 H2].
    rewrite H1. simpl. apply (IH m' (fun c Hc => Hm c (or_intror Hc)) b). exact H2.
Qed.

Lemma is_prefix_extend m a b : is_prefix m a = true -> is_prefix m (a ++ b) = true.
Proof. intros H. apply is_prefix_spec in H as [t ->]. rewrite <- app_assoc. apply is_prefix_app. Qed.

Theorem assemble_single_interface m pre L X post fn :
  m <> [] -> no_nl m -> L <> [] -> no_nl L ->
  (pre = [] \/ exists p, pre = p ++ [10%N]) ->
  (forall k, occ m (pre ++ L ++ m ++ X ++ m ++ post) k = true ->
             k = List.length pre + List.length L \/
             k = List.length pre + (List.length L + List.length m + List.length X)) ->
  replace_first m fn (cut m (pre ++ L ++ m ++ X ++ m ++ post)) = pre ++ fn ++ post.
Proof.
  intros Hm Hmnl HL HLnl Hpre Honly. rewrite cut_law by assumption.
  apply replace_first_spec; [exact Hm|]. intros k Hk.
  destruct (is_prefix m (skipn k (pre ++ m ++ post))) eqn:E; [exfalso|reflexivity].
  destruct Hpre as [->|(p & ->)]; [simpl in Hk; lia|].
  rewrite app_length in Hk. simpl in Hk.
  rewrite <- app_assoc in E. cbn [app] in E. rewrite skipn_app in E.
  replace (k - List.length p) with 0 in E by lia. cbn [skipn] in E.
  apply is_prefix_before_nl in E; [|exact Hmnl].
  assert (Ho : occ m ((p ++ [10%N]) ++ L ++ m ++ X ++ m ++ post) k = true).
  { unfold occ. rewrite <- app_assoc. rewrite skipn_app. now apply is_prefix_extend. }
  assert (Hl : 0 < List.length L) by (destruct L; [contradiction|simpl; lia]).
  destruct (Honly _ Ho) as [H|H]; rewrite app_length in H; simpl in H; lia.
Qed.

(** non-vacuity: a one-line interface and a multi-line one, evaluated *)
Example cut_examples :
  let m := s2b "MARK" in
  cut m (s2b "package p" ++ [10%N] ++ s2b "type C MARKinterface{ F(S) D }MARK" ++ [10%N] ++ s2b "var x int" ++ [10%N])
    = s2b "package p" ++ [10%N] ++ m ++ [10%N] ++ s2b "var x int" ++ [10%N]
  /\ cut m (s2b "type C MARKinterface {" ++ [10%N] ++ s2b "  F(S) D" ++ [10%N] ++ s2b "}MARK" ++ [10%N] ++ s2b "// tail")
    = m ++ [10%N] ++ s2b "// tail".
Proof. vm_compute. split; reflexivity. Qed.
