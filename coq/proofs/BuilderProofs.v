(** Proofs about Builder.v: shape of castNode results, the precedence chain of
    matchStructFieldAndStruct, opt-in of conversions. *)
From Coq Require Import String.
From Cvg Require Import Base GoTypes Re Unicode Matcher Dump Options Front Builder.
Open Scope N_scope.

(** ** Inversion of the result monad *)
Lemma rbind_ok {A B} (m : res A) (f : A -> res B) b ev :
  rbind m f = (Ok b, ev) ->
  exists a ev1 ev2, m = (Ok a, ev1) /\ f a = (Ok b, ev2) /\ ev = ev1 ++ ev2.
Proof.
  unfold rbind. destruct m as [[a|e|s| |w] ev1]; try discriminate.
  destruct (f a) as [o ev2] eqn:E. intros H. injection H as -> <-.
  exists a, ev1, ev2. auto.
Qed.

Lemma ret_ok {A} (a b : A) ev : ret a = (Ok b, ev) -> a = b /\ ev = [].
Proof. unfold ret. intros H. injection H as -> <-. auto. Qed.

Lemma lift_ok {A} (o : outcome A) b ev : lift o = (Ok b, ev) -> o = Ok b /\ ev = [].
Proof. unfold lift. intros H. injection H as -> <-. auto. Qed.

Ltac inv_res :=
  repeat match goal with
  | H : rbind _ _ = (Ok _, _) |- _ =>
      let a := fresh "a" in let e1 := fresh "ev" in let e2 := fresh "ev" in
      let H1 := fresh "H" in let H2 := fresh "H" in let H3 := fresh "H" in
      apply rbind_ok in H; destruct H as (a & e1 & e2 & H1 & H2 & H3)
  | H : ret _ = (Ok _, _) |- _ => apply ret_ok in H; destruct H; subst
  | H : lift _ = (Ok _, _) |- _ => apply lift_ok in H; destruct H; subst
  | H : errorf _ = (Ok _, _) |- _ => discriminate H
  | H : panic _ = (Ok _, _) |- _ => discriminate H
  | H : unsup _ = (Ok _, _) |- _ => discriminate H
  | H : (Fuel, _) = (Ok _, _) |- _ => discriminate H
  end.

Section BuilderProofs.
  Variable d : dump.
  Variable o : options.
  Variable mpos : position.

  (** castNode returns the node itself, a String() call on it (only with
      :stringer), or a conversion of it (only with :typecast). *)
  Inductive cast_shape (r : node) (t : ty) : node -> Prop :=
  | CSame : assignable (d_env d) (expr_type r) t = true -> cast_shape r t r
  | CStringer : returns_error r = false -> o_stringer o = true -> assignable (d_env d) string_ty t = true ->
                complies_stringer (d_env d) (expr_type r) = true -> cast_shape r t (NStringer r)
  | CCast e : returns_error r = false -> o_typecast o = true -> convertible (d_env d) (expr_type r) t = true -> cast_shape r t (NCast r t e).

  Lemma new_typecast_shape t r n :
    new_typecast d t r = Ok (Some n) -> exists e, n = NCast r t e.
  Proof.
    unfold new_typecast.
    destruct (deref_ptr t) as [k nm|i| | | | | | | | | ]; try discriminate.
    - intros H. injection H as <-. eauto.
    - destruct (get_named (d_env d) i) as [nn|]; [|discriminate].
      destruct (negb (n_has_pkg nn) || str_eqb (n_pkg_path nn) (d_pkg_path d)).
      + intros H. injection H as <-. eauto.
      + destruct (lookup_name d (n_pkg_path nn)) as [pn|]; [destruct (str_eqb pn [46])|]; intros H; injection H as <-; eauto.
  Qed.

  Lemma cast_node_shape t r n ev :
    cast_node d o mpos t r = (Ok (Some n), ev) -> cast_shape r t n.
  Proof.
    unfold cast_node.
    destruct (assignable (d_env d) (expr_type r) t) eqn:Ea.
    { intros H. apply ret_ok in H as [H _]. injection H as <-. now constructor. }
    destruct (returns_error r) eqn:Ere.
    { intros H. apply ret_ok in H as [H _]. discriminate. }
    destruct (o_stringer o && assignable (d_env d) string_ty t && complies_stringer (d_env d) (expr_type r)) eqn:Es.
    { intros H. apply ret_ok in H as [H _]. injection H as <-.
      apply andb_true_iff in Es as [Es Es3]. apply andb_true_iff in Es as [Es1 Es2]. now constructor. }
    destruct (o_typecast o && convertible (d_env d) (expr_type r) t) eqn:Et.
    2:{ intros H. apply ret_ok in H as [H _]. discriminate. }
    apply andb_true_iff in Et as [Et Et2].
    intros H. apply rbind_ok in H as (c & e1 & e2 & Hc & Hk & _).
    apply lift_ok in Hc as [Hc _].
    destruct c as [c|].
    - apply ret_ok in Hk as [Hk _]. injection Hk as ->.
      destruct (new_typecast_shape _ _ _ Hc) as [e ->]. now constructor.
    - inv_res. discriminate.
  Qed.

  (** ** The precedence chain (one unfolding of match_field) *)
  Lemma match_field_skip fuel lhs rhs args r :
    should_skip (o_skip o) (matcher_expr lhs) (o_exact o) = MBool true ->
    match_field d o mpos fuel lhs rhs args = r -> r = ret (Some (ASkip lhs)).
  Proof. intros Hs <-. unfold match_field, match_field_with. now rewrite Hs. Qed.

  Lemma match_field_conv fuel lhs rhs args c :
    should_skip (o_skip o) (matcher_expr lhs) (o_exact o) = MBool false ->
    find (fun c => ident_match (fc_dst c) (matcher_expr lhs) true) (o_conv o) = Some c ->
    match_field d o mpos fuel lhs rhs args =
      (doR a <- create_with_converter d o mpos lhs rhs c; ret (Some a)).
  Proof. intros Hs Hc. unfold match_field, match_field_with. now rewrite Hs, Hc. Qed.

  Lemma match_field_map fuel lhs rhs args m :
    should_skip (o_skip o) (matcher_expr lhs) (o_exact o) = MBool false ->
    find (fun c => ident_match (fc_dst c) (matcher_expr lhs) true) (o_conv o) = None ->
    find (fun m => ident_match (nm_dst m) (matcher_expr lhs) true) (o_map o) = Some m ->
    match_field d o mpos fuel lhs rhs args =
      (doR a <- create_with_mapper d o mpos lhs rhs m; ret (Some a)).
  Proof. intros Hs Hc Hm. unfold match_field, match_field_with. now rewrite Hs, Hc, Hm. Qed.

  Lemma match_field_literal fuel lhs rhs args l :
    should_skip (o_skip o) (matcher_expr lhs) (o_exact o) = MBool false ->
    find (fun c => ident_match (fc_dst c) (matcher_expr lhs) true) (o_conv o) = None ->
    find (fun m => ident_match (nm_dst m) (matcher_expr lhs) true) (o_map o) = None ->
    find (fun m => ident_match (nm_dst m) (matcher_expr lhs) true) (o_tmap o) = None ->
    find (fun l => ident_match (ls_dst l) (matcher_expr lhs) true) (o_lit o) = Some l ->
    match_field d o mpos fuel lhs rhs args = ret (Some (ASimple lhs (RLiteral (ls_literal l)) false)).
  Proof. intros Hs Hc Hm Ht Hl. unfold match_field, match_field_with. now rewrite Hs, Hc, Hm, Ht, Hl. Qed.

  (** a converter notation yields the converter call (possibly cast) on the
      destination itself, or `no match` on the destination itself *)
  Lemma no_match_warn_shape pos lhs a ev :
    no_match_warn d pos lhs = (Ok a, ev) -> a = ANoMatch lhs.
  Proof.
    unfold no_match_warn. intros H.
    apply rbind_ok in H as (tn & e1 & e2 & _ & H & _).
    apply rbind_ok in H as (u & e3 & e4 & _ & H & _).
    apply ret_ok in H as [H _]. now symmetry.
  Qed.

  (** the converter call: its argument comes from the resolved source, which yields no
      error of its own, fitted to the parameter type; where it is written as &arg
      (pointer parameter, non-pointer argument fitted to the pointed-to type) the
      argument is an addressable expression *)
  Definition conv_arg_ok (c : field_converter) (src arg : node) : Prop :=
    cast_shape src (fc_arg c) arg \/
    (is_ptr (fc_arg c) = true /\ cast_shape src (deref_ptr (fc_arg c)) arg /\
     (is_ptr (expr_type arg) = true \/ addressable arg = true)).

  Lemma create_with_converter_shape lhs rhs c a ev :
    create_with_converter d o mpos lhs rhs c = (Ok a, ev) ->
    a = ANoMatch lhs \/
    exists src arg n, resolve_expr d (fc_src c) (node_root rhs) = Some src /\ returns_error src = false /\
      conv_arg_ok c src arg /\
      a = ASimple lhs (RNode n) (fc_err c) /\ cast_shape (NConv arg c) (expr_type lhs) n.
  Proof.
    unfold create_with_converter. intros H.
    apply rbind_ok in H as (cn & e1 & e2 & Hcn & Hk & _).
    destruct cn as [n|].
    - apply ret_ok in Hk as [<- _]. right.
      destruct (resolve_expr d (fc_src c) (node_root rhs)) as [rn|]; [|apply ret_ok in Hcn as [Hcn _]; discriminate].
      destruct (returns_error rn) eqn:Ere; [apply ret_ok in Hcn as [Hcn _]; discriminate|].
      apply rbind_ok in Hcn as (a1 & e3 & e4 & Ha1 & Hcn & _).
      apply rbind_ok in Hcn as (arg & e5 & e6 & Harg & Hcn & _).
      destruct arg as [arg|]; [|apply ret_ok in Hcn as [Hcn _]; discriminate].
      exists rn, arg, n. split; [reflexivity|]. split; [exact Ere|].
      split; [|split; [reflexivity|eapply cast_node_shape; eassumption]].
      destruct a1 as [a1|].
      + apply ret_ok in Harg as [Harg _]. injection Harg as <-. left. eapply cast_node_shape; eassumption.
      + destruct (negb (is_ptr (fc_arg c))) eqn:Ep; [apply ret_ok in Harg as [Harg _]; discriminate|].
        apply rbind_ok in Harg as (a2 & e7 & e8 & Ha2 & Harg & _).
        destruct a2 as [a2|]; [|apply ret_ok in Harg as [Harg _]; discriminate].
        destruct (negb (is_ptr (expr_type a2)) && negb (addressable a2)) eqn:Ead;
          apply ret_ok in Harg as [Harg _]; [discriminate|]. injection Harg as <-.
        right. split; [now apply negb_false_iff in Ep|]. split; [eapply cast_node_shape; eassumption|].
        apply andb_false_iff in Ead as [Ead|Ead]; apply negb_false_iff in Ead; auto.
    - left. eapply no_match_warn_shape; eassumption.
  Qed.

  Lemma create_with_mapper_shape lhs rhs m a ev :
    create_with_mapper d o mpos lhs rhs m = (Ok a, ev) ->
    a = ANoMatch lhs \/
    exists src n, resolve_expr d (nm_src m) (node_root rhs) = Some src /\
                  a = ASimple lhs (RNode n) (returns_error n) /\ cast_shape src (expr_type lhs) n.
  Proof.
    unfold create_with_mapper. intros H.
    apply rbind_ok in H as (mn & e1 & e2 & Hmn & Hk & _).
    destruct mn as [n|].
    - apply ret_ok in Hk as [<- _]. right.
      destruct (resolve_expr d (nm_src m) (node_root rhs)) as [rn|] eqn:Er; [|apply ret_ok in Hmn as [Hmn _]; discriminate].
      exists rn, n. split; [reflexivity|]. split; [reflexivity|]. eapply cast_node_shape; eassumption.
    - left. eapply no_match_warn_shape; eassumption.
  Qed.
End BuilderProofs.
