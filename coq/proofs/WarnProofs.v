(** WarnProofs.v — every `no match` entry has its warning (C05): for each ANoMatch in
    the (nested) assignment list structToStruct returns, the run's stderr events contain
    a positioned line "<line>:<col>: no assignment for <path> [<type>]". *)
From Coq Require Import String.
From Cvg Require Import Base GoTypes Re Unicode Matcher Dump Options Front Builder.
From Cvg.proofs Require Import BuilderProofs.
Open Scope N_scope.

Fixpoint nomatches (a : assignment) : list node :=
  match a with
  | ANoMatch l => [l]
  | ANest cs => (fix go (cs : list assignment) : list node :=
                   match cs with [] => [] | c :: cs' => nomatches c ++ go cs' end) cs
  | _ => []
  end.
Fixpoint nomatches_list (l : list assignment) : list node :=
  match l with [] => [] | a :: l' => nomatches a ++ nomatches_list l' end.

Lemma nomatches_nest cs : nomatches (ANest cs) = nomatches_list cs.
Proof. induction cs as [|c cs IH]; [reflexivity|]. cbn [nomatches nomatches_list] in *. now rewrite <- IH. Qed.

Definition is_warning_for (lhs : node) (e : event) : Prop :=
  exists pos tn, e = EvStderr (at_pos' pos (s2b "no assignment for " ++ assign_expr lhs ++ s2b " [" ++ tn ++ s2b "]")).

Definition warned (ev : list event) (ns : list node) : Prop :=
  forall n, In n ns -> exists e, In e ev /\ is_warning_for n e.

Lemma warned_nil ev : warned ev [].
Proof. intros n []. Qed.
Lemma warned_app ev ns1 ns2 : warned ev ns1 -> warned ev ns2 -> warned ev (ns1 ++ ns2).
Proof. intros H1 H2 n Hn. apply in_app_iff in Hn as [Hn|Hn]; auto. Qed.
Lemma warned_more_l ev ev' ns : warned ev ns -> warned (ev' ++ ev) ns.
Proof. intros H n Hn. destruct (H n Hn) as (e & He & Hw). exists e. split; [apply in_or_app; now right|exact Hw]. Qed.
Lemma warned_more_r ev ev' ns : warned ev ns -> warned (ev ++ ev') ns.
Proof. intros H n Hn. destruct (H n Hn) as (e & He & Hw). exists e. split; [apply in_or_app; now left|exact Hw]. Qed.

Lemma rbind_ok' {A B} (m : res A) (f : A -> res B) b ev :
  rbind m f = (Ok b, ev) -> exists a ev1 ev2, m = (Ok a, ev1) /\ f a = (Ok b, ev2) /\ ev = ev1 ++ ev2.
Proof. apply rbind_ok. Qed.

Section Warn.
  Variable d : dump.
  Variable o : options.
  Variable mpos : position.

  Lemma no_match_warn_warned pos lhs a ev :
    no_match_warn d pos lhs = (Ok a, ev) -> a = ANoMatch lhs /\ warned ev [lhs].
  Proof.
    unfold no_match_warn. intros H.
    apply rbind_ok in H as (tn & e1 & e2 & Ht & H & ->).
    apply rbind_ok in H as (u & e3 & e4 & Hw & H & ->).
    apply ret_ok in H as [<- ->]. split; [reflexivity|].
    unfold warnf, emit in Hw. injection Hw as _ <-.
    intros n [<-|[]]. eexists. split; [apply in_or_app; right; apply in_or_app; left; now left|].
    exists pos, tn. reflexivity.
  Qed.

  (** the result of one explicit notation: `no match` with its warning, or an assignment *)
  Definition awarned (ev : list event) (a : assignment) : Prop := warned ev (nomatches a).
  Definition owarned (ev : list event) (a : option assignment) : Prop :=
    match a with Some x => awarned ev x | None => True end.

  Lemma create_with_converter_warned lhs rhs c a ev :
    create_with_converter d o mpos lhs rhs c = (Ok a, ev) -> awarned ev a.
  Proof.
    unfold create_with_converter. intros H.
    apply rbind_ok in H as (cn & e1 & e2 & _ & H & ->).
    destruct cn as [n|].
    - apply ret_ok in H as [<- _]. apply warned_nil.
    - apply no_match_warn_warned in H as [-> Hw]. now apply warned_more_l.
  Qed.

  Lemma create_with_mapper_warned lhs rhs m a ev :
    create_with_mapper d o mpos lhs rhs m = (Ok a, ev) -> awarned ev a.
  Proof.
    unfold create_with_mapper. intros H.
    apply rbind_ok in H as (cn & e1 & e2 & _ & H & ->).
    destruct cn as [n|].
    - apply ret_ok in H as [<- _]. apply warned_nil.
    - apply no_match_warn_warned in H as [-> Hw]. now apply warned_more_l.
  Qed.

  Lemma create_with_templated_warned lhs rhs args m a ev :
    create_with_templated d o mpos lhs rhs args m = (Ok a, ev) -> awarned ev a.
  Proof.
    unfold create_with_templated. intros H.
    apply rbind_ok in H as (cn & e1 & e2 & _ & H & ->).
    destruct cn as [n|].
    - apply ret_ok in H as [<- _]. apply warned_nil.
    - apply no_match_warn_warned in H as [-> Hw]. now apply warned_more_l.
  Qed.

  Lemma slice_to_slice_warned lhs r a ev :
    slice_to_slice d o lhs r = (Ok (Some a), ev) -> awarned ev a.
  Proof.
    unfold slice_to_slice.
    destruct (slice_elem (expr_type lhs)) as [le|]; [|intros H; apply ret_ok in H as [H _]; discriminate].
    destruct (slice_elem (expr_type r)) as [re|]; [|intros H; apply ret_ok in H as [H _]; discriminate].
    destruct (assignable (d_env d) re le).
    - destruct (is_basic re && identical false le re).
      + intros H. apply ret_ok in H as [H _]. injection H as <-. apply warned_nil.
      + intros H. apply rbind_ok in H as (tn & e1 & e2 & _ & H & _). apply ret_ok in H as [H _]. injection H as <-. apply warned_nil.
    - destruct (o_typecast o && convertible (d_env d) re le).
      + intros H. apply rbind_ok in H as (tn & e1 & e2 & _ & H & _). apply ret_ok in H as [H _]. injection H as <-. apply warned_nil.
      + intros H. apply ret_ok in H as [H _]. discriminate.
  Qed.

  Definition pwarned (ev : list event) (r : pass_result) : Prop :=
    match r with PDone (Some a) _ => awarned ev a | _ => True end.

  Lemma name_pass_warned s2s lhs R :
    (forall l r cs ev, s2s l r = (Ok cs, ev) -> warned ev (nomatches_list cs)) ->
    forall cands res ev, name_pass d o mpos s2s lhs R cands = (Ok res, ev) -> pwarned ev res.
  Proof.
    intros Hs. induction cands as [|r cands IH]; intros res ev H; cbn [name_pass] in H.
    - apply ret_ok in H as [<- _]. exact I.
    - destruct (negb (is_field_accessible d R (obj_name r)) || negb (compare_field_name o (obj_name lhs) (obj_name r))).
      { eapply IH; eassumption. }
      apply rbind_ok in H as (sl & e1 & e2 & Hsl & H & ->).
      destruct sl as [a|].
      + apply ret_ok in H as [<- ->]. cbn [pwarned]. apply warned_more_r.
        destruct (is_slice (expr_type lhs) && is_slice (expr_type r)).
        * eapply slice_to_slice_warned; eassumption.
        * apply ret_ok in Hsl as [Hsl _]. discriminate.
      + apply rbind_ok in H as (c & e3 & e4 & Hc & H & ->).
        destruct c as [cn|].
        * apply ret_ok in H as [<- _]. cbn [pwarned]. apply warned_nil.
        * destruct (is_struct_type (d_env d) (expr_type lhs) && is_struct_type (d_env d) (expr_type r)).
          -- apply rbind_ok in H as (cs & e5 & e6 & Hcs & H & ->).
             apply ret_ok in H as [<- ->]. specialize (Hs _ _ _ _ Hcs).
             destruct cs as [|c0 cs]; cbn [pwarned]; [exact I|].
             unfold awarned. rewrite nomatches_nest.
             apply warned_more_l, warned_more_l, warned_more_r. exact Hs.
          -- apply ret_ok in H as [<- _]. exact I.
  Qed.

  Lemma name_match_with_warned s2s lhs R a ev :
    (forall l r cs ev, s2s l r = (Ok cs, ev) -> warned ev (nomatches_list cs)) ->
    name_match_with d o mpos s2s lhs R = (Ok a, ev) -> owarned ev a.
  Proof.
    intros Hs H. unfold name_match_with in H.
    apply rbind_ok in H as (g & e1 & e2 & Hg & H & ->).
    assert (Pg : pwarned e1 g).
    { destruct (o_getter o); [eapply name_pass_warned; eassumption|apply ret_ok in Hg as [<- _]; exact I]. }
    assert (Fin : forall (b : bool) ev', (if b then ret None else doR x <- no_match_warn d mpos lhs; ret (Some x)) = (Ok a, ev') -> owarned ev' a).
    { intros b ev' H'. destruct b.
      - apply ret_ok in H' as [<- _]. exact I.
      - apply rbind_ok in H' as (x & e5 & e6 & Hx & H' & ->).
        apply ret_ok in H' as [<- ->]. apply no_match_warn_warned in Hx as [-> Hw]. cbn [owarned]. now apply warned_more_r. }
    destruct g as [|[ga|] gn]; cbn [fst snd] in H.
    - apply rbind_ok in H as (f & e3 & e4 & Hf & H & ->).
      assert (Pf : pwarned e3 f).
      { destruct (str_eqb (o_rule o) rule_name); [eapply name_pass_warned; eassumption|apply ret_ok in Hf as [<- _]; exact I]. }
      destruct f as [|[fa|] fn]; cbn [fst snd] in H.
      + apply Fin in H. destruct a; [|exact I]. cbn [owarned] in *. now apply warned_more_l, warned_more_l.
      + apply ret_ok in H as [<- ->]. cbn [owarned]. apply warned_more_l, warned_more_r. exact Pf.
      + apply Fin in H. destruct a; [|exact I]. cbn [owarned] in *. now apply warned_more_l, warned_more_l.
    - apply ret_ok in H as [<- ->]. cbn [owarned]. apply warned_more_r. exact Pg.
    - apply rbind_ok in H as (f & e3 & e4 & Hf & H & ->).
      assert (Pf : pwarned e3 f).
      { destruct (str_eqb (o_rule o) rule_name); [eapply name_pass_warned; eassumption|apply ret_ok in Hf as [<- _]; exact I]. }
      destruct f as [|[fa|] fn]; cbn [fst snd] in H.
      + apply Fin in H. destruct a; [|exact I]. cbn [owarned] in *. now apply warned_more_l, warned_more_l.
      + apply ret_ok in H as [<- ->]. cbn [owarned]. apply warned_more_l, warned_more_r. exact Pf.
      + apply Fin in H. destruct a; [|exact I]. cbn [owarned] in *. now apply warned_more_l, warned_more_l.
  Qed.

  Lemma match_field_with_warned nm lhs rhs args a ev :
    (forall l r x ev, nm l r = (Ok x, ev) -> owarned ev x) ->
    match_field_with d o mpos nm lhs rhs args = (Ok a, ev) -> owarned ev a.
  Proof.
    intros Hnm H. unfold match_field_with in H.
    destruct (should_skip (o_skip o) (matcher_expr lhs) (o_exact o)) as [[|]| |]; try discriminate.
    { apply ret_ok in H as [<- _]. apply warned_nil. }
    destruct (find _ (o_conv o)) as [c|].
    { apply rbind_ok in H as (x & e1 & e2 & Hx & H & ->). apply ret_ok in H as [<- ->].
      cbn [owarned]. apply warned_more_r. eapply create_with_converter_warned; eassumption. }
    destruct (find _ (o_map o)) as [m|].
    { apply rbind_ok in H as (x & e1 & e2 & Hx & H & ->). apply ret_ok in H as [<- ->].
      cbn [owarned]. apply warned_more_r. eapply create_with_mapper_warned; eassumption. }
    destruct (find _ (o_tmap o)) as [m|].
    { apply rbind_ok in H as (x & e1 & e2 & Hx & H & ->). apply ret_ok in H as [<- ->].
      cbn [owarned]. apply warned_more_r. eapply create_with_templated_warned; eassumption. }
    destruct (find _ (o_lit o)) as [l|].
    { apply ret_ok in H as [<- _]. apply warned_nil. }
    eapply Hnm; eassumption.
  Qed.

  Lemma fields_loop_warned mf L :
    (forall lf a ev, mf lf = (Ok a, ev) -> owarned ev a) ->
    forall fs l ev, fields_loop d mf L fs = (Ok l, ev) -> warned ev (nomatches_list l).
  Proof.
    intros Hmf. induction fs as [|f fs IH]; intros l ev H; cbn [fields_loop] in H.
    - apply ret_ok in H as [<- _]. apply warned_nil.
    - destruct (negb (is_field_accessible d L (obj_name f))).
      + eapply IH; eassumption.
      + apply rbind_ok in H as (a & e1 & e2 & Ha & H & ->).
        apply rbind_ok in H as (rest & e3 & e4 & Hr & H & ->).
        apply ret_ok in H as [<- ->].
        specialize (Hmf _ _ _ Ha). specialize (IH _ _ Hr).
        destruct a as [x|]; cbn [nomatches_list].
        * apply warned_app; [apply warned_more_r; exact Hmf|apply warned_more_l, warned_more_r; exact IH].
        * apply warned_more_l, warned_more_r. exact IH.
  Qed.

  (** C05: whenever structToStruct returns, every `no match` entry of its (nested) result has a
      positioned warning among the events of the run. *)
  Theorem struct_to_struct_warned fuel : forall L R args l ev,
    struct_to_struct d o mpos fuel L R args = (Ok l, ev) -> warned ev (nomatches_list l).
  Proof.
    induction fuel as [|fuel IH]; intros L R args l ev H; cbn [struct_to_struct] in H; [discriminate|].
    eapply fields_loop_warned; [|eassumption].
    intros lf a ev' Hlf. cbv beta in Hlf. eapply match_field_with_warned; [|exact Hlf].
    intros l0 r0 x ev0 Hnm. cbv beta in Hnm. eapply name_match_with_warned; [|exact Hnm].
    intros l1 r1 cs ev1 Hs. cbv beta in Hs. eapply IH; exact Hs.
  Qed.
End Warn.
