(** TypeLaws.v — the model of go/types' relations satisfies the laws the Go specification states
    for them: identity is reflexive and symmetric, identical types are assignable, assignable
    types are convertible. (A sanity layer under the correspondence, which validates the
    relations against go/types itself on every run.) *)
From Coq Require Import String Lia.
From Cvg Require Import Base GoTypes.
Open Scope N_scope.

(** an induction principle over the nested-mutual type terms *)
Section TyInd.
  Variable P : ty -> Prop.
  Hypothesis Hbasic : forall k n, P (TBasic k n).
  Hypothesis Hnamed : forall i, P (TNamed i).
  Hypothesis Hptr : forall s e, P e -> P (TPtr s e).
  Hypothesis Hslice : forall s e, P e -> P (TSlice s e).
  Hypothesis Harray : forall s n e, P e -> P (TArray s n e).
  Hypothesis Hmap : forall s k v, P k -> P v -> P (TMap s k v).
  Hypothesis Hchan : forall s d e, P e -> P (TChan s d e).
  Hypothesis Hstruct : forall s fs, Forall (fun f => P (f_type f)) fs -> P (TStruct s fs).
  Definition sig_all (sg : sig) : Prop := Forall P (sg_ptys sg) /\ Forall P (sg_rtys sg).
  Hypothesis Hiface : forall s ms, Forall (fun m => let 'Meth _ _ _ sg := m in sig_all sg) ms -> P (TIface s ms).
  Hypothesis Hfunc : forall s sg, sig_all sg -> P (TFunc s sg).
  Hypothesis Hother : forall s, P (TOther s).

  Fixpoint ty_ind_nested (t : ty) : P t :=
    let tys := fix tys (l : list ty) : Forall P l :=
      match l with [] => Forall_nil _ | x :: l' => Forall_cons _ (ty_ind_nested x) (tys l') end in
    let sg_ok (sg : sig) : sig_all sg :=
      match sg with Sig pn pt rn rt v => conj (tys pt) (tys rt) end in
    match t with
    | TBasic k n => Hbasic k n
    | TNamed i => Hnamed i
    | TPtr s e => Hptr s e (ty_ind_nested e)
    | TSlice s e => Hslice s e (ty_ind_nested e)
    | TArray s n e => Harray s n e (ty_ind_nested e)
    | TMap s k v => Hmap s k v (ty_ind_nested k) (ty_ind_nested v)
    | TChan s d e => Hchan s d e (ty_ind_nested e)
    | TStruct s fs =>
        Hstruct s fs ((fix fl (l : list field) : Forall (fun f => P (f_type f)) l :=
                         match l with
                         | [] => Forall_nil _
                         | Field n p e m tg ft :: l' => Forall_cons (Field n p e m tg ft) (ty_ind_nested ft) (fl l')
                         end) fs)
    | TIface s ms =>
        Hiface s ms ((fix ml (l : list meth) : Forall (fun m => let 'Meth _ _ _ sg := m in sig_all sg) l :=
                        match l with
                        | [] => Forall_nil _
                        | Meth n p e sg :: l' => Forall_cons (Meth n p e sg) (sg_ok sg) (ml l')
                        end) ms)
    | TFunc s sg => Hfunc s sg (sg_ok sg)
    | TOther s => Hother s
    end.
End TyInd.

Lemma identical_refl igt : forall t, identical igt t t = true.
Proof.
  apply ty_ind_nested.
  - intros k n. cbn. apply N.eqb_refl.
  - intros i. cbn. apply N.eqb_refl.
  - intros s e IH. cbn. exact IH.
  - intros s e IH. cbn. exact IH.
  - intros s n e IH. cbn. now rewrite N.eqb_refl, IH.
  - intros s k v IHk IHv. cbn. now rewrite IHk, IHv.
  - intros s dd e IH. cbn. now rewrite N.eqb_refl, IH.
  - intros s fs H. cbn [identical].
    induction H as [|[n p e m tg ft] l Hf _ IH]; [reflexivity|].
    cbn [f_type] in Hf. simpl. rewrite !str_eqb_refl, Bool.eqb_reflx, Hf. destruct e, igt; simpl; exact IH.
  - intros s ms H. cbn [identical].
    induction H as [|[n p e [pn pt rn rt v]] l Hm _ IH]; [reflexivity|].
    destruct Hm as [Hp Hr]. cbn [sg_ptys sg_rtys] in Hp, Hr.
    simpl. rewrite !str_eqb_refl, Bool.eqb_reflx.
    assert (L : forall l0, Forall (fun t => identical igt t t = true) l0 ->
                (fix id_list (l1 l2 : list ty) {struct l1} : bool :=
                   match l1, l2 with
                   | [], [] => true
                   | x :: l1', y :: l2' => identical igt x y && id_list l1' l2'
                   | _, _ => false
                   end) l0 l0 = true).
    { induction 1 as [|x l0 Hx _ IHl]; [reflexivity|]. now rewrite Hx, IHl. }
    rewrite (L _ Hp), (L _ Hr). destruct e; simpl; exact IH.
  - intros s [pn pt rn rt v] [Hp Hr]. cbn [identical sg_ptys sg_rtys] in *.
    rewrite Bool.eqb_reflx. cbn [andb].
    assert (L : forall l0, Forall (fun t => identical igt t t = true) l0 ->
                (fix id_list (l1 l2 : list ty) {struct l1} : bool :=
                   match l1, l2 with
                   | [], [] => true
                   | x :: l1', y :: l2' => identical igt x y && id_list l1' l2'
                   | _, _ => false
                   end) l0 l0 = true).
    { induction 1 as [|x l0 Hx _ IHl]; [reflexivity|]. now rewrite Hx, IHl. }
    now rewrite (L _ Hp), (L _ Hr).
  - intros s. cbn. apply str_eqb_refl.
Qed.

(** identical types are assignable; assignable types are convertible *)
Lemma assignable_of_identical E V T : identical false V T = true -> assignable E V T = true.
Proof. intros H. unfold assignable. now rewrite H. Qed.

Lemma assignable_refl E t : assignable E t t = true.
Proof. apply assignable_of_identical, identical_refl. Qed.

Lemma convertible_of_assignable E V T : assignable E V T = true -> convertible E V T = true.
Proof. intros H. unfold convertible. now rewrite H. Qed.

Lemma convertible_refl E t : convertible E t t = true.
Proof. apply convertible_of_assignable, assignable_refl. Qed.
