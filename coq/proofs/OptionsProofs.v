(** OptionsProofs.v — notation scoping (C09): what interface-level notations can
    set, and where each method's / interface's options come from. *)
From Coq Require Import String.
From Cvg Require Import Base GoTypes Re Unicode Matcher Dump Options Front.
From Cvg.gen Require Extracted.
From Cvg.proofs Require Import BuilderProofs.
Open Scope N_scope.

(** the regexp sources the hand-written recognisers model are pinned: editing
    one in the Go source breaks this file, which is the signal to re-validate them *)
Example re_notation_pinned : Extracted.re_notation_src = s2b "^\s*//\s*:(\S+)\s*(.*)$".
Proof. vm_compute. reflexivity. Qed.
Example re_literal_pinned : Extracted.re_literal_src = s2b "^\s*\S+\s+(.*)$".
Proof. vm_compute. reflexivity. Qed.
Example intf_name_pinned : Extracted.intf_name = s2b "Convergen".
Proof. vm_compute. reflexivity. Qed.

Lemma mem_str_in x l : mem_str x l = true -> In x l.
Proof.
  induction l as [|y l IH]; simpl; [discriminate|].
  intros H. apply orb_true_iff in H as [H|H]; [left; symmetry; now apply str_eqb_eq|right; auto].
Qed.

(** the per-method lists and settings an interface-level comment must never touch *)
Definition lists_empty (o : options) : Prop :=
  o_skip o = [] /\ o_map o = [] /\ o_tmap o = [] /\ o_conv o = [] /\ o_lit o = [] /\
  o_pre o = None /\ o_post o = None /\ o_receiver o = [] /\ o_reverse o = false.

Lemma new_options_lists_empty : lists_empty new_options.
Proof. unfold lists_empty, new_options. vm_compute. repeat split. Qed.

Ltac eval_str_eqb :=
  repeat match goal with
  | |- context [str_eqb ?a ?b] =>
      let v := eval vm_compute in (str_eqb a b) in
      match v with true => idtac | false => idtac end;
      change (str_eqb a b) with v
  end; cbv iota.

Section Scoping.
  Variable d : dump.

  Lemma parse_one_intf_preserves c o pr cpos o' pr' ev :
    lists_empty o ->
    parse_one d Extracted.valid_ops_intf c (o, pr) cpos = (Ok (o', pr'), ev) ->
    lists_empty o' /\ pr' = pr.
  Proof.
    intros Hl. unfold parse_one.
    destruct (notation_match (c_text c)) as [[op m2]|]; [|discriminate].
    destruct (mem_str op Extracted.valid_ops_intf) eqn:Hm; cbn [negb].
    2:{ intros H. apply ret_ok in H as [H _]. injection H as <- <-. auto. }
    apply mem_str_in in Hm. unfold Extracted.valid_ops_intf in Hm. simpl in Hm.
    unfold lists_empty in *.
    repeat (destruct Hm as [<-|Hm]); try contradiction; eval_str_eqb; intros H;
      repeat match type of H with
             | context [match ?x with _ => _ end] => destruct x
             end; try discriminate;
      apply ret_ok in H as [H _]; injection H as <- <-; simpl; tauto.
  Qed.

  Lemma parse_list_intf_preserves cs : forall o pr o' pr' ev,
    lists_empty o ->
    parse_list d Extracted.valid_ops_intf cs (o, pr) = (Ok (o', pr'), ev) -> lists_empty o'.
  Proof.
    induction cs as [|c cs IH]; intros o pr o' pr' ev Hl H; simpl in H.
    - apply ret_ok in H as [H _]. now injection H as <- <-.
    - apply rbind_ok in H as ([o1 pr1] & e1 & e2 & H1 & H2 & _).
      destruct (parse_one_intf_preserves _ _ _ _ _ _ _ Hl H1) as [Hl1 _].
      eapply IH; eassumption.
  Qed.

  (** C09: whatever an interface's doc comment contains, the options it yields
      carry no :skip/:map/:conv/:literal entries, no hooks, no receiver, no
      :reverse — so methods start from toggles, style and match rule only. *)
  Theorem intf_options_lists_empty cs o :
    fst (parse_notations d Extracted.valid_ops_intf cs new_options) = Ok o -> lists_empty o.
  Proof.
    unfold parse_notations, rbind. intros H.
    destruct (parse_list d Extracted.valid_ops_intf cs (new_options, pos0)) as [[[o1 pr1]| | | |] ev1] eqn:E; simpl in H; try discriminate.
    assert (Hl : lists_empty o1) by (eapply parse_list_intf_preserves; [apply new_options_lists_empty|exact E]).
    destruct (o_reverse o1 && str_eqb (o_style o1) style_return) eqn:Er; simpl in H; [discriminate|].
    injection H as <-. exact Hl.
  Qed.

  (** C09: every entry's options are computed from the defaults and the
      notations of the interface's own doc comment — not from another interface's. *)
  Lemma find_entries_loop_opts ifs : forall st acc es st' ev,
    find_entries_loop d ifs st acc = (Ok (es, st'), ev) ->
    exists new, es = rev acc ++ new /\
      forall e, In e new -> exists nots ev', parse_notations d Extracted.valid_ops_intf nots new_options = (Ok (ie_opts e), ev').
  Proof.
    induction ifs as [|i ifs IH]; intros st acc es st' ev H; simpl in H.
    - apply ret_ok in H as [H _]. injection H as <- <-. exists []. rewrite app_nil_r. split; [reflexivity|intros ? []].
    - destruct (if_in_src i); simpl in H; [|eapply IH; eassumption].
      match type of H with (if negb ?t then _ else _) = _ => destruct t end; simpl in H; [|eapply IH; eassumption].
      destruct (extract_notations st (get_doc st (if_chain i))) as [nots st1] eqn:En.
      apply rbind_ok in H as (opts & e1 & e2 & Hp & H & _).
      destruct (IH _ _ _ _ _ H) as (new & -> & Hn).
      simpl. rewrite <- app_assoc. simpl. eexists (_ :: new). split; [reflexivity|].
      intros e [<-|He]; [simpl; eauto|auto].
  Qed.

  (** C09: every method entry is the result of parseMethod on its own
      declaration with the interface's options: no other method's notations enter. *)
  Lemma parse_methods_loop_opts ms : forall opts st acc failed ev0 res st' ev,
    parse_methods_loop d ms opts st acc failed ev0 = (Ok res, st', ev) ->
    exists new, res = rev acc ++ new /\
      forall me, In me new -> exists st_i ev_i st_j, parse_method d (me_decl me) opts st_i = ((Ok me, ev_i), st_j).
  Proof.
    induction ms as [|m ms IH]; intros opts st acc failed ev0 res st' ev H; simpl in H.
    - destruct failed; [discriminate|]. injection H as <- <- <-. exists []. rewrite app_nil_r. split; [reflexivity|intros ? []].
    - destruct (parse_method d m opts st) as [[[me|e|s| |w] ev1] st1] eqn:Ep; try discriminate.
      + destruct (IH _ _ _ _ _ _ _ _ H) as (new & -> & Hn).
        exists (me :: new). simpl. rewrite <- app_assoc. simpl. split; [reflexivity|].
        intros x [<-|Hx]; [|auto].
        assert (Hd : me_decl me = m).
        { unfold parse_method in Ep.
          destruct (sg_ptys (md_sig m)); [discriminate|]. destruct (sg_rtys (md_sig m)); [discriminate|].
          destruct (extract_notations st (get_doc st (md_chain m))) as [nots st2].
          destruct (parse_notations d Extracted.valid_ops_method nots opts) as [[o| | | |] ?]; try discriminate.
          injection Ep as <- _ _. reflexivity. }
        rewrite Hd. eauto.
      + destruct (IH _ _ _ _ _ _ _ _ H) as (new & -> & Hn). exists new. split; [reflexivity|exact Hn].
  Qed.

  (** the options of a method entry: the method's own notations applied to the interface's options *)
  Lemma parse_method_opts m opts st me ev st' :
    parse_method d m opts st = ((Ok me, ev), st') ->
    exists nots, parse_notations d Extracted.valid_ops_method nots opts = (Ok (me_opts me), ev) /\
                 nots = fst (extract_notations st (get_doc st (md_chain m))).
  Proof.
    unfold parse_method.
    destruct (sg_ptys (md_sig m)); [discriminate|]. destruct (sg_rtys (md_sig m)); [discriminate|].
    destruct (extract_notations st (get_doc st (md_chain m))) as [nots st2] eqn:En.
    destruct (parse_notations d Extracted.valid_ops_method nots opts) as [[o| | | |] ev1] eqn:Ep; try discriminate.
    intros H. injection H as <- <- _. simpl. exists nots. auto.
  Qed.
End Scoping.

(** toggles: the last notation wins (shown on the setter algebra used by parse_one) *)
Lemma set_typecast_last o a b : o_typecast (set_typecast (set_typecast o a) b) = b.
Proof. reflexivity. Qed.
Lemma set_exact_last o a b : o_exact (set_exact (set_exact o a) b) = b.
Proof. reflexivity. Qed.
Lemma setters_commute_on_other_fields o b :
  o_getter (set_typecast o b) = o_getter o /\ o_stringer (set_typecast o b) = o_stringer o /\
  o_exact (set_typecast o b) = o_exact o /\ o_style (set_typecast o b) = o_style o /\ o_rule (set_typecast o b) = o_rule o.
Proof. repeat split. Qed.
