(** SemProofs.v — the statement list is what FuncToString prints; every
    error-capable call in it is checked; hence the first error is returned and
    nothing runs after it (C07); hooks are placed once, first and last (C10). *)
From Coq Require Import String.
From Cvg Require Import Base GoTypes Dump Options Front Builder Gen Sem.
Open Scope N_scope.

Lemma pp_app l1 l2 : pp (l1 ++ l2) = pp l1 ++ pp l2.
Proof.
  unfold pp. rewrite map_app. induction (List.map stmt_text l1) as [|x xs IH]; simpl; [reflexivity|].
  now rewrite IH, app_assoc.
Qed.

Lemma concat_str_app l1 l2 : concat_str (l1 ++ l2) = concat_str l1 ++ concat_str l2.
Proof. induction l1 as [|x xs IH]; simpl; [reflexivity|]. now rewrite IH, app_assoc. Qed.

(** ** the text link *)
Lemma astmts_pp f : forall a, pp (astmts f a) = assignment_to_string f a.
Proof.
  fix IH 1. intros a. destruct a as [l|l|l r e|cs|l r t|l r t|l r t c]; try (unfold pp; simpl; now rewrite app_nil_r).
  - destruct e; unfold pp; simpl; rewrite ?app_nil_r; reflexivity.
  - cbn [astmts assignment_to_string].
    induction cs as [|c cs IHcs]; [reflexivity|].
    cbn [List.map List.concat concat_str]. rewrite pp_app, IH, IHcs. reflexivity.
Qed.

Lemma assignments_pp f l :
  pp (List.concat (List.map (astmts f) l)) = concat_str (List.map (assignment_to_string f) l).
Proof.
  induction l as [|a l IH]; [reflexivity|].
  cbn [List.map List.concat concat_str]. now rewrite pp_app, astmts_pp, IH.
Qed.

Lemma hook_pp f m :
  pp (hook_stmts f m) = match m with Some m => manipulator_to_string m (fn_src f) (hook_dst f) (fn_args f) | None => [] end.
Proof.
  destruct m as [m|]; [|reflexivity].
  unfold hook_stmts, manipulator_to_string, pp.
  destruct (gm_ret_err m); cbn [List.map stmt_text concat_str]; rewrite ?app_nil_r; reflexivity.
Qed.

(** FuncToString = doc comment lines, header, the statements' texts, closing brace *)
Theorem func_to_string_is_pp f :
  func_to_string f =
    concat_str (List.map (fun c => c ++ nl) (fn_comments f)) ++ func_header f ++ pp (body_of f) ++ s2b "}" ++ nl ++ nl.
Proof.
  unfold func_to_string, body_of. rewrite !pp_app, assignments_pp, !hook_pp.
  unfold init_stmts, final_stmts, pp.
  destruct (str_eqb (fn_style f) style_return && v_pointer (fn_dst f));
    destruct (fn_ret_err f || str_eqb (fn_style f) style_return);
    cbn [List.map stmt_text concat_str]; rewrite ?app_nil_r, ?app_nil_l, <- ?app_assoc; reflexivity.
Qed.

(** ** the body is a sequence of units: an error-setting statement always comes with its check *)
Inductive units : list stmt -> Prop :=
| UNil : units []
| URaw t l : units l -> units (SRaw t :: l)
| UAssign t s c l : units l -> units (SAssignErr t s :: SIfErr c :: l)
| UHookErr t s c l : units l -> units (SHook t s true :: SIfErr c :: l)
| UHook t s l : units l -> units (SHook t s false :: l)
| URet t : units [SReturn t].

Lemma units_app l1 l2 : units l1 -> units l2 -> (forall t, l1 <> [SReturn t]) ->
  (forall l t, l1 <> l ++ [SReturn t]) -> units (l1 ++ l2).
Proof.
  intros H1 H2 _ Hr. induction H1; simpl; try (constructor; apply IHunits; intros l0 t0 E; eapply (Hr (_ :: l0)); simpl; rewrite E; reflexivity).
  - assumption.
  - constructor. apply IHunits. intros l0 t0 E. eapply (Hr (_ :: _ :: l0)). simpl. rewrite E. reflexivity.
  - constructor. apply IHunits. intros l0 t0 E. eapply (Hr (_ :: _ :: l0)). simpl. rewrite E. reflexivity.
  - exfalso. eapply (Hr []). reflexivity.
Qed.

(** lists without SReturn *)
Fixpoint no_return (l : list stmt) : Prop :=
  match l with [] => True | SReturn _ :: _ => False | _ :: l' => no_return l' end.

Lemma no_return_not_ends l : no_return l -> forall l0 t, l <> l0 ++ [SReturn t].
Proof.
  induction l as [|x l IH]; intros H l0 t E.
  - destruct l0; discriminate.
  - destruct l0 as [|y l0]; simpl in E.
    + injection E as -> ->. simpl in H. exact H.
    + injection E as -> E. destruct y; simpl in H; try (eapply IH; eassumption). exact H.
Qed.

Lemma units_app_nr l1 l2 : units l1 -> no_return l1 -> units l2 -> units (l1 ++ l2).
Proof.
  intros H1 Hn H2. induction H1; simpl in *; try (constructor; auto); try assumption. destruct Hn.
Qed.

Lemma no_return_app l1 l2 : no_return l1 -> no_return l2 -> no_return (l1 ++ l2).
Proof. induction l1 as [|x l1 IH]; simpl; [auto|]. destruct x; auto; tauto. Qed.

Lemma astmts_units f : forall a, units (astmts f a) /\ no_return (astmts f a).
Proof.
  fix IH 1. intros a. destruct a as [l|l|l r e|cs|l r t|l r t|l r t c];
    try (split; [repeat constructor|exact I]).
  - destruct e; split; simpl; repeat constructor.
  - cbn [astmts]. induction cs as [|c cs IHcs]; [split; [constructor|exact I]|].
    cbn [List.map List.concat]. destruct (IH c) as [Hu Hn]. destruct IHcs as [Hu' Hn'].
    split; [apply units_app_nr; assumption|apply no_return_app; assumption].
Qed.

Lemma assignments_units f l : units (List.concat (List.map (astmts f) l)) /\ no_return (List.concat (List.map (astmts f) l)).
Proof.
  induction l as [|a l [Hu Hn]]; [split; [constructor|exact I]|].
  cbn [List.map List.concat]. destruct (astmts_units f a) as [Hu' Hn'].
  split; [apply units_app_nr; assumption|apply no_return_app; assumption].
Qed.

Lemma hook_units f m : units (hook_stmts f m) /\ no_return (hook_stmts f m).
Proof. destruct m as [m|]; [|split; [constructor|exact I]]. unfold hook_stmts. destruct (gm_ret_err m); split; simpl; repeat constructor. Qed.

Theorem body_units f : units (body_of f).
Proof.
  unfold body_of.
  destruct (hook_units f (fn_pre f)) as [Hp Hpn]. destruct (hook_units f (fn_post f)) as [Hq Hqn].
  destruct (assignments_units f (fn_assignments f)) as [Ha Han].
  assert (Hi : units (init_stmts f) /\ no_return (init_stmts f)).
  { unfold init_stmts. destruct (_ && _); split; simpl; repeat constructor. }
  destruct Hi as [Hi Hin].
  apply units_app_nr; [assumption|assumption|].
  apply units_app_nr; [assumption|assumption|].
  apply units_app_nr; [assumption|assumption|].
  apply units_app_nr; [assumption|assumption|].
  unfold final_stmts. destruct (_ || _); constructor.
Qed.

(** ** C07: the first failing call's error is returned and nothing is called after it *)
Section Flow.
  Variable E : Type.
  Variable fails : site -> option E.

  (** the declarative reading: scan the error-capable sites in order *)
  Fixpoint spec (l : list stmt) (tr : list site) : run_result E :=
    match l with
    | [] => Returned E None tr
    | SAssignErr _ s :: l' =>
        match fails s with Some e => Returned E (Some e) (tr ++ [s]) | None => spec l' (tr ++ [s]) end
    | SHook _ s true :: l' =>
        match fails s with Some e => Returned E (Some e) (tr ++ [s]) | None => spec l' (tr ++ [s]) end
    | SHook _ s false :: l' => spec l' (tr ++ [s])
    | SReturn _ :: _ => Returned E None tr
    | _ :: l' => spec l' tr
    end.

  Theorem exec_is_spec l : units l -> forall tr, exec E fails l None tr = spec l tr.
  Proof.
    induction 1 as [|t l _ IH|t s c l _ IH|t s c l _ IH|t s l _ IH|t]; intros tr; simpl; try reflexivity.
    - apply IH.
    - destruct (fails s); [reflexivity|apply IH].
    - destruct (fails s); [reflexivity|apply IH].
    - apply IH.
  Qed.

  (** no failure: nil error, and every site was called, in order *)
  Lemma spec_no_failure l : (forall s, In s (sites l) -> fails s = None) -> no_return l ->
    forall tr, spec l tr = Returned E None (tr ++ sites l).
  Proof.
    induction l as [|x l IH]; intros Hf Hn tr; simpl; [now rewrite app_nil_r|].
    destruct x as [t|t s|t s [|]|t|t]; simpl in *.
    - apply IH; auto.
    - rewrite (Hf s (or_introl eq_refl)). rewrite IH; auto. now rewrite <- app_assoc.
    - rewrite (Hf s (or_introl eq_refl)). rewrite IH; auto. now rewrite <- app_assoc.
    - rewrite IH; auto. now rewrite <- app_assoc.
    - apply IH; auto.
    - destruct Hn.
  Qed.
  Lemma spec_no_failure_ret l t : (forall s, In s (sites l) -> fails s = None) -> no_return l ->
    forall tr, spec (l ++ [SReturn t]) tr = Returned E None (tr ++ sites l).
  Proof.
    induction l as [|x l IH]; intros Hf Hn tr; simpl; [now rewrite app_nil_r|].
    destruct x as [t0|t0 s|t0 s [|]|t0|t0]; simpl in *.
    - apply IH; auto.
    - rewrite (Hf s (or_introl eq_refl)). rewrite IH; auto. now rewrite <- app_assoc.
    - rewrite (Hf s (or_introl eq_refl)). rewrite IH; auto. now rewrite <- app_assoc.
    - rewrite IH; auto. now rewrite <- app_assoc.
    - apply IH; auto.
    - destruct Hn.
  Qed.
End Flow.

Lemma sites_app l1 l2 : sites (l1 ++ l2) = sites l1 ++ sites l2.
Proof. induction l1 as [|x l1 IH]; simpl; [reflexivity|]. destruct x; simpl; rewrite ?IH; reflexivity. Qed.

(** the body without its final return statement *)
Definition body_prefix (f : function) : list stmt :=
  init_stmts f ++ hook_stmts f (fn_pre f) ++
  List.concat (List.map (astmts f) (fn_assignments f)) ++ hook_stmts f (fn_post f).

Lemma body_split f : exists t, body_of f = body_prefix f ++ [SReturn t] /\ no_return (body_prefix f).
Proof.
  unfold body_of, body_prefix, final_stmts.
  destruct (hook_units f (fn_pre f)) as [_ Hpn]. destruct (hook_units f (fn_post f)) as [_ Hqn].
  destruct (assignments_units f (fn_assignments f)) as [_ Han].
  assert (Hin : no_return (init_stmts f)) by (unfold init_stmts; destruct (_ && _); simpl; exact I).
  destruct (fn_ret_err f || str_eqb (fn_style f) style_return); eexists; (split; [rewrite <- !app_assoc; reflexivity|]);
    repeat apply no_return_app; assumption.
Qed.

Lemma sites_prefix f : sites (body_of f) = sites (body_prefix f).
Proof. destruct (body_split f) as (t & -> & _). rewrite sites_app. simpl. now rewrite app_nil_r. Qed.

(** no user function fails: nil is returned and every call site of the body was called, in order, once *)
Theorem exec_without_failure (E : Type) (fails : site -> option E) f :
  (forall s, In s (sites (body_of f)) -> fails s = None) ->
  exec E fails (body_of f) None [] = Returned E None (sites (body_of f)).
Proof.
  intros Hf. rewrite (exec_is_spec E fails _ (body_units f)).
  rewrite sites_prefix in *. destruct (body_split f) as (t & -> & Hn).
  rewrite (spec_no_failure_ret E fails _ t Hf Hn). reflexivity.
Qed.

(** ** C10: placement of the hooks in the body *)
Theorem body_shape f :
  body_of f = init_stmts f ++ hook_stmts f (fn_pre f) ++
              List.concat (List.map (astmts f) (fn_assignments f)) ++ hook_stmts f (fn_post f) ++ final_stmts f.
Proof. reflexivity. Qed.

(** the preprocess hook is the first call of the body, the postprocess hook the last *)

Theorem body_sites f :
  sites (body_of f) =
    (match fn_pre f with Some m => [hook_site m] | None => [] end) ++
    sites (List.concat (List.map (astmts f) (fn_assignments f))) ++
    (match fn_post f with Some m => [hook_site m] | None => [] end).
Proof.
  unfold body_of. rewrite !sites_app.
  assert (Hi : sites (init_stmts f) = []) by (unfold init_stmts; destruct (_ && _); reflexivity).
  assert (Hf : sites (final_stmts f) = []) by (unfold final_stmts; destruct (_ || _); reflexivity).
  assert (Hh : forall m, sites (hook_stmts f m) = match m with Some m => [hook_site m] | None => [] end).
  { intros [m|]; [|reflexivity]. unfold hook_stmts. destruct (gm_ret_err m); reflexivity. }
  rewrite Hi, Hf, !Hh, app_nil_r. reflexivity.
Qed.

(** the &/* adaptation: the pointer-ness of each hook argument is the one the hook declares *)
Definition adapted_ptr (var_ptr want_ptr : bool) : bool :=
  (* pointer-ness of the expression [prefix ++ name] printed by hook_call_text *)
  if Bool.eqb var_ptr want_ptr then var_ptr else if var_ptr then false (* *v *) else true (* &v *).

Lemma adaptation_correct var_ptr want_ptr : adapted_ptr var_ptr want_ptr = want_ptr.
Proof. destruct var_ptr, want_ptr; reflexivity. Qed.
