(** NodeTieProofs.v — the expression nodes of the model (Builder.v: [node], [assign_expr],
    [matcher_expr], [obj_name], [expr_type], [returns_error]) ARE the Go code of
    pkg/builder/model/node.go and struct.go.

    gen/GoFuns.v (module GoNode) is regenerated on every run: the methods ObjName, ExprType,
    ReturnsError, AssignExpr, MatcherExpr (and ObjNullable, NullCheckExpr) of the interface
    Node, by cases over RootNode, ScalarNode, ConverterNode, TypecastEntry, StringerEntry,
    StructFieldNode, StructMethodNode, translated statement by statement.  go/types objects are
    the model's own: types.Type = [ty], *types.Var = [field], *types.Func = name + [sig],
    util.IsPtr = [is_ptr].  This file proves the model's functions equal to the translated ones
    on every node ([lower_node]: how the builder nests the Go nodes).  ScalarNode is never
    constructed by non-test code and has no counterpart in the model. *)
From Coq Require Import String.
From Cvg Require Import Base GoLib GoTypes Dump Options Front Builder GoFuns.
Import GoNode.
Open Scope N_scope.

Section NodeTie.
  (** the name matcher inside a FieldConverter plays no part in the node methods: any value *)
  Variable matcher_of : field_converter -> NameMatcher_t.

  Definition lower_fc (c : field_converter) : FieldConverter_t :=
    {| FieldConverter_m := matcher_of c; FieldConverter_converter := fc_name c;
       FieldConverter_argType := fc_arg c; FieldConverter_retType := fc_ret c; FieldConverter_retError := fc_err c |}.

  Fixpoint lower_node (n : node) : Node_t :=
    match n with
    | NRoot name t => RootNode name t
    | NField p f => StructFieldNode (lower_node p) f
    | NMethod p name sg => StructMethodNode (lower_node p) {| gf_name := name; gf_sig := sg |}
    | NConv a c => ConverterNode (lower_node a) (lower_fc c)
    | NCast i t e => TypecastEntry (lower_node i) t e
    | NStringer i => StringerEntry (lower_node i)
    end.

  Lemma obj_name_tie n : Node_ObjName (lower_node n) = obj_name n.
  Proof. induction n as [name t|p IH f|p IH name sg|a IH c|i IH t e|i IH]; cbn [lower_node Node_ObjName obj_name gf_name]; auto. Qed.

  Lemma expr_type_tie n : Node_ExprType (lower_node n) = expr_type n.
  Proof.
    destruct n as [name t|p f|p name sg|a c|i t e|i]; cbn [lower_node Node_ExprType expr_type]; try reflexivity.
    cbv zeta. cbn [gf_sig]. unfold go_nth_type. destruct (sg_rtys sg); reflexivity.
  Qed.

  Lemma returns_error_tie n : Node_ReturnsError (lower_node n) = returns_error n.
  Proof.
    destruct n as [name t|p f|p name sg|a c|i t e|i]; cbn [lower_node Node_ReturnsError returns_error]; try reflexivity.
    cbv zeta. cbn [gf_sig].
    destruct (Nat.eqb_spec (List.length (sg_rtys sg)) 2) as [E|E].
    - rewrite E. reflexivity.
    - apply Z.eqb_neq. lia.
  Qed.

  Lemma assign_expr_tie n : Node_AssignExpr (lower_node n) = assign_expr n.
  Proof.
    induction n as [name t|p IH f|p IH name sg|a IH c|i IH t e|i IH]; cbn [lower_node Node_AssignExpr assign_expr gf_name].
    - reflexivity.
    - now rewrite IH.
    - rewrite IH. reflexivity.
    - cbv zeta. rewrite IH, expr_type_tie.
      unfold FieldConverter_ArgType, FieldConverter_Converter. cbn [lower_fc FieldConverter_argType FieldConverter_converter].
      destruct (negb (is_ptr (expr_type a)) && is_ptr (fc_arg c)); reflexivity.
    - now rewrite IH.
    - rewrite IH. reflexivity.
  Qed.

  Lemma matcher_expr_tie n : Node_MatcherExpr (lower_node n) = matcher_expr n.
  Proof.
    induction n as [name t|p IH f|p IH name sg|a IH c|i IH t e|i IH]; cbn [lower_node Node_MatcherExpr matcher_expr gf_name]; auto.
    - cbv zeta. rewrite IH. destruct (matcher_expr p); reflexivity.
    - cbv zeta. rewrite IH. destruct (matcher_expr p); reflexivity.
  Qed.
End NodeTie.

(** ** The chain builder node -> generator text, end to end in translated Go code: the text of a
    simple assignment is model.SimpleField{LHS: lhs.AssignExpr(), RHS: rhs.AssignExpr(), Error: rhs.ReturnsError()}.String()
    with every function in it the translated one. *)
From Cvg Require Import Gen.
From Cvg.proofs Require Import GenTieProofs.

Theorem simple_assignment_text_chain matcher_of l r :
  GoGen.Assignment_String
    (GoGen.SimpleField (Node_AssignExpr (lower_node matcher_of l)) (Node_AssignExpr (lower_node matcher_of r))
       (Node_ReturnsError (lower_node matcher_of r)))
  = assignment_string (ASimple l (RNode r) (returns_error r)).
Proof.
  rewrite !assign_expr_tie, returns_error_tie.
  change (GoGen.SimpleField (assign_expr l) (assign_expr r) (returns_error r))
    with (lower_assignment (ASimple l (RNode r) (returns_error r))).
  apply assignment_string_tie.
Qed.
