(** Proofs about Matcher.v. *)
From Coq Require Import String.
From Cvg Require Import Base Re Unicode Matcher.
From Cvg.proofs Require Import ReProofs ReFuelProofs.
Open Scope N_scope.

(** IdentMatcher: equality, or Unicode simple-fold equality rune by rune. *)
Lemma ident_match_spec p s ex :
  ident_match p s ex = true <-> (if ex then p = s else str_equal_fold p s = true).
Proof. unfold ident_match. destruct ex; [apply str_eqb_eq|tauto]. Qed.

(** The invariant of a matcher: its compiled form is the compilation of its
    pattern under its current case rule, and it is not nil. *)
Definition pm_inv (m : pmatcher) : Prop :=
  pm_re m = compile_pattern (pm_pattern m) (pm_exact m) /\ pm_re m <> CNil.

Lemma new_pmatcher_inv p ex m : new_pmatcher p ex = Some m -> pm_inv m /\ pm_pattern m = p.
Proof.
  unfold new_pmatcher. destruct (compile_pattern p ex) eqn:E; try discriminate;
    intros H; injection H as <-; (split; [split; simpl; [now rewrite E|discriminate]|reflexivity]).
Qed.

(** Validity of a pattern does not depend on the case rule (hypothesis [V] of
    the statelessness theorem; see props/C19.v). *)
Definition validity_case_independent (p : str) : Prop :=
  compile_pattern p true = CNil <-> compile_pattern p false = CNil.

Lemma pm_match_step m i ex :
  pm_inv m -> validity_case_independent (pm_pattern m) ->
  fst (pm_match m i ex) = pure_match (pm_pattern m) i ex /\
  pm_inv (snd (pm_match m i ex)) /\ pm_pattern (snd (pm_match m i ex)) = pm_pattern m.
Proof.
  intros [Hre Hnn] V. unfold pm_match, pure_match.
  destruct (Bool.eqb (pm_exact m) ex) eqn:Eb.
  - apply Bool.eqb_prop in Eb. subst ex. rewrite <- Hre.
    destruct (pm_re m) eqn:E; simpl; repeat split; try assumption; try congruence; now rewrite E.
  - assert (Hne : compile_pattern (pm_pattern m) ex <> CNil).
    { intros Hc. apply Hnn. rewrite Hre.
      destruct (pm_exact m), ex; try discriminate Eb; [apply V in Hc|apply V]; assumption. }
    destruct (compile_pattern (pm_pattern m) ex) eqn:E; try contradiction; simpl;
      repeat split; simpl; try congruence.
Qed.

Fixpoint pm_answers (m : pmatcher) (qs : list (str * bool)) : list mresult :=
  match qs with
  | [] => []
  | (i, ex) :: qs' => fst (pm_match m i ex) :: pm_answers (snd (pm_match m i ex)) qs'
  end.

Lemma pm_stateless m qs :
  pm_inv m -> validity_case_independent (pm_pattern m) ->
  pm_answers m qs = List.map (fun q => pure_match (pm_pattern m) (fst q) (snd q)) qs.
Proof.
  revert m; induction qs as [|[i ex] qs IH]; intros m Hi V; simpl; [reflexivity|].
  destruct (pm_match_step m i ex Hi V) as (H1 & H2 & H3).
  rewrite H1. f_equal. rewrite IH; [now rewrite H3|assumption|now rewrite H3].
Qed.

(** Validity does not depend on the case rule: prefixing "(?i)" changes neither whether the
    expression parses nor whether it is inside the modelled fragment (ReProofs.v) — for every
    pattern whose parse under the exact rule does not exhaust the parser's fuel. *)
Lemma validity_is_case_independent p :
  parse_re UT (pattern_expr p true) <> PFuel -> validity_case_independent p.
Proof.
  intros Hn. unfold validity_case_independent, compile_pattern.
  assert (E : pattern_expr p false = s2b "(?i)" ++ pattern_expr p true) by reflexivity.
  rewrite E. pose proof (case_prefix_keeps_validity UT (pattern_expr p true) Hn) as H.
  destruct (parse_re UT (pattern_expr p true)); destruct (parse_re UT (s2b "(?i)" ++ pattern_expr p true));
    cbn [pclass] in H; try discriminate; split; congruence.
Qed.

(** ... and the parser never exhausts its fuel (ReFuelProofs.v): unconditionally *)
Lemma validity_case_independent_always p : validity_case_independent p.
Proof. apply validity_is_case_independent. apply parse_re_never_out_of_fuel. Qed.
