(** ValSemProofs.v — frame and value theorems for ValSem.exec_all (C02, C16). *)
From Coq Require Import String.
From Cvg Require Import Base GoTypes Dump Options Front Builder ValSem.
Open Scope N_scope.

Lemma fields_get_set_same fs f x w : fields_get fs f = Some w -> fields_get (fields_set fs f x) f = Some x.
Proof.
  induction fs as [|[n v] fs IH]; simpl; [discriminate|].
  destruct (str_eqb n f) eqn:E; simpl; rewrite E; [reflexivity|exact IH].
Qed.

Lemma fields_get_set_other fs f g x : str_eqb f g = false -> fields_get (fields_set fs f x) g = fields_get fs g.
Proof.
  intros Hfg. induction fs as [|[n v] fs IH]; simpl; [reflexivity|].
  destruct (str_eqb n f) eqn:E; simpl.
  - apply str_eqb_eq in E as ->. rewrite Hfg. reflexivity.
  - destruct (str_eqb n g); [reflexivity|exact IH].
Qed.

(** reading what was written *)
Lemma read_write_same v p x : (exists w, read v p = Some w) -> read (write v p x) p = Some x.
Proof.
  revert v; induction p as [|f p IH]; intros v [w Hw]; simpl in *; [reflexivity|].
  destruct v as [a| |a es|fs]; try discriminate.
  destruct (fields_get fs f) as [u|] eqn:E; [|discriminate].
  simpl. rewrite (fields_get_set_same _ _ _ _ E). apply IH. eauto.
Qed.

(** a write below p leaves everything at independent paths as it was *)
Lemma read_write_independent v p q x : independent p q -> read (write v p x) q = read v q.
Proof.
  revert v q; induction p as [|f p IH]; intros v q [H1 H2]; [simpl in H1; discriminate|].
  destruct q as [|g q]; [simpl in H2; discriminate|].
  simpl in *. destruct v as [a| |a es|fs]; try reflexivity.
  destruct (fields_get fs f) as [u|] eqn:E; [|reflexivity].
  simpl. destruct (str_eqb f g) eqn:Efg.
  - apply str_eqb_eq in Efg as <-. rewrite (fields_get_set_same _ _ _ _ E), E.
    rewrite str_eqb_refl in H2. simpl in H1, H2. apply IH. unfold independent. split; assumption.
  - rewrite (fields_get_set_other _ _ _ _ Efg). reflexivity.
Qed.

(** a write keeps the shape: every path readable before is readable after (writes never remove fields) *)
Lemma write_keeps_readable v p x q : independent p q -> (exists w, read v q = Some w) -> exists w, read (write v p x) q = Some w.
Proof. intros Hi [w Hw]. exists w. now rewrite read_write_independent. Qed.

Section Frame.
  Variable ev : rhs_expr -> val.
  Variable conv : str -> val -> val.

  Notation exec_a := (exec_a ev conv).
  Notation exec_all := (exec_all ev conv).

  (** ** frame: a path independent of everything an entry may write is untouched *)
  Lemma exec_a_frame : forall a st q,
    (forall p, In p (wpaths a) -> independent p q) -> read (fst (exec_a a st)) q = read (fst st) q.
  Proof.
    fix IH 1. intros a st q Hq.
    destruct a as [l|l|l r e|cs|l r t|l r t|l r t c]; simpl in *; try reflexivity.
    - apply read_write_independent. apply Hq. now left.
    - revert st Hq. induction cs as [|c cs IHcs]; intros st Hq; [reflexivity|].
      simpl in Hq. rewrite IHcs.
      + apply IH. intros p Hp. apply Hq. apply in_or_app. now left.
      + intros p Hp. apply Hq. apply in_or_app. now right.
    - unfold exec_slice. destruct (ev (RNode r)); simpl; try reflexivity. apply read_write_independent. apply Hq. now left.
    - unfold exec_slice. destruct (ev (RNode r)); simpl; try reflexivity. apply read_write_independent. apply Hq. now left.
    - unfold exec_slice. destruct (ev (RNode r)); simpl; try reflexivity. apply read_write_independent. apply Hq. now left.
  Qed.

  Lemma exec_all_frame l : forall st q,
    (forall a p, In a l -> In p (wpaths a) -> independent p q) -> read (fst (exec_all l st)) q = read (fst st) q.
  Proof.
    induction l as [|a l IH]; intros st q Hq; simpl; [reflexivity|].
    rewrite IH; [|intros a' p Ha Hp; eapply Hq; [right; exact Ha|exact Hp]].
    apply exec_a_frame. intros p Hp. eapply Hq; [now left|exact Hp].
  Qed.

  (** the allocation counter only grows: addresses handed out are fresh *)
  Lemma exec_a_next_mono : forall a st, snd st <= snd (exec_a a st).
  Proof.
    fix IH 1. intros a st.
    destruct a as [l|l|l r e|cs|l r t|l r t|l r t c]; simpl; try lia.
    - revert st. induction cs as [|c cs IHcs]; intros st; [simpl; lia|].
      specialize (IH c st). specialize (IHcs (exec_a c st)). simpl in *. lia.
    - unfold exec_slice. destruct (ev (RNode r)); simpl; lia.
    - unfold exec_slice. destruct (ev (RNode r)); simpl; lia.
    - unfold exec_slice. destruct (ev (RNode r)); simpl; lia.
  Qed.

  (** ** values: the last (here: only) writer of a path decides *)
  (** an entry list is [separated] when the paths written by different top-level entries are independent *)
  Fixpoint separated (l : list assignment) : Prop :=
    match l with
    | [] => True
    | a :: l' => (forall p b q, In p (wpaths a) -> In b l' -> In q (wpaths b) -> independent p q) /\ separated l'
    end.

  (** a simple assignment at top level: after the whole list ran, its destination holds its source's value *)
  Theorem assigned_value l1 lhs r e l2 st :
    separated (l1 ++ ASimple lhs r e :: l2) ->
    (exists w, read (fst (exec_all l1 st)) (node_path lhs) = Some w) ->
    read (fst (exec_all (l1 ++ ASimple lhs r e :: l2) st)) (node_path lhs) = Some (ev r).
  Proof.
    revert st. induction l1 as [|a l1 IH]; intros st Hs Hr; simpl in *.
    - destruct Hs as [Hs _]. rewrite exec_all_frame.
      + simpl. now apply read_write_same.
      + intros b q Hb Hq. destruct (Hs (node_path lhs) b q (or_introl eq_refl) Hb Hq) as [H1 H2]. split; assumption.
    - destruct Hs as [_ Hs]. apply IH; assumption.
  Qed.

  (** a slice block at top level: nil source leaves the field as it was; otherwise the field holds a
      slice with a fresh address (not below the allocation counter it started from), the same length, and the
      (converted) elements *)
  Theorem slice_block l r t d next :
    (exists w, read d (node_path l) = Some w) ->
    match ev (RNode r) with
    | VSlice _ es =>
        read (fst (exec_a (ASliceLoop l r t) (d, next))) (node_path l) = Some (VSlice next es) /\
        snd (exec_a (ASliceLoop l r t) (d, next)) = next + 1
    | _ => exec_a (ASliceLoop l r t) (d, next) = (d, next)
    end.
  Proof.
    intros Hr. simpl. unfold exec_slice. simpl. destruct (ev (RNode r)) as [a| |a es|fs]; try reflexivity.
    simpl. rewrite List.map_id. split; [now apply read_write_same|reflexivity].
  Qed.
End Frame.
