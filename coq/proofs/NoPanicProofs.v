(** NoPanicProofs.v — the whole pipeline never reaches a panic site:
    for every well-formed dump, [run_pipeline] ends in Ok, Err, Fuel or Unsup. *)
From Coq Require Import String.
From Cvg Require Import Base GoTypes Re Unicode Matcher Dump Options Front Builder Gen Pipeline.
From Cvg.gen Require Extracted.
From Cvg.proofs Require Import BuilderProofs FrontProofs.
Open Scope N_scope.

(** ** the writer monad *)
Definition np {A} (r : res A) : Prop := is_panic (fst r) = false.
Definition npo {A} (o : outcome A) : Prop := is_panic o = false.

Lemma np_ret {A} (a : A) : np (ret a).            Proof. reflexivity. Qed.
Lemma np_fail {A} m : np (@fail A m).             Proof. reflexivity. Qed.
Lemma np_errorf {A} m : np (@errorf A m).         Proof. reflexivity. Qed.
Lemma np_unsup {A} m : np (@unsup A m).           Proof. reflexivity. Qed.
Lemma np_emit e : np (emit e).                    Proof. reflexivity. Qed.
Lemma np_warnf m : np (warnf m).                  Proof. reflexivity. Qed.
Lemma np_lift {A} (o : outcome A) : npo o -> np (lift o).  Proof. exact (fun H => H). Qed.

Lemma np_rbind {A B} (m : res A) (k : A -> res B) :
  np m -> (forall a ev, m = (Ok a, ev) -> np (k a)) -> np (rbind m k).
Proof.
  unfold np, rbind. destruct m as [[a|e|s| |w] ev]; cbn [fst]; intros Hm Hk; try assumption; try reflexivity.
  specialize (Hk a ev eq_refl). destruct (k a) as [o ev']. exact Hk.
Qed.

Lemma np_rbind' {A B} (m : res A) (k : A -> res B) :
  np m -> (forall a, np (k a)) -> np (rbind m k).
Proof. intros Hm Hk. apply np_rbind; auto. Qed.

Lemma npo_obind {A B} (m : outcome A) (k : A -> outcome B) :
  npo m -> (forall a, npo (k a)) -> npo (obind m k).
Proof. unfold npo, obind. destruct m; intros Hm Hk; auto. Qed.

Ltac np_step :=
  first
    [ apply np_ret | apply np_fail | apply np_errorf | apply np_unsup | apply np_emit | apply np_warnf
    | apply np_rbind'; [|intros ?] | apply np_lift ].

Ltac np_cases :=
  repeat match goal with
  | |- np (match ?x with _ => _ end) => destruct x
  | |- npo (match ?x with _ => _ end) => destruct x
  | |- np (if ?x then _ else _) => destruct x
  | |- npo (if ?x then _ else _) => destruct x
  | |- np (let '(_, _) := ?x in _) => destruct x
  end.

Section BuilderNP.
  Variable d : dump.

  Lemma type_name_np t : npo (type_name d t).
  Proof.
    induction t as [k n|i|s e IH|s e IH|s n e IH|s k IHk v IHv|s dir e IH|s fs|s ms|s sg|s]; cbn [type_name].
    - reflexivity.
    - np_cases; reflexivity.
    - apply npo_obind; [assumption|intros ?; reflexivity].
    - apply npo_obind; [assumption|intros ?; reflexivity].
    - apply npo_obind; [assumption|intros ?; reflexivity].
    - apply npo_obind; [assumption|intros ?]. apply npo_obind; [assumption|intros ?; reflexivity].
    - apply npo_obind; [assumption|intros ?]. np_cases; reflexivity.
    - np_cases; reflexivity.
    - np_cases; reflexivity.
    - np_cases; reflexivity.
    - np_cases; reflexivity.
  Qed.

  Lemma is_external_np t : npo (is_external d t).
  Proof. unfold is_external. np_cases; reflexivity. Qed.

  Lemma create_var_np n t dn : npo (create_var d n t dn).
  Proof.
    unfold create_var. apply npo_obind; [apply type_name_np|intros ?].
    apply npo_obind; [apply is_external_np|intros ?]. reflexivity.
  Qed.

  Lemma new_typecast_np t r : npo (new_typecast d t r).
  Proof. unfold new_typecast. np_cases; reflexivity. Qed.

  Ltac np_b tac :=
    repeat first
      [ tac
      | apply type_name_np | apply new_typecast_np | apply create_var_np | apply is_external_np
      | apply np_ret | apply np_fail | apply np_errorf | apply np_unsup | apply np_emit | apply np_warnf
      | apply np_rbind'; [|intros ?]
      | progress np_cases
      | apply np_lift ].

  Section WithOpts.
    Variable o : options.
    Variable mpos : position.

    Lemma cast_node_np t r : np (cast_node d o mpos t r).
    Proof. unfold cast_node. np_b ltac:(fail). Qed.

    Lemma slice_to_slice_np l r : np (slice_to_slice d o l r).
    Proof. unfold slice_to_slice. np_b ltac:(fail). Qed.

    Lemma no_match_warn_np p l : np (no_match_warn d p l).
    Proof. unfold no_match_warn. np_b ltac:(fail). Qed.

    Lemma create_with_converter_np l r c : np (create_with_converter d o mpos l r c).
    Proof. unfold create_with_converter. np_b ltac:(first [apply cast_node_np | apply no_match_warn_np]). Qed.

    Lemma create_with_mapper_np l r m : np (create_with_mapper d o mpos l r m).
    Proof. unfold create_with_mapper. np_b ltac:(first [apply cast_node_np | apply no_match_warn_np]). Qed.

    Lemma create_with_templated_np l r args m : np (create_with_templated d o mpos l r args m).
    Proof. unfold create_with_templated. np_b ltac:(first [apply cast_node_np | apply no_match_warn_np]). Qed.

    Lemma name_pass_np s2s l rs cands :
      (forall a b, np (s2s a b)) -> np (name_pass d o mpos s2s l rs cands).
    Proof.
      intros Hs. induction cands as [|r cands IH]; cbn [name_pass]; [apply np_ret|].
      destruct (_ || _); [assumption|].
      np_b ltac:(first [apply cast_node_np | apply slice_to_slice_np | apply Hs]).
    Qed.

    Lemma name_match_with_np s2s l rs :
      (forall a b, np (s2s a b)) -> np (name_match_with d o mpos s2s l rs).
    Proof.
      intros Hs. unfold name_match_with.
      np_b ltac:(first [apply no_match_warn_np | apply (name_pass_np _ _ _ _ Hs)]).
    Qed.

    Hypothesis Hskip : Forall pm_ok (o_skip o).

    Lemma match_field_with_np nm l r args :
      (forall a b, np (nm a b)) -> np (match_field_with d o mpos nm l r args).
    Proof.
      intros Hn. unfold match_field_with.
      pose proof (should_skip_never_panics (o_skip o) (matcher_expr l) (o_exact o) Hskip) as Hsk.
      destruct (should_skip _ _ _) as [[|]| |]; [apply np_ret| |congruence|apply np_unsup].
      np_b ltac:(first [apply Hn | apply create_with_converter_np | apply create_with_mapper_np | apply create_with_templated_np]).
    Qed.

    Lemma fields_loop_np mf ls fs :
      (forall a, np (mf a)) -> np (fields_loop d mf ls fs).
    Proof.
      intros Hm. induction fs as [|f fs IH]; cbn [fields_loop]; [apply np_ret|].
      destruct (negb _); [assumption|].
      apply np_rbind'; [apply Hm|intros ?]. apply np_rbind'; [assumption|intros ?]. apply np_ret.
    Qed.

    Lemma struct_to_struct_np fuel : forall l r args, np (struct_to_struct d o mpos fuel l r args).
    Proof.
      induction fuel as [|fuel IH]; intros l r args; cbn [struct_to_struct]; [reflexivity|].
      apply fields_loop_np. intros lf. apply match_field_with_np. intros a b.
      apply name_match_with_np. intros a' b'. apply IH.
    Qed.
  End WithOpts.

  Lemma build_manipulator_np m s t args re : np (build_manipulator d m s t args re).
  Proof.
    unfold build_manipulator. destruct m as [m|]; [|apply np_ret].
    np_b ltac:(fail).
  Qed.

  Definition me_wf (m : method_entry) : Prop :=
    sig_wf (me_sig m) = true /\ sg_ptys (me_sig m) <> [] /\ sg_rtys (me_sig m) <> [] /\
    Forall pm_ok (o_skip (me_opts m)).

  Lemma create_function_np fuel m cs : me_wf m -> np (create_function d fuel m cs).
  Proof.
    intros (Hw & Hp & Hr & Hs). unfold create_function.
    unfold sig_wf in Hw. apply andb_true_iff in Hw as [Hw1 Hw2].
    apply Nat.eqb_eq in Hw1. apply Nat.eqb_eq in Hw2.
    destruct (sg_ptys (me_sig m)) as [|src_t arg_ts]; [congruence|].
    destruct (sg_pnames (me_sig m)) as [|src_n arg_ns]; [discriminate|].
    destruct (sg_rtys (me_sig m)) as [|dst_t rts]; [congruence|].
    destruct (sg_rnames (me_sig m)) as [|dst_n rns]; [discriminate|].
    np_b ltac:(first [apply struct_to_struct_np; assumption | apply build_manipulator_np]).
    all: apply np_lift; clear Hw1 Hw2 Hp Hr.
    all: match goal with |- npo (?f 0 ?ns ?ts) => generalize 0; generalize ts; induction ns as [|n ns IH]; intros ts' i end.
    all: try reflexivity.
    all: destruct ts' as [|t ts']; try reflexivity.
    all: apply npo_obind; [apply create_var_np|intros ?]; apply npo_obind; [apply IH|intros ?]; reflexivity.
  Qed.
End BuilderNP.

Section PipelineNP.
  Variable d : dump.

  Lemma create_functions_np st ms : Forall (me_wf) ms -> np (create_functions d st ms).
  Proof.
    induction 1 as [|m ms Hm _ IH]; cbn [create_functions]; [apply np_ret|].
    apply np_rbind'; [now apply create_function_np|intros ?].
    apply np_rbind'; [assumption|intros ?]. apply np_ret.
  Qed.

  Lemma create_blocks_np st bs : Forall (fun b => Forall me_wf (snd b)) bs -> np (create_blocks d st bs).
  Proof.
    induction 1 as [|[e ms] bs Hm _ IH]; cbn [create_blocks]; [apply np_ret|].
    apply np_rbind'; [now apply create_functions_np|intros ?].
    apply np_rbind'; [assumption|intros ?]. apply np_ret.
  Qed.
End PipelineNP.

(** ** the front end *)
Section FrontNP.
  Variable d : dump.

  Lemma lookup_converter_func_np name pos : np (lookup_converter_func d name pos).
  Proof.
    unfold lookup_converter_func.
    destruct (lookup_type d name) as [|[sg ex pk fn| | |]]; try apply np_errorf; try apply np_unsup.
    destruct (negb ex && negb (str_eqb pk (d_pkg_path d))); [apply np_errorf|].
    destruct (sg_ptys sg) as [|a [|a' pl]]; destruct (sg_rtys sg) as [|r [|e [|x rl]]];
      cbn [List.length Nat.eqb Nat.ltb Nat.leb negb orb]; try apply np_errorf; try apply np_ret.
    destruct (is_error_type (d_env d) e); [apply np_ret|apply np_errorf].
  Qed.

  Lemma lookup_manipulator_func_np name on pos : np (lookup_manipulator_func d name on pos).
  Proof.
    unfold lookup_manipulator_func.
    destruct (lookup_type d name) as [|[sg ex pk fn| | |]]; try apply np_errorf; try apply np_unsup.
    np_cases; first [apply np_errorf | apply np_ret].
  Qed.

  Definition skip_ok (o : options) : Prop := Forall pm_ok (o_skip o).

  Lemma parse_one_np vops c st cpos : np (parse_one d vops c st cpos).
  Proof.
    unfold parse_one. destruct st as [o p].
    destruct (notation_match (c_text c)) as [[op m2]|]; [|apply np_fail].
    repeat first
      [ apply lookup_manipulator_func_np
      | apply np_ret | apply np_errorf | apply np_emit
      | apply np_rbind'; [|intros ?]
      | progress np_cases ].
  Qed.

  Lemma parse_one_skip vops c o p cpos o' p' ev :
    skip_ok o -> parse_one d vops c (o, p) cpos = (Ok (o', p'), ev) -> skip_ok o'.
  Proof.
    intros Hs H. unfold parse_one in H.
    destruct (notation_match (c_text c)) as [[op m2]|]; [|discriminate].
    repeat match type of H with
    | (if ?b then _ else _) = _ => destruct b
    | match ?x with _ => _ end = _ => destruct x eqn:?
    end; try discriminate.
    all: try (apply ret_ok in H as [H _]; injection H as <- <-; try exact Hs).
    all: try (apply rbind_ok in H as (m & e1 & e2 & _ & H & _); apply ret_ok in H as [H _]; injection H as <- <-; exact Hs).
    unfold skip_ok. cbn [o_skip add_skip]. apply Forall_app. split; [exact Hs|].
    constructor; [|constructor]. eapply new_pmatcher_ok. eassumption.
  Qed.

  Lemma parse_list_np vops cs : forall st, np (parse_list d vops cs st).
  Proof.
    induction cs as [|c cs IH]; intros st; cbn [parse_list]; [apply np_ret|].
    apply np_rbind'; [apply parse_one_np|intros ?]. apply IH.
  Qed.

  Lemma parse_list_skip vops cs : forall o p o' p' ev,
    skip_ok o -> parse_list d vops cs (o, p) = (Ok (o', p'), ev) -> skip_ok o'.
  Proof.
    induction cs as [|c cs IH]; intros o p o' p' ev Hs H; cbn [parse_list] in H.
    - apply ret_ok in H as [H _]. injection H as <- <-. exact Hs.
    - apply rbind_ok in H as ([o1 p1] & e1 & e2 & H1 & H & _).
      eapply IH; [|exact H]. eapply parse_one_skip; eassumption.
  Qed.

  Lemma parse_notations_np vops cs o : np (parse_notations d vops cs o).
  Proof.
    unfold parse_notations. apply np_rbind'; [apply parse_list_np|intros [o' p]].
    destruct (_ && _); [apply np_errorf|apply np_ret].
  Qed.

  Lemma parse_notations_skip vops cs o o' ev :
    skip_ok o -> parse_notations d vops cs o = (Ok o', ev) -> skip_ok o'.
  Proof.
    intros Hs H. unfold parse_notations in H.
    apply rbind_ok in H as ([o1 p1] & e1 & e2 & H1 & H & _).
    destruct (_ && _); [discriminate|]. apply ret_ok in H as [H _]. subst o1.
    eapply parse_list_skip; eassumption.
  Qed.
End FrontNP.

Section ParseNP.
  Variable d : dump.

  Definition md_wf (m : method_decl) : Prop := sig_wf (md_sig m) = true.
  Definition np3 {A} (x : outcome A * store * list event) : Prop := is_panic (fst (fst x)) = false.

  Lemma parse_method_np m opts st : np (fst (parse_method d m opts st)).
  Proof.
    unfold parse_method.
    destruct (sg_ptys (md_sig m)); [apply np_errorf|]. destruct (sg_rtys (md_sig m)); [apply np_errorf|].
    destruct (extract_notations st _) as [nots st1].
    pose proof (parse_notations_np d Extracted.valid_ops_method nots opts) as Hn.
    destruct (parse_notations d _ nots opts) as [[o|e|s| |w] ev]; try reflexivity. exact Hn.
  Qed.

  Lemma parse_method_wf m opts st me ev st' :
    skip_ok opts -> md_wf m -> parse_method d m opts st = ((Ok me, ev), st') -> me_wf me.
  Proof.
    intros Hs Hw H. unfold parse_method in H.
    destruct (sg_ptys (md_sig m)) as [|p ps] eqn:Ep; [discriminate|].
    destruct (sg_rtys (md_sig m)) as [|r rs] eqn:Er; [discriminate|].
    destruct (extract_notations st _) as [nots st1].
    destruct (parse_notations d _ nots opts) as [[o|e|s| |w] ev1] eqn:En; try discriminate.
    injection H as <- _ _. unfold me_wf, me_sig; cbn [me_decl me_opts].
    rewrite Ep, Er. repeat split; try discriminate; try exact Hw.
    eapply parse_notations_skip; eassumption.
  Qed.

  Lemma parse_methods_loop_np ms : forall opts st acc failed ev,
    np3 (parse_methods_loop d ms opts st acc failed ev).
  Proof.
    induction ms as [|m ms IH]; intros opts st acc failed ev; cbn [parse_methods_loop].
    - destruct failed; reflexivity.
    - pose proof (parse_method_np m opts st) as Hn.
      destruct (parse_method d m opts st) as [[[me|e|s| |w] ev1] st1]; try apply IH; try reflexivity.
      exact Hn.
  Qed.

  Lemma parse_methods_loop_wf ms : forall opts st acc failed ev res st' ev',
    skip_ok opts -> Forall md_wf ms -> Forall me_wf acc ->
    parse_methods_loop d ms opts st acc failed ev = (Ok res, st', ev') -> Forall me_wf res.
  Proof.
    induction ms as [|m ms IH]; intros opts st acc failed ev res st' ev' Hs Hm Ha H; cbn [parse_methods_loop] in H.
    - destruct failed; [discriminate|]. injection H as <- _ _. now apply Forall_rev.
    - inversion Hm as [|? ? Hm1 Hm2]; subst.
      destruct (parse_method d m opts st) as [[[me|e|s| |w] ev1] st1] eqn:Ep; try discriminate.
      + eapply IH; [exact Hs|exact Hm2| |exact H]. constructor; [|exact Ha].
        eapply parse_method_wf; eassumption.
      + eapply IH; [exact Hs|exact Hm2|exact Ha|exact H].
  Qed.

  Lemma find_entries_loop_np ifs : forall st acc, np (find_entries_loop d ifs st acc).
  Proof.
    induction ifs as [|i ifs IH]; intros st acc; cbn [find_entries_loop]; [apply np_ret|].
    destruct (negb (if_in_src i)); [apply IH|].
    destruct (negb _); [apply IH|].
    destruct (extract_notations st _) as [nots st1].
    apply np_rbind'; [apply parse_notations_np|intros ?]. apply IH.
  Qed.

  Definition ie_wf (ifs : list iface_decl) (e : intf_entry) : Prop := skip_ok (ie_opts e) /\ In (ie_decl e) ifs.

  Lemma find_entries_loop_wf ifs0 ifs : forall st acc es st' ev,
    (forall i, In i ifs -> In i ifs0) -> Forall (ie_wf ifs0) acc ->
    find_entries_loop d ifs st acc = (Ok (es, st'), ev) -> Forall (ie_wf ifs0) es.
  Proof.
    induction ifs as [|i ifs IH]; intros st acc es st' ev Hin Ha H; cbn [find_entries_loop] in H.
    - apply ret_ok in H as [H _]. injection H as <- _. now apply Forall_rev.
    - assert (Hin' : forall j, In j ifs -> In j ifs0) by (intros j Hj; apply Hin; now right).
      destruct (negb (if_in_src i)); [eapply IH; eassumption|].
      destruct (negb _); [eapply IH; eassumption|].
      destruct (extract_notations st _) as [nots st1].
      apply rbind_ok in H as (opts & e1 & e2 & Ho & H & _).
      eapply IH; [exact Hin'| |exact H]. constructor; [|exact Ha].
      split; cbn [ie_opts ie_decl]; [|apply Hin; now left].
      eapply parse_notations_skip; [|exact Ho]. constructor.
  Qed.

  Lemma find_entries_np st : np (find_entries d st).
  Proof.
    unfold find_entries. apply np_rbind'; [apply find_entries_loop_np|intros r].
    destruct (fst r); [apply np_errorf|apply np_ret].
  Qed.

  Lemma find_entries_wf st es st' ev :
    find_entries d st = (Ok (es, st'), ev) -> Forall (ie_wf (d_ifaces d)) es.
  Proof.
    unfold find_entries. intros H. apply rbind_ok in H as ([es0 st0] & e1 & e2 & H0 & H & _).
    cbn [fst] in H. destruct es0 as [|e0 es0]; [discriminate|].
    apply ret_ok in H as [H _]. injection H as <- _.
    eapply find_entries_loop_wf; [| |exact H0]; [auto|constructor].
  Qed.

  Definition dump_wf : Prop :=
    Forall (fun i => Forall md_wf (if_methods i)) (d_ifaces d).

  Lemma dump_wf_b_spec : dump_wf_b d = true -> dump_wf.
  Proof.
    unfold dump_wf_b, dump_wf. intros H. rewrite forallb_forall in H. apply Forall_forall. intros i Hi.
    specialize (H i Hi). rewrite forallb_forall in H. apply Forall_forall. exact H.
  Qed.

  Lemma parse_entries_np es : forall st ev, np3 (parse_entries d es st ev).
  Proof.
    induction es as [|e es IH]; intros st ev; cbn [parse_entries]; [reflexivity|].
    pose proof (parse_methods_loop_np (if_methods (ie_decl e)) (ie_opts e) st [] false []) as Hn.
    destruct (parse_methods_loop d _ _ st [] false []) as [[[ms|x|s| |w] st1] ev1]; try reflexivity; [|exact Hn].
    specialize (IH st1 (ev ++ ev1)).
    destruct (parse_entries d es st1 (ev ++ ev1)) as [[[rest|x|s| |w] st2] ev2]; try reflexivity. exact IH.
  Qed.

  Lemma parse_entries_wf es : forall st ev blocks st' ev',
    dump_wf -> Forall (ie_wf (d_ifaces d)) es ->
    parse_entries d es st ev = (Ok blocks, st', ev') -> Forall (fun b => Forall me_wf (snd b)) blocks.
  Proof.
    induction es as [|e es IH]; intros st ev blocks st' ev' Hd He H; cbn [parse_entries] in H.
    - injection H as <- _ _. constructor.
    - inversion He as [|? ? [Hs Hin] He']; subst.
      destruct (parse_methods_loop d _ _ st [] false []) as [[[ms|x|s| |w] st1] ev1] eqn:Ep; try discriminate.
      destruct (parse_entries d es st1 (ev ++ ev1)) as [[[rest|x|s| |w] st2] ev2] eqn:Er; try discriminate.
      injection H as <- _ _. constructor; [|eapply IH; eassumption].
      cbn [snd]. eapply parse_methods_loop_wf; [exact Hs| |constructor|exact Ep].
      unfold dump_wf in Hd. rewrite Forall_forall in Hd. now apply Hd.
  Qed.
End ParseNP.

Section ResolveNP.
  Variable d : dump.

  Lemma resolve_converter_np all c : Forall me_wf all -> np (resolve_converter d all c).
  Proof.
    intros Ha. unfold resolve_converter.
    pose proof (lookup_converter_func_np d (fc_name c) (fc_pos c)) as Hn.
    destruct (lookup_converter_func d (fc_name c) (fc_pos c)) as [[[[a r] e]|err0|s| |w] ev0]; try reflexivity; [|exact Hn].
    clear Hn. generalize err0 ev0. induction Ha as [|m ms Hm _ IH]; intros err ev; [reflexivity|].
    destruct (negb (str_eqb (me_name m) (fc_name c))); [apply IH|].
    destruct (negb (str_eqb (o_style (me_opts m)) style_return)); [apply IH|].
    destruct (negb (str_eqb (o_receiver (me_opts m)) [])); [apply IH|].
    destruct Hm as (_ & Hp & Hr & _).
    destruct (sg_ptys (me_sig m)); [congruence|]. destruct (sg_rtys (me_sig m)); [congruence|]. reflexivity.
  Qed.

  Lemma resolve_convs_np all cs : Forall me_wf all -> np (resolve_convs d all cs).
  Proof.
    intros Ha. induction cs as [|c cs IH]; cbn [resolve_convs]; [apply np_ret|].
    apply np_rbind'; [now apply resolve_converter_np|intros ?].
    apply np_rbind'; [assumption|intros ?]. apply np_ret.
  Qed.

  Lemma resolve_all_np all ms : Forall me_wf all -> np (resolve_all d all ms).
  Proof.
    intros Ha. induction ms as [|m ms IH]; cbn [resolve_all]; [apply np_ret|].
    apply np_rbind'; [now apply resolve_convs_np|intros ?].
    apply np_rbind'; [assumption|intros ?]. apply np_ret.
  Qed.

  Lemma resolve_all_wf all ms : forall res ev,
    Forall me_wf ms -> resolve_all d all ms = (Ok res, ev) -> Forall me_wf res.
  Proof.
    induction ms as [|m ms IH]; intros res ev Hm H; cbn [resolve_all] in H.
    - apply ret_ok in H as [H _]. subst. constructor.
    - inversion Hm as [|? ? Hm1 Hm2]; subst.
      apply rbind_ok in H as (cs & e1 & e2 & _ & H & _).
      apply rbind_ok in H as (rest & e3 & e4 & Hr & H & _).
      apply ret_ok in H as [H _]. subst res. constructor; [|eapply IH; eassumption].
      destruct Hm1 as (H1 & H2 & H3 & H4). repeat split; assumption.
  Qed.

  Lemma Forall_firstn {A} (P : A -> Prop) n : forall l, Forall P l -> Forall P (firstn n l).
  Proof. induction n as [|n IH]; intros [|x l] H; cbn [firstn]; try constructor; inversion H; subst; auto. Qed.
  Lemma Forall_skipn {A} (P : A -> Prop) n : forall l, Forall P l -> Forall P (skipn n l).
  Proof. induction n as [|n IH]; intros [|x l] H; cbn [skipn]; try assumption; inversion H; subst; auto. Qed.

  Lemma regroup_wf blocks resolved :
    Forall me_wf resolved -> Forall (fun b => Forall me_wf (snd b)) (regroup blocks resolved).
  Proof.
    unfold regroup. intros Hr.
    assert (G : forall bs done rest,
               Forall (fun b : intf_entry * list method_entry => Forall me_wf (snd b)) done -> Forall me_wf rest ->
               Forall (fun b : intf_entry * list method_entry => Forall me_wf (snd b))
                 (fst (fold_left (fun (acc : list (intf_entry * list method_entry) * list method_entry)
                                      (b : intf_entry * list method_entry) =>
                    let '(done, rest) := acc in
                    let n := List.length (snd b) in
                    (done ++ [(fst b, firstn n rest)], skipn n rest)) bs (done, rest)))).
    { induction bs as [|b bs IH]; intros done rest Hd Hrest; cbn [fold_left fst]; [assumption|].
      apply IH.
      - apply Forall_app. split; [assumption|]. constructor; [|constructor]. cbn [snd]. now apply Forall_firstn.
      - now apply Forall_skipn. }
    apply G; [constructor|assumption].
  Qed.

  Lemma Forall_concat_snd (bs : list (intf_entry * list method_entry)) :
    Forall (fun b => Forall me_wf (snd b)) bs -> Forall me_wf (List.concat (List.map snd bs)).
  Proof.
    induction 1 as [|b bs Hb _ IH]; cbn [List.map List.concat]; [constructor|].
    apply Forall_app. split; assumption.
  Qed.

  Lemma parse_np st0 : dump_wf d -> np3 (parse d st0).
  Proof.
    intros Hd. unfold parse.
    pose proof (find_entries_np d st0) as Hn.
    destruct (find_entries d st0) as [[[es st1]|e|s| |w] ev1] eqn:Ef; try reflexivity; [|exact Hn].
    pose proof (parse_entries_np d es st1 ev1) as Hp.
    destruct (parse_entries d es st1 ev1) as [[[blocks|e|s| |w] st2] ev2] eqn:Ep; try reflexivity; [|exact Hp].
    assert (Hb : Forall (fun b => Forall me_wf (snd b)) blocks).
    { eapply parse_entries_wf; [exact Hd| |exact Ep]. eapply find_entries_wf. exact Ef. }
    pose proof (resolve_all_np (List.concat (List.map snd blocks)) (List.concat (List.map snd blocks)) (Forall_concat_snd _ Hb)) as Hr.
    destruct (resolve_all d _ _) as [[res|e|s| |w] ev3]; try reflexivity. exact Hr.
  Qed.

  Lemma parse_wf st0 blocks st ev :
    dump_wf d -> parse d st0 = (Ok blocks, st, ev) -> Forall (fun b => Forall me_wf (snd b)) blocks.
  Proof.
    intros Hd H. unfold parse in H.
    destruct (find_entries d st0) as [[[es st1]|e|s| |w] ev1] eqn:Ef; try discriminate.
    destruct (parse_entries d es st1 ev1) as [[[bl|e|s| |w] st2] ev2] eqn:Ep; try discriminate.
    assert (Hb : Forall (fun b => Forall me_wf (snd b)) bl).
    { eapply parse_entries_wf; [exact Hd| |exact Ep]. eapply find_entries_wf. exact Ef. }
    destruct (resolve_all d _ _) as [[res|e|s| |w] ev3] eqn:Er; try discriminate.
    injection H as <- _ _. apply regroup_wf.
    eapply resolve_all_wf; [|exact Er]. now apply Forall_concat_snd.
  Qed.

  (** the whole pipeline *)
  Theorem run_pipeline_never_panics : dump_wf_b d = true -> is_panic (po_result (run_pipeline d)) = false.
  Proof.
    intros Hd. apply dump_wf_b_spec in Hd. unfold run_pipeline.
    pose proof (parse_np {| st_groups := d_comments d; st_docs := d_docs d |} Hd) as Hn.
    destruct (parse d _) as [[[blocks|e|s| |w] st] ev] eqn:Ep; try reflexivity; [|exact Hn].
    pose proof (create_blocks_np d st blocks (parse_wf _ _ _ _ Hd Ep)) as Hc.
    destruct (create_blocks d st blocks) as [o ev']. exact Hc.
  Qed.
End ResolveNP.
