(** MatchProofs.v — default (name) matching: where an assignment can come from,
    and that String()/conversions/getter calls appear only when opted in (C04). *)
From Coq Require Import String.
From Cvg Require Import Base GoTypes Re Unicode Matcher Dump Options Front Builder.
From Cvg.proofs Require Import BuilderProofs.
Open Scope N_scope.

Section MatchProofs.
  Variable d : dump.
  Variable o : options.
  Variable mpos : position.
  Let E := d_env d.

  (** what the name pass can produce for [lhs] from a candidate [r] *)
  Inductive from_candidate (lhs r : node) : assignment -> Prop :=
  | FcSimple n : cast_shape d o r (expr_type lhs) n -> from_candidate lhs r (ASimple lhs (RNode n) (returns_error n))
  | FcSlice t : from_candidate lhs r (ASlice lhs r t)
  | FcSliceLoop t : from_candidate lhs r (ASliceLoop lhs r t)
  | FcSliceCast t c : o_typecast o = true -> from_candidate lhs r (ASliceCast lhs r t c)
  | FcNest cs : is_struct_type E (expr_type lhs) = true -> is_struct_type E (expr_type r) = true ->
                from_candidate lhs r (ANest cs).

  Lemma slice_to_slice_from lhs r a ev :
    slice_to_slice d o lhs r = (Ok (Some a), ev) -> from_candidate lhs r a.
  Proof.
    unfold slice_to_slice.
    destruct (slice_elem (expr_type lhs)) as [le|]; [|intros H; apply ret_ok in H as [H _]; discriminate].
    destruct (slice_elem (expr_type r)) as [re|]; [|intros H; apply ret_ok in H as [H _]; discriminate].
    destruct (assignable (d_env d) re le).
    - destruct (is_basic re && identical false le re).
      + intros H. apply ret_ok in H as [H _]. injection H as <-. constructor.
      + intros H. apply rbind_ok in H as (tn & e1 & e2 & _ & H & _). apply ret_ok in H as [H _]. injection H as <-. constructor.
    - destruct (o_typecast o && convertible (d_env d) re le) eqn:Et.
      + intros H. apply rbind_ok in H as (tn & e1 & e2 & _ & H & _). apply ret_ok in H as [H _]. injection H as <-.
        apply andb_true_iff in Et as [Et _]. now constructor.
      + intros H. apply ret_ok in H as [H _]. discriminate.
  Qed.

  (** the candidate that decided: accessible, same name under the case rule *)
  Lemma name_pass_from s2s lhs R : forall cands a b ev,
    name_pass d o mpos s2s lhs R cands = (Ok (PDone (Some a) b), ev) ->
    exists r, In r cands /\ is_field_accessible d R (obj_name r) = true /\
              compare_field_name o (obj_name lhs) (obj_name r) = true /\ from_candidate lhs r a.
  Proof.
    induction cands as [|r cands IH]; intros a b ev H; simpl in H.
    - apply ret_ok in H as [H _]. discriminate.
    - destruct (is_field_accessible d R (obj_name r)) eqn:Ea; simpl in H.
      2:{ destruct (IH _ _ _ H) as (r' & Hin & Hr). exists r'. split; [now right|exact Hr]. }
      destruct (compare_field_name o (obj_name lhs) (obj_name r)) eqn:Ec; simpl in H.
      2:{ destruct (IH _ _ _ H) as (r' & Hin & Hr). exists r'. split; [now right|exact Hr]. }
      exists r. split; [now left|]. split; [assumption|]. split; [assumption|].
      apply rbind_ok in H as (sl & e1 & e2 & Hsl & H & _).
      destruct sl as [x|].
      + apply ret_ok in H as [H _]. injection H as <- <-.
        destruct (is_slice (expr_type lhs) && is_slice (expr_type r)).
        * eapply slice_to_slice_from; eassumption.
        * apply ret_ok in Hsl as [Hsl _]. discriminate.
      + apply rbind_ok in H as (c & e3 & e4 & Hc & H & _).
        destruct c as [cn|].
        * apply ret_ok in H as [H _]. injection H as <- <-. constructor. eapply cast_node_shape; eassumption.
        * destruct (is_struct_type (d_env d) (expr_type lhs) && is_struct_type (d_env d) (expr_type r)) eqn:Est.
          -- apply rbind_ok in H as (cs & e5 & e6 & Hcs & H & _).
             apply ret_ok in H as [H _]. apply andb_true_iff in Est as [E1 E2].
             destruct cs; [discriminate|]. injection H as <- <-. now constructor.
          -- apply ret_ok in H as [H _]. discriminate.
  Qed.

  (** C04: an entry produced by the default name match is `no match`, or comes
      from a getter candidate (only with :getter) or a field candidate (only with
      :match name) that is accessible and has the same name under the case rule. *)
  Theorem name_match_sources s2s lhs R a ev :
    name_match_with d o mpos s2s lhs R = (Ok (Some a), ev) ->
    a = ANoMatch lhs \/
    (exists r, o_getter o = true /\ In r (getter_nodes d R) /\
               is_field_accessible d R (obj_name r) = true /\
               compare_field_name o (obj_name lhs) (obj_name r) = true /\ from_candidate lhs r a) \/
    (exists r, str_eqb (o_rule o) rule_name = true /\ In r (field_nodes d R) /\
               is_field_accessible d R (obj_name r) = true /\
               compare_field_name o (obj_name lhs) (obj_name r) = true /\ from_candidate lhs r a).
  Proof.
    intros H. unfold name_match_with in H.
    apply rbind_ok in H as (g & e1 & e2 & Hg & H & _).
    assert (Fin : forall (b : bool) ev',
               (if b then ret None else doR x <- no_match_warn d mpos lhs; ret (Some x)) = (Ok (Some a), ev') -> a = ANoMatch lhs).
    { intros b ev' H'. destruct b; [apply ret_ok in H' as [H' _]; discriminate|].
      apply rbind_ok in H' as (x & e5 & e6 & Hx & H' & _).
      apply ret_ok in H' as [H' _]. injection H' as <-. now apply no_match_warn_shape in Hx. }
    assert (FieldPass : forall f e3, (if str_eqb (o_rule o) rule_name then name_pass d o mpos s2s lhs R (field_nodes d R) else ret PNotFound) = (Ok f, e3) ->
               forall fa fn, f = PDone (Some fa) fn ->
               exists r, str_eqb (o_rule o) rule_name = true /\ In r (field_nodes d R) /\
                 is_field_accessible d R (obj_name r) = true /\
                 compare_field_name o (obj_name lhs) (obj_name r) = true /\ from_candidate lhs r fa).
    { intros f e3 Hf fa fn ->. destruct (str_eqb (o_rule o) rule_name) eqn:Er.
      - destruct (name_pass_from _ _ _ _ _ _ _ Hf) as (r & ? & ? & ? & ?). exists r. auto.
      - apply ret_ok in Hf as [Hf _]. discriminate. }
    destruct g as [|[ga|] gn]; cbn [fst snd] in H.
    - apply rbind_ok in H as (f & e3 & e4 & Hf & H & _).
      destruct f as [|[fa|] fn]; cbn [fst snd] in H.
      + left. eapply Fin; exact H.
      + apply ret_ok in H as [H _]. injection H as <-. right. right. eapply FieldPass; [exact Hf|reflexivity].
      + left. eapply Fin; exact H.
    - apply ret_ok in H as [H _]. injection H as <-. right. left.
      destruct (o_getter o) eqn:Eg.
      + destruct (name_pass_from _ _ _ _ _ _ _ Hg) as (r & ? & ? & ? & ?). exists r. auto.
      + apply ret_ok in Hg as [Hg _]. discriminate.
    - apply rbind_ok in H as (f & e3 & e4 & Hf & H & _).
      destruct f as [|[fa|] fn]; cbn [fst snd] in H.
      + left. eapply Fin; exact H.
      + apply ret_ok in H as [H _]. injection H as <-. right. right. eapply FieldPass; [exact Hf|reflexivity].
      + left. eapply Fin; exact H.
  Qed.

  (** with :match none and without :getter nothing is matched by name *)
  Theorem match_none_matches_nothing s2s lhs R a ev :
    str_eqb (o_rule o) rule_name = false -> o_getter o = false ->
    name_match_with d o mpos s2s lhs R = (Ok a, ev) -> a = Some (ANoMatch lhs).
  Proof.
    intros Hr Hg H. unfold name_match_with in H. rewrite Hr, Hg in H.
    apply rbind_ok in H as (g & e1 & e2 & Hg' & H & _). apply ret_ok in Hg' as [<- _]. cbn [fst snd] in H.
    apply rbind_ok in H as (f & e3 & e4 & Hf & H & _). apply ret_ok in Hf as [<- _]. cbn [fst snd andb] in H.
    apply rbind_ok in H as (x & e5 & e6 & Hx & H & _). apply ret_ok in H as [<- _].
    now apply no_match_warn_shape in Hx as ->.
  Qed.

  (** ** the converse direction: the FIRST accessible same-named candidate decides *)
  Definition cand_ok (lhs R r : node) : bool :=
    is_field_accessible d R (obj_name r) && compare_field_name o (obj_name lhs) (obj_name r).

  Lemma name_pass_first s2s lhs R : forall cands,
    name_pass d o mpos s2s lhs R cands =
      match find (cand_ok lhs R) cands with
      | None => ret PNotFound
      | Some r => name_pass d o mpos s2s lhs R [r]
      end.
  Proof.
    induction cands as [|r cands IH]; [reflexivity|].
    cbn [find]. unfold cand_ok at 1.
    destruct (is_field_accessible d R (obj_name r)) eqn:Ea; cbn [andb].
    - destruct (compare_field_name o (obj_name lhs) (obj_name r)) eqn:Ec.
      + cbn [name_pass]. rewrite Ea, Ec. reflexivity.
      + cbn [name_pass]. rewrite Ea, Ec. cbn [negb orb]. exact IH.
    - cbn [name_pass]. rewrite Ea. cbn [negb orb]. exact IH.
  Qed.

  (** no accessible same-named candidate: the pass finds nothing *)
  Lemma name_pass_none s2s lhs R cands :
    (forall r, In r cands -> cand_ok lhs R r = false) ->
    name_pass d o mpos s2s lhs R cands = ret PNotFound.
  Proof.
    intros H. rewrite name_pass_first.
    destruct (find (cand_ok lhs R) cands) as [r|] eqn:Efi; [|reflexivity].
    apply find_some in Efi as [Hin Hok]. rewrite (H r Hin) in Hok. discriminate.
  Qed.

  (** a first candidate that is assignable as it stands (and not a slice pair) is assigned as it stands *)
  Lemma name_pass_assignable s2s lhs R cands r :
    find (cand_ok lhs R) cands = Some r ->
    (is_slice (expr_type lhs) && is_slice (expr_type r)) = false ->
    assignable E (expr_type r) (expr_type lhs) = true ->
    name_pass d o mpos s2s lhs R cands = ret (PDone (Some (ASimple lhs (RNode r) (returns_error r))) false).
  Proof.
    intros Hf Hs Ha. rewrite name_pass_first, Hf. cbn [name_pass].
    apply find_some in Hf as [_ Hok]. unfold cand_ok in Hok. apply andb_true_iff in Hok as [H1 H2].
    rewrite H1, H2, Hs. cbn [negb orb]. unfold cast_node. fold E. rewrite Ha. reflexivity.
  Qed.

  (** nothing accessible of that name among getters (when consulted) and fields (when consulted):
      the field is reported `no match` *)
  Theorem name_match_no_candidate s2s lhs R a ev :
    (o_getter o = true -> forall r, In r (getter_nodes d R) -> cand_ok lhs R r = false) ->
    (str_eqb (o_rule o) rule_name = true -> forall r, In r (field_nodes d R) -> cand_ok lhs R r = false) ->
    name_match_with d o mpos s2s lhs R = (Ok a, ev) -> a = Some (ANoMatch lhs).
  Proof.
    intros Hg Hf H. unfold name_match_with in H.
    assert (Eg : (if o_getter o then name_pass d o mpos s2s lhs R (getter_nodes d R) else ret PNotFound) = ret PNotFound).
    { destruct (o_getter o); [apply name_pass_none; auto|reflexivity]. }
    assert (Ef : (if str_eqb (o_rule o) rule_name then name_pass d o mpos s2s lhs R (field_nodes d R) else ret PNotFound) = ret PNotFound).
    { destruct (str_eqb (o_rule o) rule_name); [apply name_pass_none; auto|reflexivity]. }
    rewrite Eg in H. apply rbind_ok in H as (g & e1 & e2 & Hg' & H & _). apply ret_ok in Hg' as [<- _]. cbn [fst snd] in H.
    rewrite Ef in H. apply rbind_ok in H as (f & e3 & e4 & Hf' & H & _). apply ret_ok in Hf' as [<- _]. cbn [fst snd] in H.
    rewrite andb_false_r in H.
    apply rbind_ok in H as (x & e5 & e6 & Hx & H & _). apply ret_ok in H as [<- _].
    now apply no_match_warn_shape in Hx as ->.
  Qed.
End MatchProofs.
