(** ReProofs.v — the regexp parser of Re.v: the outcome class and the rest of the input do not
    depend on the flags in force nor on spare fuel; hence validity of a pattern does not
    depend on the "(?i)" prefix the case rule adds (C19). *)
From Coq Require Import String Lia.
From Cvg Require Import Base Re Unicode Matcher.
Open Scope N_scope.

(** one unfolding of the mutual fixpoint, with the recursive calls as parameters *)
Definition altn_body (U : utables)
    (altn : flags -> list N -> nat -> pres (re * list N))
    (seq : flags -> list N -> nat -> re -> atom_state -> pres (re * list N * flags))
    (f : flags) (s : list N) (depth : nat) : pres (re * list N) :=
      match seq f s depth Eps NoAtom with
      | POk (r, rest, f') =>
          match rest with
          | c :: rest' =>
              if c =? 124 then
                match altn f' rest' depth with
                | POk (r2, rest2) => POk (Alt r r2, rest2)
                | PErr => PErr | PUnsup => PUnsup | PFuel => PFuel
                end
              else POk (r, rest)
          | [] => POk (r, rest)
          end
      | PErr => PErr | PUnsup => PUnsup | PFuel => PFuel
      end.

Definition seq_body (U : utables)
    (altn : flags -> list N -> nat -> pres (re * list N))
    (seq : flags -> list N -> nat -> re -> atom_state -> pres (re * list N * flags))
    (f : flags) (s : list N) (depth : nat) (acc : re) (cur : atom_state) : pres (re * list N * flags) :=
  let flush := match cur with NoAtom => acc | HasAtom r _ => mk_cat acc r end in
  (* a parenthesised group body [body] parsed with flags [fin]; continue after ')' with flags [fout] *)
      let group (fin : flags) (body : list N) : pres (re * list N * flags) :=
        match altn fin body (S depth) with
        | POk (r, rest) =>
            match is_rparen rest with
            | Some rest' => seq f rest' depth flush (HasAtom r false)
            | None => PErr
            end
        | PErr => PErr | PUnsup => PUnsup | PFuel => PFuel
        end in
      match s with
      | [] => POk (flush, [], f)
      | c :: s' =>
          if c =? 124 then POk (flush, s, f)
          else if c =? 41 then (if Nat.eqb depth 0 then PErr else POk (flush, s, f))
          else if c =? 40 then
            match s' with
            | q :: s2 =>
                if q =? 63 then
                  match s2 with
                  | p1 :: s3 =>
                      if (p1 =? 80) && (match s3 with lt :: _ => lt =? 60 | [] => false end) then
                        match skip_group_name (tl s3) 0 with
                        | Some s4 => group f s4
                        | None => PErr
                        end
                      else if p1 =? 60 then
                        match skip_group_name s3 0 with
                        | Some s4 => group f s4
                        | None => PErr
                        end
                      else
                        match parse_flags_hdr s2 f false false false with
                        | (GFlagsOnly f', rest) => seq f' rest depth flush NoAtom
                        | (GGroup f', rest) => group f' rest
                        | (GBad, _) => PErr
                        end
                  | [] => PErr
                  end
                else group f s'
            | [] => PErr
            end
          else if (c =? 42) || (c =? 43) || (c =? 63) then
            match cur with
            | NoAtom => PErr
            | HasAtom r true => PErr
            | HasAtom r false =>
                let r' := if c =? 42 then Star r else if c =? 43 then mk_cat r (Star r) else mk_alt Eps r in
                seq f (skip_lazy s') depth acc (HasAtom r' true)
            end
          else if c =? 123 then
            match parse_repeat s' with
            | Some (mn, mx, rest) =>
                match cur with
                | NoAtom => PErr
                | HasAtom r true => PErr
                | HasAtom r false =>
                    let bad := (1000 <? mn) || match mx with Some m => (1000 <? m) || (m <? mn) | None => false end in
                    if bad then PErr
                    else seq f (skip_lazy rest) depth acc (HasAtom (mk_repeat r mn mx) true)
                end
            | None => seq f s' depth flush (HasAtom (lit U f 123) false)
            end
          else if c =? 91 then
            let '(neg, s1) := match s' with h :: t => if h =? 94 then (true, t) else (false, s') | [] => (false, s') end in
            match parse_class_body U (S (S (List.length s1)) * 2) s1 true [] with
            | POk (rs, rest) => seq f rest depth flush (HasAtom (Cls neg rs (fl_i f)) false)
            | PErr => PErr | PUnsup => PUnsup | PFuel => PFuel
            end
          else if c =? 46 then
            seq f s' depth flush (HasAtom (if fl_s f then any_char else any_not_nl) false)
          else if c =? 94 then
            seq f s' depth flush (HasAtom (Assert (if fl_m f then BeginLine else BeginText)) false)
          else if c =? 36 then
            seq f s' depth flush (HasAtom (Assert (if fl_m f then EndLine else EndText)) false)
          else if c =? 92 then
            match parse_escape U false s' with
            | (ERune c', rest) => seq f rest depth flush (HasAtom (lit U f c') false)
            | (EClass neg rs, rest) => seq f rest depth flush (HasAtom (Cls neg rs (fl_i f)) false)
            | (EAssert a, rest) => seq f rest depth flush (HasAtom (Assert a) false)
            | (EQuote, rest) =>
                let '(q, rest') := read_quote rest [] in
                match rev q with
                | [] => seq f rest' depth flush NoAtom
                | last :: initr =>
                    let pre := fold_left (fun a x => mk_cat a (lit U f x)) (rev initr) flush in
                    seq f rest' depth pre (HasAtom (lit U f last) false)
                end
            | (EUnsup, _) => PUnsup
            | (EBad, _) => PErr
            end
          else seq f s' depth flush (HasAtom (lit U f c) false)
      end.

Lemma parse_altn_S U n f s d : parse_altn U (S n) f s d = altn_body U (parse_altn U n) (parse_seq U n) f s d.
Proof. reflexivity. Qed.
Lemma parse_seq_S U n f s d acc cur : parse_seq U (S n) f s d acc cur = seq_body U (parse_altn U n) (parse_seq U n) f s d acc cur.
Proof. reflexivity. Qed.

(** ** what a run decides: the outcome class and the rest of the input *)
Definition cls2 (r : pres (re * list N)) : pres (list N) :=
  match r with POk (_, rest) => POk rest | PErr => PErr | PUnsup => PUnsup | PFuel => PFuel end.
Definition cls3 (r : pres (re * list N * flags)) : pres (list N) :=
  match r with POk (_, rest, _) => POk rest | PErr => PErr | PUnsup => PUnsup | PFuel => PFuel end.
Definition cur_sim (c1 c2 : atom_state) : Prop :=
  match c1, c2 with
  | NoAtom, NoAtom => True
  | HasAtom _ b1, HasAtom _ b2 => b1 = b2
  | _, _ => False
  end.

Definition hdr_kind (h : ghdr) : N := match h with GFlagsOnly _ => 0 | GGroup _ => 1 | GBad => 2 end.

Lemma hdr_sim : forall s f1 f2 neg sn sf,
  hdr_kind (fst (parse_flags_hdr s f1 neg sn sf)) = hdr_kind (fst (parse_flags_hdr s f2 neg sn sf)) /\
  snd (parse_flags_hdr s f1 neg sn sf) = snd (parse_flags_hdr s f2 neg sn sf).
Proof.
  induction s as [|c s IH]; intros f1 f2 neg sn sf; [split; reflexivity|].
  cbn [parse_flags_hdr].
  repeat match goal with
         | |- context [match ?x with _ => _ end] =>
             lazymatch x with
             | context [parse_flags_hdr] => fail
             | _ => destruct x
             end
         end; try (split; reflexivity); apply IH.
Qed.

Section Body.
  Variable U : utables.
  Variables (altn1 altn2 : flags -> list N -> nat -> pres (re * list N)).
  Variables (seq1 seq2 : flags -> list N -> nat -> re -> atom_state -> pres (re * list N * flags)).
  Hypothesis Haltn : forall f1 f2 s d,
    cls2 (altn1 f1 s d) <> PFuel -> cls2 (altn2 f2 s d) = cls2 (altn1 f1 s d).
  Hypothesis Hseq : forall f1 f2 s d a1 a2 c1 c2, cur_sim c1 c2 ->
    cls3 (seq1 f1 s d a1 c1) <> PFuel -> cls3 (seq2 f2 s d a2 c2) = cls3 (seq1 f1 s d a1 c1).

  Lemma altn_body_sim f1 f2 s d :
    cls2 (altn_body U altn1 seq1 f1 s d) <> PFuel ->
    cls2 (altn_body U altn2 seq2 f2 s d) = cls2 (altn_body U altn1 seq1 f1 s d).
  Proof.
    unfold altn_body. pose proof (Hseq f1 f2 s d Eps Eps NoAtom NoAtom I) as H.
    destruct (seq1 f1 s d Eps NoAtom) as [[[r rest] f']| | |]; cbn [cls3 cls2] in *; intros Hn; try congruence;
      specialize (H ltac:(discriminate));
      destruct (seq2 f2 s d Eps NoAtom) as [[[r' rest'] f'']| | |]; cbn [cls3] in H; try discriminate; try reflexivity.
    injection H as ->. destruct rest as [|c rest1]; [reflexivity|].
    destruct (c =? 124); [|reflexivity].
    pose proof (Haltn f' f'' rest1 d) as H2.
    destruct (altn1 f' rest1 d) as [[r2 rest2]| | |]; cbn [cls2] in *; try congruence;
      specialize (H2 ltac:(discriminate));
      destruct (altn2 f'' rest1 d) as [[r2' rest2']| | |]; cbn [cls2] in H2; try discriminate; try reflexivity.
    now injection H2 as ->.
  Qed.

  (** the scrutinees that are not recursive calls *)
  Ltac split_plain :=
    match goal with
    | |- context [if ?b then _ else _] =>
        lazymatch b with
        | context [seq1] => fail | context [seq2] => fail | context [altn1] => fail | context [altn2] => fail
        | _ => destruct b eqn:?
        end
    | |- context [match ?x with _ => _ end] =>
        lazymatch x with
        | context [seq1] => fail | context [seq2] => fail | context [altn1] => fail | context [altn2] => fail
        | _ => destruct x eqn:?
        end
    end.

  Ltac hdr_clash :=
    match goal with
    | H1 : parse_flags_hdr ?s ?fa ?n ?a ?b = _, H2 : parse_flags_hdr ?s ?fb ?n ?a ?b = _ |- _ =>
        let X := fresh "X" in
        pose proof (hdr_sim s fa fb n a b) as X; rewrite H1, H2 in X; cbn [fst snd hdr_kind] in X;
        destruct X as [X1 X2]; try discriminate X1; subst
    end.

  Ltac tail_call := intros Hn; apply Hseq; [cbn [cur_sim]; auto|exact Hn].

  Ltac group_call :=
    match goal with
    | |- cls3 (match altn1 ?fa ?body ?d with _ => _ end) <> PFuel -> _ =
         cls3 (match altn1 ?fa ?body ?d with _ => _ end) =>
        let H := fresh "Hg" in
        match goal with
        | |- _ -> cls3 (match altn2 ?fb _ _ with _ => _ end) = _ =>
            pose proof (Haltn fa fb body d) as H;
            destruct (altn1 fa body d) as [[? ?]| | |]; cbn [cls2 cls3] in *; intros Hn; try congruence;
            specialize (H ltac:(discriminate));
            destruct (altn2 fb body d) as [[? ?]| | |]; cbn [cls2] in H; try discriminate; try reflexivity;
            injection H as ->; revert Hn
        end
    end.

  Lemma seq_body_sim f1 f2 s d a1 a2 c1 c2 :
    cur_sim c1 c2 ->
    cls3 (seq_body U altn1 seq1 f1 s d a1 c1) <> PFuel ->
    cls3 (seq_body U altn2 seq2 f2 s d a2 c2) = cls3 (seq_body U altn1 seq1 f1 s d a1 c1).
  Proof.
    intros Hc. unfold seq_body. cbv zeta.
    destruct c1 as [|r1 b1], c2 as [|r2 b2]; cbn [cur_sim] in Hc; try contradiction; subst.
    all: repeat split_plain.
    all: try hdr_clash.
    all: try (intros _; reflexivity).
    all: try tail_call.
    all: try (group_call; repeat split_plain; try (intros _; reflexivity); tail_call).
  Qed.
End Body.

(** ** flags and spare fuel do not change the outcome class nor the rest *)
Theorem parse_sim U : forall fuel1,
  (forall fuel2 f1 f2 s d, (fuel1 <= fuel2)%nat ->
     cls2 (parse_altn U fuel1 f1 s d) <> PFuel ->
     cls2 (parse_altn U fuel2 f2 s d) = cls2 (parse_altn U fuel1 f1 s d)) /\
  (forall fuel2 f1 f2 s d a1 a2 c1 c2, (fuel1 <= fuel2)%nat -> cur_sim c1 c2 ->
     cls3 (parse_seq U fuel1 f1 s d a1 c1) <> PFuel ->
     cls3 (parse_seq U fuel2 f2 s d a2 c2) = cls3 (parse_seq U fuel1 f1 s d a1 c1)).
Proof.
  induction fuel1 as [|n1 [IHa IHs]].
  - split; intros; cbn in *; congruence.
  - split.
    + intros fuel2 f1 f2 s d Hle. destruct fuel2 as [|n2]; [lia|].
      rewrite !parse_altn_S. apply altn_body_sim.
      * intros. apply IHa; [lia|assumption].
      * intros. apply IHs; [lia|assumption|assumption].
    + intros fuel2 f1 f2 s d a1 a2 c1 c2 Hle Hc. destruct fuel2 as [|n2]; [lia|].
      rewrite !parse_seq_S. apply seq_body_sim; [| |exact Hc].
      * intros. apply IHa; [lia|assumption].
      * intros. apply IHs; [lia|assumption|assumption].
Qed.

(** ** the "(?i)" prefix *)
Lemma decode_ascii b s : b < 128 -> decode (b :: s) = b :: decode s.
Proof.
  intros Hb. unfold decode. cbn [List.length decode_aux decode_rune].
  apply N.ltb_lt in Hb. rewrite Hb. reflexivity.
Qed.

Lemma encode_ascii b l : b < 128 -> encode (b :: l) = b :: encode l.
Proof.
  intros Hb. unfold encode. cbn [List.map]. unfold encode_rune.
  assert (E1 : ((55296 <=? b) && (b <=? 57343) || (1114111 <? b)) = false).
  { apply orb_false_iff. split; [apply andb_false_iff; left; apply N.leb_gt; lia|apply N.ltb_ge; lia]. }
  rewrite E1. apply N.ltb_lt in Hb. rewrite Hb. reflexivity.
Qed.

Definition pclass {A} (r : pres A) : N := match r with POk _ => 0 | PErr => 1 | PUnsup => 2 | PFuel => 3 end.

Theorem case_prefix_keeps_validity U e :
  parse_re U e <> PFuel -> pclass (parse_re U (s2b "(?i)" ++ e)) = pclass (parse_re U e).
Proof.
  change (s2b "(?i)") with [40; 63; 105; 41]. cbn [app]. unfold parse_re.
  rewrite !decode_ascii by lia. rewrite !encode_ascii by lia.
  assert (Ev : str_eqb (40 :: 63 :: 105 :: 41 :: encode (decode e)) (40 :: 63 :: 105 :: 41 :: e) = str_eqb (encode (decode e)) e).
  { reflexivity. }
  rewrite Ev. destruct (negb (str_eqb (encode (decode e)) e)); [reflexivity|].
  set (s := decode e). cbn [List.length].
  set (F0 := (S (S (List.length s)) * 3)%nat).
  set (F1 := (S (S (S (S (S (S (List.length s)))))) * 3)%nat).
  intros Hn.
  assert (Hc : cls2 (parse_altn U F1 flags0 (40 :: 63 :: 105 :: 41 :: s) 0) = cls2 (parse_altn U F0 flags0 s 0)).
  { assert (Hn0 : cls2 (parse_altn U F0 flags0 s 0) <> PFuel).
    { intros H. apply Hn. destruct (parse_altn U F0 flags0 s 0) as [[r rest]| | |]; cbn in H; try discriminate. reflexivity. }
    destruct F0 as [|n0] eqn:EF0; [unfold F0 in EF0; lia|].
    assert (EF1 : F1 = S (S (n0 + 11))) by (unfold F1, F0 in *; lia).
    rewrite EF1. rewrite parse_altn_S. rewrite (parse_altn_S U n0) in *.
    (* the first step of the prefixed run reads the flag group and continues on s *)
    assert (Estep : forall acc, parse_seq U (S (n0 + 11)) flags0 (40 :: 63 :: 105 :: 41 :: s) 0 acc NoAtom
                   = parse_seq U (n0 + 11) {| fl_i := true; fl_m := false; fl_s := false |} s 0 acc NoAtom).
    { intros acc. rewrite parse_seq_S. reflexivity. }
    unfold altn_body at 1. rewrite Estep.
    unfold altn_body in Hn0 |- *.
    pose proof (proj2 (parse_sim U n0) (n0 + 11)%nat flags0 {| fl_i := true; fl_m := false; fl_s := false |} s 0%nat Eps Eps NoAtom NoAtom ltac:(lia) I) as H.
    destruct (parse_seq U n0 flags0 s 0 Eps NoAtom) as [[[r rest] f']| | |]; cbn [cls2 cls3] in *; try congruence;
      specialize (H ltac:(discriminate));
      destruct (parse_seq U (n0 + 11) _ s 0 Eps NoAtom) as [[[r' rest'] f'']| | |]; cbn [cls3] in H; try discriminate; try reflexivity.
    injection H as ->. destruct rest as [|c rest1]; [reflexivity|].
    destruct (c =? 124); [|reflexivity].
    pose proof (proj1 (parse_sim U n0) (S (n0 + 11)) f' f'' rest1 0%nat ltac:(lia)) as H2.
    destruct (parse_altn U n0 f' rest1 0) as [[r2 rest2]| | |]; cbn [cls2] in *; try congruence;
      specialize (H2 ltac:(discriminate));
      destruct (parse_altn U (S (n0 + 11)) f'' rest1 0) as [[r2' rest2']| | |]; cbn [cls2] in H2; try discriminate; try reflexivity.
    now injection H2 as ->. }
  destruct (parse_altn U F0 flags0 s 0) as [[r rest]| | |]; destruct (parse_altn U F1 flags0 _ 0) as [[r' rest']| | |];
    cbn [cls2] in Hc; try discriminate; try reflexivity.
  injection Hc as ->. destruct rest; reflexivity.
Qed.
