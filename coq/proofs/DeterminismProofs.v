(** DeterminismProofs.v — the two sources of nondeterminism in the code, as
    parameters: the iteration order of the import-name map, and the marker. (C13) *)
From Coq Require Import String Permutation.
From Cvg Require Import Base GoTypes Dump Options.
Open Scope N_scope.

(** find over any permutation of a table gives the same answer when at most one entry satisfies the predicate *)
Lemma find_some_iff {A} (p : A -> bool) l x :
  (forall y z, In y l -> In z l -> p y = true -> p z = true -> y = z) ->
  (find p l = Some x <-> In x l /\ p x = true).
Proof.
  intros U. split.
  - intros H. apply find_some in H. exact H.
  - intros [Hin Hp]. induction l as [|a l IH]; [destruct Hin|]. simpl.
    destruct (p a) eqn:Ea.
    + f_equal. apply U; auto using in_eq. 
    + destruct Hin as [->|Hin]; [congruence|]. apply IH; [|exact Hin].
      intros y z Hy Hz. apply U; now right.
Qed.

Lemma find_permutation {A} (p : A -> bool) l1 l2 :
  Permutation l1 l2 ->
  (forall y z, In y l1 -> In z l1 -> p y = true -> p z = true -> y = z) ->
  find p l1 = find p l2.
Proof.
  intros HP U.
  assert (U2 : forall y z, In y l2 -> In z l2 -> p y = true -> p z = true -> y = z).
  { intros y z Hy Hz. apply U; eapply Permutation_in; try eassumption; now apply Permutation_sym. }
  destruct (find p l1) as [x|] eqn:E1.
  - symmetry. apply (find_some_iff p l2 x U2). apply (find_some_iff p l1 x U) in E1 as [Hin Hp].
    split; [eapply Permutation_in; eassumption|exact Hp].
  - destruct (find p l2) as [y|] eqn:E2; [|reflexivity].
    apply (find_some_iff p l2 y U2) in E2 as [Hin Hp].
    assert (Hin1 : In y l1) by (eapply Permutation_in; [apply Permutation_sym; eassumption|exact Hin]).
    exfalso. pose proof (find_none _ _ E1 y Hin1). congruence.
Qed.

(** LookupPath under an arbitrary iteration order of the import table *)
Definition lookup_path_in (table : list (str * str)) (name : str) : option str :=
  match find (fun pn => str_eqb (snd pn) name) table with
  | Some pn => Some (fst pn)
  | None => None
  end.

Definition unambiguous (table : list (str * str)) (name : str) : Prop :=
  forall y z, In y table -> In z table -> str_eqb (snd y) name = true -> str_eqb (snd z) name = true -> y = z.

Theorem lookup_path_order_independent table table' name :
  Permutation table table' -> unambiguous table name ->
  lookup_path_in table name = lookup_path_in table' name.
Proof.
  intros HP U. unfold lookup_path_in.
  now rewrite (find_permutation (fun pn => str_eqb (snd pn) name) table table' HP U).
Qed.
