(** PartitionProofs.v — every accessible destination field is accounted for
    exactly once (C05): the assignment list produced by structToStruct covers
    the field list of the destination struct in order. *)
From Coq Require Import String.
From Cvg Require Import Base GoTypes Re Unicode Matcher Dump Options Front Builder.
From Cvg.proofs Require Import BuilderProofs.
Open Scope N_scope.

Section Partition.
  Variable d : dump.
  Let E := d_env d.

  (** [about f a]: entry [a] accounts for destination node [f] — an assignment,
      skip or no-match on [f] itself, or a non-empty member-wise block covering
      [f]'s own fields.  [covers L fs l]: the entries [l] account, in order, for
      the field nodes [fs] of struct node [L]: hidden fields have no entry, each
      accessible field has exactly one, except a by-value struct field all of
      whose accessible members are themselves such structs (no leaf below it),
      which the code drops without an entry. *)
  Inductive about : node -> assignment -> Prop :=
  | AbSkip f : about f (ASkip f)
  | AbNoMatch f : about f (ANoMatch f)
  | AbSimple f r e : about f (ASimple f r e)
  | AbSlice f r t : about f (ASlice f r t)
  | AbSliceLoop f r t : about f (ASliceLoop f r t)
  | AbSliceCast f r t c : about f (ASliceCast f r t c)
  | AbNest f cs : cs <> [] -> covers f (field_nodes d f) cs -> about f (ANest cs)
  with covers : node -> list node -> list assignment -> Prop :=
  | CvNil L : covers L [] []
  | CvHidden L f fs l :
      is_field_accessible d L (obj_name f) = false -> covers L fs l -> covers L (f :: fs) l
  | CvEntry L f fs a l :
      is_field_accessible d L (obj_name f) = true -> about f a -> covers L fs l -> covers L (f :: fs) (a :: l)
  | CvLeafless L f fs l :
      is_field_accessible d L (obj_name f) = true ->
      is_struct_type E (expr_type f) = true -> covers f (field_nodes d f) [] ->
      covers L fs l -> covers L (f :: fs) l.

  Definition field_result (f : node) (a : option assignment) : Prop :=
    match a with
    | Some x => about f x
    | None => is_struct_type E (expr_type f) = true /\ covers f (field_nodes d f) []
    end.

  Section WithOpts.
    Variable o : options.
    Variable mpos : position.

    Lemma fields_loop_covers mf L :
      (forall lf a ev, mf lf = (Ok a, ev) -> field_result lf a) ->
      forall fs l ev, fields_loop d mf L fs = (Ok l, ev) -> covers L fs l.
    Proof.
      intros Hmf. induction fs as [|f fs IH]; intros l ev H; simpl in H.
      - apply ret_ok in H as [<- _]. constructor.
      - destruct (is_field_accessible d L (obj_name f)) eqn:Ea; simpl in H.
        + apply rbind_ok in H as (a & e1 & e2 & Ha & H & _).
          apply rbind_ok in H as (rest & e3 & e4 & Hr & H & _).
          apply ret_ok in H as [<- _].
          specialize (Hmf _ _ _ Ha). specialize (IH _ _ Hr).
          destruct a as [x|]; simpl in Hmf.
          * now apply CvEntry.
          * destruct Hmf. now apply CvLeafless.
        + apply CvHidden; [assumption|]. eapply IH; eassumption.
    Qed.

    Lemma slice_to_slice_about lhs r a ev :
      slice_to_slice d o lhs r = (Ok (Some a), ev) -> about lhs a.
    Proof.
      unfold slice_to_slice.
      destruct (slice_elem (expr_type lhs)) as [le|]; [|intros H; apply ret_ok in H as [H _]; discriminate].
      destruct (slice_elem (expr_type r)) as [re|]; [|intros H; apply ret_ok in H as [H _]; discriminate].
      destruct (assignable (d_env d) re le).
      - destruct (is_basic re && identical false le re).
        + intros H. apply ret_ok in H as [H _]. injection H as <-. constructor.
        + intros H. apply rbind_ok in H as (tn & e1 & e2 & _ & H & _). apply ret_ok in H as [H _]. injection H as <-. constructor.
      - destruct (o_typecast o && convertible (d_env d) re le).
        + intros H. apply rbind_ok in H as (tn & e1 & e2 & _ & H & _). apply ret_ok in H as [H _]. injection H as <-. constructor.
        + intros H. apply ret_ok in H as [H _]. discriminate.
    Qed.

    Definition pass_ok (lhs : node) (r : pass_result) : Prop :=
      match r with
      | PNotFound => True
      | PDone (Some a) _ => about lhs a
      | PDone None true => is_struct_type E (expr_type lhs) = true /\ covers lhs (field_nodes d lhs) []
      | PDone None false => True
      end.

    Lemma name_pass_ok s2s lhs R :
      (forall l r cs ev, s2s l r = (Ok cs, ev) -> covers l (field_nodes d l) cs) ->
      forall cands res ev, name_pass d o mpos s2s lhs R cands = (Ok res, ev) -> pass_ok lhs res.
    Proof.
      intros Hs. induction cands as [|r cands IH]; intros res ev H; simpl in H.
      - apply ret_ok in H as [<- _]. exact I.
      - destruct (negb (is_field_accessible d R (obj_name r)) || negb (compare_field_name o (obj_name lhs) (obj_name r))).
        { eapply IH; eassumption. }
        apply rbind_ok in H as (sl & e1 & e2 & Hsl & H & _).
        destruct sl as [a|].
        + apply ret_ok in H as [<- _]. simpl.
          destruct (is_slice (expr_type lhs) && is_slice (expr_type r)).
          * eapply slice_to_slice_about; eassumption.
          * apply ret_ok in Hsl as [Hsl _]. discriminate.
        + apply rbind_ok in H as (c & e3 & e4 & Hc & H & _).
          destruct c as [cn|].
          * apply ret_ok in H as [<- _]. simpl. constructor.
          * destruct (is_struct_type (d_env d) (expr_type lhs) && is_struct_type (d_env d) (expr_type r)) eqn:Est.
            -- apply rbind_ok in H as (cs & e5 & e6 & Hcs & H & _).
               apply ret_ok in H as [<- _]. specialize (Hs _ _ _ _ Hcs).
               apply andb_true_iff in Est as [Est _].
               destruct cs as [|c0 cs]; simpl.
               ++ split; assumption.
               ++ constructor; [discriminate|assumption].
            -- apply ret_ok in H as [<- _]. exact I.
    Qed.

    Lemma name_match_with_ok s2s lhs R a ev :
      (forall l r cs ev, s2s l r = (Ok cs, ev) -> covers l (field_nodes d l) cs) ->
      name_match_with d o mpos s2s lhs R = (Ok a, ev) -> field_result lhs a.
    Proof.
      intros Hs H. unfold name_match_with in H.
      apply rbind_ok in H as (g & e1 & e2 & Hg & H & _).
      assert (Pg : pass_ok lhs g).
      { destruct (o_getter o); [eapply name_pass_ok; eassumption|apply ret_ok in Hg as [<- _]; exact I]. }
      assert (Fin : forall (b : bool) (K : field_result lhs None \/ b = false) ev',
                 (if b then ret None else doR x <- no_match_warn d mpos lhs; ret (Some x)) = (Ok a, ev') -> field_result lhs a).
      { intros b K ev' H'. destruct b.
        - apply ret_ok in H' as [<- _]. destruct K as [K|K]; [exact K|discriminate].
        - apply rbind_ok in H' as (x & e5 & e6 & Hx & H' & _).
          apply ret_ok in H' as [<- _]. apply no_match_warn_shape in Hx as ->. constructor. }
      destruct g as [|[ga|] gn]; cbn [fst snd] in H.
      - (* getters found nothing *)
        apply rbind_ok in H as (f & e3 & e4 & Hf & H & _).
        assert (Pf : pass_ok lhs f).
        { destruct (str_eqb (o_rule o) rule_name); [eapply name_pass_ok; eassumption|apply ret_ok in Hf as [<- _]; exact I]. }
        destruct f as [|[fa|] fn]; cbn [fst snd] in H.
        + eapply Fin; [|exact H]. right. now rewrite andb_false_r.
        + apply ret_ok in H as [<- _]. exact Pf.
        + eapply Fin; [|exact H]. destruct fn; [left; exact Pf|right; now rewrite andb_false_r].
      - apply ret_ok in H as [<- _]. exact Pg.
      - apply rbind_ok in H as (f & e3 & e4 & Hf & H & _).
        assert (Pf : pass_ok lhs f).
        { destruct (str_eqb (o_rule o) rule_name); [eapply name_pass_ok; eassumption|apply ret_ok in Hf as [<- _]; exact I]. }
        destruct f as [|[fa|] fn]; cbn [fst snd] in H.
        + eapply Fin; [|exact H]. destruct gn; [left; exact Pg|right; now rewrite andb_false_r].
        + apply ret_ok in H as [<- _]. exact Pf.
        + eapply Fin; [|exact H]. destruct gn; [left; exact Pg|]. destruct fn; [left; exact Pf|right; now rewrite andb_false_r].
    Qed.

    Lemma create_with_templated_shape lhs rhs args m a ev :
      create_with_templated d o mpos lhs rhs args m = (Ok a, ev) -> about lhs a.
    Proof.
      unfold create_with_templated. intros H.
      apply rbind_ok in H as (mn & e1 & e2 & _ & H & _).
      destruct mn as [n|].
      - apply ret_ok in H as [<- _]. constructor.
      - apply no_match_warn_shape in H as ->. constructor.
    Qed.

    Lemma match_field_with_ok nm lhs rhs args a ev :
      (forall l r x ev, nm l r = (Ok x, ev) -> field_result l x) ->
      match_field_with d o mpos nm lhs rhs args = (Ok a, ev) -> field_result lhs a.
    Proof.
      intros Hnm H. unfold match_field_with in H.
      destruct (should_skip (o_skip o) (matcher_expr lhs) (o_exact o)) as [[|]| |]; try discriminate.
      { apply ret_ok in H as [<- _]. constructor. }
      destruct (find _ (o_conv o)) as [c|].
      { apply rbind_ok in H as (x & e1 & e2 & Hx & H & _). apply ret_ok in H as [<- _].
        destruct (create_with_converter_shape d o mpos _ _ _ _ _ Hx) as [->|(src & arg & n & _ & _ & _ & -> & _)]; constructor. }
      destruct (find _ (o_map o)) as [m|].
      { apply rbind_ok in H as (x & e1 & e2 & Hx & H & _). apply ret_ok in H as [<- _].
        destruct (create_with_mapper_shape d o mpos _ _ _ _ _ Hx) as [->|(src & n & _ & -> & _)]; constructor. }
      destruct (find _ (o_tmap o)) as [m|].
      { apply rbind_ok in H as (x & e1 & e2 & Hx & H & _). apply ret_ok in H as [<- _].
        simpl. eapply create_with_templated_shape; eassumption. }
      destruct (find _ (o_lit o)) as [l|].
      { apply ret_ok in H as [<- _]. constructor. }
      eapply Hnm; eassumption.
    Qed.

    (** C05, the partition theorem: for every fuel, destination and source
        struct nodes and additional arguments, whenever structToStruct returns,
        its entries cover the destination's fields. *)
    Theorem struct_to_struct_covers fuel : forall L R args l ev,
      struct_to_struct d o mpos fuel L R args = (Ok l, ev) -> covers L (field_nodes d L) l.
    Proof.
      induction fuel as [|fuel IH]; intros L R args l ev H; cbn [struct_to_struct] in H; [discriminate|].
      eapply fields_loop_covers; [|eassumption].
      intros lf a ev' Hlf. cbv beta in Hlf. eapply match_field_with_ok; [|exact Hlf].
      intros l0 r0 x ev0 Hnm. cbv beta in Hnm. eapply name_match_with_ok; [|exact Hnm].
      intros l1 r1 cs ev1 Hs. cbv beta in Hs. eapply IH; exact Hs.
    Qed.
  End WithOpts.

  (** consequences *)
  Lemma covers_length L fs l : covers L fs l -> (List.length l <= List.length fs)%nat.
  Proof. induction 1; simpl; lia. Qed.

  (** a hidden (inaccessible) field is the subject of no top-level entry *)
  Fixpoint subject (a : assignment) : option node :=
    match a with
    | ASkip l | ANoMatch l | ASimple l _ _ | ASlice l _ _ | ASliceLoop l _ _ | ASliceCast l _ _ _ => Some l
    | ANest _ => None
    end.

  Lemma about_subject f a n : about f a -> subject a = Some n -> n = f.
  Proof. destruct 1; simpl; congruence. Qed.

  Lemma covers_subjects L fs l :
    covers L fs l -> forall a n, In a l -> subject a = Some n ->
    In n fs /\ is_field_accessible d L (obj_name n) = true.
  Proof.
    induction 1 as [|L f fs l Hh Hc IH|L f fs a l Ha Hab Hc IH|L f fs l Ha Hs Hc0 _ Hc IH]; intros x n Hin Hsub.
    - destruct Hin.
    - destruct (IH _ _ Hin Hsub). split; [now right|assumption].
    - destruct Hin as [<-|Hin].
      + apply (about_subject _ _ _ Hab) in Hsub as ->. split; [now left|assumption].
      + destruct (IH _ _ Hin Hsub). split; [now right|assumption].
    - destruct (IH _ _ Hin Hsub). split; [now right|assumption].
  Qed.
End Partition.
