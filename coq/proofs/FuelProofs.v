(** FuelProofs.v — the member-wise descent of structToStruct terminates: with by-value struct
    containment well-founded (a rank on the named types that decreases through every by-value
    struct member — what Go's rejection of invalid recursive types guarantees), fuel beyond the
    rank of the destination's type is never exhausted. *)
From Coq Require Import String Lia.
From Cvg Require Import Base GoTypes Re Unicode Matcher Dump Options Front Builder Gen Pipeline.
From Cvg.proofs Require Import BuilderProofs.
Open Scope N_scope.

Definition is_fuel {A} (o : outcome A) : bool := match o with Fuel => true | _ => false end.
Definition nf {A} (r : res A) : Prop := is_fuel (fst r) = false.
Definition nfo {A} (o : outcome A) : Prop := is_fuel o = false.

Lemma nf_ret {A} (a : A) : nf (ret a).            Proof. reflexivity. Qed.
Lemma nf_fail {A} m : nf (@fail A m).             Proof. reflexivity. Qed.
Lemma nf_errorf {A} m : nf (@errorf A m).         Proof. reflexivity. Qed.
Lemma nf_unsup {A} m : nf (@unsup A m).           Proof. reflexivity. Qed.
Lemma nf_panic {A} m : nf (@panic A m).           Proof. reflexivity. Qed.
Lemma nf_emit e : nf (emit e).                    Proof. reflexivity. Qed.
Lemma nf_warnf m : nf (warnf m).                  Proof. reflexivity. Qed.
Lemma nf_lift {A} (o : outcome A) : nfo o -> nf (lift o).  Proof. exact (fun H => H). Qed.

Lemma nf_rbind {A B} (m : res A) (k : A -> res B) :
  nf m -> (forall a, nf (k a)) -> nf (rbind m k).
Proof.
  unfold nf, rbind. destruct m as [[a|e|s| |w] ev]; cbn [fst]; intros Hm Hk; try assumption; try reflexivity.
  specialize (Hk a). destruct (k a) as [o ev']. exact Hk.
Qed.

Lemma nfo_obind {A B} (m : outcome A) (k : A -> outcome B) :
  nfo m -> (forall a, nfo (k a)) -> nfo (obind m k).
Proof. unfold nfo, obind. destruct m; intros Hm Hk; auto. Qed.

Ltac nf_cases :=
  repeat match goal with
  | |- nf (match ?x with _ => _ end) => destruct x
  | |- nfo (match ?x with _ => _ end) => destruct x
  | |- nf (if ?x then _ else _) => destruct x
  | |- nfo (if ?x then _ else _) => destruct x
  | |- nf (let '(_, _) := ?x in _) => destruct x
  end.

Section FuelFree.
  Variable d : dump.
  Let E := d_env d.

  Lemma type_name_nf t : nfo (type_name d t).
  Proof.
    induction t as [k n|i|s e IH|s e IH|s n e IH|s k IHk v IHv|s dir e IH|s fs|s ms|s sg|s]; cbn [type_name];
      try reflexivity; try (nf_cases; reflexivity);
      try (apply nfo_obind; [assumption|intros ?; try reflexivity]).
    - apply nfo_obind; [assumption|intros ?; reflexivity].
    - nf_cases; reflexivity.
  Qed.

  Lemma new_typecast_nf t r : nfo (new_typecast d t r).
  Proof. unfold new_typecast. nf_cases; reflexivity. Qed.

  Ltac nf_b tac :=
    repeat first
      [ tac
      | apply type_name_nf | apply new_typecast_nf
      | apply nf_ret | apply nf_fail | apply nf_errorf | apply nf_unsup | apply nf_panic | apply nf_emit | apply nf_warnf
      | apply nf_rbind; [|intros ?]
      | progress nf_cases
      | apply nf_lift ].

  Section WithOpts.
    Variable o : options.
    Variable mpos : position.

    Lemma cast_node_nf t r : nf (cast_node d o mpos t r).
    Proof. unfold cast_node. nf_b ltac:(fail). Qed.
    Lemma slice_to_slice_nf l r : nf (slice_to_slice d o l r).
    Proof. unfold slice_to_slice. nf_b ltac:(fail). Qed.
    Lemma no_match_warn_nf p l : nf (no_match_warn d p l).
    Proof. unfold no_match_warn. nf_b ltac:(fail). Qed.
    Lemma create_with_converter_nf l r c : nf (create_with_converter d o mpos l r c).
    Proof. unfold create_with_converter. nf_b ltac:(first [apply cast_node_nf | apply no_match_warn_nf]). Qed.
    Lemma create_with_mapper_nf l r m : nf (create_with_mapper d o mpos l r m).
    Proof. unfold create_with_mapper. nf_b ltac:(first [apply cast_node_nf | apply no_match_warn_nf]). Qed.
    Lemma create_with_templated_nf l r args m : nf (create_with_templated d o mpos l r args m).
    Proof. unfold create_with_templated. nf_b ltac:(first [apply cast_node_nf | apply no_match_warn_nf]). Qed.

    (** the descent function is consulted only for a destination node of by-value struct type *)
    Lemma name_pass_nf s2s l rs cands :
      (is_struct_type E (expr_type l) = true -> forall b, nf (s2s l b)) -> nf (name_pass d o mpos s2s l rs cands).
    Proof.
      intros Hs. induction cands as [|r cands IH]; cbn [name_pass]; [apply nf_ret|].
      destruct (_ || _); [assumption|].
      apply nf_rbind. { nf_b ltac:(apply slice_to_slice_nf). }
      intros sl. destruct sl; [apply nf_ret|].
      apply nf_rbind; [apply cast_node_nf|]. intros c. destruct c; [apply nf_ret|].
      fold E. destruct (is_struct_type E (expr_type l)) eqn:El; cbn [andb]; [|apply nf_ret].
      destruct (is_struct_type E (expr_type r)); [|apply nf_ret].
      apply nf_rbind; [apply Hs; reflexivity|]. intros ?. apply nf_ret.
    Qed.

    Lemma name_match_with_nf s2s l rs :
      (is_struct_type E (expr_type l) = true -> forall b, nf (s2s l b)) -> nf (name_match_with d o mpos s2s l rs).
    Proof.
      intros Hs. unfold name_match_with.
      nf_b ltac:(first [apply no_match_warn_nf | apply (name_pass_nf _ _ _ _ Hs)]).
    Qed.

    Lemma match_field_with_nf nm l r args :
      (forall b, nf (nm l b)) -> nf (match_field_with d o mpos nm l r args).
    Proof.
      intros Hn. unfold match_field_with.
      nf_b ltac:(first [apply Hn | apply create_with_converter_nf | apply create_with_mapper_nf | apply create_with_templated_nf]).
    Qed.

    Lemma fields_loop_nf mf ls fs :
      (forall a, In a fs -> nf (mf a)) -> nf (fields_loop d mf ls fs).
    Proof.
      induction fs as [|f fs IH]; intros Hm; cbn [fields_loop]; [apply nf_ret|].
      destruct (negb _); [apply IH; intros x Hx; apply Hm; now right|].
      apply nf_rbind; [apply Hm; now left|intros ?].
      apply nf_rbind; [apply IH; intros x Hx; apply Hm; now right|intros ?]. apply nf_ret.
    Qed.

    (** ** the measure *)
    Variable rank : N -> nat.

    Notation ty_rank := (Pipeline.ty_rank rank).

    Fixpoint fields_rank (fs : list field) : nat :=
      match fs with [] => O | f :: fs' => Nat.max (ty_rank (f_type f)) (fields_rank fs') end.

    Lemma ty_rank_struct s fs : ty_rank (TStruct s fs) = S (fields_rank fs).
    Proof.
      cbn [ty_rank]. f_equal. induction fs as [|[n p e m t ft] fs IH]; [reflexivity|].
      cbn [fields_rank f_type]. now rewrite <- IH.
    Qed.

    Lemma field_rank_le f fs : In f fs -> (ty_rank (f_type f) <= fields_rank fs)%nat.
    Proof. induction fs as [|g fs IH]; intros []; subst; cbn [fields_rank]; [lia|]. specialize (IH H). lia. Qed.

    (** by-value struct containment is well-founded: the underlying type of a named type ranks below it *)
    Hypothesis Hrank : forall i n, get_named E i = Some n -> (ty_rank (n_under n) < rank i)%nat.

    Definition mu (l : node) : nat := ty_rank (deref_ptr (expr_type l)).

    Lemma field_below L f :
      In f (struct_fields E (deref_ptr (expr_type L))) -> (ty_rank (f_type f) < mu L)%nat.
    Proof.
      unfold struct_fields, mu, under. fold E.
      destruct (deref_ptr (expr_type L)) as [k n|i| | | | | |s fs| | | ]; try (intros []).
      - destruct (get_named E i) as [n|] eqn:En; [|intros []].
        pose proof (Hrank _ _ En) as Hr.
        destruct (n_under n) as [ | | | | | | |s fs| | | ]; try (intros []).
        rewrite ty_rank_struct in Hr. intros Hin. apply field_rank_le in Hin. cbn [ty_rank]. lia.
      - intros Hin. apply field_rank_le in Hin. rewrite ty_rank_struct. lia.
    Qed.

    Lemma struct_deref t : is_struct_type E t = true -> deref_ptr t = t.
    Proof. unfold is_struct_type, under. destruct t; try reflexivity. discriminate. Qed.

    (** C14: structToStruct never runs out of fuel when the fuel exceeds the rank of the destination *)
    Theorem struct_to_struct_fuel_free fuel : forall L R args,
      (mu L < fuel)%nat -> nf (struct_to_struct d o mpos fuel L R args).
    Proof.
      induction fuel as [|fuel IH]; intros L R args Hm; [lia|]. cbn [struct_to_struct].
      apply fields_loop_nf. intros lf Hin. apply match_field_with_nf. intros b.
      apply name_match_with_nf. intros Hst b'. apply IH.
      unfold field_nodes in Hin. apply in_map_iff in Hin as (f & <- & Hf).
      apply field_below in Hf. unfold mu at 1. cbn [expr_type] in *. rewrite struct_deref by exact Hst. lia.
    Qed.

    Lemma build_manipulator_nf m s t args re : nf (build_manipulator d m s t args re).
    Proof. unfold build_manipulator. destruct m as [m|]; [|apply nf_ret]. nf_b ltac:(fail). Qed.

    Lemma is_external_nf t : nfo (is_external d t).
    Proof. unfold is_external. nf_cases; reflexivity. Qed.
    Lemma create_var_nf n t dn : nfo (create_var d n t dn).
    Proof.
      unfold create_var. apply nfo_obind; [apply type_name_nf|intros ?].
      apply nfo_obind; [apply is_external_nf|intros ?]. reflexivity.
    Qed.
  End WithOpts.

  Variable rank : N -> nat.
  Hypothesis Hrank : forall i n, get_named E i = Some n -> (Pipeline.ty_rank rank (n_under n) < rank i)%nat.

  (** the operand whose fields are written: the destination, or the source under :reverse *)
  Definition written_type (m : method_entry) : ty :=
    match sg_ptys (me_sig m), sg_rtys (me_sig m) with
    | src_t :: _, dst_t :: _ => if o_reverse (me_opts m) then src_t else dst_t
    | _, _ => invalid_ty
    end.

  Lemma create_function_nf fuel m cs :
    (Pipeline.ty_rank rank (deref_ptr (written_type m)) < fuel)%nat -> nf (create_function d fuel m cs).
  Proof.
    intros Hf. unfold create_function. unfold written_type in Hf.
    destruct (sg_ptys (me_sig m)) as [|src_t arg_ts]; [apply nf_panic|].
    destruct (sg_pnames (me_sig m)) as [|src_n arg_ns]; [apply nf_panic|].
    destruct (sg_rtys (me_sig m)) as [|dst_t rts]; [apply nf_panic|].
    destruct (sg_rnames (me_sig m)) as [|dst_n rns]; [apply nf_panic|].
    destruct (o_reverse (me_opts m)) eqn:Erev; cbn [andb];
    nf_b ltac:(first [apply build_manipulator_nf | apply create_var_nf
                     | apply (struct_to_struct_fuel_free _ _ rank Hrank); unfold mu; cbn [expr_type]; exact Hf]).
    all: apply nf_lift.
    all: match goal with |- nfo (?f 0 ?ns ?ts) => generalize 0; generalize ts; induction ns as [|n0 ns IH]; intros ts' i end.
    all: try reflexivity.
    all: destruct ts' as [|t ts']; try reflexivity.
    all: apply nfo_obind; [apply create_var_nf|intros ?]; apply nfo_obind; [apply IH|intros ?]; reflexivity.
  Qed.
End FuelFree.

(** ** the front end never yields Fuel *)
From Cvg.proofs Require Import FrontProofs NoPanicProofs.
From Cvg.gen Require Extracted.

Ltac nf_f tac :=
  repeat first
    [ tac
    | apply nf_ret | apply nf_fail | apply nf_errorf | apply nf_unsup | apply nf_panic | apply nf_emit | apply nf_warnf
    | apply nf_rbind; [|intros ?]
    | progress nf_cases ].

Section FrontNF.
  Variable d : dump.

  Lemma lookup_converter_func_nf name pos : nf (lookup_converter_func d name pos).
  Proof. unfold lookup_converter_func. nf_f ltac:(fail). Qed.
  Lemma lookup_manipulator_func_nf name on pos : nf (lookup_manipulator_func d name on pos).
  Proof. unfold lookup_manipulator_func. nf_f ltac:(fail). Qed.

  Lemma parse_one_nf vops c st cpos : nf (parse_one d vops c st cpos).
  Proof.
    unfold parse_one. destruct st as [o p].
    destruct (notation_match (c_text c)) as [[op m2]|]; [|apply nf_fail].
    nf_f ltac:(apply lookup_manipulator_func_nf).
  Qed.

  Lemma parse_list_nf vops cs : forall st, nf (parse_list d vops cs st).
  Proof.
    induction cs as [|c cs IH]; intros st; cbn [parse_list]; [apply nf_ret|].
    apply nf_rbind; [apply parse_one_nf|intros ?]. apply IH.
  Qed.

  Lemma parse_notations_nf vops cs o : nf (parse_notations d vops cs o).
  Proof.
    unfold parse_notations. apply nf_rbind; [apply parse_list_nf|intros [o' p]].
    destruct (_ && _); [apply nf_errorf|apply nf_ret].
  Qed.

  Definition nf3 {A} (x : outcome A * store * list event) : Prop := is_fuel (fst (fst x)) = false.

  Lemma parse_method_nf m opts st : nf (fst (parse_method d m opts st)).
  Proof.
    unfold parse_method.
    destruct (sg_ptys (md_sig m)); [apply nf_errorf|]. destruct (sg_rtys (md_sig m)); [apply nf_errorf|].
    destruct (extract_notations st _) as [nots st1].
    pose proof (parse_notations_nf Extracted.valid_ops_method nots opts) as Hn.
    destruct (parse_notations d _ nots opts) as [[o|e|s| |w] ev]; try reflexivity. exact Hn.
  Qed.

  Lemma parse_methods_loop_nf ms : forall opts st acc failed ev,
    nf3 (parse_methods_loop d ms opts st acc failed ev).
  Proof.
    induction ms as [|m ms IH]; intros opts st acc failed ev; cbn [parse_methods_loop].
    - destruct failed; reflexivity.
    - pose proof (parse_method_nf m opts st) as Hn.
      destruct (parse_method d m opts st) as [[[me|e|s| |w] ev1] st1]; try apply IH; try reflexivity.
      exact Hn.
  Qed.

  Lemma find_entries_loop_nf ifs : forall st acc, nf (find_entries_loop d ifs st acc).
  Proof.
    induction ifs as [|i ifs IH]; intros st acc; cbn [find_entries_loop]; [apply nf_ret|].
    destruct (negb (if_in_src i)); [apply IH|].
    destruct (negb _); [apply IH|].
    destruct (extract_notations st _) as [nots st1].
    apply nf_rbind; [apply parse_notations_nf|intros ?]. apply IH.
  Qed.

  Lemma find_entries_nf st : nf (find_entries d st).
  Proof.
    unfold find_entries. apply nf_rbind; [apply find_entries_loop_nf|intros r].
    destruct (fst r); [apply nf_errorf|apply nf_ret].
  Qed.

  Lemma parse_entries_nf es : forall st ev, nf3 (parse_entries d es st ev).
  Proof.
    induction es as [|e es IH]; intros st ev; cbn [parse_entries]; [reflexivity|].
    pose proof (parse_methods_loop_nf (if_methods (ie_decl e)) (ie_opts e) st [] false []) as Hn.
    destruct (parse_methods_loop d _ _ st [] false []) as [[[ms|x|s| |w] st1] ev1]; try reflexivity; [|exact Hn].
    specialize (IH st1 (ev ++ ev1)).
    destruct (parse_entries d es st1 (ev ++ ev1)) as [[[rest|x|s| |w] st2] ev2]; try reflexivity. exact IH.
  Qed.

  Lemma resolve_converter_nf all c : nf (resolve_converter d all c).
  Proof.
    unfold resolve_converter.
    pose proof (lookup_converter_func_nf (fc_name c) (fc_pos c)) as Hn.
    destruct (lookup_converter_func d (fc_name c) (fc_pos c)) as [[[[a r] e]|err0|s| |w] ev0]; try reflexivity; [|exact Hn].
    clear Hn. generalize err0 ev0. induction all as [|m ms IH]; intros err ev; [reflexivity|].
    destruct (negb (str_eqb (me_name m) (fc_name c))); [apply IH|].
    destruct (negb (str_eqb (o_style (me_opts m)) style_return)); [apply IH|].
    destruct (negb (str_eqb (o_receiver (me_opts m)) [])); [apply IH|].
    destruct (sg_ptys (me_sig m)); [reflexivity|]. destruct (sg_rtys (me_sig m)); reflexivity.
  Qed.

  Lemma resolve_convs_nf all cs : nf (resolve_convs d all cs).
  Proof.
    induction cs as [|c cs IH]; cbn [resolve_convs]; [apply nf_ret|].
    apply nf_rbind; [apply resolve_converter_nf|intros ?]. apply nf_rbind; [assumption|intros ?]. apply nf_ret.
  Qed.

  Lemma resolve_all_nf all ms : nf (resolve_all d all ms).
  Proof.
    induction ms as [|m ms IH]; cbn [resolve_all]; [apply nf_ret|].
    apply nf_rbind; [apply resolve_convs_nf|intros ?]. apply nf_rbind; [assumption|intros ?]. apply nf_ret.
  Qed.

  Lemma parse_nf st0 : nf3 (parse d st0).
  Proof.
    unfold parse.
    pose proof (find_entries_nf st0) as Hn.
    destruct (find_entries d st0) as [[[es st1]|e|s| |w] ev1]; try reflexivity; [|exact Hn].
    pose proof (parse_entries_nf es st1 ev1) as Hp.
    destruct (parse_entries d es st1 ev1) as [[[blocks|e|s| |w] st2] ev2]; try reflexivity; [|exact Hp].
    pose proof (resolve_all_nf (List.concat (List.map snd blocks)) (List.concat (List.map snd blocks))) as Hr.
    destruct (resolve_all d _ _) as [[res|e|s| |w] ev3]; try reflexivity. exact Hr.
  Qed.
End FrontNF.

(** ** the whole pipeline never yields Fuel *)
Section PipelineNF.
  Variable d : dump.
  Let E := d_env d.

  Definition all_decls : list method_decl := List.concat (List.map if_methods (d_ifaces d)).
  Definition from_dump (m : method_entry) : Prop := In (me_decl m) all_decls.

  Lemma parse_entries_from es : forall st ev blocks st' ev',
    Forall (ie_wf (d_ifaces d)) es ->
    parse_entries d es st ev = (Ok blocks, st', ev') -> Forall (fun b => Forall from_dump (snd b)) blocks.
  Proof.
    induction es as [|e es IH]; intros st ev blocks st' ev' He H; cbn [parse_entries] in H.
    - injection H as <- _ _. constructor.
    - inversion He as [|? ? [_ Hin] He']; subst.
      destruct (parse_methods_loop d _ _ st [] false []) as [[[ms|x|s| |w] st1] ev1] eqn:Ep; try discriminate.
      destruct (parse_entries d es st1 (ev ++ ev1)) as [[[rest|x|s| |w] st2] ev2] eqn:Er; try discriminate.
      injection H as <- _ _. constructor; [|eapply IH; eassumption]. cbn [snd].
      destruct (parse_methods_loop_all d _ _ _ _ _ _ _ _ _ Ep) as (_ & new & -> & Hm). cbn [rev app].
      apply Forall_forall. intros m Hm'. unfold from_dump, all_decls.
      apply in_concat. exists (if_methods (ie_decl e)). split; [apply in_map; exact Hin|].
      rewrite <- Hm. apply in_map. exact Hm'.
  Qed.

  Lemma resolve_all_from all ms : forall res ev,
    Forall from_dump ms -> resolve_all d all ms = (Ok res, ev) -> Forall from_dump res.
  Proof.
    induction ms as [|m ms IH]; intros res ev Hm H; cbn [resolve_all] in H.
    - apply ret_ok in H as [H _]. subst. constructor.
    - inversion Hm as [|? ? Hm1 Hm2]; subst.
      apply rbind_ok in H as (cs & e1 & e2 & _ & H & _).
      apply rbind_ok in H as (rest & e3 & e4 & Hr & H & _).
      apply ret_ok in H as [H _]. subst res. constructor; [exact Hm1|eapply IH; eassumption].
  Qed.

  Lemma regroup_forall (P : method_entry -> Prop) blocks resolved :
    Forall P resolved -> Forall (fun b => Forall P (snd b)) (regroup blocks resolved).
  Proof.
    unfold regroup. intros Hr.
    assert (G : forall bs done rest,
               Forall (fun b : intf_entry * list method_entry => Forall P (snd b)) done -> Forall P rest ->
               Forall (fun b : intf_entry * list method_entry => Forall P (snd b))
                 (fst (fold_left (fun (acc : list (intf_entry * list method_entry) * list method_entry)
                                      (b : intf_entry * list method_entry) =>
                    let '(done, rest) := acc in
                    let n := List.length (snd b) in
                    (done ++ [(fst b, firstn n rest)], skipn n rest)) bs (done, rest)))).
    { induction bs as [|b bs IH]; intros done rest Hd Hrest; cbn [fold_left fst]; [assumption|].
      apply IH.
      - apply Forall_app. split; [assumption|]. constructor; [|constructor]. cbn [snd]. now apply Forall_firstn.
      - now apply Forall_skipn. }
    apply G; [constructor|assumption].
  Qed.

  Lemma concat_forall (P : method_entry -> Prop) (bs : list (intf_entry * list method_entry)) :
    Forall (fun b => Forall P (snd b)) bs -> Forall P (List.concat (List.map snd bs)).
  Proof.
    induction 1 as [|b bs Hb _ IH]; cbn [List.map List.concat]; [constructor|]. apply Forall_app. split; assumption.
  Qed.

  Lemma parse_from st0 blocks st ev :
    parse d st0 = (Ok blocks, st, ev) -> Forall (fun b => Forall from_dump (snd b)) blocks.
  Proof.
    intros H. unfold parse in H.
    destruct (find_entries d st0) as [[[es st1]|e|s| |w] ev1] eqn:Ef; try discriminate.
    destruct (parse_entries d es st1 ev1) as [[[bl|e|s| |w] st2] ev2] eqn:Ep; try discriminate.
    assert (Hb : Forall (fun b => Forall from_dump (snd b)) bl).
    { eapply parse_entries_from; [|exact Ep]. eapply find_entries_wf. exact Ef. }
    destruct (resolve_all d _ _) as [[res|e|s| |w] ev3] eqn:Er; try discriminate.
    injection H as <- _ _. apply regroup_forall.
    eapply resolve_all_from; [|exact Er]. now apply concat_forall.
  Qed.

  Hypothesis Hok : rank_ok_b d = true.
  Let rk := env_rank d.

  Lemma env_rank_decreases : forall i n, get_named E i = Some n -> (ty_rank rk (n_under n) < rk i)%nat.
  Proof.
    intros i n Hg. unfold rank_ok_b in Hok. apply andb_true_iff in Hok as [H1 _].
    rewrite forallb_forall in H1.
    assert (Hlt : (N.to_nat i < List.length (d_env d))%nat).
    { unfold get_named in Hg. apply nth_error_Some. fold E. congruence. }
    specialize (H1 (N.to_nat i)). rewrite N2Nat.id in H1. fold E in H1. rewrite Hg in H1.
    apply Nat.ltb_lt. apply H1. apply in_seq. unfold E in *. lia.
  Qed.

  Lemma operands_below_fuel m : from_dump m -> (ty_rank rk (deref_ptr (written_type m)) < build_fuel d)%nat.
  Proof.
    intros Hm. unfold rank_ok_b in Hok. apply andb_true_iff in Hok as [_ H2].
    rewrite forallb_forall in H2. unfold from_dump, all_decls in Hm.
    apply in_concat in Hm as (ms & Hms & Hin). apply in_map_iff in Hms as (i & <- & Hi).
    specialize (H2 i Hi). rewrite forallb_forall in H2. specialize (H2 _ Hin). rewrite forallb_forall in H2.
    unfold written_type, me_sig.
    destruct (sg_ptys (md_sig (me_decl m))) as [|p ps]; [unfold invalid_ty; cbn [deref_ptr ty_rank]; unfold build_fuel; lia|].
    destruct (sg_rtys (md_sig (me_decl m))) as [|r rs]; [unfold invalid_ty; cbn [deref_ptr ty_rank]; unfold build_fuel; lia|].
    cbn [firstn app] in H2.
    destruct (o_reverse (me_opts m)); apply Nat.ltb_lt; apply H2; cbn [In]; auto.
  Qed.

  Lemma create_functions_nf st ms : Forall from_dump ms -> nf (create_functions d st ms).
  Proof.
    induction 1 as [|m ms Hm _ IH]; cbn [create_functions]; [apply nf_ret|].
    apply nf_rbind; [|intros ?; apply nf_rbind; [assumption|intros ?; apply nf_ret]].
    apply (create_function_nf d rk env_rank_decreases). now apply operands_below_fuel.
  Qed.

  Lemma create_blocks_nf st bs : Forall (fun b => Forall from_dump (snd b)) bs -> nf (create_blocks d st bs).
  Proof.
    induction 1 as [|[e ms] bs Hm _ IH]; cbn [create_blocks]; [apply nf_ret|].
    apply nf_rbind; [now apply create_functions_nf|intros ?]. apply nf_rbind; [assumption|intros ?]. apply nf_ret.
  Qed.

  Theorem run_pipeline_never_out_of_fuel : is_fuel (po_result (run_pipeline d)) = false.
  Proof.
    unfold run_pipeline.
    pose proof (parse_nf d {| st_groups := d_comments d; st_docs := d_docs d |}) as Hn.
    destruct (parse d _) as [[[blocks|e|s| |w] st] ev] eqn:Ep; try reflexivity; [|exact Hn].
    pose proof (create_blocks_nf st blocks (parse_from _ _ _ _ Ep)) as Hc.
    destruct (create_blocks d st blocks) as [o ev']. exact Hc.
  Qed.
End PipelineNF.
