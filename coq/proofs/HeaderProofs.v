(** HeaderProofs.v — the signature of every generated function is the one
    documented for its combination of style / receiver / reverse / error /
    additional arguments (C08). *)
From Coq Require Import String.
From Cvg Require Import Base GoTypes Dump Options Front Builder Gen.
From Cvg.proofs Require Import BuilderProofs.
Open Scope N_scope.

(** The documented shape, written independently of FuncToString: receiver (when
    :recv) of the source's full type; then the destination as a leading pointer
    parameter in arg style; then the source (unless it is the receiver); then the
    additional arguments in order; results: destination (+ err error) in return
    style, (err error) or nothing in arg style. Names: declared, else src/dst
    (swapped under :reverse) and arg0, arg1, ... *)
Record doc_operand := { do_name : str; do_type : str; do_ptr : bool }.
Definition do_full (v : doc_operand) : str := if do_ptr v then [42] ++ do_type v else do_type v.

Definition documented_header (name recv style : str) (ret_err : bool) (src dst : doc_operand) (args : list doc_operand) : str :=
  let params :=
    (if str_eqb style style_arg then [do_name dst ++ s2b " *" ++ do_type dst] else []) ++
    (match recv with [] => [do_name src ++ [32] ++ do_full src] | _ => [] end) ++
    List.map (fun a => do_name a ++ [32] ++ do_full a) args in
  s2b "func " ++
  (match recv with [] => [] | r => [40] ++ r ++ [32] ++ do_full src ++ s2b ") " end) ++
  name ++ [40] ++ join_str (s2b ", ") params ++ s2b ") " ++
  (if str_eqb style style_return then
     [40] ++ do_name dst ++ [32] ++ do_full dst ++ (if ret_err then s2b ", err error" else []) ++ s2b ") {" ++ nl
   else if ret_err then s2b "(err error) {" ++ nl else s2b "{" ++ nl).

Definition operand_of (v : gvar) : doc_operand := {| do_name := v_name v; do_type := v_type v; do_ptr := v_pointer v |}.

Lemma map_operands l :
  List.map (fun a => do_name a ++ [32] ++ do_full a) (List.map operand_of l) =
  List.map (fun a => v_name a ++ [32] ++ full_type a) l.
Proof. induction l as [|v l IH]; cbn [List.map]; [reflexivity|]. f_equal. exact IH. Qed.

Lemma func_header_documented f :
  func_header f = documented_header (fn_name f) (fn_receiver f) (fn_style f) (fn_ret_err f)
                    (operand_of (fn_src f)) (operand_of (fn_dst f)) (List.map operand_of (fn_args f)).
Proof.
  unfold func_header, documented_header, func_params. rewrite map_operands. destruct (fn_receiver f); reflexivity.
Qed.

(** createVar: declared name or the default; type printed without the pointer; pointer-ness kept *)
Lemma create_var_spec d name t def v :
  create_var d name t def = Ok v ->
  v_name v = declared_name name def /\
  type_name d (deref_ptr t) = Ok (v_type v) /\ v_pointer v = is_ptr t.
Proof.
  unfold create_var. destruct (type_name d (deref_ptr t)) as [tn| | | |]; try discriminate. simpl.
  destruct (is_external d (deref_ptr t)) as [ex| | | |]; try discriminate. simpl.
  intros H. injection H as <-. simpl. auto.
Qed.

Section Header.
  Variable d : dump.

  (** what CreateFunction puts into the fields the header is made of *)
  Theorem create_function_operands fuel m comments f ev :
    create_function d fuel m comments = (Ok f, ev) ->
    exists src_t arg_ts src_n arg_ns dst_t dst_n rts rns,
      sg_ptys (me_sig m) = src_t :: arg_ts /\ sg_pnames (me_sig m) = src_n :: arg_ns /\
      sg_rtys (me_sig m) = dst_t :: rts /\ sg_rnames (me_sig m) = dst_n :: rns /\
      fn_name f = md_name (me_decl m) /\
      fn_receiver f = o_receiver (me_opts m) /\
      fn_style f = o_style (me_opts m) /\
      fn_ret_err f = me_ret_error d m /\
      (* destination: declared name, else dst (src under :reverse); declared pointer-ness; qualified type *)
      v_name (fn_dst f) = declared_name dst_n (if o_reverse (me_opts m) then s2b "src" else s2b "dst") /\
      type_name d (deref_ptr dst_t) = Ok (v_type (fn_dst f)) /\ v_pointer (fn_dst f) = is_ptr dst_t /\
      (* source: the receiver name when :recv, else declared, else src (dst under :reverse) *)
      v_name (fn_src f) = (match o_receiver (me_opts m) with
                           | [] => declared_name src_n (if o_reverse (me_opts m) then s2b "dst" else s2b "src")
                           | r => r end) /\
      type_name d (deref_ptr src_t) = Ok (v_type (fn_src f)) /\ v_pointer (fn_src f) = is_ptr src_t /\
      List.length (fn_args f) = Nat.min (List.length arg_ns) (List.length arg_ts).
  Proof.
    unfold create_function. intros H.
    destruct (sg_ptys (me_sig m)) as [|src_t arg_ts] eqn:E1; [discriminate|].
    destruct (sg_pnames (me_sig m)) as [|src_n arg_ns] eqn:E2; [discriminate|].
    destruct (sg_rtys (me_sig m)) as [|dst_t rts] eqn:E3; [discriminate|].
    destruct (sg_rnames (me_sig m)) as [|dst_n rns] eqn:E4; [discriminate|].
    exists src_t, arg_ts, src_n, arg_ns, dst_t, dst_n, rts, rns.
    repeat match type of H with
           | (if ?c then _ else _) = _ => destruct c; [discriminate|]
           | (match ?c with Some _ => _ | None => _ end) = _ => destruct c; [discriminate|]
           end.
    apply rbind_ok in H as (sv0 & e1 & e2 & Hs & H & _). apply lift_ok in Hs as [Hs _].
    apply rbind_ok in H as (dv & e3 & e4 & Hd & H & _). apply lift_ok in Hd as [Hd _].
    apply rbind_ok in H as (avs & e5 & e6 & Ha & H & _). apply lift_ok in Ha as [Ha _].
    apply rbind_ok in H as (sv & e7 & e8 & Hsv & H & _).
    apply rbind_ok in H as (u0 & e70 & e80 & _ & H & _).
    apply rbind_ok in H as (asg & e9 & e10 & _ & H & _).
    apply rbind_ok in H as (u & e11 & e12 & _ & H & _).
    apply rbind_ok in H as (pre & e13 & e14 & _ & H & _).
    apply rbind_ok in H as (post & e15 & e16 & _ & H & _).
    apply ret_ok in H as [<- _]. simpl.
    destruct (create_var_spec _ _ _ _ _ Hs) as (Hs1 & Hs2 & Hs3).
    destruct (create_var_spec _ _ _ _ _ Hd) as (Hd1 & Hd2 & Hd3).
    assert (Hsrc : v_name sv = (match o_receiver (me_opts m) with
                                | [] => declared_name src_n (if o_reverse (me_opts m) then s2b "dst" else s2b "src")
                                | r => r end) /\ v_type sv = v_type sv0 /\ v_pointer sv = v_pointer sv0).
    { destruct (o_receiver (me_opts m)) as [|r0 rt] eqn:Er.
      - apply ret_ok in Hsv as [<- _]. rewrite Hs1. split; [|split; reflexivity]. reflexivity.
      - destruct (v_external sv0); [discriminate|]. apply ret_ok in Hsv as [<- _]. simpl. auto. }
    destruct Hsrc as (Hn & Ht & Hp).
    assert (Hargs : List.length avs = Nat.min (List.length arg_ns) (List.length arg_ts)).
    { clear - Ha. revert avs Ha. generalize 0 as i. revert arg_ts.
      induction arg_ns as [|n ns IH]; intros ts i avs Ha; simpl in *.
      + injection Ha as <-. reflexivity.
      + destruct ts as [|t ts]; [injection Ha as <-; reflexivity|].
        destruct (create_var d n t _) as [v| | | |]; try discriminate. simpl in Ha.
        match type of Ha with (do _ <- ?X ; _) = _ => destruct X as [rest| | | |] eqn:Er end; try discriminate.
        simpl in Ha. injection Ha as <-. simpl. f_equal. eapply IH. exact Er. }
    refine (conj eq_refl (conj eq_refl (conj eq_refl (conj eq_refl (conj eq_refl (conj eq_refl (conj eq_refl (conj eq_refl
             (conj _ (conj Hd2 (conj Hd3 (conj Hn (conj _ (conj _ Hargs)))))))))))))).
    - rewrite Hd1. reflexivity.
    - rewrite Ht. exact Hs2.
    - rewrite Hp. exact Hs3.
  Qed.

  (** the variables of the generated function — source (or receiver), destination, additional
      arguments, and err when it returns an error — have pairwise different names *)
  Lemma mem_str_false_not_in x l : mem_str x l = false -> ~ In x l.
  Proof.
    induction l as [|y l IH]; cbn [mem_str]; intros H; [tauto|].
    apply orb_false_iff in H as [H1 H2]. intros [->|Hin]; [now rewrite str_eqb_refl in H1|now apply IH].
  Qed.

  Lemma first_redeclared_none names : forall seen,
    first_redeclared seen names = None -> NoDup names /\ forall n, In n names -> ~ In n seen.
  Proof.
    induction names as [|n rest IH]; intros seen H; cbn [first_redeclared] in H.
    - split; [constructor|intros ? []].
    - destruct (mem_str n seen) eqn:E; [discriminate|]. apply mem_str_false_not_in in E.
      destruct (IH _ H) as [Hnd Hns]. split.
      + constructor; [|exact Hnd]. intros Hin. apply (Hns n Hin). now left.
      + intros x [<-|Hin]; [exact E|]. intros Hs. apply (Hns x Hin). now right.
  Qed.

  Theorem create_function_names_distinct fuel m comments f ev :
    create_function d fuel m comments = (Ok f, ev) ->
    NoDup (v_name (fn_src f) :: v_name (fn_dst f) :: List.map v_name (fn_args f)) /\
    (fn_ret_err f = true ->
     ~ In (s2b "err") (v_name (fn_src f) :: v_name (fn_dst f) :: List.map v_name (fn_args f))).
  Proof.
    unfold create_function. intros H.
    destruct (sg_ptys (me_sig m)) as [|src_t arg_ts] eqn:E1; [discriminate|].
    destruct (sg_pnames (me_sig m)) as [|src_n arg_ns] eqn:E2; [discriminate|].
    destruct (sg_rtys (me_sig m)) as [|dst_t rts] eqn:E3; [discriminate|].
    destruct (sg_rnames (me_sig m)) as [|dst_n rns] eqn:E4; [discriminate|].
    repeat match type of H with
           | (if ?c then _ else _) = _ => destruct c; [discriminate|]
           | (match ?c with Some _ => _ | None => _ end) = _ => destruct c; [discriminate|]
           end.
    apply rbind_ok in H as (sv0 & e1 & e2 & _ & H & _).
    apply rbind_ok in H as (dv & e3 & e4 & _ & H & _).
    apply rbind_ok in H as (avs & e5 & e6 & _ & H & _).
    apply rbind_ok in H as (sv & e7 & e8 & _ & H & _).
    apply rbind_ok in H as (u0 & e70 & e80 & Hu & H & _).
    apply rbind_ok in H as (asg & e9 & e10 & _ & H & _).
    apply rbind_ok in H as (u & e11 & e12 & _ & H & _).
    apply rbind_ok in H as (pre & e13 & e14 & _ & H & _).
    apply rbind_ok in H as (post & e15 & e16 & _ & H & _).
    apply ret_ok in H as [<- _]. cbn [fn_src fn_dst fn_args fn_ret_err].
    destruct (first_redeclared _ _) eqn:Ef in Hu; [discriminate|].
    apply first_redeclared_none in Ef as [Hnd Hns]. split; [exact Hnd|].
    intros Hr Hin. rewrite Hr in Hns. apply (Hns _ Hin). now left.
  Qed.

  (** illegal combinations are rejected *)
  Theorem reverse_with_arguments_rejected fuel m comments src_t a arg_ts :
    sg_ptys (me_sig m) = src_t :: a :: arg_ts -> o_reverse (me_opts m) = true ->
    sg_pnames (me_sig m) <> [] -> sg_rtys (me_sig m) <> [] -> sg_rnames (me_sig m) <> [] ->
    exists msg ev, create_function d fuel m comments = (Err msg, ev).
  Proof.
    intros Hp Hr Hn Hrt Hrn. unfold create_function. rewrite Hp.
    destruct (sg_pnames (me_sig m)); [contradiction|].
    destruct (sg_rtys (me_sig m)); [contradiction|].
    destruct (sg_rnames (me_sig m)); [contradiction|].
    rewrite Hr. simpl. unfold errorf. eauto.
  Qed.
End Header.
