(** Proofs about Run.v: frame (C15), irrelevance of the old output (C12), histories. *)
From stdpp Require Import gmap.
From Cvg Require Import Base Cli Run.
From Cvg.proofs Require Import CliProofs.

Section RunProofs.
  Variable gen : fs -> path -> path -> gen_result.
  Variable can_write : path -> bool.
  Notation run := (run gen can_write).

  Lemma run_snd c f :
    snd (run c f) = run_core c can_write (gen (delete (c_output c) f) (c_input c) (c_output c)).
  Proof. reflexivity. Qed.
  Lemma run_fst c f : fst (run c f) = apply_effects f (r_effects (snd (run c f))).
  Proof. reflexivity. Qed.

  Lemma apply_effects_frame (es : list effect) (f : fs) (p : path) :
    (forall e, In e es -> match e with Truncate q => q <> p | WriteFile q _ => q <> p end) ->
    apply_effects f es !! p = f !! p.
  Proof.
    revert f; induction es as [|e es IH]; intros f H; simpl; [reflexivity|].
    rewrite IH by (intros e' He'; apply H; now right).
    specialize (H e (or_introl eq_refl)).
    destruct e as [q|q b]; simpl; now rewrite lookup_insert_ne.
  Qed.

  (** C15: nothing but the output path and the log path is touched. *)
  Lemma run_frame c f p :
    p <> c_output c -> p <> c_log c -> fst (run c f) !! p = f !! p.
  Proof.
    intros Ho Hl. unfold Run.run; simpl. apply apply_effects_frame.
    intros e He. destruct (run_core_effect_paths _ _ _ _ He) as [[-> _]|(code & -> & _)]; congruence.
  Qed.

  (** C15: dry or failed runs leave the output path as it was
      (unless the log file *is* the output path). *)
  Definition no_alias (c : config) : Prop := c_log c = [] \/ c_log c <> c_output c.

  Lemma run_dry_or_failed c f :
    no_alias c ->
    (c_dry c = true \/ r_status (snd (run c f)) <> 0%N) ->
    fst (run c f) !! c_output c = f !! c_output c.
  Proof.
    intros Hne H. unfold Run.run in *; simpl in *. apply apply_effects_frame.
    intros e He. destruct (run_core_no_output_write _ _ _ _ H He) as [-> Hn]. destruct Hne; congruence.
  Qed.

  (** C12: whatever the output path holds, the run's observable result
      (effects = bytes written, stdout, status) is that of the run on an empty path. *)
  Lemma run_output_irrelevant c f x :
    snd (run c (<[c_output c := x]> f)) = snd (run c (delete (c_output c) f)).
  Proof.
    unfold Run.run; simpl. now rewrite delete_insert_delete, delete_idemp.
  Qed.

  Lemma run_output_irrelevant2 c f x y :
    snd (run c (<[c_output c := x]> f)) = snd (run c (<[c_output c := y]> f)).
  Proof. now rewrite !run_output_irrelevant. Qed.

  (** The content of the output path after a successful non-dry run is the generated code. *)
  Lemma run_success_content c f :
    no_alias c -> c_dry c = false -> r_status (snd (run c f)) = 0%N ->
    exists code, gen (delete (c_output c) f) (c_input c) (c_output c) = GenCode code /\
                 fst (run c f) !! c_output c = Some code.
  Proof.
    intros Hne Hd. unfold Run.run; simpl. unfold run_core. rewrite Hd.
    destruct (gen _ _ _) as [|raw|code]; simpl.
    - destruct (c_log c); [|destruct (can_write _)]; simpl; discriminate.
    - destruct (c_log c); [|destruct (can_write _)]; simpl; discriminate.
    - intros Hs. exists code. split; [reflexivity|].
      destruct (c_log c) as [|l0 lt] eqn:El.
      + destruct (can_write (c_output c)); [|discriminate]. simpl. now rewrite lookup_insert.
      + destruct (can_write (l0 :: lt)); [|discriminate].
        destruct (can_write (c_output c)); [|discriminate]. simpl. now rewrite lookup_insert.
  Qed.

  (** Idempotence (no log): running twice changes nothing the second time. *)
  Lemma run_idempotent c f :
    c_log c = [] ->
    fst (run c (fst (run c f))) = fst (run c f) /\ snd (run c (fst (run c f))) = snd (run c f).
  Proof.
    intros Hl.
    assert (Hd : delete (c_output c) (fst (run c f)) = delete (c_output c) f).
    { unfold Run.run; simpl. unfold run_core; rewrite Hl.
      destruct (gen _ _ _); simpl; try reflexivity.
      destruct (c_dry c); simpl; [reflexivity|].
      destruct (can_write _); simpl; [|reflexivity]. apply delete_insert_delete. }
    assert (Hs : snd (run c (fst (run c f))) = snd (run c f)).
    { rewrite (run_snd c (fst (run c f))), Hd. reflexivity. }
    split; [|exact Hs].
    rewrite (run_fst c (fst (run c f))), Hs.
    rewrite (run_fst c f), run_snd. unfold run_core; rewrite Hl.
    destruct (gen _ _ _); simpl; try reflexivity.
    destruct (c_dry c); simpl; [reflexivity|].
    destruct (can_write _); simpl; [|reflexivity]. apply insert_insert.
  Qed.

  (** History invariant: over any sequence of hand edits to files other than the
      output (including the sources), corruptions of the output path and runs
      with one log-less config [c], after every successful non-dry run the
      output path holds gen of the *current* other files. *)
  Definition out_consistent (c : config) (f : fs) : Prop :=
    exists code, gen (delete (c_output c) f) (c_input c) (c_output c) = GenCode code /\
                 f !! c_output c = Some code.

  Lemma run_establishes c f :
    c_log c = [] -> c_dry c = false -> r_status (snd (run c f)) = 0%N ->
    out_consistent c (fst (run c f)).
  Proof.
    intros Hl Hd Hs.
    destruct (run_success_content c f) as (code & Hg & Hc); auto. { now left. }
    exists code. split; [|exact Hc].
    replace (delete (c_output c) (fst (run c f))) with (delete (c_output c) f); [exact Hg|].
    unfold Run.run; simpl. unfold run_core. rewrite Hl, Hd, Hg.
    destruct (can_write _); simpl; [|reflexivity]. symmetry. apply delete_insert_delete.
  Qed.

  (** Corrupting or truncating the output path, then running again, repairs it. *)
  Lemma run_repairs c f x :
    c_log c = [] -> c_dry c = false ->
    r_status (snd (run c f)) = 0%N ->
    fst (run c (<[c_output c := x]> (fst (run c f)))) = fst (run c f).
  Proof.
    intros Hl Hd Hs.
    destruct (run_idempotent c f Hl) as [Hi1 Hi2].
    assert (E : snd (run c (<[c_output c := x]> (fst (run c f)))) = snd (run c (fst (run c f)))).
    { rewrite run_output_irrelevant. rewrite !run_snd. now rewrite delete_idemp. }
    rewrite (run_fst c (<[c_output c := x]> (fst (run c f)))).
    rewrite E, Hi2.
    (* the effects of the (successful, non-dry, log-less) run are one write of the code *)
    destruct (run_success_content c f) as (code & Hg & Hc); auto. { now left. }
    revert Hs. rewrite (run_fst c f), run_snd. unfold run_core. rewrite Hl, Hd, Hg.
    destruct (can_write _); simpl; [|discriminate]. intros _.
    now rewrite !insert_insert.
  Qed.

  (** Steps of a history that keep the invariant: any edit of a file other than
      the output keeps nothing (the sources changed), but the next successful run
      re-establishes it; corruption of the output path alone is repaired. *)
  Lemma history_invariant c (steps : list (step)) f :
    c_log c = [] -> c_dry c = false ->
    let f' := fold_left (do_step gen can_write) steps f in
    r_status (snd (run c f')) = 0%N -> out_consistent c (fst (run c f')).
  Proof. intros Hl Hd f' Hs. now apply run_establishes. Qed.
End RunProofs.
