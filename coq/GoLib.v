(** GoLib.v — the few functions of Go's strings package that the translated functions
    (gen/GoFuns.v) call, over byte strings. *)
From Coq Require Import List NArith ZArith Bool.
From Cvg Require Import Base.
Import ListNotations.
Open Scope N_scope.

(** strings.IndexByte: index of the first occurrence of byte c, -1 if absent *)
Fixpoint go_index_byte_from (s : str) (c : N) (i : Z) : Z :=
  match s with
  | [] => (-1)%Z
  | x :: s' => if x =? c then i else go_index_byte_from s' c (i + 1)%Z
  end.
Definition go_index_byte (s : str) (c : N) : Z := go_index_byte_from s c 0%Z.

Fixpoint go_has_prefix (s p : str) : bool :=
  match p, s with
  | [], _ => true
  | _ :: _, [] => false
  | y :: p', x :: s' => (x =? y) && go_has_prefix s' p'
  end.
Definition go_has_suffix (s p : str) : bool := go_has_prefix (rev s) (rev p).
Definition go_trim_prefix (s p : str) : str := if go_has_prefix s p then skipn (length p) s else s.
Definition go_trim_suffix (s p : str) : str := if go_has_suffix s p then firstn (length s - length p) s else s.

(** ** go/types objects the translated builder code (gen/GoFuns.v, module GoNode) handles:
    a *types.Var is the model's [field]; a *types.Func is a name with its signature. *)
From Cvg Require Import GoTypes.
Record go_func := { gf_name : str; gf_sig : sig }.

(** sig.Results().At(k).Type(): go/types panics past the end; the model's invalid type there *)
Definition go_nth_type (l : list ty) (k : nat) : ty := nth k l invalid_ty.

(** classes of go/types a types.Type is asserted to (t.( *types.Pointer) ...), and Elem() *)
Definition go_is_pointer (t : ty) : bool := match t with TPtr _ _ => true | _ => false end.
Definition go_is_slice (t : ty) : bool := match t with TSlice _ _ => true | _ => false end.
Definition go_is_basic (t : ty) : bool := match t with TBasic _ _ => true | _ => false end.
Definition go_is_named (t : ty) : bool := match t with TNamed _ => true | _ => false end.
Definition go_is_struct (t : ty) : bool := match t with TStruct _ _ => true | _ => false end.
Definition go_type_elem (t : ty) : ty := match t with TPtr _ e => e | TSlice _ e => e | _ => invalid_ty end.
