(** Dump.v — the model's input: what go/packages tells about the setup package
    (see harness/dump/dump.go), and its decoder from s-expressions. *)
From Coq Require Import String.
From Cvg Require Import Base GoTypes.
Open Scope N_scope.

Record position := { p_pos : N; p_line : N; p_col : N }.
Definition pos0 := {| p_pos := 0; p_line := 0; p_col := 0 |}.


(** an object found in a scope *)
Inductive sobj :=
| OFunc (sg : sig) (exported : bool) (pkg : str) (name : str)
| OFuncUnref        (* a function whose name occurs in no comment: signature not dumped *)
| OType
| OOther.

Record import_spec := { i_name : str; i_path : str; i_pkgname : str; i_loaded : bool }.

Record comment := { c_pos : N; c_end : N; c_line : N; c_col : N; c_text : str; c_orig : option (N * N) }.
  (* c_orig: (group index, comment index) in the original file.Comments; None for an inserted marker *)

Definition comment_position (c : comment) : position := {| p_pos := c_pos c; p_line := c_line c; p_col := c_col c |}.

Record method_decl := {
  md_name : str; md_pos : position; md_sig : sig;
  md_param_pos : list position; md_result_pos : list position;
  md_chain : list (N * str);
}.

Record iface_decl := {
  if_name : str; if_pos : position; if_in_src : bool;
  if_chain : list (N * str);           (* doc lookup chain: (node id, node kind), innermost first *)
  if_fieldlists : list (N * N);        (* (Pos, Closing) of every FieldList of the enclosing GenDecl, Inspect order *)
  if_methods : list method_decl;
}.

Record dump := {
  d_pkg_path : str; d_pkg_name : str;
  d_src_file : str;
  d_imports : list import_spec;
  d_env : env;
  d_pkgscope : list (str * sobj);
  d_universe : list str;
  d_imported : list (str * list (str * sobj));
  d_comments : list (list comment);
  d_docs : list (N * N);               (* node id -> group index *)
  d_pkg_pos : N * N;                   (* line, col of the package keyword *)
  d_ifaces : list iface_decl;
}.

(** ** Decoders *)
Definition dec_strs (e : sexp) : option (list str) :=
  let? l := list_of e in map_opt atom_of l.

Fixpoint dec_ty (fuel : nat) (e : sexp) : option ty :=
  match fuel with
  | O => None
  | S f =>
      let dec_tys (e : sexp) : option (list ty) := let? l := list_of e in map_opt (dec_ty f) l in
      let dec_sig (e : sexp) : option sig :=
        match e with
        | SList [pn; pt; rn; rt; v] =>
            let? pn := dec_strs pn in let? pt := dec_tys pt in
            let? rn := dec_strs rn in let? rt := dec_tys rt in
            let? v := bool_of v in Some (Sig pn pt rn rt v)
        | _ => None
        end in
      let dec_field (e : sexp) : option field :=
        match e with
        | SList [Atom n; Atom p; ex; em; Atom tag; t] =>
            let? ex := bool_of ex in let? em := bool_of em in let? t := dec_ty f t in
            Some (Field n p ex em tag t)
        | _ => None
        end in
      let dec_meth (e : sexp) : option meth :=
        match e with
        | SList [Atom n; Atom p; ex; sg] =>
            let? ex := bool_of ex in let? sg := dec_sig sg in Some (Meth n p ex sg)
        | _ => None
        end in
      match e with
      | SList [Atom t; a; b] =>
          if str_eqb t (s2b "B") then let? k := num_of a in let? n := atom_of b in Some (TBasic k n)
          else if str_eqb t (s2b "P") then let? s := atom_of a in let? x := dec_ty f b in Some (TPtr s x)
          else if str_eqb t (s2b "S") then let? s := atom_of a in let? x := dec_ty f b in Some (TSlice s x)
          else if str_eqb t (s2b "St") then
            let? s := atom_of a in let? l := list_of b in let? fs := map_opt dec_field l in Some (TStruct s fs)
          else if str_eqb t (s2b "I") then
            let? s := atom_of a in let? l := list_of b in let? ms := map_opt dec_meth l in Some (TIface s ms)
          else if str_eqb t (s2b "F") then let? s := atom_of a in let? sg := dec_sig b in Some (TFunc s sg)
          else None
      | SList [Atom t; a] =>
          if str_eqb t (s2b "N") then let? i := num_of a in Some (TNamed i)
          else if str_eqb t (s2b "O") then let? s := atom_of a in Some (TOther s)
          else None
      | SList [Atom t; a; b; c] =>
          if str_eqb t (s2b "A") then let? s := atom_of a in let? n := num_of b in let? x := dec_ty f c in Some (TArray s n x)
          else if str_eqb t (s2b "M") then let? s := atom_of a in let? k := dec_ty f b in let? v := dec_ty f c in Some (TMap s k v)
          else if str_eqb t (s2b "C") then let? s := atom_of a in let? d := num_of b in let? x := dec_ty f c in Some (TChan s d x)
          else None
      | _ => None
      end
  end.

Fixpoint sexp_depth (e : sexp) : nat :=
  match e with
  | Atom _ => 1%nat
  | SList l => S (fold_left (fun acc x => Nat.max acc (sexp_depth x)) l 0%nat)
  end.

Definition dec_type (e : sexp) : option ty := dec_ty (S (sexp_depth e)) e.

Definition dec_sig_top (e : sexp) : option sig :=
  match dec_type (SList [Atom (s2b "F"); Atom []; e]) with
  | Some (TFunc _ sg) => Some sg
  | _ => None
  end.

Definition dec_nmethod (e : sexp) : option nmethod :=
  match e with
  | SList [Atom n; Atom p; ex; ptr; sg] =>
      let? ex := bool_of ex in let? ptr := bool_of ptr in let? sg := dec_sig_top sg in
      Some {| m_name := n; m_pkg := p; m_exported := ex; m_ptr_recv := ptr; m_sig := sg |}
  | _ => None
  end.

Definition dec_named (e : sexp) : option named :=
  match e with
  | SList [Atom pp; Atom pn; Atom n; hp; u; SList ms] =>
      let? hp := bool_of hp in let? u := dec_type u in let? ms := map_opt dec_nmethod ms in
      Some {| n_pkg_path := pp; n_pkg_name := pn; n_name := n; n_has_pkg := hp; n_under := u; n_methods := ms |}
  | _ => None
  end.

Definition dec_sobj (e : sexp) : option sobj :=
  match e with
  | SList [Atom t; sg; ex; Atom p; Atom n] =>
      if str_eqb t (s2b "func") then
        let? sg := dec_sig_top sg in let? ex := bool_of ex in Some (OFunc sg ex p n)
      else None
  | SList [Atom t] =>
      if str_eqb t (s2b "type") then Some OType
      else if str_eqb t (s2b "func-unreferenced") then Some OFuncUnref
      else Some OOther
  | _ => None
  end.

Definition dec_scope (e : sexp) : option (list (str * sobj)) :=
  let? l := list_of e in
  map_opt (fun x => match x with
                    | SList [Atom n; o] => let? o := dec_sobj o in Some (n, o)
                    | _ => None
                    end) l.

Definition dec_position3 (a b c : sexp) : option position :=
  let? p := num_of a in let? l := num_of b in let? co := num_of c in
  Some {| p_pos := p; p_line := l; p_col := co |}.
Definition dec_position (e : sexp) : option position :=
  match e with SList [a; b; c] => dec_position3 a b c | _ => None end.

Definition dec_nums (e : sexp) : option (list N) := let? l := list_of e in map_opt num_of l.
Definition dec_chain (e : sexp) : option (list (N * str)) :=
  let? l := list_of e in
  map_opt (fun x => match x with SList [a; Atom k] => let? n := num_of a in Some (n, k) | _ => None end) l.

Definition dec_method_decl (e : sexp) : option method_decl :=
  match e with
  | SList [Atom n; a; b; c; sg; SList pp; SList rp; ch] =>
      let? pos := dec_position3 a b c in let? sg := dec_sig_top sg in
      let? pp := map_opt dec_position pp in let? rp := map_opt dec_position rp in
      let? ch := dec_chain ch in
      Some {| md_name := n; md_pos := pos; md_sig := sg; md_param_pos := pp; md_result_pos := rp; md_chain := ch |}
  | SList [Atom n; a; b; c; sg; ch] =>      (* method object without a signature *)
      let? pos := dec_position3 a b c in let? sg := dec_sig_top sg in let? ch := dec_chain ch in
      Some {| md_name := n; md_pos := pos; md_sig := sg; md_param_pos := []; md_result_pos := []; md_chain := ch |}
  | _ => None
  end.

Definition dec_pair_nums (e : sexp) : option (N * N) :=
  match e with SList [a; b] => let? x := num_of a in let? y := num_of b in Some (x, y) | _ => None end.

Definition dec_iface (e : sexp) : option iface_decl :=
  match e with
  | SList [Atom n; a; b; c; ins; ch; SList fls; SList ms] =>
      let? pos := dec_position3 a b c in let? ins := bool_of ins in let? ch := dec_chain ch in
      let? fls := map_opt dec_pair_nums fls in let? ms := map_opt dec_method_decl ms in
      Some {| if_name := n; if_pos := pos; if_in_src := ins; if_chain := ch; if_fieldlists := fls; if_methods := ms |}
  | _ => None
  end.

Definition dec_import (e : sexp) : option import_spec :=
  match e with
  | SList [Atom n; Atom p; Atom pn; l] =>
      let? l := bool_of l in Some {| i_name := n; i_path := p; i_pkgname := pn; i_loaded := l |}
  | _ => None
  end.

Fixpoint dec_group (gi : N) (ci : N) (l : list sexp) : option (list comment) :=
  match l with
  | [] => Some []
  | SList [a; b; ln; co; Atom t] :: l' =>
      let? p := num_of a in let? e := num_of b in let? ln := num_of ln in let? co := num_of co in
      let? rest := dec_group gi (ci + 1) l' in
      Some ({| c_pos := p; c_end := e; c_line := ln; c_col := co; c_text := t; c_orig := Some (gi, ci) |} :: rest)
  | _ => None
  end.
Fixpoint dec_groups (gi : N) (l : list sexp) : option (list (list comment)) :=
  match l with
  | [] => Some []
  | SList g :: l' => let? g := dec_group gi 0 g in let? rest := dec_groups (gi + 1) l' in Some (g :: rest)
  | _ => None
  end.

Definition dec_dump (e : sexp) : option dump :=
  match e with
  | SList [Atom _; SList [Atom pp; Atom pn]; Atom src; SList imps; SList nameds; pkgscope; univ;
           SList imported; SList comments; SList docs; pkgpos; SList ifaces] =>
      let? imps := map_opt dec_import imps in
      let? E := map_opt dec_named nameds in
      let? ps := dec_scope pkgscope in
      let? univ := dec_strs univ in
      let? imported := map_opt (fun x => match x with
                                         | SList [Atom p; sc] => let? sc := dec_scope sc in Some (p, sc)
                                         | _ => None
                                         end) imported in
      let? comments := dec_groups 0 comments in
      let? docs := map_opt dec_pair_nums docs in
      let? pkgpos := dec_pair_nums pkgpos in
      let? ifaces := map_opt dec_iface ifaces in
      Some {| d_pkg_path := pp; d_pkg_name := pn; d_src_file := src; d_imports := imps; d_env := E;
              d_pkgscope := ps; d_universe := univ; d_imported := imported; d_comments := comments;
              d_docs := docs; d_pkg_pos := pkgpos; d_ifaces := ifaces |}
  | _ => None
  end.
