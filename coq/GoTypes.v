(** GoTypes.v — the fragment of go/types the tool consults: type terms, an
    environment of named types, identity, assignability, convertibility,
    LookupFieldOrMethod (embedding, pointer indirection), and the small
    predicates of pkg/util/types.go.  Cross-validated against go/types on every
    run by the harness (model validation). *)
From Coq Require Import String.
From Cvg Require Import Base.
Open Scope N_scope.

(** Each composite node carries [s], go/types' TypeString of the node with
    full package paths (what [t.String()] returns); it is an oracle datum and
    is used only where the Go code calls [String()]. *)
Inductive ty : Type :=
| TBasic (kind : N) (name : str)
| TNamed (id : N)
| TPtr (s : str) (e : ty)
| TSlice (s : str) (e : ty)
| TArray (s : str) (n : N) (e : ty)
| TMap (s : str) (k v : ty)
| TChan (s : str) (dir : N) (e : ty)
| TStruct (s : str) (fs : list field)
| TIface (s : str) (ms : list meth)
| TFunc (s : str) (sg : sig)
| TOther (s : str)
with field : Type := Field (name pkg : str) (exported embedded : bool) (tag : str) (t : ty)
with meth : Type := Meth (name pkg : str) (exported : bool) (sg : sig)
with sig : Type := Sig (pnames : list str) (ptys : list ty) (rnames : list str) (rtys : list ty) (variadic : bool).

Definition f_name (f : field) := let 'Field n _ _ _ _ _ := f in n.
Definition f_pkg (f : field) := let 'Field _ p _ _ _ _ := f in p.
Definition f_exported (f : field) := let 'Field _ _ e _ _ _ := f in e.
Definition f_embedded (f : field) := let 'Field _ _ _ e _ _ := f in e.
Definition f_type (f : field) := let 'Field _ _ _ _ _ t := f in t.
Definition sg_ptys (s : sig) := let 'Sig _ p _ _ _ := s in p.
Definition sg_rtys (s : sig) := let 'Sig _ _ _ r _ := s in r.
Definition sg_pnames (s : sig) := let 'Sig n _ _ _ _ := s in n.
Definition sg_rnames (s : sig) := let 'Sig _ _ n _ _ := s in n.

(** Declared method of a named type. *)
Record nmethod := { m_name : str; m_pkg : str; m_exported : bool; m_ptr_recv : bool; m_sig : sig }.

Record named := {
  n_pkg_path : str;      (* "" when the object has no package (universe: error) *)
  n_pkg_name : str;
  n_name : str;
  n_has_pkg : bool;
  n_under : ty;
  n_methods : list nmethod;
}.

Definition env := list named.

Definition invalid_ty : ty := TBasic 0 (s2b "invalid type").
Definition string_ty : ty := TBasic 17 (s2b "string").

Definition get_named (E : env) (i : N) : option named := nth_error E (N.to_nat i).

Definition under (E : env) (t : ty) : ty :=
  match t with
  | TNamed i => match get_named E i with Some n => n_under n | None => invalid_ty end
  | _ => t
  end.

(** [t.String()] *)
Definition type_string (E : env) (t : ty) : str :=
  match t with
  | TBasic _ n => n
  | TNamed i =>
      match get_named E i with
      | Some n => if n_has_pkg n then n_pkg_path n ++ [46] ++ n_name n else n_name n
      | None => s2b "invalid type"
      end
  | TPtr s _ | TSlice s _ | TArray s _ _ | TMap s _ _ | TChan s _ _ | TStruct s _ | TIface s _ | TFunc s _ | TOther s => s
  end.

(** ** Identity (types.Identical / IdenticalIgnoreTags) *)
Fixpoint identical (igt : bool) (a b : ty) {struct a} : bool :=
  let fix id_list (l1 l2 : list ty) {struct l1} : bool :=
    match l1, l2 with
    | [], [] => true
    | x :: l1', y :: l2' => identical igt x y && id_list l1' l2'
    | _, _ => false
    end in
  let id_sig (s1 s2 : sig) : bool :=
    match s1, s2 with
    | Sig _ p1 _ r1 v1, Sig _ p2 _ r2 v2 => Bool.eqb v1 v2 && id_list p1 p2 && id_list r1 r2
    end in
  let fix id_fields (l1 l2 : list field) {struct l1} : bool :=
    match l1, l2 with
    | [], [] => true
    | Field n1 p1 e1 m1 t1 ty1 :: l1', Field n2 p2 e2 m2 t2 ty2 :: l2' =>
        str_eqb n1 n2 && Bool.eqb m1 m2 && (e1 || str_eqb p1 p2) &&
        (igt || str_eqb t1 t2) && identical igt ty1 ty2 && id_fields l1' l2'
    | _, _ => false
    end in
  let fix id_meths (l1 l2 : list meth) {struct l1} : bool :=
    match l1, l2 with
    | [], [] => true
    | Meth n1 p1 e1 s1 :: l1', Meth n2 p2 e2 s2 :: l2' =>
        str_eqb n1 n2 && (e1 || str_eqb p1 p2) && id_sig s1 s2 && id_meths l1' l2'
    | _, _ => false
    end in
  match a, b with
  | TBasic k1 _, TBasic k2 _ => N.eqb k1 k2
  | TNamed i, TNamed j => N.eqb i j
  | TPtr _ x, TPtr _ y => identical igt x y
  | TSlice _ x, TSlice _ y => identical igt x y
  | TArray _ n x, TArray _ m y => N.eqb n m && identical igt x y
  | TMap _ k1 v1, TMap _ k2 v2 => identical igt k1 k2 && identical igt v1 v2
  | TChan _ d1 x, TChan _ d2 y => N.eqb d1 d2 && identical igt x y
  | TStruct _ f1, TStruct _ f2 => id_fields f1 f2
  | TIface _ m1, TIface _ m2 => id_meths m1 m2
  | TFunc _ s1, TFunc _ s2 => id_sig s1 s2
  | TOther s1, TOther s2 => str_eqb s1 s2
  | _, _ => false
  end.

Definition identical_sig (s1 s2 : sig) : bool := identical false (TFunc [] s1) (TFunc [] s2).

(** ** Small predicates (pkg/util/types.go) *)
Definition is_ptr (t : ty) : bool := match t with TPtr _ _ => true | _ => false end.
Definition deref_ptr (t : ty) : ty := match t with TPtr _ e => e | _ => t end.
Definition is_named (t : ty) : bool := match t with TNamed _ => true | _ => false end.
Definition is_basic (t : ty) : bool := match t with TBasic _ _ => true | _ => false end.
Definition is_slice (t : ty) : bool := match t with TSlice _ _ => true | _ => false end.
Definition slice_elem (t : ty) : option ty := match t with TSlice _ e => Some e | _ => None end.
Definition is_struct_type (E : env) (t : ty) : bool :=
  match under E t with TStruct _ _ => true | _ => false end.
Definition is_iface (E : env) (t : ty) : bool :=
  match under E t with TIface _ _ => true | _ => false end.
(** util.IsErrorType: t.String() == "error" *)
Definition is_error_type (E : env) (t : ty) : bool := str_eqb (type_string E t) (s2b "error").
(** util.IsInvalidType: DerefPtr(t).Underlying() is Basic Invalid *)
Definition is_invalid_type (E : env) (t : ty) : bool :=
  match under E (deref_ptr t) with TBasic k _ => N.eqb k 0 | _ => false end.

(** hasName: Basic, Named (TypeParam is outside the grammar) *)
Definition has_name (t : ty) : bool := match t with TBasic _ _ | TNamed _ => true | _ => false end.

Definition struct_fields (E : env) (t : ty) : list field :=
  match under E t with TStruct _ fs => fs | _ => [] end.

(** Package path of a type as util.PkgOf: pointer -> elem; named -> its package; else none. *)
Fixpoint pkg_of (E : env) (t : ty) : option str :=
  match t with
  | TPtr _ e => pkg_of E e
  | TNamed i => match get_named E i with
                | Some n => if n_has_pkg n then Some (n_pkg_path n) else None
                | None => None
                end
  | _ => None
  end.

(** ** LookupFieldOrMethod *)
Inductive lobj :=
| LField (f : field)
| LMethod (name : str) (sg : sig) (ptr_recv : bool).

Record emb := { e_ty : ty; e_indirect : bool; e_multiples : bool }.

(** obj.sameId(pkg, name) *)
Definition same_id (obj_name obj_pkg : str) (obj_exported : bool) (pkg : option str) (name : str) : bool :=
  str_eqb obj_name name &&
  (obj_exported || match pkg with Some p => str_eqb p obj_pkg | None => false end).

Definition find_nmethod (ms : list nmethod) (pkg : option str) (name : str) : option nmethod :=
  find (fun m => same_id (m_name m) (m_pkg m) (m_exported m) pkg name) ms.

Definition find_imeth (ms : list meth) (pkg : option str) (name : str) : option meth :=
  find (fun m => let 'Meth n p e _ := m in same_id n p e pkg name) ms.

Definition mem_N (x : N) (l : list N) : bool := existsb (N.eqb x) l.

(** State while scanning one depth level. *)
Record lstate := {
  ls_obj : option (lobj * bool);   (* found object and its [indirect] flag *)
  ls_collision : bool;
  ls_next : list emb;
  ls_seen : list N;
}.

Definition ls_found (st : lstate) (o : lobj) (e : emb) : lstate :=
  match ls_obj st with
  | Some _ => {| ls_obj := ls_obj st; ls_collision := true; ls_next := ls_next st; ls_seen := ls_seen st |}
  | None =>
      if e_multiples e then
        {| ls_obj := ls_obj st; ls_collision := true; ls_next := ls_next st; ls_seen := ls_seen st |}
      else
        {| ls_obj := Some (o, e_indirect e); ls_collision := ls_collision st; ls_next := ls_next st; ls_seen := ls_seen st |}
  end.

(** scan the fields of a struct at one level *)
Fixpoint scan_fields (E : env) (pkg : option str) (name : str) (e : emb) (fs : list field) (st : lstate) : lstate :=
  match fs with
  | [] => st
  | f :: fs' =>
      if ls_collision st then st else
      if same_id (f_name f) (f_pkg f) (f_exported f) pkg name then
        scan_fields E pkg name e fs' (ls_found st (LField f) e)
      else
        let st' :=
          match ls_obj st with
          | Some _ => st
          | None =>
              if f_embedded f then
                let t := deref_ptr (f_type f) in
                let isp := is_ptr (f_type f) in
                match under E t with
                | TStruct _ _ | TIface _ _ =>
                    {| ls_obj := None; ls_collision := ls_collision st;
                       ls_next := ls_next st ++ [{| e_ty := t; e_indirect := e_indirect e || isp; e_multiples := e_multiples e |}];
                       ls_seen := ls_seen st |}
                | _ => st
                end
              else st
          end in
        scan_fields E pkg name e fs' st'
  end.

Definition scan_emb (E : env) (pkg : option str) (name : str) (st : lstate) (e : emb) : lstate :=
  if ls_collision st then st else
  let t := e_ty e in
  (* named: skip if seen, else look for an attached method *)
  let '(skip, st1, found_method) :=
    match t with
    | TNamed i =>
        if mem_N i (ls_seen st) then (true, st, false)
        else
          let st' := {| ls_obj := ls_obj st; ls_collision := ls_collision st; ls_next := ls_next st; ls_seen := i :: ls_seen st |} in
          match get_named E i with
          | Some n =>
              match find_nmethod (n_methods n) pkg name with
              | Some m => (false, ls_found st' (LMethod (m_name m) (m_sig m) (m_ptr_recv m)) e, true)
              | None => (false, st', false)
              end
          | None => (false, st', false)
          end
    | _ => (false, st, false)
    end in
  if skip || found_method then st1 else
  match under E t with
  | TStruct _ fs => scan_fields E pkg name e fs st1
  | TIface _ ms =>
      match find_imeth ms pkg name with
      | Some (Meth n _ _ sg) => ls_found st1 (LMethod n sg false) e
      | None => st1
      end
  | _ => st1
  end.

(** consolidateMultiples *)
Fixpoint consolidate (l : list emb) (acc : list emb) : list emb :=
  match l with
  | [] => rev acc
  | e :: l' =>
      if existsb (fun a => identical false (e_ty a) (e_ty e)) acc then
        consolidate l' (List.map (fun a => if identical false (e_ty a) (e_ty e)
                                      then {| e_ty := e_ty a; e_indirect := e_indirect a; e_multiples := true |} else a) acc)
      else consolidate l' (e :: acc)
  end.

Fixpoint lookup_levels (fuel : nat) (E : env) (pkg : option str) (name : str) (addressable : bool)
         (current : list emb) (seen : list N) : option lobj :=
  match fuel with
  | O => None
  | S fuel' =>
      match current with
      | [] => None
      | _ =>
          let st := fold_left (scan_emb E pkg name)
                      current {| ls_obj := None; ls_collision := false; ls_next := []; ls_seen := seen |} in
          if ls_collision st then None else
          match ls_obj st with
          | Some (o, indirect) =>
              match o with
              | LMethod _ _ true => if negb indirect && negb addressable then None else Some o
              | _ => Some o
              end
          | None => lookup_levels fuel' E pkg name addressable (consolidate (ls_next st) []) (ls_seen st)
          end
      end
  end.

(** types.LookupFieldOrMethod(T, addressable, pkg, name) — the object only. *)
Definition lookup_field_or_method (E : env) (T : ty) (addressable : bool) (pkg : option str) (name : str) : option lobj :=
  if str_eqb name (s2b "_") then None else
  let t := deref_ptr T in
  let isp := is_ptr T in
  if isp && is_iface E t then None else
  lookup_levels (S (S (List.length E))) E pkg name addressable
    [{| e_ty := t; e_indirect := isp; e_multiples := false |}] [].

(** ** implements, assignable, convertible *)
Definition implements (E : env) (V : ty) (T : ty) : bool :=
  match under E T with
  | TIface _ ms =>
      forallb (fun m =>
        let 'Meth n p ex sg := m in
        match lookup_field_or_method E V false (Some p) n with
        | Some (LMethod _ sg' _) => identical_sig sg sg'
        | _ => false
        end) ms
  | _ => false
  end.

Definition assignable (E : env) (V T : ty) : bool :=
  if identical false V T then true else
  let Vu := under E V in let Tu := under E T in
  if identical false Vu Tu && (negb (has_name V) || negb (has_name T)) then true else
  match Tu with
  | TIface _ _ => implements E V T
  | _ =>
      match Vu, Tu with
      | TChan _ 0 ve, TChan _ _ te => identical false ve te && (negb (has_name V) || negb (has_name T))
      | _, _ => false
      end
  end.

Definition bkind (t : ty) : option N := match t with TBasic k _ => Some k | _ => None end.
Definition is_integer (t : ty) : bool := match bkind t with Some k => (2 <=? k) && (k <=? 12) | None => false end.
Definition is_float (t : ty) : bool := match bkind t with Some k => (13 <=? k) && (k <=? 14) | None => false end.
Definition is_complex (t : ty) : bool := match bkind t with Some k => (15 <=? k) && (k <=? 16) | None => false end.
Definition is_string (t : ty) : bool := match bkind t with Some k => k =? 17 | None => false end.
Definition is_unsafe_ptr (t : ty) : bool := match bkind t with Some k => k =? 18 | None => false end.
Definition is_uintptr (t : ty) : bool := match bkind t with Some k => k =? 12 | None => false end.
Definition is_bytes_or_runes (E : env) (t : ty) : bool :=
  match t with
  | TSlice _ e => match bkind (under E e) with Some k => (k =? 8) || (k =? 5) | None => false end
  | _ => false
  end.

Definition convertible (E : env) (V T : ty) : bool :=
  if assignable E V T then true else
  let Vu := under E V in let Tu := under E T in
  if identical true Vu Tu then true else
  if (match V, T with
      | TPtr _ vb, TPtr _ tb => identical true (under E vb) (under E tb)
      | _, _ => false
      end) then true else
  if (is_integer Vu || is_float Vu) && (is_integer Tu || is_float Tu) then true else
  if is_complex Vu && is_complex Tu then true else
  if (is_integer Vu || is_bytes_or_runes E Vu) && is_string Tu then true else
  if is_string Vu && is_bytes_or_runes E Tu then true else
  if (is_ptr Vu || is_uintptr Vu) && is_unsafe_ptr Tu then true else
  if is_unsafe_ptr Vu && (is_ptr Tu || is_uintptr Tu) then true else
  match Vu with
  | TSlice _ se =>
      match Tu with
      | TArray _ _ ae => identical false se ae
      | TPtr _ a => match under E a with TArray _ _ ae => identical false se ae | _ => false end
      | _ => false
      end
  | _ => false
  end.

(** util.CompliesStringer *)
Definition complies_stringer (E : env) (src : ty) : bool :=
  match deref_ptr src with
  | TNamed i =>
      match get_named E i with
      | Some n =>
          let pkg := if n_has_pkg n then Some (n_pkg_path n) else None in
          match lookup_field_or_method E src false pkg (s2b "String") with
          | Some (LMethod _ (Sig _ [] _ [r] _) _) => str_eqb (type_string E r) (s2b "string")
          | Some (LField f) =>
              match f_type f with
              | TFunc _ (Sig _ [] _ [r] _) => str_eqb (type_string E r) (s2b "string")
              | _ => false
              end
          | _ => false
          end
      | None => false
      end
  | _ => false
  end.

(** util.CompliesGetter: no parameters, exactly one non-error result. *)
Definition complies_getter (E : env) (sg : sig) : bool :=
  match sg with
  | Sig _ [] _ [r] _ => negb (is_error_type E r)
  | _ => false
  end.

(** util.ParseGetterReturnTypes: (ret, retError, ok); a getter takes no parameters. *)
Definition parse_getter_return (E : env) (sg : sig) : option (ty * bool) :=
  match sg_ptys sg with _ :: _ => None | [] =>
  match sg_rtys sg with
  | [r] => Some (r, false)
  | [r; e] => if is_error_type E e then Some (r, true) else None
  | _ => None
  end end.
