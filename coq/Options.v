(** Options.v — pkg/option.Options and the notation parser of
    pkg/parser/comment.go (parseNotationInComments, lookupType,
    lookupConverterFunc, lookupManipulatorFunc), with its diagnostics. *)
From Coq Require Import String.
From Cvg Require Import Base GoTypes Re Unicode Matcher Dump.
From Cvg.gen Require Extracted.
Open Scope N_scope.

(** ** Events: everything the run writes to stderr / stdout, in order. *)
Inductive event :=
| EvStderr (line : str)      (* one line on stderr (logger.Errorf/Warnf, fmt.Fprintln(os.Stderr, ...)) *)
| EvStdout (line : str).     (* one line on stdout *)

(** result with events: the events happen even when the computation fails *)
Definition res (A : Type) : Type := (outcome A * list event)%type.
Definition ret {A} (a : A) : res A := (Ok a, []).
Definition fail {A} (msg : str) : res A := (Err msg, []).
Definition panic {A} (site : string) : res A := (Panic (s2b site), []).
Definition emit (e : event) : res unit := (Ok tt, [e]).
Definition unsup {A} (why : string) : res A := (Unsup (s2b why), []).
Definition lift {A} (o : outcome A) : res A := (o, []).
Definition rbind {A B} (m : res A) (f : A -> res B) : res B :=
  match m with
  | (Ok a, ev) => let '(o, ev') := f a in (o, ev ++ ev')
  | (Err e, ev) => (Err e, ev)
  | (Panic s, ev) => (Panic s, ev)
  | (Fuel, ev) => (Fuel, ev)
  | (Unsup w, ev) => (Unsup w, ev)
  end.
Notation "'doR' x <- m ; f" := (rbind m (fun x => f))
  (at level 200, x pattern, m at level 100, f at level 200, right associativity).

(** logger.Errorf(msg): prints to stderr and returns the error *)
Definition errorf {A} (msg : str) : res A := (Err msg, [EvStderr msg]).
Definition warnf (msg : str) : res unit := emit (EvStderr msg).

(** position rendering: "line:col" (the harness strips the file name of the real output) *)
Definition pos_str (p : position) : str := dec (p_line p) ++ [58] ++ dec (p_col p).
Definition at_pos (p : position) (msg : string) : str := pos_str p ++ s2b ": " ++ s2b msg.
Definition at_pos' (p : position) (msg : str) : str := pos_str p ++ s2b ": " ++ msg.

(** ** Options *)
Record name_matcher := { nm_src : str; nm_dst : str; nm_pos : position }.
Record field_converter := {
  fc_name : str; fc_src : str; fc_dst : str; fc_pos : position;
  fc_arg : ty; fc_ret : ty; fc_err : bool;     (* set by resolveConverters *)
}.
Record literal_setter := { ls_dst : str; ls_literal : str; ls_pos : position }.
Record manipulator := {
  mp_pkg : str;               (* package path of the function object *)
  mp_name : str; mp_exported : bool;
  mp_dst : ty; mp_src : ty; mp_args : list ty; mp_ret_err : bool; mp_pos : position;
}.

Record options := {
  o_style : str; o_rule : str;
  o_exact : bool; o_getter : bool; o_stringer : bool; o_typecast : bool;
  o_receiver : str; o_reverse : bool;
  o_skip : list pmatcher;
  o_map : list name_matcher; o_tmap : list name_matcher;
  o_conv : list field_converter; o_lit : list literal_setter;
  o_pre : option manipulator; o_post : option manipulator;
}.

(** NewOptions(): the defaults are those extracted from the source *)
Definition new_options : options :=
  {| o_style := Extracted.default_style; o_rule := Extracted.default_rule;
     o_exact := Extracted.default_exactcase; o_getter := Extracted.default_getter;
     o_stringer := Extracted.default_stringer; o_typecast := Extracted.default_typecast;
     o_receiver := Extracted.default_receiver; o_reverse := Extracted.default_reverse;
     o_skip := []; o_map := []; o_tmap := []; o_conv := []; o_lit := [];
     o_pre := None; o_post := None |}.

Definition style_return : str := s2b "return".
Definition style_arg : str := s2b "arg".
Definition rule_name : str := s2b "name".

(** record updates *)
Definition set_style (o : options) (v : str) : options :=
  {| o_style := v; o_rule := o_rule o; o_exact := o_exact o; o_getter := o_getter o; o_stringer := o_stringer o;
     o_typecast := o_typecast o; o_receiver := o_receiver o; o_reverse := o_reverse o; o_skip := o_skip o;
     o_map := o_map o; o_tmap := o_tmap o; o_conv := o_conv o; o_lit := o_lit o; o_pre := o_pre o; o_post := o_post o |}.
Definition set_rule (o : options) (v : str) : options :=
  {| o_style := o_style o; o_rule := v; o_exact := o_exact o; o_getter := o_getter o; o_stringer := o_stringer o;
     o_typecast := o_typecast o; o_receiver := o_receiver o; o_reverse := o_reverse o; o_skip := o_skip o;
     o_map := o_map o; o_tmap := o_tmap o; o_conv := o_conv o; o_lit := o_lit o; o_pre := o_pre o; o_post := o_post o |}.
Definition set_exact (o : options) (v : bool) : options :=
  {| o_style := o_style o; o_rule := o_rule o; o_exact := v; o_getter := o_getter o; o_stringer := o_stringer o;
     o_typecast := o_typecast o; o_receiver := o_receiver o; o_reverse := o_reverse o; o_skip := o_skip o;
     o_map := o_map o; o_tmap := o_tmap o; o_conv := o_conv o; o_lit := o_lit o; o_pre := o_pre o; o_post := o_post o |}.
Definition set_getter (o : options) (v : bool) : options :=
  {| o_style := o_style o; o_rule := o_rule o; o_exact := o_exact o; o_getter := v; o_stringer := o_stringer o;
     o_typecast := o_typecast o; o_receiver := o_receiver o; o_reverse := o_reverse o; o_skip := o_skip o;
     o_map := o_map o; o_tmap := o_tmap o; o_conv := o_conv o; o_lit := o_lit o; o_pre := o_pre o; o_post := o_post o |}.
Definition set_stringer (o : options) (v : bool) : options :=
  {| o_style := o_style o; o_rule := o_rule o; o_exact := o_exact o; o_getter := o_getter o; o_stringer := v;
     o_typecast := o_typecast o; o_receiver := o_receiver o; o_reverse := o_reverse o; o_skip := o_skip o;
     o_map := o_map o; o_tmap := o_tmap o; o_conv := o_conv o; o_lit := o_lit o; o_pre := o_pre o; o_post := o_post o |}.
Definition set_typecast (o : options) (v : bool) : options :=
  {| o_style := o_style o; o_rule := o_rule o; o_exact := o_exact o; o_getter := o_getter o; o_stringer := o_stringer o;
     o_typecast := v; o_receiver := o_receiver o; o_reverse := o_reverse o; o_skip := o_skip o;
     o_map := o_map o; o_tmap := o_tmap o; o_conv := o_conv o; o_lit := o_lit o; o_pre := o_pre o; o_post := o_post o |}.
Definition set_receiver (o : options) (v : str) : options :=
  {| o_style := o_style o; o_rule := o_rule o; o_exact := o_exact o; o_getter := o_getter o; o_stringer := o_stringer o;
     o_typecast := o_typecast o; o_receiver := v; o_reverse := o_reverse o; o_skip := o_skip o;
     o_map := o_map o; o_tmap := o_tmap o; o_conv := o_conv o; o_lit := o_lit o; o_pre := o_pre o; o_post := o_post o |}.
Definition set_reverse (o : options) (v : bool) : options :=
  {| o_style := o_style o; o_rule := o_rule o; o_exact := o_exact o; o_getter := o_getter o; o_stringer := o_stringer o;
     o_typecast := o_typecast o; o_receiver := o_receiver o; o_reverse := v; o_skip := o_skip o;
     o_map := o_map o; o_tmap := o_tmap o; o_conv := o_conv o; o_lit := o_lit o; o_pre := o_pre o; o_post := o_post o |}.
Definition add_skip (o : options) (m : pmatcher) : options :=
  {| o_style := o_style o; o_rule := o_rule o; o_exact := o_exact o; o_getter := o_getter o; o_stringer := o_stringer o;
     o_typecast := o_typecast o; o_receiver := o_receiver o; o_reverse := o_reverse o; o_skip := o_skip o ++ [m];
     o_map := o_map o; o_tmap := o_tmap o; o_conv := o_conv o; o_lit := o_lit o; o_pre := o_pre o; o_post := o_post o |}.
Definition add_map (o : options) (m : name_matcher) : options :=
  {| o_style := o_style o; o_rule := o_rule o; o_exact := o_exact o; o_getter := o_getter o; o_stringer := o_stringer o;
     o_typecast := o_typecast o; o_receiver := o_receiver o; o_reverse := o_reverse o; o_skip := o_skip o;
     o_map := o_map o ++ [m]; o_tmap := o_tmap o; o_conv := o_conv o; o_lit := o_lit o; o_pre := o_pre o; o_post := o_post o |}.
Definition add_tmap (o : options) (m : name_matcher) : options :=
  {| o_style := o_style o; o_rule := o_rule o; o_exact := o_exact o; o_getter := o_getter o; o_stringer := o_stringer o;
     o_typecast := o_typecast o; o_receiver := o_receiver o; o_reverse := o_reverse o; o_skip := o_skip o;
     o_map := o_map o; o_tmap := o_tmap o ++ [m]; o_conv := o_conv o; o_lit := o_lit o; o_pre := o_pre o; o_post := o_post o |}.
Definition add_conv (o : options) (c : field_converter) : options :=
  {| o_style := o_style o; o_rule := o_rule o; o_exact := o_exact o; o_getter := o_getter o; o_stringer := o_stringer o;
     o_typecast := o_typecast o; o_receiver := o_receiver o; o_reverse := o_reverse o; o_skip := o_skip o;
     o_map := o_map o; o_tmap := o_tmap o; o_conv := o_conv o ++ [c]; o_lit := o_lit o; o_pre := o_pre o; o_post := o_post o |}.
Definition set_convs (o : options) (cs : list field_converter) : options :=
  {| o_style := o_style o; o_rule := o_rule o; o_exact := o_exact o; o_getter := o_getter o; o_stringer := o_stringer o;
     o_typecast := o_typecast o; o_receiver := o_receiver o; o_reverse := o_reverse o; o_skip := o_skip o;
     o_map := o_map o; o_tmap := o_tmap o; o_conv := cs; o_lit := o_lit o; o_pre := o_pre o; o_post := o_post o |}.
Definition add_lit (o : options) (l : literal_setter) : options :=
  {| o_style := o_style o; o_rule := o_rule o; o_exact := o_exact o; o_getter := o_getter o; o_stringer := o_stringer o;
     o_typecast := o_typecast o; o_receiver := o_receiver o; o_reverse := o_reverse o; o_skip := o_skip o;
     o_map := o_map o; o_tmap := o_tmap o; o_conv := o_conv o; o_lit := o_lit o ++ [l]; o_pre := o_pre o; o_post := o_post o |}.
Definition set_pre (o : options) (m : manipulator) : options :=
  {| o_style := o_style o; o_rule := o_rule o; o_exact := o_exact o; o_getter := o_getter o; o_stringer := o_stringer o;
     o_typecast := o_typecast o; o_receiver := o_receiver o; o_reverse := o_reverse o; o_skip := o_skip o;
     o_map := o_map o; o_tmap := o_tmap o; o_conv := o_conv o; o_lit := o_lit o; o_pre := Some m; o_post := o_post o |}.
Definition set_post (o : options) (m : manipulator) : options :=
  {| o_style := o_style o; o_rule := o_rule o; o_exact := o_exact o; o_getter := o_getter o; o_stringer := o_stringer o;
     o_typecast := o_typecast o; o_receiver := o_receiver o; o_reverse := o_reverse o; o_skip := o_skip o;
     o_map := o_map o; o_tmap := o_tmap o; o_conv := o_conv o; o_lit := o_lit o; o_pre := o_pre o; o_post := Some m |}.

(** ** The notation recogniser: hand-written model of reNotation (optional
    space, two slashes, optional space, a colon, a run of non-space = the
    operation, optional space, the rest); its source is pinned against
    Extracted.re_notation_src in proofs/OptionsProofs.v. *)
Definition re_space (c : N) : bool := (c =? 9) || (c =? 10) || (c =? 12) || (c =? 13) || (c =? 32).

Fixpoint skip_re_space (s : str) : str :=
  match s with c :: s' => if re_space c then skip_re_space s' else s | [] => [] end.
Fixpoint span_nonspace (s : str) (acc : str) : str * str :=
  match s with
  | c :: s' => if re_space c then (rev acc, s) else span_nonspace s' (c :: acc)
  | [] => (rev acc, [])
  end.

(** FindStringSubmatch(reNotation, text) = Some (op, rest) *)
Definition notation_match (text : str) : option (str * str) :=
  match skip_re_space text with
  | 47 :: 47 :: s1 =>
      match skip_re_space s1 with
      | 58 :: s2 =>
          let '(op, s3) := span_nonspace s2 [] in
          match op with
          | [] => None
          | _ =>
              let rest := skip_re_space s3 in
              if existsb (N.eqb 10) rest then None else Some (op, rest)
          end
      | _ => None
      end
  | _ => None
  end.

(** reLiteral on m[2]: the text after the first token and
    the ASCII white space following it; None when there is no such white space
    (the Go code then indexes a nil slice). *)
Definition literal_match (m2 : str) : option str :=
  let s0 := skip_re_space m2 in
  let '(tok, s1) := span_nonspace s0 [] in
  match tok, s1 with
  | [], _ => None
  | _, [] => None
  | _, c :: _ => let rest := skip_re_space s1 in
                 if existsb (N.eqb 10) rest then None else Some rest
  end.

(** regexps used through MatchString only are taken from the source and run by Re.v *)
Definition re_matches (src : str) (text : str) : option bool :=
  match parse_re UT src with
  | POk r => Some (search UT r (decode text))
  | _ => None
  end.
Definition is_convergen_marker (text : str) : bool :=
  match re_matches Extracted.re_convergen_src text with Some b => b | None => false end.
Definition is_build_or_generate (text : str) : bool :=
  match re_matches Extracted.re_go_build_gen_src text with Some b => b | None => false end.

(** isValidIdentifier *)
Fixpoint valid_ident_runes (rs : list N) (first : bool) : bool :=
  match rs with
  | [] => true
  | r :: rs' => (rune_is_letter r || (negb first && rune_is_digit r)) && valid_ident_runes rs' false
  end.
Definition is_valid_identifier (id : str) : bool :=
  match id with [] => false | _ => valid_ident_runes (decode id) true end.

(** ** Scopes: lookupType *)
Section Lookup.
  Variable d : dump.

  (** util.NewImportNames: association list path -> name with map-update semantics *)
  Fixpoint assoc_set (l : list (str * str)) (k v : str) : list (str * str) :=
    match l with
    | [] => [(k, v)]
    | (k', v') :: l' => if str_eqb k k' then (k, v) :: l' else (k', v') :: assoc_set l' k v
    end.
  Fixpoint assoc_get (l : list (str * str)) (k : str) : option str :=
    match l with
    | [] => None
    | (k', v) :: l' => if str_eqb k k' then Some v else assoc_get l' k
    end.

  Definition last_segment (path : str) : str :=
    match last_index 47 path with
    | Some i => skipn (S i) path
    | None => path
    end.

  Definition import_names : list (str * str) :=
    let step1 := fold_left (fun acc sp =>
        let name := match i_name sp with [] => last_segment (i_path sp) | n => n end in
        assoc_set acc (i_path sp) name) (d_imports d) [] in
    let blanks := List.filter (fun sp => str_eqb (i_name sp) (s2b "_")) (d_imports d) in
    fold_left (fun acc sp =>
        let name := last_segment (i_path sp) in
        let dup := existsb (fun pn => str_eqb (snd pn) name && negb (str_eqb (fst pn) (i_path sp))) acc in
        if dup then acc else assoc_set acc (i_path sp) name) blanks step1.

  Definition lookup_name (pkg_path : str) : option str := assoc_get import_names pkg_path.

  (** LookupPath iterates a Go map: with several paths of one name the answer
      depends on the iteration order; the model takes the first in table order
      and [ambiguous_import_name] tells when the real answer may differ. *)
  Definition lookup_path (name : str) : option str :=
    match find (fun pn => str_eqb (snd pn) name) import_names with
    | Some pn => Some (fst pn)
    | None => None
    end.
  Definition ambiguous_import_name (name : str) : bool :=
    (1 <? N.of_nat (List.length (List.filter (fun pn => str_eqb (snd pn) name) import_names))).

  Inductive looked := LNotFound | LObj (o : sobj).

  Definition scope_get (sc : list (str * sobj)) (name : str) : option sobj :=
    match find (fun no => str_eqb (fst no) name) sc with
    | Some no => Some (snd no)
    | None => None
    end.

  (** file scope: the imports under their declared names (PkgName objects);
      "_" and "." declare nothing there *)
  Definition file_scope_has (name : str) : bool :=
    existsb (fun sp =>
      let n := match i_name sp with [] => i_pkgname sp | n => n end in
      str_eqb n name && negb (str_eqb n (s2b "_")) && negb (str_eqb n (s2b "."))) (d_imports d).

  (** the exported objects of dot-imported packages are declared in the file scope too *)
  Definition dot_lookup (name : str) : option sobj :=
    if negb (is_exported name) then None else
    fold_left (fun acc sp =>
        match acc with
        | Some _ => acc
        | None =>
            if negb (str_eqb (i_name sp) (s2b ".")) then None else
            match find (fun ps => str_eqb (fst ps) (i_path sp)) (d_imported d) with
            | Some ps => scope_get (snd ps) name
            | None => None
            end
        end) (d_imports d) None.

  Definition lookup_type (type_name : str) : looked :=
    match split_on 46 type_name with
    | [single] =>
        if file_scope_has single then LObj OOther
        else match dot_lookup single with
        | Some o => LObj o
        | None =>
             match scope_get (d_pkgscope d) single with
             | Some o => LObj o
             | None => if mem_str single (d_universe d) then LObj OOther else LNotFound
             end
        end
    | first :: second :: _ =>
        match lookup_path first with
        | None => LNotFound
        | Some path =>
            match find (fun ps => str_eqb (fst ps) path) (d_imported d) with
            | None => LNotFound
            | Some ps => match scope_get (snd ps) second with Some o => LObj o | None => LNotFound end
            end
        end
    | [] => LNotFound
    end.

  (** lookupConverterFunc *)
  Definition lookup_converter_func (name : str) (pos : position) : res (ty * ty * bool) :=
    match lookup_type name with
    | LNotFound => errorf (at_pos' pos (s2b "function " ++ name ++ s2b " not found"))
    | LObj (OFunc sg exported pkg _) =>
        let np := List.length (sg_ptys sg) in let nr := List.length (sg_rtys sg) in
        if negb exported && negb (str_eqb pkg (d_pkg_path d)) then
          (* a function of another package that the generated code could not call *)
          errorf (at_pos' pos (s2b "function " ++ name ++ s2b " is not exported"))
        else if negb (Nat.eqb np 1) || Nat.ltb nr 1 || Nat.ltb 2 nr then
          errorf (at_pos' pos (s2b "function " ++ name ++ s2b " cannot use as a converter"))
        else
          match sg_ptys sg, sg_rtys sg with
          | [a], [r] => ret (a, r, false)
          | [a], [r; e] =>
              if is_error_type (d_env d) e then ret (a, r, true)
              else errorf (at_pos' pos (s2b "function " ++ name ++ s2b " cannot use as a converter"))
          | _, _ => panic "lookupConverterFunc: unreachable"
          end
    | LObj OFuncUnref => unsup "model: function looked up whose signature was not dumped"
    | LObj _ => errorf (at_pos' pos (name ++ s2b " isn't a function"))
    end.

  (** lookupManipulatorFunc — make([]types.Type, n-2) and Params().At(0), At(1)
      are guarded by the n >= 2 check *)
  Definition lookup_manipulator_func (name : str) (opt_name : string) (pos : position) : res manipulator :=
    match lookup_type name with
    | LNotFound => errorf (at_pos' pos (s2b "function " ++ name ++ s2b " not found"))
    | LObj (OFunc sg exported pkg fname) =>
        let nr := List.length (sg_rtys sg) in
        let bad_results :=
          match sg_rtys sg with
          | [] => false
          | [e] => negb (is_error_type (d_env d) e)
          | _ => true
          end in
        if bad_results then
          errorf (at_pos' pos (s2b "function " ++ name ++ s2b " cannot use for " ++ s2b opt_name ++ s2b " func"))
        else
          match sg_ptys sg with
          | dst :: src :: args =>
              ret {| mp_pkg := pkg; mp_name := fname; mp_exported := exported;
                     mp_dst := dst; mp_src := src; mp_args := args;
                     mp_ret_err := match sg_rtys sg with [_] => true | _ => false end;
                     mp_pos := pos |}
          | _ =>
              (* fewer than two parameters: rejected before make([]types.Type, n-2) *)
              errorf (at_pos' pos (s2b "function " ++ name ++ s2b " cannot use for " ++ s2b opt_name ++ s2b " func"))
          end
    | LObj OFuncUnref => unsup "model: function looked up whose signature was not dumped"
    | LObj _ => errorf (at_pos' pos (name ++ s2b " isn't a function"))
    end.

  (** ** parseNotationInComments *)
  Definition valid_value (v : str) (vals : list str) : bool := mem_str v vals.

  (** one notation line; [posrev]: position of the last :reverse seen *)
  Definition parse_one (valid_ops : list str) (c : comment) (st : options * position) (cpos : position)
    : res (options * position) :=
    let '(o, posrev) := st in
    match notation_match (c_text c) with
    | None => fail (s2b "invalid notation format")
    | Some (op, m2) =>
        let args := ufields m2 in
        if negb (mem_str op valid_ops) then ret st      (* logged only *)
        else if str_eqb op (s2b "convergen") then ret st
        else if str_eqb op (s2b "style") then
          match args with
          | [] => errorf (at_pos cpos "needs <style> arg")
          | a :: _ => if valid_value a Extracted.dst_var_style_values then ret (set_style o a, posrev)
                      else errorf (at_pos cpos "invalid <style> arg")
          end
        else if str_eqb op (s2b "match") then
          match args with
          | [] => errorf (at_pos cpos "needs <algorithm> arg")
          | a :: _ => if valid_value a Extracted.match_rule_values then ret (set_rule o a, posrev)
                      else errorf (at_pos cpos "invalid <algorithm> arg")
          end
        else if str_eqb op (s2b "case") then ret (set_exact o true, posrev)
        else if str_eqb op (s2b "case:off") then ret (set_exact o false, posrev)
        else if str_eqb op (s2b "getter") then ret (set_getter o true, posrev)
        else if str_eqb op (s2b "getter:off") then ret (set_getter o false, posrev)
        else if str_eqb op (s2b "stringer") then ret (set_stringer o true, posrev)
        else if str_eqb op (s2b "stringer:off") then ret (set_stringer o false, posrev)
        else if str_eqb op (s2b "typecast") then ret (set_typecast o true, posrev)
        else if str_eqb op (s2b "typecast:off") then ret (set_typecast o false, posrev)
        else if str_eqb op (s2b "recv") then
          match args with
          | [] => errorf (at_pos cpos "needs name for the receiver")
          | a :: _ => if is_valid_identifier a then ret (set_receiver o a, posrev)
                      else errorf (at_pos cpos "invalid ident")
          end
        else if str_eqb op (s2b "reverse") then ret (set_reverse o true, cpos)
        else if str_eqb op (s2b "skip") then
          match args with
          | [] => errorf (at_pos cpos "needs <field> arg")
          | a :: _ =>
              match new_pmatcher a (o_exact o) with
              | Some m => ret (add_skip o m, posrev)
              | None => errorf (at_pos cpos "invalid regexp")
              end
          end
        else if str_eqb op (s2b "map") then
          match args with
          | src :: dst :: _ =>
              let m := {| nm_src := src; nm_dst := dst; nm_pos := cpos |} in
              if is_prefix [36] src then ret (add_tmap o m, posrev) else ret (add_map o m, posrev)
          | _ => errorf (at_pos cpos "needs <src> <dst> args")
          end
        else if str_eqb op (s2b "conv") then
          match args with
          | f :: src :: rest =>
              let dst := match rest with d :: _ => d | [] => src end in
              ret (add_conv o {| fc_name := f; fc_src := src; fc_dst := dst; fc_pos := cpos;
                                 fc_arg := invalid_ty; fc_ret := invalid_ty; fc_err := false |}, posrev)
          | _ => errorf (at_pos cpos "needs <src> <dst> args")
          end
        else if str_eqb op (s2b "literal") then
          match args with
          | dst :: _ :: _ =>
              match literal_match m2 with
              | Some lit => ret (add_lit o {| ls_dst := dst; ls_literal := lit; ls_pos := cpos |}, posrev)
              | None => errorf (at_pos cpos "needs <dst> <literal> args")   (* reLiteral does not match: only non-ASCII space separates the fields *)
              end
          | _ => errorf (at_pos cpos "needs <dst> <literal> args")
          end
        else if str_eqb op (s2b "preprocess") then
          match args with
          | [] => errorf (at_pos cpos "needs <func> arg")
          | a :: _ => doR m <- lookup_manipulator_func a "preprocess" cpos; ret (set_pre o m, posrev)
          end
        else if str_eqb op (s2b "postprocess") then
          match args with
          | [] => errorf (at_pos cpos "needs <func> arg")
          | a :: _ => doR m <- lookup_manipulator_func a "postprocess" cpos; ret (set_post o m, posrev)
          end
        else
          (* valid operation without a case arm: printed on stdout *)
          doR _ <- emit (EvStdout (pos_str cpos ++ s2b ": unknown notation " ++ op)); ret st
    end.

  Fixpoint parse_list (valid_ops : list str) (cs : list comment) (st : options * position) : res (options * position) :=
    match cs with
    | [] => ret st
    | c :: cs' => doR st' <- parse_one valid_ops c st (comment_position c); parse_list valid_ops cs' st'
    end.

  Definition parse_notations (valid_ops : list str) (cs : list comment) (o : options) : res options :=
    doR st <- parse_list valid_ops cs (o, pos0);
    let '(o', posrev) := st in
    if o_reverse o' && str_eqb (o_style o') style_return then
      errorf (pos_str posrev ++ s2b ": to use "":reverse"", style must be "":style arg""")
    else ret o'.
End Lookup.
