(** Re.v — the RE2 subset used by :skip /regexp/ patterns: parser from a rune
    string (Go regexp/syntax with Perl flags) and a derivative matcher with
    one-rune look-behind deciding [regexp.MatchString] (unanchored search).
    Case folding and Unicode classes consult tables passed as parameters
    (instantiated by the generated UnicodeTables.v). *)
From Coq Require Import String.
From Cvg Require Import Base.
Open Scope N_scope.

Notation rune := N (only parsing).

(** ** UTF-8 *)
Definition rune_error : N := 65533.

(** decode one rune: (rune, width); invalid -> (RuneError, 1) as Go does *)
Definition cont (b : N) : bool := (128 <=? b) && (b <=? 191).
Definition decode_rune (s : str) : option (N * nat) :=
  match s with
  | [] => None
  | b0 :: s1 =>
      if b0 <? 128 then Some (b0, 1%nat)
      else if (194 <=? b0) && (b0 <=? 223) then
        match s1 with
        | b1 :: _ => if cont b1 then Some ((b0 - 192) * 64 + (b1 - 128), 2%nat) else Some (rune_error, 1%nat)
        | _ => Some (rune_error, 1%nat)
        end
      else if (224 <=? b0) && (b0 <=? 239) then
        match s1 with
        | b1 :: b2 :: _ =>
            let lo := if b0 =? 224 then 160 else 128 in
            let hi := if b0 =? 237 then 159 else 191 in
            if (lo <=? b1) && (b1 <=? hi) && cont b2
            then Some ((b0 - 224) * 4096 + (b1 - 128) * 64 + (b2 - 128), 3%nat)
            else Some (rune_error, 1%nat)
        | _ => Some (rune_error, 1%nat)
        end
      else if (240 <=? b0) && (b0 <=? 244) then
        match s1 with
        | b1 :: b2 :: b3 :: _ =>
            let lo := if b0 =? 240 then 144 else 128 in
            let hi := if b0 =? 244 then 143 else 191 in
            if (lo <=? b1) && (b1 <=? hi) && cont b2 && cont b3
            then Some ((b0 - 240) * 262144 + (b1 - 128) * 4096 + (b2 - 128) * 64 + (b3 - 128), 4%nat)
            else Some (rune_error, 1%nat)
        | _ => Some (rune_error, 1%nat)
        end
      else Some (rune_error, 1%nat)
  end.

Fixpoint decode_aux (fuel : nat) (s : str) : list N :=
  match fuel with
  | O => []
  | S f =>
      match decode_rune s with
      | None => []
      | Some (r, w) => r :: decode_aux f (skipn w s)
      end
  end.
Definition decode (s : str) : list N := decode_aux (List.length s) s.

Definition encode_rune (r : N) : str :=
  let r := if ((55296 <=? r) && (r <=? 57343)) || (1114111 <? r) then rune_error else r in
  if r <? 128 then [r]
  else if r <? 2048 then [192 + r / 64; 128 + r mod 64]
  else if r <? 65536 then [224 + r / 4096; 128 + (r / 64) mod 64; 128 + r mod 64]
  else [240 + r / 262144; 128 + (r / 4096) mod 64; 128 + (r / 64) mod 64; 128 + r mod 64].
Definition encode (l : list N) : str := concat_str (List.map encode_rune l).

(** ** Unicode tables (parameters) *)
Record utables := {
  u_lower : N -> N;          (* unicode.ToLower *)
  u_fold : N -> N;           (* unicode.SimpleFold: next rune of the orbit *)
  u_letter : N -> bool;      (* unicode.IsLetter *)
  u_digit : N -> bool;       (* unicode.IsDigit *)
  u_class : str -> option (option (list (N * N)));   (* \p{Name}: None = no such class; Some None = valid but not modelled *)
}.

Definition in_ranges (rs : list (N * N)) (x : N) : bool :=
  existsb (fun p => (fst p <=? x) && (x <=? snd p)) rs.

(** strings.ToLower on bytes (via runes; invalid bytes become U+FFFD) *)
Definition to_lower (U : utables) (s : str) : str := encode (List.map (u_lower U) (decode s)).

(** orbit of a rune under SimpleFold (bounded: orbits have at most 4 elements) *)
Definition fold_orbit (U : utables) (c : N) : list N :=
  let c1 := u_fold U c in let c2 := u_fold U c1 in let c3 := u_fold U c2 in
  c :: (if c1 =? c then [] else c1 :: (if c2 =? c then [] else c2 :: (if c3 =? c then [] else [c3]))).

Definition rune_fold_eq (U : utables) (a b : N) : bool := existsb (N.eqb b) (fold_orbit U a).

(** strings.EqualFold *)
Fixpoint equal_fold_runes (U : utables) (a b : list N) : bool :=
  match a, b with
  | [], [] => true
  | x :: a', y :: b' => rune_fold_eq U x y && equal_fold_runes U a' b'
  | _, _ => false
  end.
Definition equal_fold (U : utables) (a b : str) : bool := equal_fold_runes U (decode a) (decode b).

(** ** Regular expressions *)
Inductive assertion := BeginText | EndText | BeginLine | EndLine | WordB | NoWordB.

Inductive re :=
| Empty                                   (* matches nothing *)
| Eps
| Cls (neg : bool) (rs : list (N * N)) (fold : bool)   (* one rune in / not in the ranges *)
| Assert (a : assertion)
| Cat (r s : re)
| Alt (r s : re)
| Star (r : re).

Definition chr (c : N) (fold : bool) : re := Cls false [(c, c)] fold.
Definition any_char : re := Cls true [] false.
Definition any_not_nl : re := Cls true [(10, 10)] false.

Definition is_word (x : N) : bool :=
  ((48 <=? x) && (x <=? 57)) || ((65 <=? x) && (x <=? 90)) || ((97 <=? x) && (x <=? 122)) || (x =? 95).

Definition ctx := (option N * option N)%type.    (* previous rune, next rune *)

Definition holds (a : assertion) (k : ctx) : bool :=
  let '(p, n) := k in
  let pw := match p with Some x => is_word x | None => false end in
  let nw := match n with Some x => is_word x | None => false end in
  match a with
  | BeginText => match p with None => true | Some _ => false end
  | EndText => match n with None => true | Some _ => false end
  | BeginLine => match p with None => true | Some x => x =? 10 end
  | EndLine => match n with None => true | Some x => x =? 10 end
  | WordB => xorb pw nw
  | NoWordB => negb (xorb pw nw)
  end.

Definition cls_match (U : utables) (neg : bool) (rs : list (N * N)) (fold : bool) (x : N) : bool :=
  let hit := if fold then existsb (in_ranges rs) (fold_orbit U x) else in_ranges rs x in
  xorb neg hit.

Fixpoint nullable (r : re) (k : ctx) : bool :=
  match r with
  | Empty => false
  | Eps => true
  | Cls _ _ _ => false
  | Assert a => holds a k
  | Cat r s => nullable r k && nullable s k
  | Alt r s => nullable r k || nullable s k
  | Star _ => true
  end.

(** smart constructors keep derivatives small *)
Definition mk_cat (r s : re) : re :=
  match r, s with
  | Empty, _ => Empty
  | _, Empty => Empty
  | Eps, _ => s
  | _, Eps => r
  | _, _ => Cat r s
  end.
Definition mk_alt (r s : re) : re :=
  match r, s with
  | Empty, _ => s
  | _, Empty => r
  | _, _ => Alt r s
  end.

Fixpoint deriv (U : utables) (r : re) (prev : option N) (x : N) : re :=
  match r with
  | Empty | Eps | Assert _ => Empty
  | Cls neg rs fold => if cls_match U neg rs fold x then Eps else Empty
  | Cat r s =>
      if nullable r (prev, Some x)
      then mk_alt (mk_cat (deriv U r prev x) s) (deriv U s prev x)
      else mk_cat (deriv U r prev x) s
  | Alt r s => mk_alt (deriv U r prev x) (deriv U s prev x)
  | Star r0 => mk_cat (deriv U r0 prev x) (Star r0)
  end.

(** does [r] match a prefix-anchored, suffix-free portion starting here?
    ([pmatch]: some prefix of the remaining input) *)
Fixpoint pmatch (U : utables) (r : re) (prev : option N) (s : list N) : bool :=
  nullable r (prev, hd_error s) ||
  match s with
  | [] => false
  | x :: s' => match r with Empty => false | _ => pmatch U (deriv U r prev x) (Some x) s' end
  end.

(** unanchored search: regexp.MatchString *)
Fixpoint search_at (U : utables) (r : re) (prev : option N) (s : list N) : bool :=
  pmatch U r prev s ||
  match s with
  | [] => false
  | x :: s' => search_at U r (Some x) s'
  end.
Definition search (U : utables) (r : re) (s : list N) : bool := search_at U r None s.

(** ** Parser (regexp/syntax, flags Perl) *)
Inductive pres (A : Type) := POk (a : A) | PErr | PUnsup | PFuel.   (* PFuel: the parser's fuel ran out (never observed; out of model) *)
Arguments POk {A} a. Arguments PErr {A}. Arguments PUnsup {A}. Arguments PFuel {A}.

Record flags := { fl_i : bool; fl_m : bool; fl_s : bool }.
Definition flags0 := {| fl_i := false; fl_m := false; fl_s := false |}.

Definition is_digit (c : N) : bool := (48 <=? c) && (c <=? 57).
Definition is_alpha (c : N) : bool := ((65 <=? c) && (c <=? 90)) || ((97 <=? c) && (c <=? 122)).
Definition hexv (c : N) : option N :=
  if is_digit c then Some (c - 48)
  else if (97 <=? c) && (c <=? 102) then Some (c - 87)
  else if (65 <=? c) && (c <=? 70) then Some (c - 55)
  else None.

Definition perl_d := [(48, 57)].
Definition perl_s := [(9, 10); (12, 13); (32, 32)].
Definition perl_w := [(48, 57); (65, 90); (95, 95); (97, 122)].

(** complement of a sorted, non-overlapping range list within [0, 0x10FFFF] *)
Fixpoint negate_ranges (rs : list (N * N)) (lo : N) : list (N * N) :=
  match rs with
  | [] => if lo <=? 1114111 then [(lo, 1114111)] else []
  | (a, b) :: rs' => (if lo <? a then [(lo, a - 1)] else []) ++ negate_ranges rs' (b + 1)
  end.

(** read {n}, {n,}, {n,m} after '{' ; None = not a repeat (literal '{') *)
Fixpoint read_int (s : list N) (acc : N) (nd : nat) : (N * nat * list N) :=
  match s with
  | c :: s' => if is_digit c then read_int s' (acc * 10 + (c - 48)) (S nd) else (acc, nd, s)
  | [] => (acc, nd, s)
  end.

Definition parse_repeat (s : list N) : option (N * option N * list N) :=
  (* s is after '{' ; returns (min, max (None = unbounded), rest after '}') *)
  let '(n, nd, s1) := read_int s 0 0%nat in
  if Nat.eqb nd 0 then None else
  match s1 with
  | 125 :: s2 => Some (n, Some n, s2)
  | 44 :: 125 :: s2 => Some (n, None, s2)
  | 44 :: s2 =>
      let '(m, md, s3) := read_int s2 0 0%nat in
      if Nat.eqb md 0 then None else
      match s3 with
      | 125 :: s4 => Some (n, Some m, s4)
      | _ => None
      end
  | _ => None
  end.

Fixpoint rep_n (r : re) (n : nat) : re :=
  match n with O => Eps | S n' => mk_cat r (rep_n r n') end.
Fixpoint rep_opt (r : re) (n : nat) : re :=    (* up to n copies *)
  match n with O => Eps | S n' => mk_alt Eps (mk_cat r (rep_opt r n')) end.

Definition mk_repeat (r : re) (mn : N) (mx : option N) : re :=
  match mx with
  | None => mk_cat (rep_n r (N.to_nat mn)) (Star r)
  | Some m => mk_cat (rep_n r (N.to_nat mn)) (rep_opt r (N.to_nat (m - mn)))
  end.

(** escape after '\' outside or inside a class: a single rune, or a class *)
Inductive esc :=
| ERune (c : N)
| EClass (neg : bool) (rs : list (N * N))
| EAssert (a : assertion)
| EQuote                  (* \Q *)
| EBad
| EUnsup.

Fixpoint read_hex_braced (s : list N) (acc : N) (nd : nat) : option (N * list N) :=
  match s with
  | 125 :: s' => if Nat.eqb nd 0 then None else Some (acc, s')
  | c :: s' => match hexv c with
               | Some v => if 1114111 <? acc * 16 + v then None else read_hex_braced s' (acc * 16 + v) (S nd)
               | None => None
               end
  | [] => None
  end.

Fixpoint read_until_brace (s : list N) (acc : list N) : option (list N * list N) :=
  match s with
  | 125 :: s' => Some (rev acc, s')
  | c :: s' => read_until_brace s' (c :: acc)
  | [] => None
  end.

Definition parse_escape (U : utables) (in_class : bool) (s : list N) : (esc * list N) :=
  (* s is after the backslash *)
  match s with
  | [] => (EBad, [])
  | c :: s' =>
      if (49 <=? c) && (c <=? 55) then       (* \1..\7 : octal only if followed by an octal digit *)
        match s' with
        | d :: s'' =>
            if (48 <=? d) && (d <=? 55) then
              let v := (c - 48) * 8 + (d - 48) in
              match s'' with
              | e :: s3 => if (48 <=? e) && (e <=? 55) then (ERune (v * 8 + (e - 48)), s3) else (ERune v, s'')
              | [] => (ERune v, s'')
              end
            else (EBad, s')
        | [] => (EBad, s')
        end
      else if c =? 48 then                   (* \0, up to two more octal digits *)
        match s' with
        | d :: s'' =>
            if (48 <=? d) && (d <=? 55) then
              match s'' with
              | e :: s3 => if (48 <=? e) && (e <=? 55) then (ERune ((d - 48) * 8 + (e - 48)), s3) else (ERune (d - 48), s'')
              | [] => (ERune (d - 48), s'')
              end
            else (ERune 0, s')
        | [] => (ERune 0, s')
        end
      else if c =? 120 then                  (* \x *)
        match s' with
        | 123 :: s'' => match read_hex_braced s'' 0 0%nat with
                        | Some (v, rest) => (ERune v, rest)
                        | None => (EBad, s'')
                        end
        | h1 :: h2 :: s'' => match hexv h1, hexv h2 with
                             | Some a, Some b => (ERune (a * 16 + b), s'')
                             | _, _ => (EBad, s'')
                             end
        | _ => (EBad, s')
        end
      else if c =? 97 then (ERune 7, s')      (* \a *)
      else if c =? 102 then (ERune 12, s')    (* \f *)
      else if c =? 110 then (ERune 10, s')    (* \n *)
      else if c =? 114 then (ERune 13, s')    (* \r *)
      else if c =? 116 then (ERune 9, s')     (* \t *)
      else if c =? 118 then (ERune 11, s')    (* \v *)
      else if c =? 100 then (EClass false perl_d, s')
      else if c =? 68 then (EClass true perl_d, s')
      else if c =? 115 then (EClass false perl_s, s')
      else if c =? 83 then (EClass true perl_s, s')
      else if c =? 119 then (EClass false perl_w, s')
      else if c =? 87 then (EClass true perl_w, s')
      else if (c =? 112) || (c =? 80) then     (* \p \P *)
        let neg0 := c =? 80 in
        match s' with
        | 123 :: s'' =>
            match read_until_brace s'' [] with
            | Some (name, rest) =>
                let '(neg, name) := match name with 94 :: n' => (negb neg0, n') | _ => (neg0, name) end in
                match u_class U (encode name) with
                | Some (Some rs) => (EClass neg rs, rest)
                | Some None => (EUnsup, rest)
                | None => (EBad, rest)
                end
            | None => (EBad, s'')
            end
        | n :: s'' =>
            match u_class U (encode [n]) with
            | Some (Some rs) => (EClass neg0 rs, s'')
            | Some None => (EUnsup, s'')
            | None => (EBad, s'')
            end
        | [] => (EBad, s')
        end
      else if in_class then
        if (c <? 128) && negb (is_digit c) && negb (is_alpha c) then (ERune c, s') else (EBad, s')
      else if c =? 65 then (EAssert BeginText, s')    (* \A *)
      else if c =? 122 then (EAssert EndText, s')     (* \z *)
      else if c =? 98 then (EAssert WordB, s')        (* \b *)
      else if c =? 66 then (EAssert NoWordB, s')      (* \B *)
      else if c =? 81 then (EQuote, s')               (* \Q *)
      else if c =? 67 then (EBad, s')                 (* \C: not supported by Go *)
      else if (c <? 128) && negb (is_digit c) && negb (is_alpha c) then (ERune c, s')
      else (EBad, s')
  end.

(** POSIX [:name:] inside a class *)
Definition posix_class (name : str) : option (list (N * N)) :=
  if str_eqb name (s2b "alnum") then Some [(48, 57); (65, 90); (97, 122)]
  else if str_eqb name (s2b "alpha") then Some [(65, 90); (97, 122)]
  else if str_eqb name (s2b "ascii") then Some [(0, 127)]
  else if str_eqb name (s2b "blank") then Some [(9, 9); (32, 32)]
  else if str_eqb name (s2b "cntrl") then Some [(0, 31); (127, 127)]
  else if str_eqb name (s2b "digit") then Some [(48, 57)]
  else if str_eqb name (s2b "graph") then Some [(33, 126)]
  else if str_eqb name (s2b "lower") then Some [(97, 122)]
  else if str_eqb name (s2b "print") then Some [(32, 126)]
  else if str_eqb name (s2b "punct") then Some [(33, 47); (58, 64); (91, 96); (123, 126)]
  else if str_eqb name (s2b "space") then Some [(9, 13); (32, 32)]
  else if str_eqb name (s2b "upper") then Some [(65, 90)]
  else if str_eqb name (s2b "word") then Some [(48, 57); (65, 90); (95, 95); (97, 122)]
  else if str_eqb name (s2b "xdigit") then Some [(48, 57); (65, 70); (97, 102)]
  else None.

Fixpoint read_posix (s : list N) (acc : list N) : option (list N * list N) :=
  (* after "[:" ; reads name up to ":]" *)
  match s with
  | 58 :: 93 :: s' => Some (rev acc, s')
  | c :: s' => if is_alpha c || (c =? 94) then read_posix s' (c :: acc) else None
  | [] => None
  end.

(** insertion of a range into a sorted, merged range list *)
Fixpoint insert_range (lo hi : N) (rs : list (N * N)) : list (N * N) :=
  match rs with
  | [] => [(lo, hi)]
  | (a, b) :: rs' =>
      if hi + 1 <? a then (lo, hi) :: rs
      else if b + 1 <? lo then (a, b) :: insert_range lo hi rs'
      else insert_range (N.min lo a) (N.max hi b) rs'
  end.
Definition add_ranges (new rs : list (N * N)) : list (N * N) :=
  fold_left (fun acc p => insert_range (fst p) (snd p) acc) new rs.

(** class body after '[' (and optional '^'); [first]: ']' is a literal here *)
Fixpoint parse_class_body (U : utables) (fuel : nat) (s : list N) (first : bool) (acc : list (N * N)) : pres (list (N * N) * list N) :=
  match fuel with
  | O => PFuel
  | S fuel' =>
      match s with
      | [] => PErr                                    (* missing closing ] *)
      | c :: s' =>
          if c =? 93 then
            (if first then parse_class_item U fuel' 93 s' acc else POk (acc, s'))
          else if (c =? 91) && (match s' with h :: _ => h =? 58 | [] => false end) then     (* [: *)
            match read_posix (tl s') [] with
            | Some (name, rest) =>
                let '(neg, name) := match name with h :: n' => if h =? 94 then (true, n') else (false, name) | [] => (false, name) end in
                match posix_class (encode name) with
                | Some rs => parse_class_body U fuel' rest false (add_ranges (if neg then negate_ranges rs 0 else rs) acc)
                | None => PErr
                end
            | None => parse_class_item U fuel' 91 s' acc
            end
          else if c =? 92 then
            match parse_escape U true s' with
            | (ERune c', rest) => parse_class_item U fuel' c' rest acc
            | (EClass neg rs, rest) => parse_class_body U fuel' rest false (add_ranges (if neg then negate_ranges rs 0 else rs) acc)
            | (EUnsup, _) => PUnsup
            | _ => PErr
            end
          else parse_class_item U fuel' c s' acc
      end
  end
with parse_class_item (U : utables) (fuel : nat) (lo : N) (s : list N) (acc : list (N * N)) : pres (list (N * N) * list N) :=
  (* a single rune [lo] was read; is it the start of a range lo-hi ? *)
  match fuel with
  | O => PFuel
  | S fuel' =>
      match s with
      | d :: h :: s' =>
          if d =? 45 then
            if h =? 93 then parse_class_body U fuel' s false (insert_range lo lo acc)     (* "-]" : '-' is a literal next *)
            else if h =? 92 then
              match parse_escape U true s' with
              | (ERune hi, rest) => if hi <? lo then PErr else parse_class_body U fuel' rest false (insert_range lo hi acc)
              | (EUnsup, _) => PUnsup
              | _ => PErr
              end
            else if h <? lo then PErr else parse_class_body U fuel' s' false (insert_range lo h acc)
          else parse_class_body U fuel' s false (insert_range lo lo acc)
      | _ => parse_class_body U fuel' s false (insert_range lo lo acc)
      end
  end.

(** read \Q...\E literal *)
Fixpoint read_quote (s : list N) (acc : list N) : (list N * list N) :=
  match s with
  | 92 :: 69 :: s' => (rev acc, s')
  | c :: s' => read_quote s' (c :: acc)
  | [] => (rev acc, [])
  end.

(** group header after "(?" : flags or non-capturing / named group *)
Inductive ghdr := GFlagsOnly (f : flags) | GGroup (f : flags) | GBad.

Fixpoint parse_flags_hdr (s : list N) (f : flags) (neg : bool) (sawneg sawflag : bool) : (ghdr * list N) :=
  match s with
  | 105 :: s' => parse_flags_hdr s' {| fl_i := negb neg; fl_m := fl_m f; fl_s := fl_s f |} neg sawneg true
  | 109 :: s' => parse_flags_hdr s' {| fl_i := fl_i f; fl_m := negb neg; fl_s := fl_s f |} neg sawneg true
  | 115 :: s' => parse_flags_hdr s' {| fl_i := fl_i f; fl_m := fl_m f; fl_s := negb neg |} neg sawneg true
  | 85 :: s' => parse_flags_hdr s' f neg sawneg true            (* U: ungreedy — irrelevant for matching *)
  | 45 :: s' => if sawneg then (GBad, s') else parse_flags_hdr s' f true true false
  | 58 :: s' => if sawneg && negb sawflag then (GBad, s') else (GGroup f, s')
  | 41 :: s' => if sawneg && negb sawflag then (GBad, s') else (GFlagsOnly f, s')
  | _ => (GBad, s)
  end.

Fixpoint skip_group_name (s : list N) (n : nat) : option (list N) :=
  match s with
  | 62 :: s' => if Nat.eqb n 0 then None else Some s'
  | c :: s' => if is_alpha c || is_digit c || (c =? 95) then skip_group_name s' (S n) else None
  | [] => None
  end.

Definition lit (U : utables) (f : flags) (c : N) : re := chr c (fl_i f).

(** The parser proper. [parse_seq] parses a concatenation up to '|' or ')' or
    end, threading flags; [parse_altn] parses alternatives.  Returns the regexp,
    the rest of the input (starting at ')' or empty) and the flags in force. *)
Inductive atom_state := NoAtom | HasAtom (r : re) (repeated : bool).

Definition is_rparen (s : list N) : option (list N) :=
  match s with c :: rest => if c =? 41 then Some rest else None | [] => None end.
Definition skip_lazy (s : list N) : list N :=
  match s with c :: t => if c =? 63 then t else s | [] => s end.

Fixpoint parse_altn (U : utables) (fuel : nat) (f : flags) (s : list N) (depth : nat) : pres (re * list N) :=
  match fuel with
  | O => PFuel
  | S fuel' =>
      match parse_seq U fuel' f s depth Eps NoAtom with
      | POk (r, rest, f') =>
          match rest with
          | c :: rest' =>
              if c =? 124 then
                match parse_altn U fuel' f' rest' depth with
                | POk (r2, rest2) => POk (Alt r r2, rest2)
                | PErr => PErr | PUnsup => PUnsup | PFuel => PFuel
                end
              else POk (r, rest)
          | [] => POk (r, rest)
          end
      | PErr => PErr | PUnsup => PUnsup | PFuel => PFuel
      end
  end
with parse_seq (U : utables) (fuel : nat) (f : flags) (s : list N) (depth : nat) (acc : re) (cur : atom_state)
  : pres (re * list N * flags) :=
  let flush := match cur with NoAtom => acc | HasAtom r _ => mk_cat acc r end in
  (* a parenthesised group body [body] parsed with flags [fin]; continue after ')' with flags [fout] *)
  match fuel with
  | O => PFuel
  | S fuel' =>
      let group (fin : flags) (body : list N) : pres (re * list N * flags) :=
        match parse_altn U fuel' fin body (S depth) with
        | POk (r, rest) =>
            match is_rparen rest with
            | Some rest' => parse_seq U fuel' f rest' depth flush (HasAtom r false)
            | None => PErr
            end
        | PErr => PErr | PUnsup => PUnsup | PFuel => PFuel
        end in
      match s with
      | [] => POk (flush, [], f)
      | c :: s' =>
          if c =? 124 then POk (flush, s, f)
          else if c =? 41 then (if Nat.eqb depth 0 then PErr else POk (flush, s, f))
          else if c =? 40 then
            match s' with
            | q :: s2 =>
                if q =? 63 then
                  match s2 with
                  | p1 :: s3 =>
                      if (p1 =? 80) && (match s3 with lt :: _ => lt =? 60 | [] => false end) then
                        match skip_group_name (tl s3) 0 with
                        | Some s4 => group f s4
                        | None => PErr
                        end
                      else if p1 =? 60 then
                        match skip_group_name s3 0 with
                        | Some s4 => group f s4
                        | None => PErr
                        end
                      else
                        match parse_flags_hdr s2 f false false false with
                        | (GFlagsOnly f', rest) => parse_seq U fuel' f' rest depth flush NoAtom
                        | (GGroup f', rest) => group f' rest
                        | (GBad, _) => PErr
                        end
                  | [] => PErr
                  end
                else group f s'
            | [] => PErr
            end
          else if (c =? 42) || (c =? 43) || (c =? 63) then
            match cur with
            | NoAtom => PErr
            | HasAtom r true => PErr
            | HasAtom r false =>
                let r' := if c =? 42 then Star r else if c =? 43 then mk_cat r (Star r) else mk_alt Eps r in
                parse_seq U fuel' f (skip_lazy s') depth acc (HasAtom r' true)
            end
          else if c =? 123 then
            match parse_repeat s' with
            | Some (mn, mx, rest) =>
                match cur with
                | NoAtom => PErr
                | HasAtom r true => PErr
                | HasAtom r false =>
                    let bad := (1000 <? mn) || match mx with Some m => (1000 <? m) || (m <? mn) | None => false end in
                    if bad then PErr
                    else parse_seq U fuel' f (skip_lazy rest) depth acc (HasAtom (mk_repeat r mn mx) true)
                end
            | None => parse_seq U fuel' f s' depth flush (HasAtom (lit U f 123) false)
            end
          else if c =? 91 then
            let '(neg, s1) := match s' with h :: t => if h =? 94 then (true, t) else (false, s') | [] => (false, s') end in
            match parse_class_body U (S (S (List.length s1)) * 2) s1 true [] with
            | POk (rs, rest) => parse_seq U fuel' f rest depth flush (HasAtom (Cls neg rs (fl_i f)) false)
            | PErr => PErr | PUnsup => PUnsup | PFuel => PFuel
            end
          else if c =? 46 then
            parse_seq U fuel' f s' depth flush (HasAtom (if fl_s f then any_char else any_not_nl) false)
          else if c =? 94 then
            parse_seq U fuel' f s' depth flush (HasAtom (Assert (if fl_m f then BeginLine else BeginText)) false)
          else if c =? 36 then
            parse_seq U fuel' f s' depth flush (HasAtom (Assert (if fl_m f then EndLine else EndText)) false)
          else if c =? 92 then
            match parse_escape U false s' with
            | (ERune c', rest) => parse_seq U fuel' f rest depth flush (HasAtom (lit U f c') false)
            | (EClass neg rs, rest) => parse_seq U fuel' f rest depth flush (HasAtom (Cls neg rs (fl_i f)) false)
            | (EAssert a, rest) => parse_seq U fuel' f rest depth flush (HasAtom (Assert a) false)
            | (EQuote, rest) =>
                let '(q, rest') := read_quote rest [] in
                match rev q with
                | [] => parse_seq U fuel' f rest' depth flush NoAtom
                | last :: initr =>
                    let pre := fold_left (fun a x => mk_cat a (lit U f x)) (rev initr) flush in
                    parse_seq U fuel' f rest' depth pre (HasAtom (lit U f last) false)
                end
            | (EUnsup, _) => PUnsup
            | (EBad, _) => PErr
            end
          else parse_seq U fuel' f s' depth flush (HasAtom (lit U f c) false)
      end
  end.

(** regexp.Compile(expr): parse the whole input *)
Definition parse_re (U : utables) (expr : str) : pres re :=
  let s := decode expr in
  (* Go rejects invalid UTF-8 in the pattern *)
  if negb (str_eqb (encode s) expr) then PErr else
  match parse_altn U (S (S (List.length s)) * 3) flags0 s 0 with
  | POk (r, []) => POk r
  | POk (_, _ :: _) => PErr
  | PErr => PErr
  | PUnsup => PUnsup
  | PFuel => PFuel
  end.

(** regexp.QuoteMeta *)
Definition is_meta (c : N) : bool :=
  existsb (N.eqb c) [92; 46; 43; 42; 63; 40; 41; 124; 91; 93; 123; 125; 94; 36].
Fixpoint quote_meta (s : str) : str :=
  match s with
  | [] => []
  | c :: s' => if is_meta c then 92 :: c :: quote_meta s' else c :: quote_meta s'
  end.
