(** ValSem.v — value-level semantics of the assignment list of a generated
    function: the destination object is a tree of by-value structs with opaque
    leaves; assignments write leaves or whole subtrees at field paths; slice
    blocks allocate a fresh backing address (C02, C16). *)
From Coq Require Import String.
From Cvg Require Import Base GoTypes Dump Options Front Builder.
Open Scope N_scope.

Inductive val :=
| VAtom (a : N)                          (* scalar, string, pointer, interface, map, ...: opaque *)
| VNilSlice
| VSlice (addr : N) (elems : list val)   (* backing array address and elements *)
| VStruct (fs : list (str * val)).

Definition path := list str.

Fixpoint fields_get (fs : list (str * val)) (name : str) : option val :=
  match fs with
  | [] => None
  | (n, v) :: fs' => if str_eqb n name then Some v else fields_get fs' name
  end.

Fixpoint fields_set (fs : list (str * val)) (name : str) (x : val) : list (str * val) :=
  match fs with
  | [] => []
  | (n, v) :: fs' => if str_eqb n name then (n, x) :: fs' else (n, v) :: fields_set fs' name x
  end.

Fixpoint read (v : val) (p : path) : option val :=
  match p with
  | [] => Some v
  | f :: p' => match v with
               | VStruct fs => match fields_get fs f with Some w => read w p' | None => None end
               | _ => None
               end
  end.

(** [write v p x]: v with the subtree at p replaced by x (v itself when p is not a path of v) *)
Fixpoint write (v : val) (p : path) (x : val) : val :=
  match p with
  | [] => x
  | f :: p' => match v with
               | VStruct fs => match fields_get fs f with
                               | Some w => VStruct (fields_set fs f (write w p' x))
                               | None => v
                               end
               | _ => v
               end
  end.

(** the path of a destination node below its root variable *)
Fixpoint node_path (n : node) : path :=
  match n with
  | NField p f => node_path p ++ [f_name f]
  | _ => []
  end.

Section Exec.
  (** value of a right-hand side in the pre-state (nothing the body does writes a source) *)
  Variable ev : rhs_expr -> val.
  (** element conversion of a converting slice loop *)
  Variable conv : str -> val -> val.

  Definition exec_slice (d : val) (next : N) (l r : node) (f : val -> val) : val * N :=
    match ev (RNode r) with
    | VSlice _ es => (write d (node_path l) (VSlice next (List.map f es)), next + 1)
    | _ => (d, next)              (* nil source (or not a slice): the destination is left as it was *)
    end.

  Fixpoint exec_a (a : assignment) (st : val * N) : val * N :=
    match a with
    | ASkip _ | ANoMatch _ => st
    | ASimple l r _ => (write (fst st) (node_path l) (ev r), snd st)
    | ANest cs => (fix go (cs : list assignment) (st : val * N) : val * N :=
                     match cs with [] => st | c :: cs' => go cs' (exec_a c st) end) cs st
    | ASlice l r _ | ASliceLoop l r _ => exec_slice (fst st) (snd st) l r (fun x => x)
    | ASliceCast l r _ c => exec_slice (fst st) (snd st) l r (conv c)
    end.

  Fixpoint exec_all (l : list assignment) (st : val * N) : val * N :=
    match l with [] => st | a :: l' => exec_all l' (exec_a a st) end.

  (** paths an entry may write *)
  Fixpoint wpaths (a : assignment) : list path :=
    match a with
    | ASkip _ | ANoMatch _ => []
    | ASimple l _ _ | ASlice l _ _ | ASliceLoop l _ _ | ASliceCast l _ _ _ => [node_path l]
    | ANest cs => List.concat (List.map wpaths cs)
    end.
End Exec.

(** prefix order on paths *)
Fixpoint is_path_prefix (p q : path) : bool :=
  match p, q with
  | [], _ => true
  | x :: p', y :: q' => str_eqb x y && is_path_prefix p' q'
  | _ :: _, [] => false
  end.
Definition independent (p q : path) : Prop := is_path_prefix p q = false /\ is_path_prefix q p = false.
