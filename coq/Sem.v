(** Sem.v — the generated function body as a statement list (each statement
    carries the exact text Gen.v prints for it, so the link to the emitted text
    is a projection), and the control-flow semantics of error propagation and
    hook placement over it (C07, C10). *)
From Coq Require Import String.
From Cvg Require Import Base GoTypes Dump Options Front Builder Gen.
Open Scope N_scope.

(** identity of a user-function call site: the rendered call expression *)
Definition site := str.

Inductive stmt :=
| SRaw (text : str)                          (* comment, plain assignment, slice block, init: no error-capable call *)
| SAssignErr (text : str) (s : site)         (* lhs, err = call      — sets err *)
| SHook (text : str) (s : site) (sets_err : bool)  (* hook(...) / err = hook(...) *)
| SIfErr (text : str)                        (* if err != nil { return ... } *)
| SReturn (text : str).                      (* the final bare return (or nothing) *)

Definition stmt_text (s : stmt) : str :=
  match s with SRaw t | SAssignErr t _ | SHook t _ _ | SIfErr t | SReturn t => t end.

Definition pp (l : list stmt) : str := concat_str (List.map stmt_text l).

(** statements of one assignment, mirroring Gen.assignment_to_string *)
Fixpoint astmts (f : function) (a : assignment) : list stmt :=
  match a with
  | ANest contents => List.concat (List.map (astmts f) contents)
  | ASimple l r true => [SAssignErr (assignment_string a) (rhs_string r); SIfErr (err_check f)]
  | _ => [SRaw (assignment_string a)]
  end.

Definition hook_site (m : gmanip) : site :=
  (match gm_pkg m with [] => [] | p => p ++ [46] end) ++ gm_name m.

Definition hook_stmts (f : function) (m : option gmanip) : list stmt :=
  match m with
  | None => []
  | Some m =>
      SHook (hook_call_text m (fn_src f) (hook_dst f) (fn_args f)) (hook_site m) (gm_ret_err m) ::
      (if gm_ret_err m then [SIfErr hook_err_check] else [])
  end.

Definition init_stmts (f : function) : list stmt :=
  if str_eqb (fn_style f) style_return && v_pointer (fn_dst f)
  then [SRaw (v_name (fn_dst f) ++ s2b " = &" ++ v_type (fn_dst f) ++ s2b "{}" ++ nl)] else [].

Definition final_stmts (f : function) : list stmt :=
  if fn_ret_err f || str_eqb (fn_style f) style_return then [SReturn (nl ++ s2b "return" ++ nl)] else [SReturn []].

(** the body: init, preprocess, assignments, postprocess, return *)
Definition body_of (f : function) : list stmt :=
  init_stmts f ++ hook_stmts f (fn_pre f) ++
  List.concat (List.map (astmts f) (fn_assignments f)) ++
  hook_stmts f (fn_post f) ++ final_stmts f.

(** ** Error-flow semantics.  [fails s]: the error the user function at site [s]
    returns (None = nil). State: the current value of the named result err. *)
Section ErrorFlow.
  Variable E : Type.
  Variable fails : site -> option E.

  Inductive run_result := Returned (e : option E) (trace : list site).

  (** [exec l err trace]: run statements; returns when an `if err != nil` fires or at the end *)
  Fixpoint exec (l : list stmt) (err : option E) (trace : list site) : run_result :=
    match l with
    | [] => Returned err trace
    | SRaw _ :: l' => exec l' err trace
    | SAssignErr _ s :: l' => exec l' (fails s) (trace ++ [s])
    | SHook _ s true :: l' => exec l' (fails s) (trace ++ [s])
    | SHook _ s false :: l' => exec l' err (trace ++ [s])
    | SIfErr _ :: l' => match err with Some e => Returned (Some e) trace | None => exec l' err trace end
    | SReturn _ :: _ => Returned err trace
    end.

  (** the sites of a statement list, in order; [capable]: those that can set err *)
  Fixpoint sites (l : list stmt) : list site :=
    match l with
    | [] => []
    | SAssignErr _ s :: l' => s :: sites l'
    | SHook _ s _ :: l' => s :: sites l'
    | _ :: l' => sites l'
    end.

  (** every error-setting statement is immediately followed by its check *)
  Fixpoint checked (l : list stmt) : Prop :=
    match l with
    | [] => True
    | SAssignErr _ _ :: SIfErr _ :: l' => checked l'
    | SAssignErr _ _ :: _ => False
    | SHook _ _ true :: SIfErr _ :: l' => checked l'
    | SHook _ _ true :: _ => False
    | SIfErr _ :: _ => False          (* a check only ever follows an error-setting statement *)
    | _ :: l' => checked l'
    end.
End ErrorFlow.
