(** Builder.v — pkg/builder: expression nodes, castNode, sliceToSlice,
    resolveExpr, the matchStructFieldAndStruct precedence chain, structToStruct,
    CreateFunction and buildManipulator; pkg/util/import.go TypeName. *)
From Coq Require Import String.
From Cvg Require Import Base GoTypes Re Unicode Matcher Dump Options Front.
Open Scope N_scope.

(** ** Expression nodes (pkg/builder/model/node.go, struct.go) *)
Inductive node :=
| NRoot (name : str) (t : ty)
| NField (parent : node) (f : field)
| NMethod (parent : node) (name : str) (sg : sig)
| NConv (arg : node) (c : field_converter)
| NCast (inner : node) (t : ty) (expr : str)
| NStringer (inner : node).

Fixpoint node_parent (n : node) : option node :=
  match n with
  | NRoot _ _ => None
  | NField p _ => Some p
  | NMethod p _ _ => Some p
  | NConv a _ => node_parent a
  | NCast i _ _ => node_parent i
  | NStringer i => node_parent i
  end.

Fixpoint obj_name (n : node) : str :=
  match n with
  | NRoot name _ => name
  | NField _ f => f_name f
  | NMethod _ name _ => name
  | NConv a _ => obj_name a
  | NCast i _ _ => obj_name i
  | NStringer i => obj_name i
  end.

Definition expr_type (n : node) : ty :=
  match n with
  | NRoot _ t => t
  | NField _ f => f_type f
  | NMethod _ _ sg => match sg_rtys sg with r :: _ => r | [] => invalid_ty end
  | NConv _ c => fc_ret c
  | NCast _ t _ => t
  | NStringer _ => string_ty
  end.

Definition returns_error (n : node) : bool :=
  match n with
  | NMethod _ _ sg => Nat.eqb (List.length (sg_rtys sg)) 2
  | NConv _ c => fc_err c
  | _ => false
  end.

Fixpoint assign_expr (n : node) : str :=
  match n with
  | NRoot name _ => name
  | NField p f => assign_expr p ++ [46] ++ f_name f
  | NMethod p name _ => assign_expr p ++ [46] ++ name ++ s2b "()"
  | NConv a c =>
      let refs := if negb (is_ptr (expr_type a)) && is_ptr (fc_arg c) then [38] else [] in
      fc_name c ++ [40] ++ refs ++ assign_expr a ++ [41]
  | NCast i _ e => e ++ [40] ++ assign_expr i ++ [41]
  | NStringer i => assign_expr i ++ s2b ".String()"
  end.

Fixpoint matcher_expr (n : node) : str :=
  match n with
  | NRoot _ _ => []
  | NField p f => match matcher_expr p with [] => f_name f | pe => pe ++ [46] ++ f_name f end
  | NMethod p name _ => match matcher_expr p with [] => name ++ s2b "()" | pe => pe ++ [46] ++ name ++ s2b "()" end
  | NConv a _ => matcher_expr a
  | NCast i _ _ => matcher_expr i
  | NStringer i => matcher_expr i
  end.

(** isAddressable: a variable, or a field selected from an addressable struct or through a pointer *)
Fixpoint addressable (n : node) : bool :=
  match n with
  | NRoot _ _ => true
  | NField p _ => is_ptr (expr_type p) || addressable p
  | _ => false
  end.

Fixpoint node_root (n : node) : node :=
  match n with
  | NRoot _ _ => n
  | NField p _ => node_root p
  | NMethod p _ _ => node_root p
  | NConv a _ => node_root a
  | NCast i _ _ => node_root i
  | NStringer i => node_root i
  end.

(** ** Assignments (pkg/generator/model/assignment.go), structured *)
Inductive rhs_expr := RNode (n : node) | RLiteral (text : str).

Inductive assignment :=
| ASkip (l : node)
| ANoMatch (l : node)
| ASimple (l : node) (r : rhs_expr) (err : bool)
| ANest (contents : list assignment)
| ASlice (l r : node) (typ : str)
| ASliceLoop (l r : node) (typ : str)
| ASliceCast (l r : node) (typ cast : str).

Record gvar := { v_name : str; v_type : str; v_pointer : bool; v_external : bool }.
Record gmanip := { gm_pkg : str; gm_name : str; gm_dst_ptr : bool; gm_src_ptr : bool; gm_has_args : bool; gm_ret_err : bool }.

Record function := {
  fn_name : str; fn_comments : list str; fn_receiver : str;
  fn_src : gvar; fn_dst : gvar; fn_args : list gvar;
  fn_ret_err : bool; fn_style : str;
  fn_assignments : list assignment;
  fn_pre : option gmanip; fn_post : option gmanip;
}.

(** findErrorAssignment: left-hand side of the first assignment whose source also yields an error *)
Fixpoint find_error_assignment (l : list assignment) : option node :=
  let fix one (a : assignment) : option node :=
    match a with
    | ASimple lhs _ true => Some lhs
    | ANest cs => (fix many (cs : list assignment) : option node :=
                     match cs with
                     | [] => None
                     | c :: cs' => match one c with Some x => Some x | None => many cs' end
                     end) cs
    | _ => None
    end in
  match l with
  | [] => None
  | a :: l' => match one a with Some x => Some x | None => find_error_assignment l' end
  end.

Section Builder.
  Variable d : dump.
  Let E := d_env d.

  (** ** util.ImportNames.TypeName / IsExternal.
      TypeName renders pointer/basic/named itself and everything else through
      types.TypeString with the import table as qualifier; both agree on
      pointers, so one recursion covers them. Struct, interface and function
      type literals are taken from the oracle string and are inside the model
      only when they mention no package-qualified name. *)
  Fixpoint strip_ellipsis (s : str) : str :=
    match s with
    | [] => []
    | c :: r =>
        match r with
        | c2 :: c3 :: r' => if (c =? 46) && (c2 =? 46) && (c3 =? 46) then strip_ellipsis r' else c :: strip_ellipsis r
        | _ => c :: strip_ellipsis r
        end
    end.
  Definition has_qualified_name (s : str) : bool :=
    existsb (N.eqb 47) s || existsb (N.eqb 46) (strip_ellipsis s).

  Fixpoint type_name (t : ty) : outcome str :=
    match t with
    | TPtr _ e => do s <- type_name e; Ok ([42] ++ s)
    | TBasic _ n => Ok n
    | TNamed i =>
        match get_named E i with
        | Some n =>
            if n_has_pkg n then
              match lookup_name d (n_pkg_path n) with
              | Some pn => match pn with
                           | [] => Ok (n_name n)
                           | _ => if str_eqb pn [46] then Ok (n_name n)        (* dot-imported: no qualifier *)
                                  else Ok (pn ++ [46] ++ n_name n)
                           end
              | None => Ok (n_name n)
              end
            else Ok (n_name n)        (* predeclared type (error): no package *)
        | None => Ok (s2b "invalid type")
        end
    | TSlice _ e => do s <- type_name e; Ok (s2b "[]" ++ s)
    | TArray _ n e => do s <- type_name e; Ok ([91] ++ dec n ++ [93] ++ s)
    | TMap _ k v => do ks <- type_name k; do vs <- type_name v; Ok (s2b "map[" ++ ks ++ [93] ++ vs)
    | TChan _ dir e =>
        do s <- type_name e;
        (* types.SendRecv = 0, SendOnly = 1, RecvOnly = 2; chan (<-chan T) is parenthesised *)
        if dir =? 1 then Ok (s2b "chan<- " ++ s)
        else if dir =? 2 then Ok (s2b "<-chan " ++ s)
        else match e with
             | TChan _ 2 _ => Ok (s2b "chan (" ++ s ++ [41])
             | _ => Ok (s2b "chan " ++ s)
             end
    | TStruct s _ | TIface s _ | TFunc s _ | TOther s =>
        if has_qualified_name s then Unsup (s2b "type literal mentioning a package-qualified name: " ++ s) else Ok s
    end.

  Definition is_external (t : ty) : outcome bool :=
    match deref_ptr t with
    | TNamed i =>
        match get_named E i with
        | Some n =>
            if n_has_pkg n then Ok (match lookup_name d (n_pkg_path n) with Some _ => true | None => false end)
            else Ok false
        | None => Ok false
        end
    | _ => Ok false
    end.

  Definition is_external_pkg (pkg : option str) : bool :=
    match pkg with Some p => negb (str_eqb p (d_pkg_path d)) | None => false end.

  (** isStructFieldAccessible *)
  Definition is_field_accessible (struct_node : node) (leaf : str) : bool :=
    let st := deref_ptr (expr_type struct_node) in
    if negb (is_struct_type E st) then false else
    match st with
    | TNamed i =>
        match get_named E i with
        | Some n => negb (is_external_pkg (if n_has_pkg n then Some (n_pkg_path n) else None)) || is_exported leaf
        | None => true
        end
    | _ => true
    end.

  (** NewTypecast: the conversion operator for target [t]; "( *T)" form for pointer targets *)
  Definition cast_operator (t : ty) (name : str) : str :=
    if is_ptr t then s2b "(*" ++ name ++ s2b ")" else name.

  Definition new_typecast (t : ty) (inner : node) : outcome (option node) :=
    match deref_ptr t with
    | TNamed i =>
        match get_named E i with
        | Some n =>
            (* scope.Lookup(name) == typ.Obj(): the type is declared in the setup package itself *)
            (* a predeclared named type (error) has no package and is spelled bare *)
            if negb (n_has_pkg n) || str_eqb (n_pkg_path n) (d_pkg_path d) then Ok (Some (NCast inner t (cast_operator t (n_name n))))
            else match lookup_name d (n_pkg_path n) with
                 | Some pn =>
                     if str_eqb pn [46] then Ok (Some (NCast inner t (cast_operator t (n_name n))))   (* dot-imported *)
                     else Ok (Some (NCast inner t (cast_operator t (pn ++ [46] ++ n_name n))))
                 | None => Ok (Some (NCast inner t (cast_operator t (n_pkg_name n ++ [46] ++ n_name n))))
                 end
        | None => Ok None
        end
    | TBasic _ nm => Ok (Some (NCast inner t (cast_operator t nm)))
    | _ => Ok None
    end.

  Section WithOpts.
    Variable o : options.
    Variable method_pos : position.

    (** castNode *)
    Definition cast_node (lhs_t : ty) (rhs : node) : res (option node) :=
      if assignable E (expr_type rhs) lhs_t then ret (Some rhs)
      else if returns_error rhs then ret None      (* a two-valued call cannot be wrapped *)
      else if o_stringer o && assignable E string_ty lhs_t && complies_stringer E (expr_type rhs) then
        ret (Some (NStringer rhs))
      else if o_typecast o && convertible E (expr_type rhs) lhs_t then
        doR c <- lift (new_typecast lhs_t rhs);
        match c with
        | Some _ => ret c
        | None =>
            doR tn <- lift (type_name lhs_t);
            doR _ <- warnf (at_pos' method_pos (s2b "typecast for " ++ tn ++ s2b " is not implemented(yet) for " ++ assign_expr rhs));
            ret None
        end
      else ret None.

    (** sliceToSlice *)
    Definition slice_to_slice (lhs rhs : node) : res (option assignment) :=
      match slice_elem (expr_type lhs), slice_elem (expr_type rhs) with
      | Some le, Some re =>
          if assignable E re le then
            if is_basic re && identical false le re then ret (Some (ASlice lhs rhs (s2b "[]" ++ type_string E le)))
            else doR tn <- lift (type_name le); ret (Some (ASliceLoop lhs rhs (s2b "[]" ++ tn)))
          else if o_typecast o && convertible E re le then
            doR tn <- lift (type_name le); ret (Some (ASliceCast lhs rhs (s2b "[]" ++ tn) tn))
          else ret None
      | _, _ => ret None
      end.

    (** one step of resolveExpr / resolveTemplatedExpr along a path element *)
    Definition resolve_step (nd : node) (typ : ty) (elem : str) : option (node * ty * bool) :=
      (* returns the new node, the type to continue with, and whether the chain must stop here (error-returning getter) *)
      let pkg := pkg_of E typ in
      match lookup_field_or_method E typ true pkg (name_at elem) with
      | None => None
      | Some obj =>
          let external := is_external_pkg pkg in
          if for_getter elem then
            match obj with
            | LMethod mname sg _ =>
                if external && negb (is_exported mname) then None else
                match parse_getter_return E sg with
                | Some (r, ret_err) => Some (NMethod nd mname sg, r, ret_err)
                | None => None
                end
            | LField _ => None
            end
          else
            match obj with
            | LField f =>
                if external && negb (is_exported (f_name f)) then None
                else Some (NField nd f, f_type f, false)
            | LMethod _ _ _ => None
            end
      end.

    Fixpoint resolve_path (nd : node) (typ : ty) (path : list str) : option node :=
      match path with
      | [] => None
      | [elem] => match resolve_step nd typ elem with Some (n', _, _) => Some n' | None => None end
      | elem :: rest =>
          match resolve_step nd typ elem with
          | Some (n', t', stop) => if stop then None else resolve_path n' t' rest
          | None => None
          end
      end.

    Definition resolve_expr (src_path : str) (root : node) : option node :=
      resolve_path root (expr_type root) (ident_paths src_path).

    (** strconv.ParseInt(s, 10, 64) *)
    Definition parse_int64 (s : str) : option Z :=
      let '(neg, digits) := match s with
                            | 43 :: r => (false, r)
                            | 45 :: r => (true, r)
                            | _ => (false, s)
                            end in
      match parse_dec digits with
      | None => None
      | Some v =>
          if neg then (if 9223372036854775808 <? v then None else Some (- Z.of_N v)%Z)
          else (if 9223372036854775807 <? v then None else Some (Z.of_N v))
      end.

    Definition resolve_templated (src_path : str) (args : list node) : option node :=
      match ident_paths src_path with
      | [] => None
      | first :: rest =>
          match parse_int64 (skipn 1 first) with
          | None => None
          | Some idx =>
              let i := (idx - 1)%Z in
              if (i <? 0)%Z then None else
              match nth_error args (Z.to_nat i) with
              | None => None
              | Some nd =>
                  match rest with
                  | [] => Some nd
                  | _ => resolve_path nd (expr_type nd) rest
                  end
              end
          end
      end.

    Definition no_match_warn (pos : position) (lhs : node) : res assignment :=
      doR tn <- lift (type_name (expr_type lhs));
      doR _ <- warnf (at_pos' pos (s2b "no assignment for " ++ assign_expr lhs ++ s2b " [" ++ tn ++ s2b "]"));
      ret (ANoMatch lhs).

    (** createWithConverter *)
    Definition create_with_converter (lhs rhs : node) (c : field_converter) : res assignment :=
      doR conv_node <-
        match resolve_expr (fc_src c) (node_root rhs) with
        | None => ret None
        | Some rhs_node =>
            if returns_error rhs_node then ret None else    (* nor be the argument of the converter *)
            doR a1 <- cast_node (fc_arg c) rhs_node;
            doR arg <- match a1 with
                       | Some a => ret (Some a)
                       | None => if negb (is_ptr (fc_arg c)) then ret None
                                 else
                                   doR a2 <- cast_node (deref_ptr (fc_arg c)) rhs_node;
                                   match a2 with
                                   | Some a =>
                                       (* written as &expr: expr must be addressable *)
                                       if negb (is_ptr (expr_type a)) && negb (addressable a) then ret None else ret (Some a)
                                   | None => ret None
                                   end
                       end;
            match arg with
            | None => ret None
            | Some a => cast_node (expr_type lhs) (NConv a c)
            end
        end;
      match conv_node with
      | Some n => ret (ASimple lhs (RNode n) (fc_err c))
      | None => no_match_warn (fc_pos c) lhs
      end.

    (** createWithMapper *)
    Definition create_with_mapper (lhs rhs : node) (m : name_matcher) : res assignment :=
      doR mapped <-
        match resolve_expr (nm_src m) (node_root rhs) with
        | None => ret None
        | Some rhs_node => cast_node (expr_type lhs) rhs_node
        end;
      match mapped with
      | Some n => ret (ASimple lhs (RNode n) (returns_error n))
      | None => no_match_warn (nm_pos m) lhs
      end.

    (** createWithTemplatedMapper *)
    Definition create_with_templated (lhs rhs : node) (args : list node) (m : name_matcher) : res assignment :=
      doR mapped <-
        match resolve_templated (nm_src m) (rhs :: args) with
        | None => ret None
        | Some rhs_node => cast_node (expr_type lhs) rhs_node
        end;
      match mapped with
      | Some n => ret (ASimple lhs (RNode n) (returns_error n))
      | None => no_match_warn (nm_pos m) lhs
      end.

    Definition compare_field_name (a b : str) : bool :=
      if o_exact o then str_eqb a b else str_equal_fold a b.

    (** candidates of the name match on [rhs_struct]: getter nodes, field nodes *)
    Definition getter_nodes (rhs_struct : node) : list node :=
      match deref_ptr (expr_type rhs_struct) with
      | TNamed i =>
          match get_named E i with
          | Some n => List.map (fun m => NMethod rhs_struct (m_name m) (m_sig m))
                        (List.filter (fun m => complies_getter E (m_sig m)) (n_methods n))
          | None => []
          end
      | _ => []
      end.
    Definition field_nodes (struct_node : node) : list node :=
      List.map (fun f => NField struct_node f) (struct_fields E (deref_ptr (expr_type struct_node))).

    (** The mutually recursive core, on fuel:
        [struct_to_struct] iterates the accessible fields of the destination struct ([fields_loop]);
        [match_field] applies the precedence chain skip > conv > map > $map > literal > name match;
        [name_pass] runs the handler over a candidate list (first same-named accessible member decides). *)
    Inductive pass_result :=
    | PNotFound                       (* no candidate matched by name *)
    | PDone (a : option assignment) (nested : bool).

    (** the loop of structToStruct, over the function [mf] deciding one field *)
    Fixpoint fields_loop (mf : node -> res (option assignment)) (lhs_struct : node) (fs : list node) : res (list assignment) :=
      match fs with
      | [] => ret []
      | lf :: fs' =>
          if negb (is_field_accessible lhs_struct (obj_name lf)) then fields_loop mf lhs_struct fs' else
          doR a <- mf lf;
          doR rest <- fields_loop mf lhs_struct fs';
          ret (match a with Some x => x :: rest | None => rest end)
      end.

    (** the handler of structFieldAndStructGettersAndFields over a candidate list;
        [s2s] is the member-wise descent into a by-value struct pair *)
    Fixpoint name_pass (s2s : node -> node -> res (list assignment)) (lhs rhs_struct : node) (cands : list node) : res pass_result :=
      match cands with
      | [] => ret PNotFound
      | r :: cands' =>
          if negb (is_field_accessible rhs_struct (obj_name r)) || negb (compare_field_name (obj_name lhs) (obj_name r))
          then name_pass s2s lhs rhs_struct cands' else
          doR sl <- (if is_slice (expr_type lhs) && is_slice (expr_type r) then slice_to_slice lhs r else ret None);
          match sl with
          | Some a => ret (PDone (Some a) false)
          | None =>
              doR c <- cast_node (expr_type lhs) r;
              match c with
              | Some cn => ret (PDone (Some (ASimple lhs (RNode cn) (returns_error cn))) false)
              | None =>
                  if is_struct_type E (expr_type lhs) && is_struct_type E (expr_type r) then
                    doR contents <- s2s lhs r;
                    ret (PDone (match contents with [] => None | _ => Some (ANest contents) end) true)
                  else ret (PDone None false)
              end
          end
      end.

    (** structFieldAndStructGettersAndFields, given the descent function *)
    Definition name_match_with (s2s : node -> node -> res (list assignment)) (lhs rhs_struct : node) : res (option assignment) :=
      doR g <- (if o_getter o then name_pass s2s lhs rhs_struct (getter_nodes rhs_struct) else ret PNotFound);
      let '(ga, gnested) := match g with PDone a n => (a, n) | PNotFound => (None, false) end in
      match ga with
      | Some a => ret (Some a)
      | None =>
          doR f <- (if str_eqb (o_rule o) rule_name then name_pass s2s lhs rhs_struct (field_nodes rhs_struct) else ret PNotFound);
          let '(fa, fnested) := match f with PDone a n => (a, n) | PNotFound => (None, false) end in
          let ran_fields := str_eqb (o_rule o) rule_name in
          match fa with
          | Some a => ret (Some a)
          | None =>
              if ran_fields && (gnested || fnested) then ret None
              else doR a <- no_match_warn method_pos lhs; ret (Some a)
          end
      end.

    (** matchStructFieldAndStruct, given the name matcher *)
    Definition match_field_with (nm : node -> node -> res (option assignment)) (lhs rhs : node) (args : list node) : res (option assignment) :=
      let me := matcher_expr lhs in
      match should_skip (o_skip o) me (o_exact o) with
      | MPanic => panic "PatternMatcher.Match: nil *regexp.Regexp"
      | MUnsup => unsup "skip pattern outside the Re.v subset"
      | MBool true => ret (Some (ASkip lhs))
      | MBool false =>
          match find (fun c => ident_match (fc_dst c) me true) (o_conv o) with
          | Some c => doR a <- create_with_converter lhs rhs c; ret (Some a)
          | None =>
          match find (fun m => ident_match (nm_dst m) me true) (o_map o) with
          | Some m => doR a <- create_with_mapper lhs rhs m; ret (Some a)
          | None =>
          match find (fun m => ident_match (nm_dst m) me true) (o_tmap o) with
          | Some m => doR a <- create_with_templated lhs rhs args m; ret (Some a)
          | None =>
          match find (fun l => ident_match (ls_dst l) me true) (o_lit o) with
          | Some l => ret (Some (ASimple lhs (RLiteral (ls_literal l)) false))
          | None => nm lhs rhs
          end end end end
      end.

    Fixpoint struct_to_struct (fuel : nat) (lhs_struct rhs_struct : node) (args : list node) : res (list assignment) :=
      match fuel with
      | O => (Fuel, [])
      | S fuel' =>
          fields_loop
            (fun lf => match_field_with
                         (fun l r => name_match_with (fun l' r' => struct_to_struct fuel' l' r' []) l r)
                         lf rhs_struct args)
            lhs_struct (field_nodes lhs_struct)
      end.

    Definition name_match (fuel : nat) (lhs rhs_struct : node) : res (option assignment) :=
      name_match_with (fun l r => struct_to_struct fuel l r []) lhs rhs_struct.
    Definition match_field (fuel : nat) (lhs rhs : node) (args : list node) : res (option assignment) :=
      match_field_with (name_match fuel) lhs rhs args.
  End WithOpts.

  (** buildManipulator *)
  Definition ordinal_number (n : N) : str :=
    if (11 <=? n) && (n <=? 13) then dec n ++ s2b "th"
    else match n mod 10 with
         | 1 => dec n ++ s2b "st"
         | 2 => dec n ++ s2b "nd"
         | 3 => dec n ++ s2b "rd"
         | _ => dec n ++ s2b "th"
         end.

  Definition build_manipulator (m : option manipulator) (src_t dst_t : ty) (arg_ts : list ty) (ret_error : bool)
    : res (option gmanip) :=
    match m with
    | None => ret None
    | Some m =>
        let pkg0 := match lookup_name d (mp_pkg m) with Some n => n | None => [] end in
        let pkg := if str_eqb pkg0 [46] then [] else pkg0 in       (* a dot-imported function is called bare *)
        let fname := match pkg with [] => mp_name m | _ => pkg ++ [46] ++ mp_name m end in
        let err (msg : str) := errorf (at_pos' (mp_pos m) msg) in
        if negb (str_eqb pkg []) && negb (mp_exported m) then
          err (s2b "manipulator function " ++ fname ++ s2b " is not exported")
        else if mp_ret_err m && negb ret_error then
          err (s2b "cannot use manipulator function " ++ fname ++ s2b " due to mismatch of returning error")
        else if negb (assignable E (deref_ptr (mp_dst m)) (deref_ptr dst_t)) then
          err (s2b "manipulator function " ++ fname ++ s2b " 1st arg type mismatch")
        else if negb (assignable E (deref_ptr (mp_src m)) (deref_ptr src_t)) then
          err (s2b "manipulator function " ++ fname ++ s2b " 2nd arg type mismatch")
        else
          let mk (has_args : bool) :=
            ret (Some {| gm_pkg := pkg; gm_name := mp_name m; gm_dst_ptr := is_ptr (mp_dst m);
                         gm_src_ptr := is_ptr (mp_src m); gm_has_args := has_args; gm_ret_err := mp_ret_err m |}) in
          match mp_args m with
          | [] => mk false
          | margs =>
              if negb (Nat.eqb (List.length margs) (List.length arg_ts)) then
                err (s2b "manipulator function " ++ fname ++ s2b " additional args count mismatch")
              else
                let fix chk (i : N) (l1 l2 : list ty) : option N :=
                  match l1, l2 with
                  | a :: l1', b :: l2' => if assignable E a b then chk (i + 1) l1' l2' else Some i
                  | _, _ => None
                  end in
                match chk 0 margs arg_ts with
                | Some i => err (s2b "manipulator function " ++ fname ++ s2b " " ++ ordinal_number (i + 3) ++ s2b " arg type mismatch")
                | None => mk true
                end
          end
    end.

  (** createVar: an unnamed or blank (_) variable gets the default name *)
  Definition declared_name (name def_name : str) : str :=
    if str_eqb name [] || str_eqb name [95] then def_name else name.

  Definition create_var (name : str) (t : ty) (def_name : str) : outcome gvar :=
    let nm := declared_name name def_name in
    do tn <- type_name (deref_ptr t);
    do ext <- is_external (deref_ptr t);
    Ok {| v_name := nm; v_type := tn; v_pointer := is_ptr t; v_external := ext |}.

  Definition nth_pos (l : list position) (i : nat) : position := nth i l pos0.

  (** CreateFunction; [comments]: the text lines of the method's doc group at build time *)
  (** the first name, in declaration order, that an earlier variable already has *)
  Fixpoint first_redeclared (seen names : list str) : option str :=
    match names with
    | [] => None
    | n :: rest => if mem_str n seen then Some n else first_redeclared (n :: seen) rest
    end.

  Definition create_function (fuel : nat) (m : method_entry) (comments : list str) : res function :=
    let sg := me_sig m in
    let o := me_opts m in
    let mpos := md_pos (me_decl m) in
    match sg_ptys sg, sg_pnames sg, sg_rtys sg, sg_rnames sg with
    | src_t :: arg_ts, src_n :: arg_ns, dst_t :: _, dst_n :: _ =>
        let ppos := md_param_pos (me_decl m) in
        let rpos := md_result_pos (me_decl m) in
        if o_reverse o && negb (Nat.eqb (List.length arg_ts) 0) then
          errorf (at_pos mpos "reverse cannot be used with additional arguments")
        else if is_invalid_type E src_t then
          errorf (at_pos (nth_pos ppos 0) "src type is not defined. make sure to be imported")
        else if is_invalid_type E dst_t then
          errorf (at_pos (nth_pos rpos 0) "dst type is not defined. make sure to be imported")
        else
          match find_idx (is_invalid_type E) arg_ts with
          | Some i => errorf (at_pos (nth_pos ppos (S i)) "arg type is not defined. make sure to be imported")
          | None =>
          if negb (is_struct_type E (deref_ptr src_t)) then
            errorf (at_pos' (nth_pos rpos 0) (s2b "src type should be a struct but " ++ type_string E (under E src_t)))
          else if negb (is_struct_type E (deref_ptr dst_t)) then
            errorf (at_pos' (nth_pos rpos 0) (s2b "dst type should be a struct but " ++ type_string E (under E dst_t)))
          else
            let src_def := if o_reverse o then s2b "dst" else s2b "src" in
            let dst_def := if o_reverse o then s2b "src" else s2b "dst" in
            doR src_var0 <- lift (create_var src_n src_t src_def);
            doR dst_var <- lift (create_var dst_n dst_t dst_def);
            let fix mk_args (i : N) (ns : list str) (ts : list ty) : outcome (list gvar) :=
              match ns, ts with
              | n :: ns', t :: ts' =>
                  do v <- create_var n t (s2b "arg" ++ dec i);
                  do rest <- mk_args (i + 1) ns' ts';
                  Ok (v :: rest)
              | _, _ => Ok []
              end in
            doR arg_vars <- lift (mk_args 0 arg_ns arg_ts);
            doR src_var <-
              (match o_receiver o with
               | [] => ret src_var0
               | recv =>
                   if v_external src_var0 then errorf (at_pos mpos "an external package type cannot be a receiver")
                   else ret {| v_name := recv; v_type := v_type src_var0; v_pointer := v_pointer src_var0; v_external := v_external src_var0 |}
               end);
            let ret_error := me_ret_error d m in
            (* the operands, and err when the function returns an error, are declared in one scope *)
            doR _ <- (match first_redeclared (if ret_error then [s2b "err"] else [])
                                             (v_name src_var :: v_name dst_var :: List.map v_name arg_vars) with
                      | Some n => errorf (at_pos' mpos (s2b "the name " ++ n ++ s2b " is used for more than one variable of the generated function"))
                      | None => ret tt
                      end);
            let arg_nodes := List.map (fun vt => NRoot (v_name (fst vt)) (snd vt)) (combine arg_vars arg_ts) in
            doR assignments <-
              (if o_reverse o then
                 struct_to_struct o mpos fuel (NRoot (v_name src_var) src_t) (NRoot (v_name dst_var) dst_t) arg_nodes
               else
                 struct_to_struct o mpos fuel (NRoot (v_name dst_var) dst_t) (NRoot (v_name src_var) src_t) arg_nodes);
            doR _ <- (if ret_error then ret tt else
                      match find_error_assignment assignments with
                      | Some lhs => errorf (at_pos' mpos (s2b "the source of " ++ assign_expr lhs ++ s2b " returns an error but the method has no error result"))
                      | None => ret tt
                      end);
            doR pre <- build_manipulator (o_pre o) src_t dst_t arg_ts ret_error;
            doR post <- build_manipulator (o_post o) src_t dst_t arg_ts ret_error;
            ret {| fn_name := md_name (me_decl m); fn_comments := comments; fn_receiver := o_receiver o;
                   fn_src := src_var; fn_dst := dst_var; fn_args := arg_vars;
                   fn_ret_err := ret_error; fn_style := o_style o;
                   fn_assignments := assignments; fn_pre := pre; fn_post := post |}
          end
    | _, _, _, _ => panic "CreateFunction: method without operands"
    end.
End Builder.
