(** Matcher.v — pkg/option: IdentMatcher, NameMatcher, PatternMatcher.
    PatternMatcher is a state machine (it recompiles when queried with the
    other case rule and discards the error), so its state is explicit. *)
From Coq Require Import String.
From Cvg Require Import Base Re Unicode.
Open Scope N_scope.

(** ** IdentMatcher *)
Definition ident_match (pattern ident : str) (exact : bool) : bool :=
  if exact then str_eqb pattern ident else str_equal_fold pattern ident.

Definition ident_paths (pattern : str) : list str := split_on 46 pattern.

(** ForGetter(at): path element ends with "()" *)
Definition for_getter (elem : str) : bool := is_suffix (s2b "()") elem.
(** NameAt(at): reFromParen `\(.*` removed: everything from the first '(' on is dropped
    ('.' does not match a newline, which cannot occur inside a notation argument) *)
Fixpoint name_at (elem : str) : str :=
  match elem with
  | [] => []
  | c :: e' => if c =? 40 then [] else c :: name_at e'
  end.

(** ** PatternMatcher *)
Inductive compiled :=
| CRe (r : re)
| CNil                 (* compile failed: nil *regexp.Regexp *)
| CUnsup.              (* outside the Re.v subset: not modelled *)

Definition is_re_pattern (p : str) : bool :=
  is_prefix [47] p && is_suffix [47] p && (2 <=? N.of_nat (List.length p)).

Definition pattern_expr (pattern : str) (exact : bool) : str :=
  let expr :=
    if is_re_pattern pattern then firstn (List.length pattern - 2) (skipn 1 pattern)
    else [94] ++ quote_meta pattern ++ [36] in
  if exact then expr else s2b "(?i)" ++ expr.

Definition compile_pattern (pattern : str) (exact : bool) : compiled :=
  match parse_re UT (pattern_expr pattern exact) with
  | POk r => CRe r
  | PErr => CNil
  | PUnsup => CUnsup
  | PFuel => CUnsup        (* not observed; counted out of model *)
  end.

Record pmatcher := { pm_pattern : str; pm_re : compiled; pm_exact : bool }.

(** NewPatternMatcher: error when the pattern does not compile *)
Definition new_pmatcher (pattern : str) (exact : bool) : option pmatcher :=
  match compile_pattern pattern exact with
  | CNil => None
  | c => Some {| pm_pattern := pattern; pm_re := c; pm_exact := exact |}
  end.

Inductive mresult := MBool (b : bool) | MPanic | MUnsup.

(** Match: returns the answer and the new state *)
Definition pm_match (m : pmatcher) (ident : str) (exact : bool) : mresult * pmatcher :=
  let m' := if Bool.eqb (pm_exact m) exact then m
            else match compile_pattern (pm_pattern m) exact with
                 | CNil => m      (* compile error: the matcher is left as it is (cannot happen, see MatcherProofs) *)
                 | c => {| pm_pattern := pm_pattern m; pm_re := c; pm_exact := exact |}
                 end in
  match pm_re m' with
  | CRe r => (MBool (search UT r (decode ident)), m')
  | CNil => (MPanic, m')
  | CUnsup => (MUnsup, m')
  end.

(** The stateless reading: what a fresh matcher for (pattern, exact) answers. *)
Definition pure_match (pattern ident : str) (exact : bool) : mresult :=
  match compile_pattern pattern exact with
  | CRe r => MBool (search UT r (decode ident))
  | CNil => MPanic
  | CUnsup => MUnsup
  end.

(** Options.ShouldSkip over a list of matchers, all queried with the same rule:
    first true wins; a panic aborts. *)
Fixpoint should_skip (ms : list pmatcher) (name : str) (exact : bool) : mresult :=
  match ms with
  | [] => MBool false
  | m :: ms' =>
      match fst (pm_match m name exact) with
      | MBool true => MBool true
      | MBool false => should_skip ms' name exact
      | r => r
      end
  end.
