(** Pipeline.v — runner.Run up to the function blocks: Parse, then
    CreateFunctions per interface, with the events of the whole run. *)
From Coq Require Import String.
From Cvg Require Import Base GoTypes Dump Options Front Builder Gen.
Open Scope N_scope.

Record block := { b_index : N; b_decl : iface_decl; b_funcs : list function }.

Record pipeline_out := {
  po_result : outcome (list block);
  po_events : list event;
  po_store : store;            (* comment groups after Parse (input of GenerateBaseCode) *)
}.

(** what the dumper guarantees about signatures: one name slot per parameter and per result
    (go/types always has a *types.Var for each); reported with every model run and
    asserted by the harness, hypothesis of the no-panic theorem *)
Definition sig_wf (sg : sig) : bool :=
  Nat.eqb (List.length (sg_pnames sg)) (List.length (sg_ptys sg)) &&
  Nat.eqb (List.length (sg_rnames sg)) (List.length (sg_rtys sg)).
Definition dump_wf_b (d : dump) : bool :=
  forallb (fun i => forallb (fun m => sig_wf (md_sig m)) (if_methods i)) (d_ifaces d).

Definition build_fuel (d : dump) : nat := (100 + 2 * List.length (d_env d))%nat.

Definition doc_lines (st : store) (doc : option N) : list str :=
  match doc with
  | Some gi => List.map c_text (group_of st gi)
  | None => []
  end.

Fixpoint create_functions (d : dump) (st : store) (ms : list method_entry) : res (list function) :=
  match ms with
  | [] => ret []
  | m :: ms' =>
      doR f <- create_function d (build_fuel d) m (doc_lines st (me_doc m));
      doR rest <- create_functions d st ms';
      ret (f :: rest)
  end.

Fixpoint create_blocks (d : dump) (st : store) (bs : list (intf_entry * list method_entry)) : res (list block) :=
  match bs with
  | [] => ret []
  | (e, ms) :: bs' =>
      doR fs <- create_functions d st ms;
      doR rest <- create_blocks d st bs';
      ret ({| b_index := ie_index e; b_decl := ie_decl e; b_funcs := fs |} :: rest)
  end.

(** main prints the returned error once more *)
Definition final_events (o : outcome (list block)) (ev : list event) : list event :=
  match o with
  | Err e => ev ++ [EvStderr e]
  | _ => ev
  end.

Definition run_pipeline (d : dump) : pipeline_out :=
  let st0 := {| st_groups := d_comments d; st_docs := d_docs d |} in
  match parse d st0 with
  | (Ok blocks, st, ev) =>
      let '(o, ev') := create_blocks d st blocks in
      {| po_result := o; po_events := final_events o (ev ++ ev'); po_store := st |}
  | (Err e, st, ev) => {| po_result := Err e; po_events := final_events (Err e) ev; po_store := st |}
  | (Panic s, st, ev) => {| po_result := Panic s; po_events := ev; po_store := st |}
  | (Fuel, st, ev) => {| po_result := Fuel; po_events := ev; po_store := st |}
  | (Unsup w, st, ev) => {| po_result := Unsup w; po_events := ev; po_store := st |}
  end.
