(** Pipeline.v — runner.Run up to the function blocks: Parse, then
    CreateFunctions per interface, with the events of the whole run. *)
From Coq Require Import String.
From Cvg Require Import Base GoTypes Dump Options Front Builder Gen.
Open Scope N_scope.

Record block := { b_index : N; b_decl : iface_decl; b_funcs : list function }.

Record pipeline_out := {
  po_result : outcome (list block);
  po_events : list event;
  po_store : store;            (* comment groups after Parse (input of GenerateBaseCode) *)
}.

(** what the dumper guarantees about signatures: one name slot per parameter and per result
    (go/types always has a *types.Var for each); reported with every model run and
    asserted by the harness, hypothesis of the no-panic theorem *)
Definition sig_wf (sg : sig) : bool :=
  Nat.eqb (List.length (sg_pnames sg)) (List.length (sg_ptys sg)) &&
  Nat.eqb (List.length (sg_rnames sg)) (List.length (sg_rtys sg)).
Definition dump_wf_b (d : dump) : bool :=
  forallb (fun i => forallb (fun m => sig_wf (md_sig m)) (if_methods i)) (d_ifaces d).

(** by-value struct containment: [ty_rank rk t] with [rk] a rank of the named types; the
    member-wise descent of structToStruct goes from a struct to the by-value struct types of its
    fields only (FuelProofs.v). [env_rank] computes a rank from the environment, [rank_ok_b]
    checks that it decreases through every named type (by-value containment is well-founded, as
    Go's rejection of invalid recursive types guarantees) and that the fuel [build_fuel] exceeds
    the rank of every method's operands: reported with every model run, asserted by the harness. *)
Fixpoint ty_rank (rk : N -> nat) (t : ty) : nat :=
  match t with
  | TNamed i => rk i
  | TStruct _ fs =>
      S ((fix go (fs : list field) : nat :=
            match fs with
            | [] => O
            | Field _ _ _ _ _ ft :: fs' => Nat.max (ty_rank rk ft) (go fs')
            end) fs)
  | _ => O
  end.

Fixpoint rank_of (E : env) (fuel : nat) (i : N) : nat :=
  match fuel with
  | O => O
  | S f => match get_named E i with
           | Some n => S (ty_rank (rank_of E f) (n_under n))
           | None => O
           end
  end.

Definition build_fuel (d : dump) : nat := (100 + 2 * List.length (d_env d))%nat.

Definition env_rank (d : dump) : N -> nat := rank_of (d_env d) (S (List.length (d_env d))).

Definition rank_ok_b (d : dump) : bool :=
  let rk := env_rank d in
  forallb (fun k => match get_named (d_env d) (N.of_nat k) with
                    | Some n => Nat.ltb (ty_rank rk (n_under n)) (rk (N.of_nat k))
                    | None => true
                    end) (seq 0 (List.length (d_env d))) &&
  forallb (fun i => forallb (fun m =>
      forallb (fun t => Nat.ltb (ty_rank rk (deref_ptr t)) (build_fuel d))
              (firstn 1 (sg_ptys (md_sig m)) ++ firstn 1 (sg_rtys (md_sig m)))) (if_methods i)) (d_ifaces d).

Definition doc_lines (st : store) (doc : option N) : list str :=
  match doc with
  | Some gi => List.map c_text (group_of st gi)
  | None => []
  end.

Fixpoint create_functions (d : dump) (st : store) (ms : list method_entry) : res (list function) :=
  match ms with
  | [] => ret []
  | m :: ms' =>
      doR f <- create_function d (build_fuel d) m (doc_lines st (me_doc m));
      doR rest <- create_functions d st ms';
      ret (f :: rest)
  end.

Fixpoint create_blocks (d : dump) (st : store) (bs : list (intf_entry * list method_entry)) : res (list block) :=
  match bs with
  | [] => ret []
  | (e, ms) :: bs' =>
      doR fs <- create_functions d st ms;
      doR rest <- create_blocks d st bs';
      ret ({| b_index := ie_index e; b_decl := ie_decl e; b_funcs := fs |} :: rest)
  end.

(** main prints the returned error once more *)
Definition final_events (o : outcome (list block)) (ev : list event) : list event :=
  match o with
  | Err e => ev ++ [EvStderr e]
  | _ => ev
  end.

Definition run_pipeline (d : dump) : pipeline_out :=
  let st0 := {| st_groups := d_comments d; st_docs := d_docs d |} in
  match parse d st0 with
  | (Ok blocks, st, ev) =>
      let '(o, ev') := create_blocks d st blocks in
      {| po_result := o; po_events := final_events o (ev ++ ev'); po_store := st |}
  | (Err e, st, ev) => {| po_result := Err e; po_events := final_events (Err e) ev; po_store := st |}
  | (Panic s, st, ev) => {| po_result := Panic s; po_events := ev; po_store := st |}
  | (Fuel, st, ev) => {| po_result := Fuel; po_events := ev; po_store := st |}
  | (Unsup w, st, ev) => {| po_result := Unsup w; po_events := ev; po_store := st |}
  end.
