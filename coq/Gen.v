(** Gen.v — pkg/generator: FuncToString, AssignmentToString, ManipulatorToString
    and the String() methods of pkg/generator/model. *)
From Coq Require Import String.
From Cvg Require Import Base GoTypes Dump Options Front Builder.
Open Scope N_scope.

Definition rhs_string (r : rhs_expr) : str :=
  match r with RNode n => assign_expr n | RLiteral t => t end.

(** loopVars: index and element variable of a slice copy loop; they must not shadow the
    variable the left-hand side starts with *)
Fixpoint until_dot (s : str) : str :=
  match s with [] => [] | c :: s' => if c =? 46 then [] else c :: until_dot s' end.
Definition loop_vars (lhs : str) : str * str :=
  let root := until_dot lhs in
  (if str_eqb root (s2b "i") then s2b "idx" else s2b "i",
   if str_eqb root (s2b "e") then s2b "elem" else s2b "e").

(** Assignment.String() *)
Fixpoint assignment_string (a : assignment) : str :=
  match a with
  | ASkip l => s2b "// skip: " ++ assign_expr l ++ nl
  | ANoMatch l => s2b "// no match: " ++ assign_expr l ++ nl
  | ASimple l r err => assign_expr l ++ (if err then s2b ", err" else []) ++ s2b " = " ++ rhs_string r ++ nl
  | ANest contents => concat_str (List.map assignment_string contents)
  | ASlice l r typ =>
      s2b "if " ++ assign_expr r ++ s2b " != nil {" ++ nl ++
      assign_expr l ++ s2b " = make(" ++ typ ++ s2b ", len(" ++ assign_expr r ++ s2b "))" ++ nl ++
      s2b "copy(" ++ assign_expr l ++ s2b ", " ++ assign_expr r ++ s2b ")" ++ nl ++ s2b "}" ++ nl
  | ASliceLoop l r typ =>
      s2b "if " ++ assign_expr r ++ s2b " != nil {" ++ nl ++
      assign_expr l ++ s2b " = make(" ++ typ ++ s2b ", len(" ++ assign_expr r ++ s2b "))" ++ nl ++
      let '(iv, ev) := loop_vars (assign_expr l) in
      s2b "for " ++ iv ++ s2b ", " ++ ev ++ s2b " := range " ++ assign_expr r ++ s2b "{" ++ nl ++
      assign_expr l ++ s2b "[" ++ iv ++ s2b "] = " ++ ev ++ nl ++ s2b "}" ++ nl ++ s2b "}" ++ nl
  | ASliceCast l r typ cast =>
      s2b "if " ++ assign_expr r ++ s2b " != nil {" ++ nl ++
      assign_expr l ++ s2b " = make(" ++ typ ++ s2b ", len(" ++ assign_expr r ++ s2b "))" ++ nl ++
      let '(iv, ev) := loop_vars (assign_expr l) in
      s2b "for " ++ iv ++ s2b ", " ++ ev ++ s2b " := range " ++ assign_expr r ++ s2b "{" ++ nl ++
      assign_expr l ++ s2b "[" ++ iv ++ s2b "] = " ++ cast ++ s2b "(" ++ ev ++ s2b ")" ++ nl ++ s2b "}" ++ nl ++ s2b "}" ++ nl
  end.

(** Assignment.RetError() *)
Definition assignment_ret_error (a : assignment) : bool :=
  match a with ASimple _ _ err => err | _ => false end.

Definition full_type (v : gvar) : str := if v_pointer v then [42] ++ v_type v else v_type v.

(** the error check emitted after an error-returning assignment *)
Definition err_check (f : function) : str :=
  if str_eqb (fn_style f) style_return && v_pointer (fn_dst f)
  then s2b "if err != nil {" ++ nl ++ s2b "return nil, err" ++ nl ++ s2b "}" ++ nl
  else s2b "if err != nil {" ++ nl ++ s2b "return" ++ nl ++ s2b "}" ++ nl.

(** generator.AssignmentToString: member-wise blocks are rendered through it
    too, so every error-returning assignment, nested or not, is checked *)
Fixpoint assignment_to_string (f : function) (a : assignment) : str :=
  match a with
  | ANest contents => concat_str (List.map (assignment_to_string f) contents)
  | _ => assignment_string a ++ (if assignment_ret_error a then err_check f else [])
  end.

(** generator.ManipulatorToString(m, src, dst, args): the call line, then the error check when the hook returns an error *)
Definition hook_call_text (m : gmanip) (src dst : gvar) (args : list gvar) : str :=
  (if gm_ret_err m then s2b "err = " else []) ++
  (match gm_pkg m with [] => [] | p => p ++ [46] end) ++
  gm_name m ++ [40] ++
  (if Bool.eqb (v_pointer dst) (gm_dst_ptr m) then [] else if v_pointer dst then [42] else [38]) ++
  v_name dst ++ s2b ", " ++
  (if Bool.eqb (v_pointer src) (gm_src_ptr m) then [] else if v_pointer src then [42] else [38]) ++
  v_name src ++
  (if gm_has_args m then concat_str (List.map (fun a => s2b ", " ++ v_name a) args) else []) ++
  [41] ++ nl.

Definition hook_err_check : str := s2b "if err != nil {" ++ nl ++ s2b "return" ++ nl ++ s2b "}" ++ nl.

Definition manipulator_to_string (m : gmanip) (src dst : gvar) (args : list gvar) : str :=
  hook_call_text m src dst args ++ (if gm_ret_err m then hook_err_check else []).

(** generator.FuncToString *)
Definition func_params (f : function) : list str :=
  (if str_eqb (fn_style f) style_arg then [v_name (fn_dst f) ++ s2b " *" ++ v_type (fn_dst f)] else []) ++
  (match fn_receiver f with [] => [v_name (fn_src f) ++ [32] ++ full_type (fn_src f)] | _ => [] end) ++
  List.map (fun a => v_name a ++ [32] ++ full_type a) (fn_args f).

Definition func_header (f : function) : str :=
  s2b "func " ++
  (match fn_receiver f with
   | [] => []
   | r => [40] ++ r ++ [32] ++ full_type (fn_src f) ++ s2b ") "
   end) ++
  fn_name f ++ [40] ++ join_str (s2b ", ") (func_params f) ++ s2b ") " ++
  (if str_eqb (fn_style f) style_return then
     [40] ++ v_name (fn_dst f) ++ [32] ++ full_type (fn_dst f) ++
     (if fn_ret_err f then s2b ", err error" else []) ++ s2b ") {" ++ nl
   else if fn_ret_err f then s2b "(err error) {" ++ nl
   else s2b "{" ++ nl).

(** in arg style the destination parameter is a pointer whatever the method declared *)
Definition hook_dst (f : function) : gvar :=
  if str_eqb (fn_style f) style_arg
  then {| v_name := v_name (fn_dst f); v_type := v_type (fn_dst f); v_pointer := true; v_external := v_external (fn_dst f) |}
  else fn_dst f.

Definition func_to_string (f : function) : str :=
  concat_str (List.map (fun c => c ++ nl) (fn_comments f)) ++
  func_header f ++
  (if str_eqb (fn_style f) style_return && v_pointer (fn_dst f) then
     v_name (fn_dst f) ++ s2b " = &" ++ v_type (fn_dst f) ++ s2b "{}" ++ nl
   else []) ++
  (match fn_pre f with Some m => manipulator_to_string m (fn_src f) (hook_dst f) (fn_args f) | None => [] end) ++
  concat_str (List.map (assignment_to_string f) (fn_assignments f)) ++
  (match fn_post f with Some m => manipulator_to_string m (fn_src f) (hook_dst f) (fn_args f) | None => [] end) ++
  (if fn_ret_err f || str_eqb (fn_style f) style_return then nl ++ s2b "return" ++ nl else []) ++
  s2b "}" ++ nl ++ nl.
