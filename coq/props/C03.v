(** C03 — well-formed setup files are accepted and every method gets its function.
    Proved here: no method is dropped on success (all-or-nothing parse, one
    function per method). Acceptance of the conventional inputs themselves and
    independence from layout are decided by the correspondence runs (well-formed
    and layout generator streams, whole-file byte comparison through BaseCode.v). *)
From Coq Require Import String.
From Cvg Require Import Base GoTypes Dump Options Front Builder Gen Pipeline BaseCode.
From Cvg.proofs Require Import BuilderProofs FrontProofs BaseCodeProofs CutProofs.
Open Scope N_scope.

Theorem C03_every_method_parsed :
  forall d ms opts st res st' ev,
    parse_methods_loop d ms opts st [] false [] = (Ok res, st', ev) -> List.map me_decl res = ms.
Proof.
  intros d ms opts st res st' ev H.
  destruct (parse_methods_loop_all d ms _ _ _ _ _ _ _ _ H) as (_ & new & -> & Hm). exact Hm.
Qed.
Print Assumptions C03_every_method_parsed.

Theorem C03_every_method_gets_a_function :
  forall d st ms fs ev, create_functions d st ms = (Ok fs, ev) ->
    List.map fn_name fs = List.map (fun m => md_name (me_decl m)) ms.
Proof.
  intros d st ms; induction ms as [|m ms IH]; intros fs ev H; simpl in H.
  - apply ret_ok in H as [<- _]. reflexivity.
  - apply rbind_ok in H as (f & e1 & e2 & Hf & H & _).
    apply rbind_ok in H as (rest & e3 & e4 & Hr & H & _).
    apply ret_ok in H as [<- _]. simpl. f_equal; [|eapply IH; eassumption].
    (* create_function names the function after the method *)
    unfold create_function in Hf.
    destruct (sg_ptys (me_sig m)) as [|src_t arg_ts]; [discriminate|].
    destruct (sg_pnames (me_sig m)) as [|src_n arg_ns]; [discriminate|].
    destruct (sg_rtys (me_sig m)) as [|dst_t rts]; [discriminate|].
    destruct (sg_rnames (me_sig m)) as [|dst_n rns]; [discriminate|].
    repeat match type of Hf with
           | (if ?c then _ else _) = _ => destruct c; [discriminate|]
           | (match ?c with Some _ => _ | None => _ end) = _ => destruct c; [discriminate|]
           end.
    repeat (apply rbind_ok in Hf as (? & ? & ? & _ & Hf & _)).
    apply ret_ok in Hf as [<- _]. reflexivity.
Qed.
Print Assumptions C03_every_method_gets_a_function.

(** Independence from the size of the interface: the opening and the closing
    marker of a converter interface always end up in two comment groups of their
    own, opening before closing, whatever the distance between the braces (one
    very short method included) — provided neither brace lies inside a comment.
    (Before the repair the closing marker was appended to the opening marker's
    group whenever the braces were less than 21 bytes apart.) *)
Theorem C03_two_markers_two_groups :
  forall gs m mn mx,
    mn < mx ->
    (forall g, In g gs -> ~ spans g mx) -> (forall g, In g gs -> ~ spans g mn) ->
    exists l1 l2 l3,
      insert_comment (insert_comment gs (marker_comment m mx)) (marker_comment m mn)
      = l1 ++ [marker_comment m mn] :: l2 ++ [marker_comment m mx] :: l3 /\ gs = l1 ++ l2 ++ l3.
Proof. exact two_markers_two_groups. Qed.
Print Assumptions C03_two_markers_two_groups.

(** Independence from what lies between the braces: once printed, the interface is cut
    out whatever its size — the second marker may follow on the same line (a one-line
    interface with one very short method) or any number of lines later, with any bytes in
    between (comments, blank lines, further methods) as long as the marker itself occurs
    only twice. *)
Theorem C03_cut_independent_of_interface_size :
  forall m pre L X post,
    m <> [] -> no_nl m -> L <> [] -> no_nl L ->
    (pre = [] \/ exists p, pre = p ++ [10]) ->
    (forall k, occ m (pre ++ L ++ m ++ X ++ m ++ post) k = true ->
               k = (List.length pre + List.length L)%nat \/
               k = (List.length pre + (List.length L + List.length m + List.length X))%nat) ->
    cut m (pre ++ L ++ m ++ X ++ m ++ post) = pre ++ m ++ post.
Proof. exact cut_law. Qed.
Print Assumptions C03_cut_independent_of_interface_size.
