(** C09 — notation scoping: interface defaults, method overrides, no leakage. *)
From Coq Require Import String.
From Cvg Require Import Base GoTypes Re Unicode Matcher Dump Options Front.
From Cvg.gen Require Extracted.
From Cvg.proofs Require Import BuilderProofs OptionsProofs.
Open Scope N_scope.

(** Interface level: whatever bytes an interface's doc comment holds, the
    options it yields differ from the defaults only in style, match rule and the
    four toggles: no :skip/:map/:conv/:literal entries, no hooks, no receiver,
    no :reverse (proved from the ValidOpsIntf table regenerated from the source:
    adding an operation there re-opens this proof). Hence the Go-level sharing
    of slices between the per-method copies of Options cannot be observed. *)
Theorem C09_intf_level_settings_only :
  forall d cs o, fst (parse_notations d Extracted.valid_ops_intf cs new_options) = Ok o -> lists_empty o.
Proof. exact intf_options_lists_empty. Qed.
Print Assumptions C09_intf_level_settings_only.

(** No leakage between interfaces: each entry's options are parse(its own doc
    comment's notations, defaults). *)
Theorem C09_interfaces_independent :
  forall d st es st' ev,
    find_entries_loop d (d_ifaces d) st [] = (Ok (es, st'), ev) ->
    forall e, In e es -> exists nots ev', parse_notations d Extracted.valid_ops_intf nots new_options = (Ok (ie_opts e), ev').
Proof.
  intros d st es st' ev H. destruct (find_entries_loop_opts d _ _ _ _ _ _ H) as (new & -> & Hn). exact Hn.
Qed.
Print Assumptions C09_interfaces_independent.

(** Inheritance and method-locality: each method entry is parseMethod of its own
    declaration with the interface's options [opts] — the same [opts] for every
    method of the interface, never another method's result — and its options are
    parse(its own notations, opts): interface notation = default, method notation
    = override for that method only ("last wins" is the fold in parse_list). *)
Theorem C09_methods_inherit_and_are_local :
  forall d ms opts st res st' ev,
    parse_methods_loop d ms opts st [] false [] = (Ok res, st', ev) ->
    forall me, In me res ->
      exists st_i ev_i st_j nots,
        parse_method d (me_decl me) opts st_i = ((Ok me, ev_i), st_j) /\
        parse_notations d Extracted.valid_ops_method nots opts = (Ok (me_opts me), ev_i) /\
        nots = fst (extract_notations st_i (get_doc st_i (md_chain (me_decl me)))).
Proof.
  intros d ms opts st res st' ev H me Hin.
  destruct (parse_methods_loop_opts d ms _ _ _ _ _ _ _ _ H) as (new & -> & Hn).
  destruct (Hn me Hin) as (st_i & ev_i & st_j & Hp).
  destruct (parse_method_opts d _ _ _ _ _ _ Hp) as (nots & Hn1 & Hn2).
  exists st_i, ev_i, st_j, nots. auto.
Qed.
Print Assumptions C09_methods_inherit_and_are_local.

(** a toggle written twice: the last one wins; the other settings are untouched *)
Theorem C09_last_toggle_wins :
  forall o a b, o_typecast (set_typecast (set_typecast o a) b) = b /\ o_exact (set_exact (set_exact o a) b) = b.
Proof. intros. split; reflexivity. Qed.
Print Assumptions C09_last_toggle_wins.
