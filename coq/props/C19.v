(** C19 — name and pattern matchers: equality, case folding, RE2 search, statelessness. *)
From Coq Require Import String.
From Cvg Require Import Base Re Unicode Matcher.
From Cvg.proofs Require Import ReFuelProofs MatcherProofs.
From Cvg Require Import GoLib GoTypes GoFuns.
From Cvg.proofs Require Import MatcherTieProofs.
Open Scope N_scope.

(** :map / :conv / :literal paths (IdentMatcher): equality under the exact rule,
    Unicode simple-fold equality (strings.EqualFold) otherwise — for all byte strings. *)
Theorem C19_ident :
  forall p s ex, ident_match p s ex = true <-> (if ex then p = s else str_equal_fold p s = true).
Proof. exact ident_match_spec. Qed.
Print Assumptions C19_ident.

(** A matcher's answers over ANY query sequence alternating the case rule are those of
    a fresh matcher for (pattern, path, rule): no dependence on earlier queries — for
    every pattern, with no side condition. Behind it: prefixing "(?i)" changes neither
    validity nor the modelled fragment ([C19_validity_case_independent], by simulation of
    two runs of the mutually recursive parser that differ in the flags in force and in
    spare fuel, ReProofs.v), and the parser never exhausts the fuel regexp.Compile's model
    gives it ([C19_parser_fuel_suffices], a measure argument over every branch of the
    parser and of the class-body parser, ReFuelProofs.v), so recompiling on a rule
    change never yields nil. *)
Theorem C19_parser_fuel_suffices : forall e, parse_re UT e <> PFuel.
Proof. exact (parse_re_never_out_of_fuel UT). Qed.
Print Assumptions C19_parser_fuel_suffices.

Theorem C19_validity_case_independent : forall p, validity_case_independent p.
Proof. exact validity_case_independent_always. Qed.
Print Assumptions C19_validity_case_independent.

Theorem C19_stateless :
  forall p ex0 m qs,
    new_pmatcher p ex0 = Some m ->
    pm_answers m qs = List.map (fun q => pure_match p (fst q) (snd q)) qs.
Proof.
  intros p ex0 m qs H. destruct (new_pmatcher_inv _ _ _ H) as [Hi <-].
  exact (pm_stateless m qs Hi (validity_case_independent_always _)).
Qed.
Print Assumptions C19_stateless.

(** What a fresh matcher answers: search of the parsed expression — "(?i)"
    prefixed when the rule is off, the expression otherwise untouched — in the
    path itself (no lower-casing of either). *)
Theorem C19_regexp_meaning :
  forall p s ex r,
    parse_re UT (pattern_expr p ex) = POk r ->
    pure_match p s ex = MBool (search UT r (decode s)).
Proof. intros p s ex r H. unfold pure_match, compile_pattern. now rewrite H. Qed.
Print Assumptions C19_regexp_meaning.

Theorem C19_expr_shape :
  forall p ex,
    pattern_expr p ex =
      (if ex then [] else s2b "(?i)") ++
      (if is_re_pattern p then firstn (List.length p - 2) (skipn 1 p) else [94] ++ quote_meta p ++ [36]).
Proof. intros p ex. unfold pattern_expr. destruct ex; reflexivity. Qed.
Print Assumptions C19_expr_shape.

(** Non-vacuity / sanity on concrete triples, including the shapes that failed before the repair. *)
Example C19_examples :
  pure_match (s2b "Name") (s2b "name") false = MBool true /\
  pure_match (s2b "Name") (s2b "name") true = MBool false /\
  pure_match (s2b "/^\S+$/") (s2b "ab") false = MBool true /\
  pure_match (s2b "/\PL/") (s2b "ab") false = MBool false /\
  pure_match (s2b "User.Name") (s2b "UserXName") true = MBool false /\
  validity_case_independent (s2b "/\pL/").
Proof. vm_compute. repeat split; intros; discriminate. Qed.

(** Tie to the source. [GoNode.IdentMatcher_Match], [NameMatcher_Match] and
    [FieldConverter_Match] are /repo's pkg/option ident_matcher.go, name_matcher.go and
    field_converter.go translated statement by statement into gen/GoFuns.v on every run
    (strings.EqualFold is the model's [str_equal_fold], validated against Go by this check):
    the identifier matcher the theorems above speak about is what the Go code computes; a name
    matcher is the conjunction of its two identifier matchers; a :conv entry is looked up
    case-sensitively whatever the case rule. *)
Theorem C19_ident_matcher_is_the_go_code :
  forall pattern paths ident exact,
    GoNode.IdentMatcher_Match {| GoNode.IdentMatcher_pattern := pattern; GoNode.IdentMatcher_paths := paths |} ident exact
    = ident_match pattern ident exact.
Proof. exact ident_match_tie. Qed.
Print Assumptions C19_ident_matcher_is_the_go_code.

Theorem C19_name_matcher_is_the_go_code :
  forall sm dm pos src dst exact,
    GoNode.NameMatcher_Match {| GoNode.NameMatcher_src := sm; GoNode.NameMatcher_dst := dm; GoNode.NameMatcher_pos := pos |} src dst exact
    = ident_match (GoNode.IdentMatcher_pattern sm) src exact && ident_match (GoNode.IdentMatcher_pattern dm) dst exact.
Proof. exact name_matcher_tie. Qed.
Print Assumptions C19_name_matcher_is_the_go_code.

Theorem C19_converter_lookup_is_case_sensitive :
  forall c src dst,
    GoNode.FieldConverter_Match c src dst
    = str_eqb (GoNode.IdentMatcher_pattern (GoNode.NameMatcher_src (GoNode.FieldConverter_m c))) src
      && str_eqb (GoNode.IdentMatcher_pattern (GoNode.NameMatcher_dst (GoNode.FieldConverter_m c))) dst.
Proof. exact converter_match_tie. Qed.
Print Assumptions C19_converter_lookup_is_case_sensitive.

(** ... and the name comparison of the builder's name pass (Options.CompareFieldName, pkg/option/option.go,
    translated on every run) is that identifier comparison: [Builder.compare_field_name] is the same
    expression over the method's case rule. *)
Theorem C19_field_name_comparison_is_the_go_code :
  forall o a b,
    GoNode.Options_CompareFieldName o a b
    = if GoNode.Options_ExactCase o then str_eqb a b else str_equal_fold a b.
Proof. exact compare_field_name_tie. Qed.
Print Assumptions C19_field_name_comparison_is_the_go_code.
