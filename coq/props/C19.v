(** C19 — name and pattern matchers: equality, case folding, RE2 search, statelessness. *)
From Coq Require Import String.
From Cvg Require Import Base Re Unicode Matcher.
From Cvg.proofs Require Import MatcherProofs.
Open Scope N_scope.

(** :map / :conv / :literal paths (IdentMatcher): equality under the exact rule,
    Unicode simple-fold equality (strings.EqualFold) otherwise — for all byte strings. *)
Theorem C19_ident :
  forall p s ex, ident_match p s ex = true <-> (if ex then p = s else str_equal_fold p s = true).
Proof. exact ident_match_spec. Qed.
Print Assumptions C19_ident.

(** A matcher's answers over ANY query sequence alternating the case rule are
    those of a fresh matcher for (pattern, path, rule): no dependence on earlier
    queries. The one hypothesis is that parsing the pattern under the exact rule does
    not exhaust the parser's fuel (3 x (length + 2) steps; [PFuel] is a distinct
    outcome, never observed, counted out of model when it is): then prefixing
    "(?i)" changes neither validity nor the modelled fragment
    ([C19_validity_case_independent], by simulation of two parser runs that differ
    in flags and spare fuel), so recompiling on a rule change never yields nil. *)
Theorem C19_validity_case_independent :
  forall p, parse_re UT (pattern_expr p true) <> PFuel -> validity_case_independent p.
Proof. exact validity_is_case_independent. Qed.
Print Assumptions C19_validity_case_independent.

Theorem C19_stateless :
  forall p ex0 m qs,
    new_pmatcher p ex0 = Some m -> parse_re UT (pattern_expr p true) <> PFuel ->
    pm_answers m qs = List.map (fun q => pure_match p (fst q) (snd q)) qs.
Proof.
  intros p ex0 m qs H V. destruct (new_pmatcher_inv _ _ _ H) as [Hi <-].
  exact (pm_stateless m qs Hi (validity_is_case_independent _ V)).
Qed.
Print Assumptions C19_stateless.

(** What a fresh matcher answers: search of the parsed expression — "(?i)"
    prefixed when the rule is off, the expression otherwise untouched — in the
    path itself (no lower-casing of either). *)
Theorem C19_regexp_meaning :
  forall p s ex r,
    parse_re UT (pattern_expr p ex) = POk r ->
    pure_match p s ex = MBool (search UT r (decode s)).
Proof. intros p s ex r H. unfold pure_match, compile_pattern. now rewrite H. Qed.
Print Assumptions C19_regexp_meaning.

Theorem C19_expr_shape :
  forall p ex,
    pattern_expr p ex =
      (if ex then [] else s2b "(?i)") ++
      (if is_re_pattern p then firstn (List.length p - 2) (skipn 1 p) else [94] ++ quote_meta p ++ [36]).
Proof. intros p ex. unfold pattern_expr. destruct ex; reflexivity. Qed.
Print Assumptions C19_expr_shape.

(** Non-vacuity / sanity on concrete triples, including the shapes that failed before the repair. *)
Example C19_examples :
  pure_match (s2b "Name") (s2b "name") false = MBool true /\
  pure_match (s2b "Name") (s2b "name") true = MBool false /\
  pure_match (s2b "/^\S+$/") (s2b "ab") false = MBool true /\
  pure_match (s2b "/\PL/") (s2b "ab") false = MBool false /\
  pure_match (s2b "User.Name") (s2b "UserXName") true = MBool false /\
  validity_case_independent (s2b "/\pL/") /\
  parse_re UT (pattern_expr (s2b "/^(a|b)*\pL{2,3}[x-z]$/") true) <> PFuel.
Proof. vm_compute. repeat split; intros; discriminate. Qed.
