(** C07 — errors from user functions are returned, never swallowed or outrun. *)
From Coq Require Import String.
From Cvg Require Import Base GoTypes Dump Options Front Builder Gen Sem.
From Cvg.proofs Require Import BuilderProofs SemProofs.
From Cvg Require Import GoLib GoFuns.
From Cvg.proofs Require Import GenTieProofs.
Open Scope N_scope.

(** The emitted text is the doc lines, the header and the texts of the statement
    list [body_of f] — so statements about [body_of f] are statements about the
    generated function. *)
Theorem C07_text_is_the_statement_list :
  forall f, func_to_string f =
    concat_str (List.map (fun c => c ++ nl) (fn_comments f)) ++ func_header f ++ pp (body_of f) ++ s2b "}" ++ nl ++ nl.
Proof. exact func_to_string_is_pp. Qed.
Print Assumptions C07_text_is_the_statement_list.

(** Dynamic part. For every function record f, every assignment of errors to
    call sites [fails] and every call trace so far: executing the body from a
    nil err returns the error of the FIRST error-capable call (converter,
    error-returning getter, pre/post hook — top-level or inside member-wise
    blocks) that fails, with the trace ending at that very call (nothing is
    called after it); and if none fails the result is nil ([spec]). *)
Theorem C07_first_error_returned :
  forall (E : Type) (fails : site -> option E) f tr,
    exec E fails (body_of f) None tr = spec E fails (body_of f) tr.
Proof. intros E fails f tr. apply exec_is_spec. apply body_units. Qed.
Print Assumptions C07_first_error_returned.

(** Static part: a function without error result contains no error-returning
    assignment at any depth (CreateFunction rejects it), and a hook that returns
    an error is rejected in a method without error result. *)
Theorem C07_no_error_source_without_result :
  forall d fuel m comments f ev,
    create_function d fuel m comments = (Ok f, ev) -> fn_ret_err f = false ->
    find_error_assignment (fn_assignments f) = None.
Proof.
  intros d fuel m comments f ev H Hr. unfold create_function in H.
  destruct (sg_ptys (me_sig m)) as [|src_t arg_ts]; [discriminate|].
  destruct (sg_pnames (me_sig m)) as [|src_n arg_ns]; [discriminate|].
  destruct (sg_rtys (me_sig m)) as [|dst_t rts]; [discriminate|].
  destruct (sg_rnames (me_sig m)) as [|dst_n rns]; [discriminate|].
  repeat match type of H with
         | (if ?c then _ else _) = _ => destruct c; [discriminate|]
         | (match ?c with Some _ => _ | None => _ end) = _ => destruct c; [discriminate|]
         end.
  apply rbind_ok in H as (sv0 & e1 & e2 & _ & H & _).
  apply rbind_ok in H as (dv & e3 & e4 & _ & H & _).
  apply rbind_ok in H as (avs & e5 & e6 & _ & H & _).
  apply rbind_ok in H as (sv & e7 & e8 & _ & H & _).
  apply rbind_ok in H as (u0 & e70 & e80 & _ & H & _).
  apply rbind_ok in H as (asg & e9 & e10 & _ & H & _).
  apply rbind_ok in H as (u & e11 & e12 & Hu & H & _).
  apply rbind_ok in H as (pre & e13 & e14 & _ & H & _).
  apply rbind_ok in H as (post & e15 & e16 & _ & H & _).
  apply ret_ok in H as [<- _]. simpl in *. rewrite Hr in Hu.
  destruct (find_error_assignment asg); [discriminate|reflexivity].
Qed.
Print Assumptions C07_no_error_source_without_result.

Theorem C07_error_hook_needs_error_result :
  forall d m src_t dst_t arg_ts g ev,
    build_manipulator d (Some m) src_t dst_t arg_ts false = (Ok g, ev) -> mp_ret_err m = false.
Proof.
  intros d m src_t dst_t arg_ts g ev H. unfold build_manipulator in H.
  destruct (mp_ret_err m); [|reflexivity].
  destruct (negb (str_eqb _ []) && negb (mp_exported m)); discriminate.
Qed.
Print Assumptions C07_error_hook_needs_error_result.

(** Non-vacuity: two converters below one nested struct, the first fails. *)
Example C07_example :
  let l := [SAssignErr [1] (s2b "f(x)"); SIfErr [2]; SAssignErr [3] (s2b "g(x)"); SIfErr [4]; SReturn [5]] in
  let fails := fun s => if str_eqb s (s2b "f(x)") then Some 7 else None in
  exec N fails l None [] = Returned N (Some 7) [s2b "f(x)"].
Proof. vm_compute. reflexivity. Qed.

(** Tie to the source. [GoGen.FuncToString] is /repo's pkg/generator.FuncToString (with
    AssignmentToString, ManipulatorToString, the String()/RetError() methods of the
    assignment kinds, loopVars and Var.FullType), translated statement by statement into
    gen/GoFuns.v on every run; [lower_function] is the record the builder hands over.  The
    function text the theorems of this file speak about is therefore what the Go code
    computes, for every function record. *)
Theorem C07_text_is_what_the_go_code_prints :
  forall f, GoGen.FuncToString (lower_function f) = func_to_string f.
Proof. exact func_to_string_tie. Qed.
Print Assumptions C07_text_is_what_the_go_code_prints.
