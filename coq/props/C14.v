(** C14 — bad input yields a diagnostic and a non-zero exit, never a crash or hang.
    Proved here: the guarded panic sites are unreachable (nil regexp after a
    case-rule change), success never drops a method, every run of the model
    terminates by construction (structural recursion / fuel). The complete
    no-panic statement over the whole pipeline is tied to the code by the
    malformed-input correspondence stream, where the model predicts the
    implementation's outcome class (ok / error / panic) case by case. *)
From Coq Require Import String.
From Cvg Require Import Base GoTypes Re Unicode Matcher Dump Options Front Builder Gen Pipeline.
From Cvg.proofs Require Import BuilderProofs FrontProofs.
Open Scope N_scope.

(** PatternMatcher.Match never meets a nil regexp: over any list of matchers
    made by NewPatternMatcher, for any path and any case rule. *)
Theorem C14_no_nil_regexp :
  forall ms name ex, Forall pm_ok ms -> should_skip ms name ex <> MPanic.
Proof. exact should_skip_never_panics. Qed.
Print Assumptions C14_no_nil_regexp.

Theorem C14_matchers_are_ok :
  forall p ex m, new_pmatcher p ex = Some m -> pm_ok m.
Proof. exact new_pmatcher_ok. Qed.
Print Assumptions C14_matchers_are_ok.

(** Success never drops a method: when parseMethods succeeds every method of
    the interface has its entry, in order. *)
Theorem C14_no_silent_drop :
  forall d ms opts st res st' ev,
    parse_methods_loop d ms opts st [] false [] = (Ok res, st', ev) -> List.map me_decl res = ms.
Proof.
  intros d ms opts st res st' ev H.
  destruct (parse_methods_loop_all d ms _ _ _ _ _ _ _ _ H) as (_ & new & -> & Hm). exact Hm.
Qed.
Print Assumptions C14_no_silent_drop.

(** Termination: [run_pipeline] is a total Gallina function (every recursion is
    structural or on explicit fuel); running out of fuel is a distinct outcome. *)
Theorem C14_total : forall d, exists r, run_pipeline d = r.
Proof. intros d. eexists. reflexivity. Qed.
Print Assumptions C14_total.
