(** C14 — bad input yields a diagnostic and a non-zero exit, never a crash or hang.
    Proved here: the guarded panic sites are unreachable (nil regexp after a
    case-rule change), success never drops a method, every run of the model
    terminates by construction (structural recursion / fuel). The complete
    no-panic statement over the whole pipeline is [C14_no_panic]; it is tied to
    the code by the malformed-input correspondence stream, where the model
    predicts the implementation's outcome class (ok / error / panic) case by
    case, and its hypothesis [dump_wf_b] is reported by the model with every run
    and required to be true by the harness. *)
From Coq Require Import String.
From Cvg Require Import Base GoTypes Re Unicode Matcher Dump Options Front Builder Gen Pipeline.
From Cvg.proofs Require Import BuilderProofs FrontProofs NoPanicProofs FuelProofs.
From Cvg.gen Require FixtureDumps.
Open Scope N_scope.

(** The whole pipeline — findConvergenEntries, every notation parser, parseMethods,
    resolveConverters, CreateFunction with structToStruct at any depth, castNode,
    NewTypecast, sliceToSlice, buildManipulator — reaches no panic site, for every
    dump whose signatures carry one name slot per parameter and result (what
    go/types always provides): the run ends in Ok, Err, Fuel or Unsup.
    Proving this found two crashes of the pinned code (NewTypecast on a
    predeclared named type; the model's site is gone with the repair). *)
Theorem C14_no_panic :
  forall d, dump_wf_b d = true -> is_panic (po_result (run_pipeline d)) = false.
Proof. exact run_pipeline_never_panics. Qed.
Print Assumptions C14_no_panic.

(** ... nor does the model's recursion run out of fuel (the model's reading of "never hangs" for
    the member-wise descent of structToStruct, the only unbounded recursion of the pipeline):
    when by-value struct containment is well-founded — [rank_ok_b]: a rank computed from the
    environment decreases through every named type, which Go's rejection of invalid recursive
    types guarantees, and stays below [build_fuel] for every method's operands; computed by the
    model on every run and required to be true by the harness — the outcome is never Fuel.
    With C19_parser_fuel_suffices (the regexp parser) every fuelled recursion of the model is covered. *)
Theorem C14_no_fuel_exhaustion :
  forall d, rank_ok_b d = true -> is_fuel (po_result (run_pipeline d)) = false.
Proof. exact run_pipeline_never_out_of_fuel. Qed.
Print Assumptions C14_no_fuel_exhaustion.

(** Non-vacuity, on the repository's own fixtures (regenerated from /repo on every
    run): each decodes, satisfies the hypothesis, and the model runs it to Ok with
    at least one function — except the one without converter interface, which
    ends in Err. *)
Definition fixture_status (sx : sexp) : N * N :=
  match dec_dump sx with
  | None => (9, 0)
  | Some d =>
      if negb (dump_wf_b d && rank_ok_b d) then (8, 0) else
      match po_result (run_pipeline d) with
      | Ok bs => (1, N.of_nat (List.length (List.concat (List.map b_funcs bs))))
      | Err _ => (2, 0) | Panic _ => (3, 0) | Fuel => (4, 0) | Unsup _ => (5, 0)
      end
  end.
Example C14_fixtures_meet_hypothesis :
  forallb (fun p => let '(k, n) := fixture_status (snd p) in ((k =? 1) && (1 <=? n)) || (k =? 2)) FixtureDumps.fixtures = true
  /\ existsb (fun p => fst (fixture_status (snd p)) =? 2) FixtureDumps.fixtures = true
  /\ (10 <=? N.of_nat (List.length FixtureDumps.fixtures)) = true.
Proof. vm_compute. repeat split. Qed.

(** PatternMatcher.Match never meets a nil regexp: over any list of matchers
    made by NewPatternMatcher, for any path and any case rule. *)
Theorem C14_no_nil_regexp :
  forall ms name ex, Forall pm_ok ms -> should_skip ms name ex <> MPanic.
Proof. exact should_skip_never_panics. Qed.
Print Assumptions C14_no_nil_regexp.

Theorem C14_matchers_are_ok :
  forall p ex m, new_pmatcher p ex = Some m -> pm_ok m.
Proof. exact new_pmatcher_ok. Qed.
Print Assumptions C14_matchers_are_ok.

(** Success never drops a method: when parseMethods succeeds every method of
    the interface has its entry, in order. *)
Theorem C14_no_silent_drop :
  forall d ms opts st res st' ev,
    parse_methods_loop d ms opts st [] false [] = (Ok res, st', ev) -> List.map me_decl res = ms.
Proof.
  intros d ms opts st res st' ev H.
  destruct (parse_methods_loop_all d ms _ _ _ _ _ _ _ _ H) as (_ & new & -> & Hm). exact Hm.
Qed.
Print Assumptions C14_no_silent_drop.

(** Termination: [run_pipeline] is a total Gallina function (every recursion is
    structural or on explicit fuel); running out of fuel is a distinct outcome. *)
Theorem C14_total : forall d, exists r, run_pipeline d = r.
Proof. intros d. eexists. reflexivity. Qed.
Print Assumptions C14_total.
