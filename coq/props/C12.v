(** C12 — regeneration ignores whatever is already at the output path. *)
From stdpp Require Import gmap.
From Cvg Require Import Base Cli Run.
From Cvg.proofs Require Import CliProofs RunProofs.

(** Hypothesis made explicit by the type of [gen]: the loader/pipeline oracle is
    applied to the file system *with the output path deleted* (Run.run). That is
    what parser.NewParser's ParseFile hook implements; the part of `go list`
    that still opens the stale file is runtime behaviour exercised by the
    correspondence runs only (DESIGN.md, C12). *)

(** Whatever bytes [x] the output path holds, exit status, stdout and the bytes
    written are those of the run on an empty path. *)
Theorem C12_out_irrelevant :
  forall gen can_write (c : config) (f : fs) (x : list N),
    snd (run gen can_write c (<[c_output c := x]> f)) = snd (run gen can_write c (delete (c_output c) f)).
Proof. exact run_output_irrelevant. Qed.
Print Assumptions C12_out_irrelevant.

(** Running twice in a row changes nothing (log-less configuration). *)
Theorem C12_idempotent :
  forall gen can_write (c : config) (f : fs),
    c_log c = [] ->
    fst (run gen can_write c (fst (run gen can_write c f))) = fst (run gen can_write c f) /\
    snd (run gen can_write c (fst (run gen can_write c f))) = snd (run gen can_write c f).
Proof. exact run_idempotent. Qed.
Print Assumptions C12_idempotent.

(** An interrupted or corrupted output (any bytes [x]) is repaired by running again. *)
Theorem C12_repair :
  forall gen can_write (c : config) (f : fs) (x : list N),
    c_log c = [] -> c_dry c = false ->
    r_status (snd (run gen can_write c f)) = 0%N ->
    fst (run gen can_write c (<[c_output c := x]> (fst (run gen can_write c f)))) = fst (run gen can_write c f).
Proof. exact run_repairs. Qed.
Print Assumptions C12_repair.

(** Over any history of hand edits (sources, output path, anything) and runs,
    every successful run leaves gen(current sources) at the output path. *)
Theorem C12_history :
  forall gen can_write (c : config) (steps : list step) (f : fs),
    c_log c = [] -> c_dry c = false ->
    let f' := fold_left (do_step gen can_write) steps f in
    r_status (snd (run gen can_write c f')) = 0%N ->
    out_consistent gen c (fst (run gen can_write c f')).
Proof. exact history_invariant. Qed.
Print Assumptions C12_history.

Example C12_example :
  let c := {| c_input := [1]; c_output := [2]; c_log := []; c_dry := false; c_prints := false |} in
  let gen := fun (f : fs) (_ _ : path) => match f !! [1] with Some b => GenCode (b ++ b) | None => GenFail end in
  let f : fs := <[[1] := [7]]> (<[[2] := [66; 66]]> ∅) in
  let r := run gen (fun _ => true) c f in
  r_status (snd r) = 0%N /\ fst r !! [2] = Some [7; 7].
Proof. vm_compute. repeat split. Qed.
