(** C11 — the rest of the setup file is carried over intact. *)
From Coq Require Import String.
From Cvg Require Import Base GoTypes Re Unicode Matcher Dump Options Front Builder Gen Pipeline BaseCode.
From Cvg.gen Require Extracted.
From Cvg.proofs Require Import BuilderProofs BaseCodeProofs CutProofs.
Open Scope N_scope.

(** The only comments GenerateBaseCode removes from the file are those the
    directive regexp (taken from the source by the translator) recognises; every
    other comment of every group is kept, in order. *)
Theorem C11_only_directives_removed :
  forall gs c, In c (List.concat (remove_directives gs)) <-> In c (List.concat gs) /\ is_build_or_generate (c_text c) = false.
Proof. exact remove_directives_comment. Qed.
Print Assumptions C11_only_directives_removed.

(** The directive spellings of the property are recognised ... *)
Theorem C11_directives_recognised :
  is_build_or_generate (s2b "//go:build convergen") = true /\
  is_build_or_generate (s2b "// +build convergen") = true /\
  is_build_or_generate (s2b "//go:generate go run github.com/reedom/convergen@v0.7.0") = true /\
  is_build_or_generate (s2b "//go:build convergen && linux") = true /\
  is_build_or_generate (s2b "// Package pk is documented.") = false.
Proof. exact directive_recognised. Qed.
Print Assumptions C11_directives_recognised.

(** ... but not every build-constraint spelling: the full statement ("the
    convergen build constraint is absent from the output") is refuted by a
    compound constraint naming convergen second (known finding). *)
Theorem C11_no_constraint_left_refuted :
  exists t, is_prefix (s2b "//go:build") t = true /\ occurs (s2b "convergen") t = true /\ is_build_or_generate t = false.
Proof. exists (s2b "//go:build linux && convergen"). vm_compute. repeat split. Qed.
Print Assumptions C11_no_constraint_left_refuted.

(** The doc comment of a generated function holds no notation line: after the
    method's notations have been extracted, every comment left in its doc group
    is a non-notation comment of the original group. *)
Theorem C11_function_doc_has_no_notation :
  forall st node gi nots st',
    extract_notations st (Some (node, gi)) = (nots, st') ->
    (N.to_nat gi < List.length (st_groups st))%nat ->
    forall c, In c (group_of st' gi) -> is_notation c = false /\ In c (group_of st gi).
Proof. exact extract_notations_no_notation_left. Qed.
Print Assumptions C11_function_doc_has_no_notation.

(** In place: generateContent replaces the first occurrence of an interface's
    marker by its functions, leaving everything before and after as printed. *)
Theorem C11_functions_replace_marker_in_place :
  forall m text pre post,
    m <> [] ->
    (forall k, (k < List.length pre)%nat -> is_prefix m (skipn k (pre ++ m ++ post)) = false) ->
    replace_first m text (pre ++ m ++ post) = pre ++ text ++ post.
Proof. exact replace_first_spec. Qed.
Print Assumptions C11_functions_replace_marker_in_place.

(** The cut (the regexp .+M.*(\n|.)*?M replaced by M) and the replacement together: in a
    printed text where the marker M occurs exactly twice — after a non-empty line start L
    ("type X ") and after anything X (the rest of the interface, on the same line or on any
    number of lines) — everything from the start of that line through the second marker is
    replaced by the functions; every byte before ([pre], which ends a line or is empty) and
    after ([post]) is kept. *)
Theorem C11_interface_replaced_in_place :
  forall m pre L X post fn,
    m <> [] -> no_nl m -> L <> [] -> no_nl L ->
    (pre = [] \/ exists p, pre = p ++ [10]) ->
    (forall k, occ m (pre ++ L ++ m ++ X ++ m ++ post) k = true ->
               k = (List.length pre + List.length L)%nat \/
               k = (List.length pre + (List.length L + List.length m + List.length X))%nat) ->
    replace_first m fn (cut m (pre ++ L ++ m ++ X ++ m ++ post)) = pre ++ fn ++ post.
Proof. exact assemble_single_interface. Qed.
Print Assumptions C11_interface_replaced_in_place.

(** The output starts with the generated-code header of the source. *)
Theorem C11_header :
  forall printed blocks, is_prefix Extracted.header_literal (assemble_texts printed blocks) = true.
Proof. intros. unfold assemble_texts. apply is_prefix_app. Qed.
Print Assumptions C11_header.
(** go/printer (between marker insertion and the cut), goimports and gofmt are
    oracles: the whole output file is reproduced byte for byte from this model
    plus those three on every generated layout (correspondence of check C11). *)
