(** C10 — pre/post hooks run once, in order, on the real operands. *)
From Coq Require Import String.
From Cvg Require Import Base GoTypes Dump Options Front Builder Gen Sem.
From Cvg.proofs Require Import BuilderProofs SemProofs.
From Cvg Require Import GoLib GoFuns.
From Cvg.proofs Require Import GenTieProofs.
Open Scope N_scope.

(** Placement: the body is  [dst = &T{}]  preprocess  assignments  postprocess  return. *)
Theorem C10_body_shape :
  forall f, body_of f = init_stmts f ++ hook_stmts f (fn_pre f) ++
              List.concat (List.map (astmts f) (fn_assignments f)) ++ hook_stmts f (fn_post f) ++ final_stmts f.
Proof. exact body_shape. Qed.
Print Assumptions C10_body_shape.

(** Each hook is one call site of the body: the preprocess hook is the first
    call, the postprocess hook the last, everything else lies between them. *)
Theorem C10_hook_sites :
  forall f, sites (body_of f) =
    (match fn_pre f with Some m => [hook_site m] | None => [] end) ++
    sites (List.concat (List.map (astmts f) (fn_assignments f))) ++
    (match fn_post f with Some m => [hook_site m] | None => [] end).
Proof. exact body_sites. Qed.
Print Assumptions C10_hook_sites.

(** When no user function fails, executing the body returns nil and its call
    trace is exactly [sites (body_of f)]: preprocess, the assignments' calls,
    postprocess — each hook exactly once, in that order. *)
Theorem C10_trace_without_failure :
  forall (E : Type) (fails : site -> option E) f,
    (forall s, In s (sites (body_of f)) -> fails s = None) ->
    exec E fails (body_of f) None [] = Returned E None (sites (body_of f)).
Proof. exact exec_without_failure. Qed.
Print Assumptions C10_trace_without_failure.

(** Adaptation: the destination argument printed for a hook (&v, *v or v) has the
    pointer-ness the hook declares, for all four combinations; in arg style the
    function's destination variable is a pointer whatever the method declared
    ([hook_dst]); likewise for the source. *)
Theorem C10_adaptation :
  forall var_ptr want_ptr, adapted_ptr var_ptr want_ptr = want_ptr.
Proof. exact adaptation_correct. Qed.
Print Assumptions C10_adaptation.

Theorem C10_arg_style_destination_is_pointer :
  forall f, str_eqb (fn_style f) style_arg = true -> v_pointer (hook_dst f) = true.
Proof. intros f H. unfold hook_dst. now rewrite H. Qed.
Print Assumptions C10_arg_style_destination_is_pointer.

(** Rejection at generation time: a hook whose operand types do not fit, or that
    returns an error in a method without error result, makes buildManipulator fail. *)
Theorem C10_misfit_rejected :
  forall d m src_t dst_t arg_ts ret_err g ev,
    build_manipulator d (Some m) src_t dst_t arg_ts ret_err = (Ok g, ev) ->
    (mp_ret_err m = true -> ret_err = true) /\
    assignable (d_env d) (deref_ptr (mp_dst m)) (deref_ptr dst_t) = true /\
    assignable (d_env d) (deref_ptr (mp_src m)) (deref_ptr src_t) = true.
Proof.
  intros d m src_t dst_t arg_ts ret_err g ev H. unfold build_manipulator in H.
  destruct (negb (str_eqb _ []) && negb (mp_exported m)); [discriminate|].
  destruct (mp_ret_err m && negb ret_err) eqn:E1; [discriminate|].
  destruct (negb (assignable (d_env d) (deref_ptr (mp_dst m)) (deref_ptr dst_t))) eqn:E2; [discriminate|].
  destruct (negb (assignable (d_env d) (deref_ptr (mp_src m)) (deref_ptr src_t))) eqn:E3; [discriminate|].
  split; [|split].
  - intros Hm. rewrite Hm in E1. simpl in E1. now destruct ret_err.
  - now apply negb_false_iff in E2.
  - now apply negb_false_iff in E3.
Qed.
Print Assumptions C10_misfit_rejected.

(** Tie to the source. [GoGen.FuncToString] is /repo's pkg/generator.FuncToString (with
    AssignmentToString, ManipulatorToString, the String()/RetError() methods of the
    assignment kinds, loopVars and Var.FullType), translated statement by statement into
    gen/GoFuns.v on every run; [lower_function] is the record the builder hands over.  The
    function text the theorems of this file speak about is therefore what the Go code
    computes, for every function record. *)
Theorem C10_text_is_what_the_go_code_prints :
  forall f, GoGen.FuncToString (lower_function f) = func_to_string f.
Proof. exact func_to_string_tie. Qed.
Print Assumptions C10_text_is_what_the_go_code_prints.
