(** C05 — every reachable destination field is accounted for exactly once. *)
From Coq Require Import String.
From Cvg Require Import Base GoTypes Dump Options Front Builder.
From Cvg.proofs Require Import BuilderProofs PartitionProofs WarnProofs.
Open Scope N_scope.

(** The partition theorem. For every dump, options, fuel, destination struct
    node L, source node R and additional arguments: the entries structToStruct
    returns cover L's field list in order ([covers], PartitionProofs.v):
    an inaccessible field has no entry; an accessible field has exactly one
    entry — an assignment / skip / no-match on the field itself, or a non-empty
    member-wise block that in turn covers the field's own struct type — except
    a by-value struct field below which there is no leaf at all (all accessible
    members are, recursively, such structs): that one is dropped (known finding
    C05-empty-nested-dropped; [CvLeafless] makes the exception explicit). *)
Theorem C05_partition :
  forall d o mpos fuel L R args l ev,
    struct_to_struct d o mpos fuel L R args = (Ok l, ev) -> covers d L (field_nodes d L) l.
Proof. exact struct_to_struct_covers. Qed.
Print Assumptions C05_partition.

(** No field is written twice at one level, none is invented: there are at most
    as many entries as fields, and the subject of every leaf entry is an
    accessible field of L. *)
Theorem C05_no_more_entries_than_fields :
  forall d L fs l, covers d L fs l -> (List.length l <= List.length fs)%nat.
Proof. exact covers_length. Qed.
Print Assumptions C05_no_more_entries_than_fields.

Theorem C05_invisible_never_mentioned :
  forall d L fs l, covers d L fs l ->
  forall a n, In a l -> subject a = Some n -> In n fs /\ is_field_accessible d L (obj_name n) = true.
Proof. exact covers_subjects. Qed.
Print Assumptions C05_invisible_never_mentioned.
(** [is_field_accessible] is the code's own notion (isStructFieldAccessible): it
    treats anonymous struct types as always accessible, so members of an
    anonymous struct nested in an imported type are "accessible" here although
    Go hides the unexported ones: known finding C05-anon-struct-imported. *)

(** Every field reported `no match` — at any nesting depth of the returned entries — has its
    warning among the events of the run: a stderr line "<line>:<col>: no assignment for
    <path> [<type>]" positioned at the method or at the notation that addressed the field. *)
Theorem C05_every_no_match_has_a_positioned_warning :
  forall d o mpos fuel L R args l ev,
    struct_to_struct d o mpos fuel L R args = (Ok l, ev) ->
    forall n, In n (nomatches_list l) ->
    exists pos tn,
      In (EvStderr (pos_str pos ++ s2b ": " ++ s2b "no assignment for " ++ assign_expr n ++ s2b " [" ++ tn ++ s2b "]")) ev.
Proof.
  intros d o mpos fuel L R args l ev H n Hn.
  destruct (struct_to_struct_warned d o mpos fuel L R args l ev H n Hn) as (e & He & pos & tn & ->).
  exists pos, tn. exact He.
Qed.
Print Assumptions C05_every_no_match_has_a_positioned_warning.
