(** C16 — slice fields are copied into fresh storage, nil stays nil.
    Static part proved here: which block sliceToSlice chooses and when an
    element conversion is allowed. The emitted blocks (`if src != nil { dst =
    make(T, len(src)); copy / for-range }`) allocate with make and never assign
    in the nil branch; their run-time behaviour (fresh backing array, same
    length, element-wise equal, nil stays nil) is checked by executing every
    generated function of the slice-biased stream on nil / empty / non-empty
    slices (harness check C16). *)
From Coq Require Import String.
From Cvg Require Import Base GoTypes Dump Options Front Builder Gen ValSem.
From Cvg.proofs Require Import BuilderProofs ValSemProofs.
From Cvg Require Import GoLib GoFuns.
From Cvg.proofs Require Import GenTieProofs.
From Cvg.proofs Require Import UtilTieProofs.
Open Scope N_scope.

(** copy() only between identical basic element types; a plain element loop when
    the source element is assignable; a converting loop only with :typecast and
    only between convertible element types; nothing else. *)
Theorem C16_block_choice :
  forall d o lhs rhs a ev,
    slice_to_slice d o lhs rhs = (Ok (Some a), ev) ->
    exists le re, slice_elem (expr_type lhs) = Some le /\ slice_elem (expr_type rhs) = Some re /\
      ((exists t, a = ASlice lhs rhs t /\ assignable (d_env d) re le = true /\ is_basic re = true /\ identical false le re = true) \/
       (exists t, a = ASliceLoop lhs rhs t /\ assignable (d_env d) re le = true) \/
       (exists t c, a = ASliceCast lhs rhs t c /\ o_typecast o = true /\ convertible (d_env d) re le = true /\
                    assignable (d_env d) re le = false)).
Proof.
  intros d o lhs rhs a ev. unfold slice_to_slice.
  destruct (slice_elem (expr_type lhs)) as [le|]; [|intros H; apply ret_ok in H as [H _]; discriminate].
  destruct (slice_elem (expr_type rhs)) as [re|]; [|intros H; apply ret_ok in H as [H _]; discriminate].
  intros H. exists le, re. split; [reflexivity|]. split; [reflexivity|].
  destruct (assignable (d_env d) re le) eqn:Ea.
  - destruct (is_basic re && identical false le re) eqn:Eb.
    + apply ret_ok in H as [H _]. injection H as <-. apply andb_true_iff in Eb as [Eb1 Eb2]. left. eauto.
    + apply rbind_ok in H as (tn & e1 & e2 & _ & H & _). apply ret_ok in H as [H _]. injection H as <-. right. left. eauto.
  - destruct (o_typecast o && convertible (d_env d) re le) eqn:Et.
    + apply rbind_ok in H as (tn & e1 & e2 & _ & H & _). apply ret_ok in H as [H _]. injection H as <-.
      apply andb_true_iff in Et as [Et1 Et2]. right. right. eauto 8.
    + apply ret_ok in H as [H _]. discriminate.
Qed.
Print Assumptions C16_block_choice.

(** every slice block starts with the nil guard and allocates with make: the text printed for it *)
Theorem C16_block_text :
  forall l r t, assignment_string (ASlice l r t) =
    s2b "if " ++ assign_expr r ++ s2b " != nil {" ++ nl ++
    assign_expr l ++ s2b " = make(" ++ t ++ s2b ", len(" ++ assign_expr r ++ s2b "))" ++ nl ++
    s2b "copy(" ++ assign_expr l ++ s2b ", " ++ assign_expr r ++ s2b ")" ++ nl ++ s2b "}" ++ nl.
Proof. reflexivity. Qed.
Print Assumptions C16_block_text.

(** Dynamic part, in the value semantics of ValSem.v: executing a slice block
    on a non-nil source stores a slice whose backing address is the allocation
    counter's next value (fresh: no earlier object has it), with the source's
    elements in order (same length); on a nil source the state is left exactly
    as it was (the destination field keeps its previous value, the counter does
    not move). *)
Theorem C16_block_semantics :
  forall ev conv l r t d next,
    (exists w, read d (node_path l) = Some w) ->
    match ev (RNode r) with
    | VSlice _ es =>
        read (fst (exec_a ev conv (ASliceLoop l r t) (d, next))) (node_path l) = Some (VSlice next es) /\
        snd (exec_a ev conv (ASliceLoop l r t) (d, next)) = next + 1
    | _ => exec_a ev conv (ASliceLoop l r t) (d, next) = (d, next)
    end.
Proof. exact slice_block. Qed.
Print Assumptions C16_block_semantics.

(** Tie to the source. [GoGen.FuncToString] is /repo's pkg/generator.FuncToString (with
    AssignmentToString, ManipulatorToString, the String()/RetError() methods of the
    assignment kinds, loopVars and Var.FullType), translated statement by statement into
    gen/GoFuns.v on every run; [lower_function] is the record the builder hands over.  The
    function text the theorems of this file speak about is therefore what the Go code
    computes, for every function record. *)
Theorem C16_text_is_what_the_go_code_prints :
  forall f, GoGen.FuncToString (lower_function f) = func_to_string f.
Proof. exact func_to_string_tie. Qed.
Print Assumptions C16_text_is_what_the_go_code_prints.

(** Tie to the source: what makes a field a slice field (util.IsSliceType: the type itself, not its underlying type). [GoUtil.IsSliceType] etc. are /repo's pkg/util/types.go
    translated on every run (a type assertion to a class of go/types is the recogniser of the model's
    constructor); the model's predicates are proved equal to them. *)
Theorem C16_type_predicates_are_the_go_code :
  forall t,
    GoUtil.IsSliceType t = is_slice t /\ GoUtil.IsBasicType t = is_basic t /\ GoUtil.IsNamedType t = is_named t /\
    GoUtil.IsPtr t = is_ptr t /\ GoUtil.DerefPtr t = deref_ptr t /\ GoUtil.Deref t = (deref_ptr t, is_ptr t).
Proof.
  intros t.
  exact (conj (is_slice_tie t) (conj (is_basic_tie t) (conj (is_named_tie t) (conj (is_ptr_tie t) (conj (deref_ptr_tie t) (deref_tie t)))))).
Qed.
Print Assumptions C16_type_predicates_are_the_go_code.
