(** C06 — explicit notations (:skip, :map, :conv, :literal, $n) are honoured as written. *)
From Coq Require Import String.
From Cvg Require Import Base GoTypes Re Unicode Matcher Dump Options Front Builder.
From Cvg.proofs Require Import TypedProofs BuilderProofs.
From Cvg Require Import GoLib GoFuns.
From Cvg.proofs Require Import NodeTieProofs.
Open Scope N_scope.

(** A destination field whose path matches a :skip pattern under the method's
    case rule yields `// skip:` and nothing else, whatever :conv/:map/:literal
    notations or same-named source members exist. *)
Theorem C06_skip_wins :
  forall d o mpos fuel lhs rhs args,
    should_skip (o_skip o) (matcher_expr lhs) (o_exact o) = MBool true ->
    match_field d o mpos fuel lhs rhs args = ret (Some (ASkip lhs)).
Proof. intros. eapply match_field_skip; eauto. Qed.
Print Assumptions C06_skip_wins.

(** Otherwise the first :conv naming the path decides: the field takes the
    converter's result (possibly through an opted-in String()/conversion) — the
    converter applied to the source path resolved from the root operand, which yields
    no error of its own, fitted to the parameter type, and addressable where it is
    passed as &arg — or is reported `no match` — never the default name match. The path comparison is
    case-sensitive whatever the case rule (ident_match _ _ true). *)
Theorem C06_conv_honoured :
  forall d o mpos fuel lhs rhs args c a ev,
    should_skip (o_skip o) (matcher_expr lhs) (o_exact o) = MBool false ->
    find (fun c => ident_match (fc_dst c) (matcher_expr lhs) true) (o_conv o) = Some c ->
    match_field d o mpos fuel lhs rhs args = (Ok a, ev) ->
    a = Some (ANoMatch lhs) \/
    exists src arg n,
      resolve_expr d (fc_src c) (node_root rhs) = Some src /\ returns_error src = false /\
      conv_arg_ok d o c src arg /\
      a = Some (ASimple lhs (RNode n) (fc_err c)) /\ cast_shape d o (NConv arg c) (expr_type lhs) n.
Proof.
  intros d o mpos fuel lhs rhs args c a ev Hs Hc H.
  rewrite (match_field_conv d o mpos fuel lhs rhs args c Hs Hc) in H.
  apply rbind_ok in H as (a0 & e1 & e2 & H0 & H & _). apply ret_ok in H as [<- _].
  destruct (create_with_converter_shape d o mpos _ _ _ _ _ H0) as [->|(src & arg & n & Hr & He & Ha & -> & Hn)]; [now left|right].
  exists src, arg, n. auto.
Qed.
Print Assumptions C06_conv_honoured.

(** :map (no :conv on the path): the value comes from exactly the mapped source path, resolved from the root source operand. *)
Theorem C06_map_honoured :
  forall d o mpos fuel lhs rhs args m a ev,
    should_skip (o_skip o) (matcher_expr lhs) (o_exact o) = MBool false ->
    find (fun c => ident_match (fc_dst c) (matcher_expr lhs) true) (o_conv o) = None ->
    find (fun m => ident_match (nm_dst m) (matcher_expr lhs) true) (o_map o) = Some m ->
    match_field d o mpos fuel lhs rhs args = (Ok a, ev) ->
    a = Some (ANoMatch lhs) \/
    exists src n, resolve_expr d (nm_src m) (node_root rhs) = Some src /\
                  a = Some (ASimple lhs (RNode n) (returns_error n)) /\ cast_shape d o src (expr_type lhs) n.
Proof.
  intros d o mpos fuel lhs rhs args m a ev Hs Hc Hm H.
  rewrite (match_field_map d o mpos fuel lhs rhs args m Hs Hc Hm) in H.
  apply rbind_ok in H as (a0 & e1 & e2 & H0 & H & _). apply ret_ok in H as [<- _].
  destruct (create_with_mapper_shape d o mpos _ _ _ _ _ H0) as [->|(src & n & Hr & -> & Hn)]; [now left|right; eauto].
Qed.
Print Assumptions C06_map_honoured.

(** :literal (no :conv/:map/$map on the path): exactly the literal text. *)
Theorem C06_literal_honoured :
  forall d o mpos fuel lhs rhs args l,
    should_skip (o_skip o) (matcher_expr lhs) (o_exact o) = MBool false ->
    find (fun c => ident_match (fc_dst c) (matcher_expr lhs) true) (o_conv o) = None ->
    find (fun m => ident_match (nm_dst m) (matcher_expr lhs) true) (o_map o) = None ->
    find (fun m => ident_match (nm_dst m) (matcher_expr lhs) true) (o_tmap o) = None ->
    find (fun l => ident_match (ls_dst l) (matcher_expr lhs) true) (o_lit o) = Some l ->
    match_field d o mpos fuel lhs rhs args = ret (Some (ASimple lhs (RLiteral (ls_literal l)) false)).
Proof. intros. eapply match_field_literal; eauto. Qed.
Print Assumptions C06_literal_honoured.

(** What these theorems do NOT give (and the code does not do): a notation on a
    nested path X.A is consulted only if match_field is reached for X.A, i.e.
    only when the enclosing field X is descended member by member. When X is
    assignable as a whole, dst.X = src.X is emitted and X.A is written through
    it: known findings C06-notation-under-enclosing-copy / C06-skip-under-enclosing-copy,
    witnessed by the correspondence runs (DESIGN.md section 7, #17). *)

(** Globally: the entries structToStruct returns are, accessible field by accessible field and in
    field order, exactly the answers of the precedence chain ([match_field]) for those fields —
    so the four theorems above hold for every field that gets an entry of its own. (A notation
    on a nested path is consulted when its enclosing field is copied member by member; when the
    enclosing field is assigned as a whole it is not: known findings C06-*-under-enclosing-copy.) *)
Theorem C06_every_field_decided_by_the_precedence_chain :
  forall d o mpos fuel L R args l ev,
    struct_to_struct d o mpos (S fuel) L R args = (Ok l, ev) ->
    exists rs, Forall2 (fun lf r => exists e, match_field d o mpos fuel lf R args = (Ok r, e))
                 (List.filter (fun f => is_field_accessible d L (obj_name f)) (field_nodes d L)) rs /\
               l = flat_map opt_list rs.
Proof. exact struct_to_struct_decided. Qed.
Print Assumptions C06_every_field_decided_by_the_precedence_chain.

(** Tie to the source. The destination and source paths that :skip patterns and the
    destinations of :map / :conv / :literal are compared with ([matcher_expr]), and the member
    names ([obj_name]), are what /repo's Node.MatcherExpr() and Node.ObjName() compute
    (pkg/builder/model node.go, struct.go translated into gen/GoFuns.v on every run). *)
Theorem C06_paths_are_what_the_go_code_computes :
  forall mo n,
    GoNode.Node_MatcherExpr (lower_node mo n) = matcher_expr n /\
    GoNode.Node_ObjName (lower_node mo n) = obj_name n.
Proof. intros mo n. split; [apply matcher_expr_tie|apply obj_name_tie]. Qed.
Print Assumptions C06_paths_are_what_the_go_code_computes.
