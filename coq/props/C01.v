(** C01 — every successfully generated file is valid Go that compiles in its package.
    Static part proved here: the typing side-conditions of every emitted
    assignment built by castNode; layout of the parameter list. The remaining
    obligations (selectors visible, identifiers not captured, the carried-over
    declarations, gofmt) are decided on every run by type-checking the real
    output of the generated stream (go build + gofmt -l). *)
From Coq Require Import String.
From Cvg Require Import Base GoTypes Dump Options Front Builder Gen.
From Cvg.proofs Require Import BuilderProofs MatchProofs TypedProofs.
From Cvg Require Import GoLib GoFuns.
From Cvg.proofs Require Import GenTieProofs HeaderProofs NodeTieProofs.
Open Scope N_scope.

(** Every expression castNode lets through for a target type t is assignable to
    t as it stands, or is a String() call (a string assignable to t, on a type
    that has String() string), or an explicit conversion between convertible
    types whose result type is t. *)
Theorem C01_cast_typed :
  forall d o mpos t r n ev,
    cast_node d o mpos t r = (Ok (Some n), ev) ->
    (n = r /\ assignable (d_env d) (expr_type r) t = true) \/
    (n = NStringer r /\ assignable (d_env d) (expr_type n) t = true /\ complies_stringer (d_env d) (expr_type r) = true) \/
    (exists e, n = NCast r t e /\ expr_type n = t /\ convertible (d_env d) (expr_type r) t = true).
Proof.
  intros d o mpos t r n ev H. destruct (cast_node_shape d o mpos t r n ev H) as [Ha|He Hs Ha Hc|e He Ht Hc].
  - left. auto.
  - right. left. auto.
  - right. right. exists e. auto.
Qed.
Print Assumptions C01_cast_typed.

(** "error result with nowhere to go": a call that also yields an error is never
    wrapped in a String() call or a conversion — it is used as it stands or not at all. *)
Theorem C01_two_valued_call_never_wrapped :
  forall d o mpos t r n ev,
    cast_node d o mpos t r = (Ok (Some n), ev) -> returns_error r = true -> n = r.
Proof.
  intros d o mpos t r n ev H Hr. destruct (cast_node_shape d o mpos t r n ev H) as [Ha|He Hs Ha Hc|e He Ht Hc];
    [reflexivity|congruence|congruence].
Qed.
Print Assumptions C01_two_valued_call_never_wrapped.

(** "non-addressable operand": the argument of a :conv converter is the source path
    resolved from the root operand, yields no error of its own, and where it is fitted
    to the pointed-to type of a pointer parameter (and so written &arg) it is a pointer
    already or an addressable expression: a variable or a field chain through
    addressable structs or pointers, never a call or a conversion.
    Partial: a source of a defined pointer type (type P *T) that is assignable to the
    parameter type *T as it stands is outside [addressable]'s reach (not generated). *)
Theorem C01_converter_argument_partial :
  forall d o mpos lhs rhs c a ev,
    create_with_converter d o mpos lhs rhs c = (Ok a, ev) ->
    a = ANoMatch lhs \/
    exists src arg n, resolve_expr d (fc_src c) (node_root rhs) = Some src /\ returns_error src = false /\
      conv_arg_ok d o c src arg /\ a = ASimple lhs (RNode n) (fc_err c) /\ cast_shape d o (NConv arg c) (expr_type lhs) n.
Proof. exact create_with_converter_shape. Qed.
Print Assumptions C01_converter_argument_partial.

Example C01_addressable_examples :
  let src := NRoot (s2b "src") (TPtr [] (TNamed 0)) in
  let f := Field (s2b "B") [] true false [] (TBasic 2 (s2b "int")) in
  let g := Sig [] [] [[]] [TBasic 2 (s2b "int")] false in
  addressable (NField src f) = true /\
  addressable (NMethod src (s2b "C") g) = false /\
  addressable (NCast (NField src f) (TBasic 6 (s2b "int64")) (s2b "int64")) = false.
Proof. repeat split. Qed.

(** The same, for the whole result: EVERY entry structToStruct returns — at any nesting depth,
    whichever notation or default rule produced it — is a skip or no-match comment, the literal
    the user wrote, an expression castNode fitted to the assigned field's type in one of the
    three ways above, a member-wise block of such entries, or a slice block between element
    types that are identical and basic (copy), assignable (loop) or, under :typecast,
    convertible (converting loop). *)
Theorem C01_every_entry_is_typed :
  forall d o mpos fuel L R args l ev,
    struct_to_struct d o mpos fuel L R args = (Ok l, ev) -> Forall (typed_entry d o) l.
Proof. exact struct_to_struct_typed. Qed.
Print Assumptions C01_every_entry_is_typed.

(** The parameter list is a comma-joined list of non-empty "name type" items: no empty slot. *)
Theorem C01_params_nonempty_items :
  forall f p, In p (func_params f) -> exists name ty, p = name ++ [32] ++ ty \/ p = name ++ s2b " *" ++ ty.
Proof.
  intros f p. unfold func_params. rewrite !in_app_iff. intros [H|[H|H]].
  - destruct (str_eqb (fn_style f) style_arg); [|destruct H]. destruct H as [<-|[]]. eauto.
  - destruct (fn_receiver f); [|destruct H]. destruct H as [<-|[]]. eauto.
  - apply in_map_iff in H as (a & <- & _). eauto.
Qed.
Print Assumptions C01_params_nonempty_items.

(** Identifier capture: the index and element variables of a slice copy loop differ from
    the variable the assigned expression starts with, whatever the user called it. *)
Theorem C01_loop_variables_do_not_capture :
  forall lhs, fst (loop_vars lhs) <> until_dot lhs /\ snd (loop_vars lhs) <> until_dot lhs.
Proof.
  intros lhs. unfold loop_vars.
  destruct (str_eqb (until_dot lhs) (s2b "i")) eqn:Ei; destruct (str_eqb (until_dot lhs) (s2b "e")) eqn:Ee; cbn [fst snd];
    try (apply str_eqb_eq in Ei; rewrite Ei); try (apply str_eqb_eq in Ee; rewrite Ee); split; try discriminate.
  all: intros H; rewrite <- H in *; vm_compute in Ei, Ee; discriminate.
Qed.
Print Assumptions C01_loop_variables_do_not_capture.

(** Tie to the source. [GoGen.FuncToString] is /repo's pkg/generator.FuncToString (with
    AssignmentToString, ManipulatorToString, the String()/RetError() methods of the
    assignment kinds, loopVars and Var.FullType), translated statement by statement into
    gen/GoFuns.v on every run; [lower_function] is the record the builder hands over.  The
    function text the theorems of this file speak about is therefore what the Go code
    computes, for every function record. *)
Theorem C01_text_is_what_the_go_code_prints :
  forall f, GoGen.FuncToString (lower_function f) = func_to_string f.
Proof. exact func_to_string_tie. Qed.
Print Assumptions C01_text_is_what_the_go_code_prints.

(** The variables a generated function declares in its one scope — the source (or receiver),
    the destination, the additional arguments, and [err] when it returns an error — have
    pairwise different names, whatever the method declared (a parameter called err, dst, arg0
    or _ included): CreateFunction rejects every other method. *)
Theorem C01_variables_declared_once :
  forall d fuel m comments f ev,
    create_function d fuel m comments = (Ok f, ev) ->
    NoDup (v_name (fn_src f) :: v_name (fn_dst f) :: List.map v_name (fn_args f)) /\
    (fn_ret_err f = true ->
     ~ In (s2b "err") (v_name (fn_src f) :: v_name (fn_dst f) :: List.map v_name (fn_args f))).
Proof. exact create_function_names_distinct. Qed.
Print Assumptions C01_variables_declared_once.

(** Tie to the source, expression level. [GoNode.Node_AssignExpr], [Node_ExprType] and
    [Node_ReturnsError] are /repo's pkg/builder/model node.go and struct.go (the methods of the
    seven node kinds), translated statement by statement into gen/GoFuns.v on every run;
    [lower_node] nests the Go nodes the way the builder does.  The expression text, its type and its
    error flag that the typing theorems above speak about are what the Go code computes. *)
Theorem C01_expressions_are_what_the_go_code_prints :
  forall mo n,
    GoNode.Node_AssignExpr (lower_node mo n) = assign_expr n /\
    GoNode.Node_ExprType (lower_node mo n) = expr_type n /\
    GoNode.Node_ReturnsError (lower_node mo n) = returns_error n.
Proof. intros mo n. split; [apply assign_expr_tie|split; [apply expr_type_tie|apply returns_error_tie]]. Qed.
Print Assumptions C01_expressions_are_what_the_go_code_prints.

(** End to end in translated Go code: the text emitted for a simple assignment is
    model.SimpleField{LHS: lhs.AssignExpr(), RHS: rhs.AssignExpr(), Error: rhs.ReturnsError()}.String()
    where AssignExpr, ReturnsError and String are the functions translated from /repo on this run. *)
Theorem C01_assignment_text_end_to_end :
  forall mo l r,
    GoGen.Assignment_String
      (GoGen.SimpleField (GoNode.Node_AssignExpr (lower_node mo l)) (GoNode.Node_AssignExpr (lower_node mo r))
         (GoNode.Node_ReturnsError (lower_node mo r)))
    = assignment_string (ASimple l (RNode r) (returns_error r)).
Proof. exact simple_assignment_text_chain. Qed.
Print Assumptions C01_assignment_text_end_to_end.
