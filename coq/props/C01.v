(** C01 — every successfully generated file is valid Go that compiles in its package.
    Static part proved here: the typing side-conditions of every emitted
    assignment built by castNode; layout of the parameter list. The remaining
    obligations (selectors visible, identifiers not captured, the carried-over
    declarations, gofmt) are decided on every run by type-checking the real
    output of the generated stream (go build + gofmt -l). *)
From Coq Require Import String.
From Cvg Require Import Base GoTypes Dump Options Front Builder Gen.
From Cvg.proofs Require Import BuilderProofs MatchProofs.
Open Scope N_scope.

(** Every expression castNode lets through for a target type t is assignable to
    t as it stands, or is a String() call (a string assignable to t, on a type
    that has String() string), or an explicit conversion between convertible
    types whose result type is t. *)
Theorem C01_cast_typed :
  forall d o mpos t r n ev,
    cast_node d o mpos t r = (Ok (Some n), ev) ->
    (n = r /\ assignable (d_env d) (expr_type r) t = true) \/
    (n = NStringer r /\ assignable (d_env d) (expr_type n) t = true /\ complies_stringer (d_env d) (expr_type r) = true) \/
    (exists e, n = NCast r t e /\ expr_type n = t /\ convertible (d_env d) (expr_type r) t = true).
Proof.
  intros d o mpos t r n ev H. destruct (cast_node_shape d o mpos t r n ev H) as [Ha|Hs Ha Hc|e Ht Hc].
  - left. auto.
  - right. left. auto.
  - right. right. exists e. auto.
Qed.
Print Assumptions C01_cast_typed.

(** The parameter list is a comma-joined list of non-empty "name type" items: no empty slot. *)
Theorem C01_params_nonempty_items :
  forall f p, In p (func_params f) -> exists name ty, p = name ++ [32] ++ ty \/ p = name ++ s2b " *" ++ ty.
Proof.
  intros f p. unfold func_params. rewrite !in_app_iff. intros [H|[H|H]].
  - destruct (str_eqb (fn_style f) style_arg); [|destruct H]. destruct H as [<-|[]]. eauto.
  - destruct (fn_receiver f); [|destruct H]. destruct H as [<-|[]]. eauto.
  - apply in_map_iff in H as (a & <- & _). eauto.
Qed.
Print Assumptions C01_params_nonempty_items.
