(** C18 — CLI contract: output path, -out, -dry, -print, -log, GOFILE.
    Only property theorems here; each is closed by [exact] of a lemma proved in proofs/. *)
From Coq Require Import String.
From Cvg Require Import Base Cli.
From Cvg.proofs Require Import CliProofs.
Open Scope N_scope.

(** Default output = input with ".gen" inserted before its extension; the
    extension is that of the last path element ('.'-suffix without '/' or
    another '.'), and stem ++ ext is the input itself. *)
Theorem C18_default_output :
  forall args gofile c v rest,
    parse_args args gofile = CliConfig c ->
    parse_flags flag_defaults args = ArgsOk v rest -> f_out v = [] ->
    c_output c = stem (c_input c) ++ s2b ".gen" ++ path_ext (c_input c) /\
    stem (c_input c) ++ path_ext (c_input c) = c_input c /\
    (path_ext (c_input c) = [] \/
     exists e, path_ext (c_input c) = 46 :: e /\ forall b, In b e -> b <> 47 /\ b <> 46).
Proof. exact C18_default_output_lemma. Qed.
Print Assumptions C18_default_output.

(** -out redirects the output. *)
Theorem C18_out_overrides :
  forall args gofile c v rest,
    parse_args args gofile = CliConfig c ->
    parse_flags flag_defaults args = ArgsOk v rest -> f_out v <> [] ->
    c_output c = f_out v.
Proof. exact C18_out_overrides_lemma. Qed.
Print Assumptions C18_out_overrides.

(** Without a positional argument the input is $GOFILE; with one, GOFILE is ignored. *)
Theorem C18_gofile :
  forall args gofile c v rest,
    parse_args args gofile = CliConfig c ->
    parse_flags flag_defaults args = ArgsOk v rest ->
    (rest = [] -> c_input c = gofile) /\
    (forall a rest', rest = a :: rest' -> a <> [] -> c_input c = a).
Proof. exact C18_gofile_lemma. Qed.
Print Assumptions C18_gofile.

(** With -print a successful run prints the code that is written (or, with
    -dry, would be written), byte-identically — with or without -dry. *)
Theorem C18_print :
  forall c can_write g,
    c_prints c = true -> r_status (run_core c can_write g) = 0 ->
    exists code, g = GenCode code /\ r_stdout (run_core c can_write g) = code /\
      (c_dry c = false -> In (WriteFile (c_output c) code) (r_effects (run_core c can_write g))).
Proof. exact C18_print_lemma. Qed.
Print Assumptions C18_print.

(** -log changes neither status, stdout, nor the code written (when the log can be opened). *)
Theorem C18_log_inert :
  forall c can_write g,
    (c_log c <> [] -> can_write (c_log c) = true) ->
    let r := run_core c can_write g in let r0 := run_core (without_log c) can_write g in
    r_status r = r_status r0 /\ r_stdout r = r_stdout r0 /\
    (forall code, In (WriteFile (c_output c) code) (r_effects r) <-> In (WriteFile (c_output c) code) (r_effects r0)).
Proof. exact run_core_log_inert. Qed.
Print Assumptions C18_log_inert.

(** The log path is the output path with its extension replaced by ".log". *)
Theorem C18_log_path :
  forall args gofile c v rest,
    parse_args args gofile = CliConfig c ->
    parse_flags flag_defaults args = ArgsOk v rest ->
    c_log c = if f_log v then stem (c_output c) ++ s2b ".log" else [].
Proof. exact C18_log_path_lemma. Qed.
Print Assumptions C18_log_path.

(** Non-vacuity: a concrete command line meets the hypotheses. *)
Example C18_example :
  parse_args [s2b "-log"; s2b "-print"; s2b "a/b.c/setup.go"] (s2b "ignored.go")
  = CliConfig {| c_input := s2b "a/b.c/setup.go"; c_output := s2b "a/b.c/setup.gen.go";
                 c_log := s2b "a/b.c/setup.gen.log"; c_dry := false; c_prints := true |}.
Proof. vm_compute. reflexivity. Qed.
Example C18_example_noext :
  parse_args [s2b "a.b/setup"] [] = CliConfig {| c_input := s2b "a.b/setup"; c_output := s2b "a.b/setup.gen";
                 c_log := []; c_dry := false; c_prints := false |}.
Proof. vm_compute. reflexivity. Qed.
