(** C13 — output is a deterministic function of the sources and flags.
    In the model everything is a Gallina function of the dump (types, comments,
    positions) — so the statement of interest is about the two places where the
    Go code consults something that is not a function of the sources: the
    iteration order of the import-name map (LookupPath) and the random marker.
    Process, time, environment and working directory are outside any model:
    they are exercised by the repeated-run correspondence of check C13. *)
From Coq Require Import String Permutation.
From Cvg Require Import Base GoTypes Re Unicode Matcher Dump Options Front Builder Gen Pipeline BaseCode.
From Cvg.gen Require Extracted.
From Cvg.proofs Require Import DeterminismProofs BaseCodeProofs.
Open Scope N_scope.

(** Map order: for every iteration order (permutation) of the import table, a
    name that denotes at most one import path resolves to the same path. *)
Theorem C13_order_independent :
  forall table table' name,
    Permutation table table' -> unambiguous table name ->
    lookup_path_in table name = lookup_path_in table' name.
Proof. exact lookup_path_order_independent. Qed.
Print Assumptions C13_order_independent.

(** the model's LookupPath is that function on the table built by NewImportNames *)
Theorem C13_lookup_path_is_table_lookup :
  forall d name, lookup_path d name = lookup_path_in (import_names d) name.
Proof. reflexivity. Qed.
Print Assumptions C13_lookup_path_is_table_lookup.

(** The table itself is built in source order (the blank-import renaming walks a
    slice, not the map): it is a function of the import list alone. *)
Theorem C13_import_table_is_a_function_of_the_imports :
  forall d1 d2, d_imports d1 = d_imports d2 -> import_names d1 = import_names d2.
Proof. intros d1 d2 H. unfold import_names. now rewrite H. Qed.
Print Assumptions C13_import_table_is_a_function_of_the_imports.

(** Marker: the functions, diagnostics and the comment surgery before marker
    insertion do not depend on the marker at all ([run_pipeline] has no marker
    parameter); the marker only names the insertion comments and is replaced by
    the functions: where it stood, exactly the functions' text stands, whatever
    the marker is, as long as it does not occur earlier in the text. *)
Theorem C13_marker_replaced_by_functions :
  forall m1 m2 text pre post,
    m1 <> [] -> m2 <> [] ->
    (forall k, (k < List.length pre)%nat -> is_prefix m1 (skipn k (pre ++ m1 ++ post)) = false) ->
    (forall k, (k < List.length pre)%nat -> is_prefix m2 (skipn k (pre ++ m2 ++ post)) = false) ->
    replace_first m1 text (pre ++ m1 ++ post) = replace_first m2 text (pre ++ m2 ++ post).
Proof. intros. now rewrite !replace_first_spec. Qed.
Print Assumptions C13_marker_replaced_by_functions.
