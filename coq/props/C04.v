(** C04 — default matching: same name, compatible type, only opted-in conversions. *)
From Coq Require Import String.
From Cvg Require Import Base GoTypes Re Unicode Matcher Dump Options Front Builder.
From Cvg.proofs Require Import BuilderProofs MatchProofs TypeLaws.
From Cvg Require Import GoLib GoFuns.
From Cvg.proofs Require Import UtilTieProofs.
Open Scope N_scope.

(** Where a default-matched entry can come from. For every destination node and
    source struct: the entry is `no match`, or it is built from a candidate that
    is (a) a getter of the source — only when :getter is on — or a field — only
    under :match name —, (b) accessible, (c) same-named under the method's case
    rule, and (d) fits in one of the ways of [from_candidate]: the candidate
    itself when assignable, its String() only with :stringer (target accepts a
    string, candidate has String() string), a conversion only with :typecast
    (convertible), a slice copy (element conversion only with :typecast), or a
    member-wise block for two by-value structs.  Hence no conversion, String()
    call or getter call without its opt-in. *)
Theorem C04_sources_and_optins :
  forall d o mpos s2s lhs R a ev,
    name_match_with d o mpos s2s lhs R = (Ok (Some a), ev) ->
    a = ANoMatch lhs \/
    (exists r, o_getter o = true /\ In r (getter_nodes d R) /\
               is_field_accessible d R (obj_name r) = true /\
               compare_field_name o (obj_name lhs) (obj_name r) = true /\ from_candidate d o lhs r a) \/
    (exists r, str_eqb (o_rule o) rule_name = true /\ In r (field_nodes d R) /\
               is_field_accessible d R (obj_name r) = true /\
               compare_field_name o (obj_name lhs) (obj_name r) = true /\ from_candidate d o lhs r a).
Proof. exact name_match_sources. Qed.
Print Assumptions C04_sources_and_optins.

(** castNode: the three ways a candidate can fit, each guarded by its opt-in and its typing condition. *)
Theorem C04_cast_optins :
  forall d o mpos t r n ev,
    cast_node d o mpos t r = (Ok (Some n), ev) -> cast_shape d o r t n.
Proof. exact cast_node_shape. Qed.
Print Assumptions C04_cast_optins.

(** :match none (and no :getter): nothing is matched by name; the field is reported `no match`. *)
Theorem C04_match_none_partial :
  forall d o mpos s2s lhs R a ev,
    str_eqb (o_rule o) rule_name = false -> o_getter o = false ->
    name_match_with d o mpos s2s lhs R = (Ok a, ev) -> a = Some (ANoMatch lhs).
Proof. exact match_none_matches_nothing. Qed.
Print Assumptions C04_match_none_partial.
(** Full statement (":match none: nothing is matched by name at all") fails with
    :getter on: the getter pass runs whatever the rule (DESIGN.md section 7). *)

(** The converse direction. In each pass the FIRST accessible candidate whose name equals the
    field's under the case rule decides, and no later one is consulted (which is why "assigned
    iff some fitting candidate exists" holds only for that first candidate): *)
Theorem C04_first_same_named_candidate_decides :
  forall d o mpos s2s lhs R cands,
    name_pass d o mpos s2s lhs R cands =
      match find (cand_ok d o lhs R) cands with
      | None => ret PNotFound
      | Some r => name_pass d o mpos s2s lhs R [r]
      end.
Proof. exact name_pass_first. Qed.
Print Assumptions C04_first_same_named_candidate_decides.

(** ... if that candidate is assignable as it stands (and the pair is not a slice pair, which is
    copied instead) the field is assigned from it as it stands: *)
Theorem C04_assignable_candidate_is_assigned :
  forall d o mpos s2s lhs R cands r,
    find (cand_ok d o lhs R) cands = Some r ->
    (is_slice (expr_type lhs) && is_slice (expr_type r)) = false ->
    assignable (d_env d) (expr_type r) (expr_type lhs) = true ->
    name_pass d o mpos s2s lhs R cands = ret (PDone (Some (ASimple lhs (RNode r) (returns_error r))) false).
Proof. exact name_pass_assignable. Qed.
Print Assumptions C04_assignable_candidate_is_assigned.

(** ... and when neither the getters (consulted only with :getter) nor the fields (consulted only
    under :match name) offer an accessible member of that name, the field is left over and
    reported `no match`: *)
Theorem C04_no_candidate_no_match :
  forall d o mpos s2s lhs R a ev,
    (o_getter o = true -> forall r, In r (getter_nodes d R) -> cand_ok d o lhs R r = false) ->
    (str_eqb (o_rule o) rule_name = true -> forall r, In r (field_nodes d R) -> cand_ok d o lhs R r = false) ->
    name_match_with d o mpos s2s lhs R = (Ok a, ev) -> a = Some (ANoMatch lhs).
Proof. exact name_match_no_candidate. Qed.
Print Assumptions C04_no_candidate_no_match.

(** In particular a first candidate of exactly the field's type (not a slice) is always assigned
    as it stands: the model's assignability contains identity, which is reflexive (TypeLaws.v:
    the model of go/types' relations obeys the laws the Go specification states for them). *)
Theorem C04_same_type_candidate_is_assigned :
  forall d o mpos s2s lhs R cands r,
    find (cand_ok d o lhs R) cands = Some r ->
    expr_type r = expr_type lhs -> is_slice (expr_type lhs) = false ->
    name_pass d o mpos s2s lhs R cands = ret (PDone (Some (ASimple lhs (RNode r) (returns_error r))) false).
Proof.
  intros d o mpos s2s lhs R cands r Hf Ht Hs.
  apply name_pass_assignable; [exact Hf|now rewrite Hs|rewrite Ht; apply assignable_refl].
Qed.
Print Assumptions C04_same_type_candidate_is_assigned.

Theorem C04_relation_laws :
  (forall igt t, identical igt t t = true) /\
  (forall E V T, identical false V T = true -> assignable E V T = true) /\
  (forall E V T, assignable E V T = true -> convertible E V T = true).
Proof. exact (conj identical_refl (conj assignable_of_identical convertible_of_assignable)). Qed.
Print Assumptions C04_relation_laws.

(** Tie to the source: the type classes the matching ladder asks about. [GoUtil.IsSliceType] etc. are /repo's pkg/util/types.go
    translated on every run (a type assertion to a class of go/types is the recogniser of the model's
    constructor); the model's predicates are proved equal to them. *)
Theorem C04_type_predicates_are_the_go_code :
  forall t,
    GoUtil.IsSliceType t = is_slice t /\ GoUtil.IsBasicType t = is_basic t /\ GoUtil.IsNamedType t = is_named t /\
    GoUtil.IsPtr t = is_ptr t /\ GoUtil.DerefPtr t = deref_ptr t /\ GoUtil.Deref t = (deref_ptr t, is_ptr t).
Proof.
  intros t.
  exact (conj (is_slice_tie t) (conj (is_basic_tie t) (conj (is_named_tie t) (conj (is_ptr_tie t) (conj (deref_ptr_tie t) (deref_tie t)))))).
Qed.
Print Assumptions C04_type_predicates_are_the_go_code.
