(** C17 — exactly the marked interfaces of the input file are converted. *)
From Coq Require Import String.
From Cvg Require Import Base GoTypes Dump Options Front.
From Cvg.gen Require Extracted.
From Cvg.proofs Require Import FrontProofs.
Open Scope N_scope.

(** Whenever findConvergenEntries succeeds: (1) every entry is an interface
    declared in the input file (interfaces of sibling files are never entries,
    even when marked), in scope order; (2) an interface named Convergen in the
    input file is always an entry. *)
Theorem C17_selection :
  forall d st es st' ev,
    find_entries_loop d (d_ifaces d) st [] = (Ok (es, st'), ev) ->
    (forall e, In e es -> In (ie_decl e) (d_ifaces d) /\ if_in_src (ie_decl e) = true) /\
    (forall i, In i (d_ifaces d) -> if_in_src i = true -> str_eqb (if_name i) Extracted.intf_name = true ->
               exists e, In e es /\ ie_decl e = i).
Proof.
  intros d st es st' ev H. destruct (find_entries_loop_spec d _ _ _ _ _ _ H) as (new & -> & H1 & H2).
  simpl. split; assumption.
Qed.
Print Assumptions C17_selection.

(** A file with no converter interface is rejected: success implies a non-empty entry list. *)
Theorem C17_none_rejected :
  forall d st es st' ev, find_entries d st = (Ok (es, st'), ev) -> es <> [].
Proof. intros d st es st' ev H. exact (find_entries_none_rejected d st _ eq_refl es st' ev H). Qed.
Print Assumptions C17_none_rejected.

(** One function per method of an entry and nothing else: the block of an entry
    has exactly as many functions as the interface has methods (Pipeline.create_blocks). *)
From Cvg Require Import Builder Gen Pipeline.
From Cvg.proofs Require Import BuilderProofs.
Theorem C17_one_function_per_method :
  forall d st ms fs ev, create_functions d st ms = (Ok fs, ev) -> List.length fs = List.length ms.
Proof.
  intros d st ms; induction ms as [|m ms IH]; intros fs ev H; simpl in H.
  - apply ret_ok in H as [<- _]. reflexivity.
  - apply rbind_ok in H as (f & e1 & e2 & _ & H & _).
    apply rbind_ok in H as (rest & e3 & e4 & Hr & H & _).
    apply ret_ok in H as [<- _]. simpl. f_equal. eapply IH; eassumption.
Qed.
Print Assumptions C17_one_function_per_method.
