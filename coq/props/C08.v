(** C08 — function signatures follow the documented style/recv/reverse/error shapes. *)
From Coq Require Import String.
From Cvg Require Import Base GoTypes Dump Options Front Builder Gen.
From Cvg.proofs Require Import BuilderProofs HeaderProofs.
From Cvg Require Import GoLib GoFuns.
From Cvg.proofs Require Import GenTieProofs.
Open Scope N_scope.

(** The header FuncToString prints is the documented shape
    ([documented_header], written independently in HeaderProofs.v) of the
    function record's operands — for every function record. *)
Theorem C08_header_shape :
  forall f, func_header f =
    documented_header (fn_name f) (fn_receiver f) (fn_style f) (fn_ret_err f)
      (operand_of (fn_src f)) (operand_of (fn_dst f)) (List.map operand_of (fn_args f)).
Proof. exact func_header_documented. Qed.
Print Assumptions C08_header_shape.

(** ... and CreateFunction fills those operands as documented, for every method,
    option set and dump on which it succeeds: the function is named after the
    method; receiver, style and error flag come from the method's options and
    results; declared names are kept, else src/dst (swapped under :reverse) —
    the receiver name replaces the source's; pointer-ness is the declared one;
    types are the package-qualified names of the operand types; one variable per
    additional argument. *)
Theorem C08_operands :
  forall d fuel m comments f ev,
    create_function d fuel m comments = (Ok f, ev) ->
    exists src_t arg_ts src_n arg_ns dst_t dst_n rts rns,
      sg_ptys (me_sig m) = src_t :: arg_ts /\ sg_pnames (me_sig m) = src_n :: arg_ns /\
      sg_rtys (me_sig m) = dst_t :: rts /\ sg_rnames (me_sig m) = dst_n :: rns /\
      fn_name f = md_name (me_decl m) /\
      fn_receiver f = o_receiver (me_opts m) /\
      fn_style f = o_style (me_opts m) /\
      fn_ret_err f = me_ret_error d m /\
      v_name (fn_dst f) = declared_name dst_n (if o_reverse (me_opts m) then s2b "src" else s2b "dst") /\
      type_name d (deref_ptr dst_t) = Ok (v_type (fn_dst f)) /\ v_pointer (fn_dst f) = is_ptr dst_t /\
      v_name (fn_src f) = (match o_receiver (me_opts m) with
                           | [] => declared_name src_n (if o_reverse (me_opts m) then s2b "dst" else s2b "src")
                           | r => r end) /\
      type_name d (deref_ptr src_t) = Ok (v_type (fn_src f)) /\ v_pointer (fn_src f) = is_ptr src_t /\
      List.length (fn_args f) = Nat.min (List.length arg_ns) (List.length arg_ts).
Proof. exact create_function_operands. Qed.
Print Assumptions C08_operands.

(** :reverse with additional arguments is rejected. (:reverse without :style arg
    is rejected by parse_notations; a receiver of an imported type by create_function:
    both are exercised by the complete enumeration of the harness.) *)
Theorem C08_reverse_with_arguments_rejected :
  forall d fuel m comments src_t a arg_ts,
    sg_ptys (me_sig m) = src_t :: a :: arg_ts -> o_reverse (me_opts m) = true ->
    sg_pnames (me_sig m) <> [] -> sg_rtys (me_sig m) <> [] -> sg_rnames (me_sig m) <> [] ->
    exists msg ev, create_function d fuel m comments = (Err msg, ev).
Proof. exact reverse_with_arguments_rejected. Qed.
Print Assumptions C08_reverse_with_arguments_rejected.

(** Non-vacuity: a concrete record and its header. *)
Example C08_example :
  func_header {| fn_name := s2b "Conv"; fn_comments := []; fn_receiver := s2b "r";
                 fn_src := {| v_name := s2b "r"; v_type := s2b "S"; v_pointer := true; v_external := false |};
                 fn_dst := {| v_name := s2b "dst"; v_type := s2b "ext.D"; v_pointer := false; v_external := true |};
                 fn_args := [{| v_name := s2b "arg0"; v_type := s2b "int"; v_pointer := false; v_external := false |}];
                 fn_ret_err := true; fn_style := style_arg; fn_assignments := []; fn_pre := None; fn_post := None |}
  = s2b "func (r *S) Conv(dst *ext.D, arg0 int) (err error) {" ++ nl.
Proof. vm_compute. reflexivity. Qed.

(** Tie to the source. [GoGen.FuncToString] is /repo's pkg/generator.FuncToString (with
    AssignmentToString, ManipulatorToString, the String()/RetError() methods of the
    assignment kinds, loopVars and Var.FullType), translated statement by statement into
    gen/GoFuns.v on every run; [lower_function] is the record the builder hands over.  The
    function text the theorems of this file speak about is therefore what the Go code
    computes, for every function record. *)
Theorem C08_text_is_what_the_go_code_prints :
  forall f, GoGen.FuncToString (lower_function f) = func_to_string f.
Proof. exact func_to_string_tie. Qed.
Print Assumptions C08_text_is_what_the_go_code_prints.
