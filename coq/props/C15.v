(** C15 — a run writes only its output (and log); dry or failed runs write nothing there. *)
From stdpp Require Import gmap.
From Cvg Require Import Base Cli Run.
From Cvg.proofs Require Import CliProofs RunProofs.

(** Frame: every path other than the output path and the log path keeps its
    content (or absence) — for every file system, configuration, pipeline
    result and writability oracle. *)
Theorem C15_frame :
  forall (gen : fs -> path -> path -> gen_result) (can_write : path -> bool) 
         (c : config) (f : fs) (p : path),
    p <> c_output c -> p <> c_log c -> fst (run gen can_write c f) !! p = f !! p.
Proof. exact run_frame. Qed.
Print Assumptions C15_frame.

(** With -dry, or when the run fails, the output path is left exactly as it was
    (absent stays absent, content stays identical) — unless -out names the log
    file itself ([no_alias]). *)
Theorem C15_dry_or_failed :
  forall gen can_write (c : config) (f : fs),
    no_alias c ->
    (c_dry c = true \/ r_status (snd (run gen can_write c f)) <> 0%N) ->
    fst (run gen can_write c f) !! c_output c = f !! c_output c.
Proof. exact run_dry_or_failed. Qed.
Print Assumptions C15_dry_or_failed.

(** The only effects a run can have, whatever the inputs. *)
Theorem C15_effects :
  forall c can_write g e,
    In e (r_effects (run_core c can_write g)) ->
    (e = Truncate (c_log c) /\ c_log c <> []) \/
    (exists code, e = WriteFile (c_output c) code /\ g = GenCode code /\ c_dry c = false).
Proof. exact run_core_effect_paths. Qed.
Print Assumptions C15_effects.

(** Non-vacuity: a failed run with -log on a file system with three files. *)
Example C15_example :
  let c := {| c_input := [1]; c_output := [2]; c_log := [3]; c_dry := false; c_prints := false |} in
  let f : fs := <[[1] := [7]]> (<[[2] := [8]]> (<[[9] := [9]]> ∅)) in
  let r := run (fun _ _ _ => GenFail) (fun _ => true) c f in
  r_status (snd r) = 1%N /\ fst r !! [2] = Some [8] /\ fst r !! [9] = Some [9] /\ fst r !! [3] = Some [].
Proof. vm_compute. repeat split. Qed.
