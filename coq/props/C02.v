(** C02 — generated functions copy exactly the matched values and touch nothing else.
    Value-level semantics (ValSem.v): the destination object is a tree of by-value
    structs; the body's assignment list is executed over it; right-hand sides are
    evaluated by an oracle [ev] over the unmodified operands (user functions are
    pure oracles; nothing in the body writes a source — the state of [exec_all]
    is the destination alone). *)
From Coq Require Import String.
From Cvg Require Import Base GoTypes Dump Options Front Builder ValSem.
From Cvg.proofs Require Import BuilderProofs PartitionProofs ValSemProofs SeparationProofs.
Open Scope N_scope.

(** Frame ("touches nothing else"): every path of the destination that is
    independent of all paths the entries may write — in particular every field
    that is skipped, reported `no match`, or not mentioned — reads after the
    whole list exactly what it read before. For every entry list, state, oracle. *)
Theorem C02_frame :
  forall ev conv l st q,
    (forall a p, In a l -> In p (wpaths a) -> independent p q) ->
    read (fst (exec_all ev conv l st)) q = read (fst st) q.
Proof. exact exec_all_frame. Qed.
Print Assumptions C02_frame.

(** Values ("copy exactly the matched values"): in a separated entry list, after
    the whole list has run the destination of an assignment holds the value of
    its source expression — whatever runs before or after it. *)
Theorem C02_assigned_value :
  forall ev conv l1 lhs r e l2 st,
    separated (l1 ++ ASimple lhs r e :: l2) ->
    (exists w, read (fst (exec_all ev conv l1 st)) (node_path lhs) = Some w) ->
    read (fst (exec_all ev conv (l1 ++ ASimple lhs r e :: l2) st)) (node_path lhs) = Some (ev r).
Proof. exact assigned_value. Qed.
Print Assumptions C02_assigned_value.

(** Separation is not an assumption about the generator: it follows from the
    partition theorem (C05). Whenever structToStruct returns entries for a
    destination struct whose fields have pairwise different names, the entries'
    written paths are pairwise independent, and each lies below its own field. *)
Theorem C02_entries_are_separated :
  forall d o mpos fuel L R args l ev,
    struct_to_struct d o mpos fuel L R args = (Ok l, ev) ->
    (forall f1 f2 fs1 fs2 fs3, field_nodes d L = fs1 ++ f1 :: fs2 ++ f2 :: fs3 -> str_eqb (obj_name f1) (obj_name f2) = false) ->
    separated l /\
    (forall a p, In a l -> In p (wpaths a) -> exists f, In f (field_nodes d L) /\ is_path_prefix (node_path f) p = true).
Proof.
  intros d o mpos fuel L R args l ev H Hnd.
  apply (covers_separated d L (field_nodes d L) l).
  - eapply struct_to_struct_covers; eassumption.
  - intros f Hf. unfold field_nodes in Hf. apply in_map_iff in Hf as (g & <- & _). eauto.
  - exact Hnd.
Qed.
Print Assumptions C02_entries_are_separated.

(** What the model does not give: [ev] is total, i.e. evaluating a source path
    never fails. In the generated code a :map/:conv source path through a nil
    nested pointer panics (no nil guard is emitted): known finding C02-nil-hop,
    found by executing the generated functions with nested pointers set to nil. *)

(** Non-vacuity: two assignments and a skipped field on a concrete object. *)
Example C02_example :
  let A := Field (s2b "A") [] true false [] (TBasic 2 (s2b "int")) in
  let B := Field (s2b "B") [] true false [] (TBasic 2 (s2b "int")) in
  let root := NRoot (s2b "dst") (TStruct [] [A; B]) in
  let d0 := VStruct [(s2b "A", VAtom 1); (s2b "B", VAtom 2); (s2b "C", VAtom 3)] in
  let ev := fun r => match r with RLiteral _ => VAtom 42 | RNode _ => VAtom 7 end in
  let l := [ASimple (NField root A) (RLiteral []) false; ASkip (NField root B)] in
  fst (exec_all ev (fun _ v => v) l (d0, 100)) = VStruct [(s2b "A", VAtom 42); (s2b "B", VAtom 2); (s2b "C", VAtom 3)].
Proof. vm_compute. reflexivity. Qed.
