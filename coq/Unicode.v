(** Unicode.v — functions over the generated tables (gen/UnicodeTables.v):
    the [utables] instance used by Re.v and the rune predicates of Go's
    unicode package that the tool calls. *)
From Coq Require Import String.
From Cvg Require Import Base Re.
From Cvg.gen Require UnicodeTables.
Open Scope N_scope.

Definition apply_runs (runs : list (N * N * N * Z)) (x : N) : N :=
  match find (fun r => let '(lo, hi, stride, _) := r in
                       (lo <=? x) && (x <=? hi) && ((x - lo) mod stride =? 0)) runs with
  | Some (_, _, _, d) => Z.to_N (Z.of_N x + d)
  | None => x
  end.

Definition rune_lower (x : N) : N :=
  if x <? 128 then (if (65 <=? x) && (x <=? 90) then x + 32 else x)
  else apply_runs UnicodeTables.lower_runs x.
Definition rune_fold (x : N) : N := apply_runs UnicodeTables.fold_runs x.
Definition rune_is_letter (x : N) : bool := in_ranges UnicodeTables.letter_ranges x.
Definition rune_is_digit (x : N) : bool := in_ranges UnicodeTables.digit_ranges x.
Definition rune_is_space (x : N) : bool := in_ranges UnicodeTables.space_ranges x.

Definition unicode_class (name : str) : option (option (list (N * N))) :=
  if str_eqb name (s2b "L") then Some (Some UnicodeTables.letter_ranges)
  else if str_eqb name (s2b "Lu") then Some (Some UnicodeTables.upper_ranges)
  else if str_eqb name (s2b "Ll") then Some (Some UnicodeTables.lowerletter_ranges)
  else if str_eqb name (s2b "Nd") then Some (Some UnicodeTables.digit_ranges)
  else if str_eqb name (s2b "N") then Some (Some UnicodeTables.number_ranges)
  else if str_eqb name (s2b "Any") then Some (Some [(0, 1114111)])
  else if mem_str name UnicodeTables.class_names then Some None
  else None.

Definition UT : utables :=
  {| u_lower := rune_lower; u_fold := rune_fold; u_letter := rune_is_letter;
     u_digit := rune_is_digit; u_class := unicode_class |}.

(** strings.Fields: split around runs of unicode.IsSpace; works on bytes via runes. *)
Fixpoint fields_runes (rs : list N) (cur : list N) : list (list N) :=
  match rs with
  | [] => match cur with [] => [] | _ => [rev cur] end
  | x :: rs' =>
      if rune_is_space x then
        match cur with [] => fields_runes rs' [] | _ => rev cur :: fields_runes rs' [] end
      else fields_runes rs' (x :: cur)
  end.

(** Go's Fields keeps the original bytes of each field; invalid bytes are not
    spaces, so re-encoding differs from the input only for invalid UTF-8
    (U+FFFD replaces each bad byte); [ufields] therefore splits the byte string
    at the byte positions of the space runes. *)
Fixpoint ufields_aux (fuel : nat) (s : str) (cur : str) : list str :=
  match fuel with
  | O => match cur with [] => [] | _ => [rev cur] end
  | S f =>
      match decode_rune s with
      | None => match cur with [] => [] | _ => [rev cur] end
      | Some (r, w) =>
          if rune_is_space r then
            match cur with [] => ufields_aux f (skipn w s) [] | _ => rev cur :: ufields_aux f (skipn w s) [] end
          else ufields_aux f (skipn w s) (rev (firstn w s) ++ cur)
      end
  end.
Definition ufields (s : str) : list str := ufields_aux (S (List.length s)) s [].

(** strings.ToLower / EqualFold on byte strings *)
Definition str_to_lower (s : str) : str := to_lower UT s.
Definition str_equal_fold (a b : str) : bool := equal_fold UT a b.

(** go/ast.IsExported: first rune is an upper-case letter (unicode.IsUpper) *)
Definition is_exported (name : str) : bool :=
  match decode_rune name with
  | Some (r, _) => in_ranges UnicodeTables.upper_ranges r
  | None => false
  end.
