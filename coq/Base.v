(** Base.v — byte strings, the outcome monad, s-expressions.
    Everything here is total, computable Gallina; no axioms. *)
From Coq Require Import Ascii String.
From Coq Require Export List NArith ZArith Bool Lia.
Export ListNotations.
Open Scope N_scope.

(** * Byte strings.  A [str] is a list of bytes (each < 256 by convention);
    runes (after UTF-8 decoding) are also [N]. *)
Definition str := list N.

Definition s2b (s : string) : str :=
  List.map N_of_ascii (list_ascii_of_string s).

Definition nl : str := [10].

Fixpoint str_eqb (a b : str) : bool :=
  match a, b with
  | [], [] => true
  | x :: a', y :: b' => N.eqb x y && str_eqb a' b'
  | _, _ => false
  end.

Fixpoint is_prefix (p s : str) : bool :=
  match p, s with
  | [], _ => true
  | x :: p', y :: s' => N.eqb x y && is_prefix p' s'
  | _ :: _, [] => false
  end.

Definition is_suffix (p s : str) : bool := is_prefix (rev p) (rev s).

Fixpoint concat_str (l : list str) : str :=
  match l with [] => [] | x :: l' => x ++ concat_str l' end.

Fixpoint join_str (sep : str) (l : list str) : str :=
  match l with
  | [] => []
  | [x] => x
  | x :: l' => x ++ sep ++ join_str sep l'
  end.

(** [split_on c s]: strings.Split(s, string(c)) for a one-byte separator:
    always returns at least one element. *)
Fixpoint split_on (c : N) (s : str) : list str :=
  match s with
  | [] => [[]]
  | x :: s' =>
      if N.eqb x c then [] :: split_on c s'
      else match split_on c s' with
           | [] => [[x]]          (* unreachable *)
           | h :: t => (x :: h) :: t
           end
  end.

(** last index of byte [c] in [s], if any (strings.LastIndex for one byte). *)
Fixpoint last_index_aux (c : N) (s : str) (i : nat) (acc : option nat) : option nat :=
  match s with
  | [] => acc
  | x :: s' => last_index_aux c s' (S i) (if N.eqb x c then Some i else acc)
  end.
Definition last_index (c : N) (s : str) : option nat := last_index_aux c s 0%nat None.

Fixpoint mem_str (x : str) (l : list str) : bool :=
  match l with [] => false | y :: l' => str_eqb x y || mem_str x l' end.

(** Does [m] occur in [s] (as a contiguous substring)? *)
Fixpoint occurs (m s : str) : bool :=
  is_prefix m s || match s with [] => false | _ :: s' => occurs m s' end.

(** Whitespace as in Go's unicode.IsSpace restricted to ASCII + NEL/NBSP (bytes). *)
Definition is_space_byte (c : N) : bool :=
  (N.eqb c 32) || (N.eqb c 9) || (N.eqb c 10) || (N.eqb c 11) || (N.eqb c 12) || (N.eqb c 13).

(** strings.Fields on ASCII whitespace. *)
Fixpoint fields_aux (s : str) (cur : str) : list str :=
  match s with
  | [] => match cur with [] => [] | _ => [rev cur] end
  | x :: s' =>
      if is_space_byte x then
        match cur with [] => fields_aux s' [] | _ => rev cur :: fields_aux s' [] end
      else fields_aux s' (x :: cur)
  end.
Definition fields (s : str) : list str := fields_aux s [].

(** Decimal rendering of naturals. *)
Fixpoint dec_aux (fuel : nat) (n : N) (acc : str) : str :=
  match fuel with
  | O => acc
  | S f =>
      let d := 48 + N.modulo n 10 in
      let q := N.div n 10 in
      if N.eqb q 0 then d :: acc else dec_aux f q (d :: acc)
  end.
Definition dec (n : N) : str := dec_aux (S (N.to_nat (N.log2 n))) n [].

(** * Outcome monad: explicit partiality of the Go code. *)
Inductive outcome (A : Type) : Type :=
| Ok (a : A)
| Err (msg : str)          (* the Go code returned an error *)
| Panic (site : str)       (* the Go code would panic at [site] *)
| Fuel                     (* the model ran out of fuel (excluded by the termination lemmas) *)
| Unsup (why : str).       (* the input leaves the modelled fragment (counted out-of-model) *)
Arguments Ok {A} a.
Arguments Err {A} msg.
Arguments Panic {A} site.
Arguments Fuel {A}.
Arguments Unsup {A} why.

Definition obind {A B} (m : outcome A) (f : A -> outcome B) : outcome B :=
  match m with
  | Ok a => f a
  | Err e => Err e
  | Panic s => Panic s
  | Fuel => Fuel
  | Unsup w => Unsup w
  end.
Notation "'do' x <- m ; f" := (obind m (fun x => f))
  (at level 200, x pattern, m at level 100, f at level 200, right associativity).

Definition is_panic {A} (o : outcome A) : bool :=
  match o with Panic _ => true | _ => false end.
Definition is_ok {A} (o : outcome A) : bool :=
  match o with Ok _ => true | _ => false end.

Definition option_bind {A B} (m : option A) (f : A -> option B) : option B :=
  match m with Some a => f a | None => None end.
Notation "'let?' x := m 'in' f" := (option_bind m (fun x => f))
  (at level 200, x pattern, m at level 100, f at level 200, right associativity).

(** * S-expressions: the exchange format between the harness and the model. *)
Inductive sexp : Type :=
| Atom (s : str)
| SList (l : list sexp).

Definition atom_of (e : sexp) : option str :=
  match e with Atom s => Some s | SList _ => None end.
Definition list_of (e : sexp) : option (list sexp) :=
  match e with SList l => Some l | Atom _ => None end.

(** decimal atom -> N *)
Fixpoint parse_dec_aux (s : str) (acc : N) : option N :=
  match s with
  | [] => Some acc
  | c :: s' => if (48 <=? c) && (c <=? 57) then parse_dec_aux s' (acc * 10 + (c - 48)) else None
  end.
Definition parse_dec (s : str) : option N :=
  match s with [] => None | _ => parse_dec_aux s 0 end.

Definition num_of (e : sexp) : option N :=
  let? s := atom_of e in parse_dec s.
Definition bool_of (e : sexp) : option bool :=
  let? n := num_of e in Some (negb (N.eqb n 0)).

Fixpoint map_opt {A B} (f : A -> option B) (l : list A) : option (list B) :=
  match l with
  | [] => Some []
  | x :: l' => let? y := f x in let? ys := map_opt f l' in Some (y :: ys)
  end.

Definition sx_bool (b : bool) : sexp := Atom (if b then [49] else [48]).
Definition sx_num (n : N) : sexp := Atom (dec n).
Definition sx_tag (t : string) (l : list sexp) : sexp := SList (Atom (s2b t) :: l).

(** nth with explicit failure (Go: index out of range). *)
Definition nth_opt {A} (l : list A) (i : nat) : option A := nth_error l i.

Fixpoint find_idx_aux {A} (p : A -> bool) (l : list A) (i : nat) : option nat :=
  match l with
  | [] => None
  | x :: l' => if p x then Some i else find_idx_aux p l' (S i)
  end.
Definition find_idx {A} (p : A -> bool) (l : list A) : option nat := find_idx_aux p l 0%nat.

(** Basic facts used everywhere. *)
Lemma str_eqb_refl s : str_eqb s s = true.
Proof. induction s as [|x s IH]; simpl; [reflexivity|]. now rewrite N.eqb_refl, IH. Qed.

Lemma str_eqb_eq a b : str_eqb a b = true <-> a = b.
Proof.
  revert b; induction a as [|x a IH]; intros [|y b]; simpl; split; try congruence; try reflexivity.
  - intros H. apply andb_true_iff in H as [H1 H2]. apply N.eqb_eq in H1. apply IH in H2. congruence.
  - intros H. injection H as -> ->. now rewrite N.eqb_refl, str_eqb_refl.
Qed.

Lemma str_eqb_neq a b : str_eqb a b = false <-> a <> b.
Proof.
  split.
  - intros H E. apply str_eqb_eq in E. congruence.
  - intros H. destruct (str_eqb a b) eqn:E; [|reflexivity]. apply str_eqb_eq in E. contradiction.
Qed.

Lemma is_prefix_app p s : is_prefix p (p ++ s) = true.
Proof. induction p as [|x p IH]; simpl; [reflexivity|]. now rewrite N.eqb_refl. Qed.

Lemma is_prefix_spec p s : is_prefix p s = true <-> exists t, s = p ++ t.
Proof.
  revert s; induction p as [|x p IH]; intros s; simpl.
  - split; [intros _; now exists s|reflexivity].
  - destruct s as [|y s]; [split; [discriminate|intros [t H]; discriminate]|].
    split.
    + intros H. apply andb_true_iff in H as [H1 H2]. apply N.eqb_eq in H1. apply IH in H2 as [t ->].
      exists t. now subst.
    + intros [t H]. injection H as -> ->. rewrite N.eqb_refl. simpl. apply IH. now exists t.
Qed.
