(** Front.v — pkg/parser: findConvergenEntries, parseMethods, parseMethod,
    resolveConverters, over a store of comment groups and doc links that the Go
    code mutates in place (GetDocCommentOn / ExtractMatchComments / cleanUp). *)
From Coq Require Import String.
From Cvg Require Import Base GoTypes Re Unicode Matcher Dump Options.
From Cvg.gen Require Extracted.
Open Scope N_scope.

Record store := {
  st_groups : list (list comment);     (* file.Comments: group index -> comments *)
  st_docs : list (N * N);              (* node id -> group index (the node's Doc pointer) *)
}.

Definition doc_of (st : store) (node : N) : option N :=
  match find (fun p => fst p =? node) (st_docs st) with
  | Some p => Some (snd p)
  | None => None
  end.

Definition group_of (st : store) (gi : N) : list comment := nth (N.to_nat gi) (st_groups st) [].

Fixpoint set_nth {A} (l : list A) (i : nat) (v : A) : list A :=
  match l, i with
  | [], _ => []
  | _ :: l', O => v :: l'
  | x :: l', S i' => x :: set_nth l' i' v
  end.

Definition set_group (st : store) (gi : N) (g : list comment) : store :=
  {| st_groups := set_nth (st_groups st) (N.to_nat gi) g; st_docs := st_docs st |}.
Definition clear_doc (st : store) (node : N) : store :=
  {| st_groups := st_groups st; st_docs := List.filter (fun p => negb (fst p =? node)) (st_docs st) |}.

(** GetDocCommentOn: walks the enclosing nodes innermost first; a Field (method
    or struct field) owns only its own doc and stops the walk; GenDecl, FuncDecl
    and TypeSpec are taken when their Doc pointer is non-nil; the File's package
    doc is never anybody's doc comment. *)
Fixpoint get_doc (st : store) (chain : list (N * str)) : option (N * N) :=
  match chain with
  | [] => None
  | (n, kind) :: chain' =>
      if str_eqb kind (s2b "file") then get_doc st chain'
      else if str_eqb kind (s2b "field") then
        match doc_of st n with Some gi => Some (n, gi) | None => None end
      else match doc_of st n with Some gi => Some (n, gi) | None => get_doc st chain' end
  end.

(** the cleanUp closure: clears the node's Doc pointer when the group is empty *)
Definition clean_up (st : store) (doc : option (N * N)) : store :=
  match doc with
  | Some (node, gi) => match group_of st gi with [] => clear_doc st node | _ => st end
  | None => st
  end.

Definition is_notation (c : comment) : bool :=
  match notation_match (c_text c) with Some _ => true | None => false end.

(** ExtractMatchComments(group, reNotation): (removed, new store) *)
Definition extract_notations (st : store) (doc : option (N * N)) : list comment * store :=
  match doc with
  | None => ([], st)
  | Some (_, gi) =>
      let g := group_of st gi in
      (List.filter is_notation g, set_group st gi (List.filter (fun c => negb (is_notation c)) g))
  end.

Record method_entry := {
  me_decl : method_decl;
  me_opts : options;
  me_doc : option N;          (* DocComment: the group it points to (read at build time) *)
}.

Record intf_entry := {
  ie_decl : iface_decl;
  ie_opts : options;
  ie_index : N;               (* position among the entries: selects the marker *)
}.

Section Front.
  Variable d : dump.
  Let E := d_env d.

  Definition me_name (m : method_entry) : str := md_name (me_decl m).
  Definition me_sig (m : method_entry) : sig := md_sig (me_decl m).

  (** model.MethodEntry.Results / RetError *)
  Definition me_ret_error (m : method_entry) : bool :=
    let rs := sg_rtys (me_sig m) in
    let list := if str_eqb (o_style (me_opts m)) style_return then rs
                else List.filter (is_error_type E) rs in
    match rev list with
    | t :: _ => is_error_type E t
    | [] => false
    end.

  (** findConvergenEntries *)
  Fixpoint find_entries_loop (ifs : list iface_decl) (st : store) (acc : list intf_entry) : res (list intf_entry * store) :=
    match ifs with
    | [] => ret (rev acc, st)
    | i :: ifs' =>
        if negb (if_in_src i) then find_entries_loop ifs' st acc else
        let doc := get_doc st (if_chain i) in
        let is_target :=
          str_eqb (if_name i) Extracted.intf_name ||
          match doc with
          | Some (_, gi) => existsb (fun c => is_convergen_marker (c_text c)) (group_of st gi)
          | None => false
          end in
        if negb is_target then find_entries_loop ifs' st acc else
        let '(notations, st1) := extract_notations st doc in
        let st2 := match doc with Some (_, gi) => set_group st1 gi [] | None => st1 end in
        let st3 := clean_up st2 doc in
        doR opts <- parse_notations d Extracted.valid_ops_intf notations new_options;
        find_entries_loop ifs' st3
          ({| ie_decl := i; ie_opts := opts; ie_index := N.of_nat (List.length acc) |} :: acc)
    end.

  Definition find_entries (st : store) : res (list intf_entry * store) :=
    doR r <- find_entries_loop (d_ifaces d) st [];
    match fst r with
    | [] => errorf (dec (fst (d_pkg_pos d)) ++ [58] ++ dec (snd (d_pkg_pos d)) ++ s2b ": " ++ Extracted.intf_name ++ s2b " interface not found")
    | _ => ret r
    end.

  (** parseMethod *)
  Definition parse_method (m : method_decl) (opts : options) (st : store) : res method_entry * store :=
    match sg_ptys (md_sig m) with
    | [] => (errorf (at_pos (md_pos m) "method must have one or more arguments as copy source"), st)
    | _ =>
        match sg_rtys (md_sig m) with
        | [] => (errorf (at_pos (md_pos m) "method must have one or more return values as copy destination"), st)
        | _ =>
            let doc := get_doc st (md_chain m) in
            let '(notations, st1) := extract_notations st doc in
            match parse_notations d Extracted.valid_ops_method notations opts with
            | (Ok o, ev) =>
                ((Ok {| me_decl := m; me_opts := o; me_doc := match doc with Some (_, gi) => Some gi | None => None end |}, ev),
                 clean_up st1 doc)
            | (Err e, ev) => ((Err e, ev), st1)
            | (Panic s, ev) => ((Panic s, ev), st1)
            | (Fuel, ev) => ((Fuel, ev), st1)
            | (Unsup w, ev) => ((Unsup w, ev), st1)
            end
        end
    end.

  (** parseMethods: errors are printed and the remaining methods still parsed; then abort *)
  Fixpoint parse_methods_loop (ms : list method_decl) (opts : options) (st : store)
           (acc : list method_entry) (failed : bool) (ev : list event) : outcome (list method_entry) * store * list event :=
    match ms with
    | [] => if failed then (Err (s2b "abort"), st, ev) else (Ok (rev acc), st, ev)
    | m :: ms' =>
        match parse_method m opts st with
        | ((Ok me, ev1), st') => parse_methods_loop ms' opts st' (me :: acc) failed (ev ++ ev1)
        | ((Err e, ev1), st') => parse_methods_loop ms' opts st' acc true (ev ++ ev1 ++ [EvStderr e])
        | ((Panic s, ev1), st') => (Panic s, st', ev ++ ev1)
        | ((Fuel, ev1), st') => (Fuel, st', ev ++ ev1)
        | ((Unsup w, ev1), st') => (Unsup w, st', ev ++ ev1)
        end
    end.

  (** resolveConverters for one converter *)
  Definition resolve_converter (all : list method_entry) (c : field_converter) : res field_converter :=
    match lookup_converter_func d (fc_name c) (fc_pos c) with
    | (Ok (a, r, e), ev) =>
        (Ok {| fc_name := fc_name c; fc_src := fc_src c; fc_dst := fc_dst c; fc_pos := fc_pos c;
               fc_arg := a; fc_ret := r; fc_err := e |}, ev)
    | (Panic s, ev) => (Panic s, ev)
    | (Fuel, ev) => (Fuel, ev)
    | (Unsup w, ev) => (Unsup w, ev)
    | (Err err0, ev0) =>
        (* look among the methods being generated *)
        let fix scan (ms : list method_entry) (err : str) (ev : list event) : res field_converter :=
          match ms with
          | [] => (Err err, ev)
          | m :: ms' =>
              if negb (str_eqb (me_name m) (fc_name c)) then scan ms' err ev
              else if negb (str_eqb (o_style (me_opts m)) style_return) then
                let e := at_pos' (fc_pos c) (s2b "function " ++ fc_name c ++ s2b " cannot use as a converter") in
                scan ms' e (ev ++ [EvStderr e])
              else if negb (str_eqb (o_receiver (me_opts m)) []) then
                (* Recv() is non-nil only when sig.Recv() is: interface methods have a receiver *)
                let e := at_pos' (fc_pos c) (s2b "function " ++ fc_name c ++ s2b " cannot use as a converter") in
                scan ms' e (ev ++ [EvStderr e])
              else
                match sg_ptys (me_sig m), sg_rtys (me_sig m) with
                | a :: _, r :: _ =>
                    (Ok {| fc_name := fc_name c; fc_src := fc_src c; fc_dst := fc_dst c; fc_pos := fc_pos c;
                           fc_arg := a; fc_ret := r; fc_err := me_ret_error m |}, ev)
                | _, _ => (Panic (s2b "resolveConverters: method without operands"), ev)
                end
          end in
        scan all err0 ev0
    end.

  Fixpoint resolve_convs (all : list method_entry) (cs : list field_converter) : res (list field_converter) :=
    match cs with
    | [] => ret []
    | c :: cs' => doR c' <- resolve_converter all c; doR rest <- resolve_convs all cs'; ret (c' :: rest)
    end.

  Fixpoint resolve_all (all : list method_entry) (ms : list method_entry) : res (list method_entry) :=
    match ms with
    | [] => ret []
    | m :: ms' =>
        doR cs <- resolve_convs all (o_conv (me_opts m));
        doR rest <- resolve_all all ms';
        ret ({| me_decl := me_decl m; me_opts := set_convs (me_opts m) cs; me_doc := me_doc m |} :: rest)
    end.

  (** Parser.Parse: entries, their methods, converters resolved against all methods *)
  Fixpoint parse_entries (es : list intf_entry) (st : store) (ev : list event)
    : outcome (list (intf_entry * list method_entry)) * store * list event :=
    match es with
    | [] => (Ok [], st, ev)
    | e :: es' =>
        match parse_methods_loop (if_methods (ie_decl e)) (ie_opts e) st [] false [] with
        | (Ok ms, st', ev1) =>
            match parse_entries es' st' (ev ++ ev1) with
            | (Ok rest, st'', ev2) => (Ok ((e, ms) :: rest), st'', ev2)
            | r => r
            end
        | (Err x, st', ev1) => (Err x, st', ev ++ ev1)
        | (Panic s, st', ev1) => (Panic s, st', ev ++ ev1)
        | (Fuel, st', ev1) => (Fuel, st', ev ++ ev1)
        | (Unsup w, st', ev1) => (Unsup w, st', ev ++ ev1)
        end
    end.

  Definition regroup (blocks : list (intf_entry * list method_entry)) (resolved : list method_entry)
    : list (intf_entry * list method_entry) :=
    (* redistribute the resolved methods (same order) over the blocks *)
    fst (fold_left (fun acc b =>
           let '(done, rest) := acc in
           let n := List.length (snd b) in
           (done ++ [(fst b, firstn n rest)], skipn n rest)) blocks ([], resolved)).

  Definition parse (st0 : store) : outcome (list (intf_entry * list method_entry)) * store * list event :=
    match find_entries st0 with
    | (Ok (es, st1), ev1) =>
        match parse_entries es st1 ev1 with
        | (Ok blocks, st2, ev2) =>
            let all := List.concat (List.map snd blocks) in
            match resolve_all all all with
            | (Ok resolved, ev3) => (Ok (regroup blocks resolved), st2, ev2 ++ ev3)
            | (Err e, ev3) => (Err e, st2, ev2 ++ ev3)
            | (Panic s, ev3) => (Panic s, st2, ev2 ++ ev3)
            | (Fuel, ev3) => (Fuel, st2, ev2 ++ ev3)
            | (Unsup w, ev3) => (Unsup w, st2, ev2 ++ ev3)
            end
        | r => r
        end
    | (Err e, ev1) => (Err e, st0, ev1)
    | (Panic s, ev1) => (Panic s, st0, ev1)
    | (Fuel, ev1) => (Fuel, st0, ev1)
    | (Unsup w, ev1) => (Unsup w, st0, ev1)
    end.
End Front.
