(** Run.v — the driver as a state machine over a file system (std++ gmap).
    [run] composes Cli.run_core with a loader/pipeline oracle [gen] that is a
    function of the file system *minus the output path* (what the ParseFile hook
    of parser.NewParser implements) and the configuration. *)
From stdpp Require Import gmap.
From Cvg Require Import Base Cli.

Notation path := (list N).
Notation fs := (gmap path (list N)).       (* regular files only: path -> bytes *)

Definition apply_effect (f : fs) (e : effect) : fs :=
  match e with
  | Truncate p => <[p := []]> f     (* the log file; its later text (timestamps) is not modelled *)
  | WriteFile p b => <[p := b]> f
  end.

Definition apply_effects (f : fs) (es : list effect) : fs := fold_left apply_effect es f.

Section Run.
  (** Loader + parser + builder + generator up to formatted code: a function of
      the file system it can read and of (input, output path). *)
  Variable gen : fs -> path -> path -> gen_result.
  (** Whether opening a path for writing succeeds (directory permissions etc.). *)
  Variable can_write : path -> bool.

  Definition run (c : config) (f : fs) : fs * run_out :=
    let g := gen (delete (c_output c) f) (c_input c) (c_output c) in
    let r := run_core c can_write g in
    (apply_effects f (r_effects r), r).

  (** A history step: edit any file other than through the tool, or run. *)
  Inductive step :=
  | Edit (p : path) (content : option (list N))   (* write or delete a file by hand *)
  | RunTool (c : config).

  Definition do_step (f : fs) (s : step) : fs :=
    match s with
    | Edit p (Some b) => <[p := b]> f
    | Edit p None => delete p f
    | RunTool c => fst (run c f)
    end.
End Run.
